"""Fail-closed source scans (Python ast) of /repo: facts the model assumes that sampling cannot establish."""
import ast
import os

DECODER_FILES = [
    "modules/pel/datastream.py", "modules/pel/hexdump.py", "modules/pel/hwdiags/parserdata.py",
    "modules/pel/peltool/comp_id.py", "modules/pel/peltool/default.py", "modules/pel/peltool/ext_user_data.py",
    "modules/pel/peltool/extend_user_header.py", "modules/pel/peltool/failing_mtms.py", "modules/pel/peltool/imp_partition.py",
    "modules/pel/peltool/parse_user_data.py", "modules/pel/peltool/peltool.py", "modules/pel/peltool/private_header.py",
    "modules/pel/peltool/registry.py", "modules/pel/peltool/src.py", "modules/pel/peltool/user_data.py",
    "modules/pel/peltool/user_header.py", "modules/udparsers/oe500/oe500.py", "modules/srcparsers/oe500/oe500.py",
    "modules/srcparsers/osrc/osrc.py", "modules/udparsers/m2c00/m2c00.py", "modules/calloutparsers/ocallouts/ocallouts.py",
]

# assert statements whose removal under -O cannot change what is decoded (argument validation of internal calls):
#  hexdump(): only ever called with the default 16/4;  ParserData._check_hex/_check_int: applied to .hex() output of
#  checked reads and to values from get_int of a fixed width;  DataStream.get_int byte_order/is_signed: constructor
#  arguments fixed by every caller.
ALLOWED_ASSERTS = {
    ("modules/pel/hexdump.py", "hexdump"): 2,
    ("modules/pel/hwdiags/parserdata.py", "_check_hex"): 1,
    ("modules/pel/hwdiags/parserdata.py", "_check_int"): 1,
    ("modules/pel/datastream.py", "get_int"): 2,
}


def asserts(root):
    """{(file, function): count} of assert statements on the decoding path"""
    found = {}
    for rel in DECODER_FILES:
        p = os.path.join(root, rel)
        tree = ast.parse(open(p).read(), p)
        for fn in ast.walk(tree):
            if isinstance(fn, (ast.FunctionDef, ast.AsyncFunctionDef)):
                n = sum(1 for x in ast.walk(fn) if isinstance(x, ast.Assert))
                # nested functions are walked again on their own; count only direct statements
                direct = 0
                stack = list(fn.body)
                while stack:
                    st = stack.pop()
                    if isinstance(st, ast.Assert):
                        direct += 1
                    if isinstance(st, (ast.FunctionDef, ast.AsyncFunctionDef, ast.ClassDef)):
                        continue
                    for ch in ast.iter_child_nodes(st):
                        if isinstance(ch, ast.stmt):
                            stack.append(ch)
                if direct:
                    found[(rel, fn.name)] = found.get((rel, fn.name), 0) + direct
        for st in tree.body:
            if isinstance(st, ast.Assert):
                found[(rel, "<module>")] = found.get((rel, "<module>"), 0) + 1
    return found


def unexpected_asserts(root):
    f = asserts(root)
    return sorted("%s:%s (%d assert)" % (k[0], k[1], n) for k, n in f.items() if ALLOWED_ASSERTS.get(k) != n)


def stdout_prints(root):
    """print(...) calls without file=sys.stderr in the decoder modules (peltool.py's result printers are listed apart)"""
    out = []
    for rel in DECODER_FILES:
        p = os.path.join(root, rel)
        tree = ast.parse(open(p).read(), p)
        for fn in ast.walk(tree):
            if isinstance(fn, (ast.FunctionDef, ast.AsyncFunctionDef)):
                for node in ast.walk(fn):
                    if isinstance(node, ast.Call) and isinstance(node.func, ast.Name) and node.func.id == "print":
                        to_err = any(k.arg == "file" and isinstance(k.value, ast.Attribute) and k.value.attr == "stderr" for k in node.keywords)
                        if not to_err:
                            out.append((rel, fn.name, node.lineno))
    return out


# the functions of the decoder modules that write to stdout, with the number of print calls (without file=sys.stderr) and
# sys.stdout.write calls each holds: the result printers of peltool.py, and the unreachable print of SRC.parse().  Published; a
# count that differs (a diagnostic that lost its file=sys.stderr, a new print on a decoding path) is reported by C06 and C09.
PUBLISHED_STDOUT_WRITERS = {
    ("modules/pel/peltool/peltool.py", "deletePELFromPELId"): 1,
    ("modules/pel/peltool/peltool.py", "extractAllPELsData"): 5,
    ("modules/pel/peltool/peltool.py", "listOption"): 1,
    ("modules/pel/peltool/peltool.py", "parseAndPrintPELFile"): 1,
    ("modules/pel/peltool/peltool.py", "parsePelFromBmcID"): 2,
    ("modules/pel/peltool/peltool.py", "parsePelFromID"): 1,
    ("modules/pel/peltool/peltool.py", "parsePelFromPLID"): 1,
    ("modules/pel/peltool/peltool.py", "parsePelFromSRCID"): 1,
    ("modules/pel/peltool/peltool.py", "printPELCount"): 1,
    ("modules/pel/peltool/peltool.py", "printPELInHexFormat"): 3,
    ("modules/pel/peltool/src.py", "parse"): 1,
}


def stdout_writers(root):
    """{(file, innermost function): number of writes to stdout} over the decoder modules"""
    out = {}
    for rel in DECODER_FILES:
        p = os.path.join(root, rel)
        try:
            tree = ast.parse(open(p).read(), p)
        except (OSError, SyntaxError):
            out[(rel, "<unreadable>")] = 1
            continue

        def visit(node, fn):
            for ch in ast.iter_child_nodes(node):
                name = ch.name if isinstance(ch, (ast.FunctionDef, ast.AsyncFunctionDef)) else fn
                if isinstance(ch, ast.Call):
                    f = ch.func
                    if isinstance(f, ast.Name) and f.id == "print":
                        files = [k.value for k in ch.keywords if k.arg == "file"]
                        if not (files and isinstance(files[0], ast.Attribute) and files[0].attr == "stderr"):
                            out[(rel, name)] = out.get((rel, name), 0) + 1
                    elif isinstance(f, ast.Attribute) and f.attr in ("write", "writelines") and ast.unparse(f.value) == "sys.stdout":
                        out[(rel, name)] = out.get((rel, name), 0) + 1
                visit(ch, name)
        visit(tree, "<module>")
    return out


def unexpected_stdout_writers(root):
    got = stdout_writers(root)
    keys = sorted(set(got) | set(PUBLISHED_STDOUT_WRITERS))
    return ["%s:%s writes to stdout %d time(s), published %d" % (k[0], k[1], got.get(k, 0), PUBLISHED_STDOUT_WRITERS.get(k, 0))
            for k in keys if got.get(k, 0) != PUBLISHED_STDOUT_WRITERS.get(k, 0)]
