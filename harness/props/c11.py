"""C11: only delete options remove files, and only the files they name."""
import hashlib
import json
import os
import shutil
import stat
import tempfile

import cli_runner
import common
import dirgen
import pelgen

RULE = ("generated directory trees (PEL and junk files, file names containing / not containing the id, a nested 'archive' directory with "
        "files, symlinks to a file and to a directory) and every CLI mode plus pairwise combinations of mode flags; the tree is "
        "snapshotted (type, size, sha256, link target) before and after the real peltool main(); removed/created paths are compared with "
        "the statement (frame conditions) and with the effect set computed by the Coq model; non-trivial = distinct (tree, command) pair "
        "with >= 2 top-level files")


def snapshot(root):
    snap = {}
    for d, dirs, files in os.walk(root, followlinks=False):
        for n in dirs + files:
            p = os.path.join(d, n)
            rel = os.path.relpath(p, root)
            st = os.lstat(p)
            if os.path.islink(p):
                snap[rel] = ("link", os.readlink(p))
            elif os.path.isdir(p):
                snap[rel] = ("dir",)
            elif not stat.S_ISREG(st.st_mode):
                snap[rel] = ("special", stat.S_IFMT(st.st_mode))       # a FIFO or a socket: never opened
            else:
                with open(p, "rb") as f:
                    snap[rel] = ("file", st.st_size, hashlib.sha256(f.read()).hexdigest())
    return snap


def diff(a, b):
    removed = sorted(k for k in a if k not in b)
    created = sorted(k for k in b if k not in a)
    changed = sorted(k for k in a if k in b and a[k] != b[k])
    return removed, created, changed


def build_tree(files, rng, archive_extra=(), path_word=None):
    root = tempfile.mkdtemp(prefix="verif_c11_")
    if path_word:
        # the path of the PEL directory carries the word (an id): only file names count
        root = os.path.join(root, "dump_" + path_word)
        os.makedirs(root)
    pel = os.path.join(root, "logs")
    os.makedirs(os.path.join(pel, "archive"))
    for name, data, _ in files:
        with open(os.path.join(pel, name), "wb") as f:
            f.write(data)
    if files:
        with open(os.path.join(pel, "archive", files[0][0]), "wb") as f:
            f.write(files[0][1])
        with open(os.path.join(pel, "archive", "deep.pel"), "wb") as f:
            f.write(files[-1][1])
        if rng.random() < 0.5:
            os.symlink(os.path.join(pel, files[0][0]), os.path.join(pel, "link_to_file"))
        if rng.random() < 0.4:
            # links whose targets lie below the top level or outside the directory: whatever happens to a link, its target stays
            os.symlink(os.path.join(pel, "archive", "deep.pel"), os.path.join(pel, rng.choice(["link_to_archived", "zz_link_%08X" % rng.randrange(1 << 32)])))
        if rng.random() < 0.4:
            os.symlink(os.path.join(root, "outside.pel"), os.path.join(pel, "link_outside"))
    for name, data in archive_extra:
        # a log that exists below the top level only (an archived copy): no option may reach it
        with open(os.path.join(pel, "archive", name), "wb") as f:
            f.write(data)
    if rng.random() < 0.5:
        os.symlink(os.path.join(pel, "archive"), os.path.join(pel, "link_to_dir"))
    os.makedirs(os.path.join(root, "out"))
    with open(os.path.join(root, "outside.pel"), "wb") as f:
        f.write(files[0][1] if files else b"x")
    return root, pel


READ_ONLY = [["-l"], ["-a"], ["-n"], ["-l", "-x"], ["-a", "-r"], ["--plid", "00000001"], ["--src", "BD"], ["--bmc-id", "1"], ["-i", "00000001"],
             # --clean belongs to --json and --file: with any other mode it must do nothing
             ["-l", "-c"], ["-a", "-c"], ["-n", "-c"], ["--bmc-id", "1", "-c"], ["--src", "BD", "-c"]]


def run(run, model, proof):
    rng = run.rng
    thorough = run.tier == "thorough"
    run.rule = RULE
    n = 1500 if thorough else 150
    for i in range(n):
        plugins = rng.random() < 0.6
        nfiles = rng.randrange(0, 7)
        files = dirgen.gen_dir(model, rng, nfiles, plugins=plugins, junk=rng.randrange(0, 3))
        ren, used = [], set()
        for nm, d, m in files:
            if m["kind"] == "pel" and rng.random() < 0.6:
                nm2 = "2024010112000000_%08X" % m["eid"] + rng.choice(["", "", ".bak"])
                if nm2 not in used:
                    nm = nm2
            used.add(nm)
            ren.append((nm, d, m))
        # logs linked to an earlier one: a platform log id that differs from the entry id (names are made of the entry id)
        ren = [(nm, dirgen.set_ids(d, plid=rng.randrange(1 << 32)) if (m["kind"] == "pel" and rng.random() < 0.5) else d, m) for nm, d, m in ren]
        files = ren
        eids = [m["eid"] for _, _, m in files if m["kind"] == "pel"]
        e = rng.choice(eids) if eids and rng.random() < 0.7 else rng.randrange(1 << 32)
        if eids and rng.random() < 0.5:
            # more than one name containing the id (e.g. the .json written by an earlier --json run next to the PEL)
            for extra in rng.sample(["log_%08X.%08X.json" % (e, e), "copy_of_%08X" % e, "%08X" % e], rng.randrange(1, 3)):
                if extra not in used:
                    used.add(extra)
                    files.append((extra, b"{}" if extra.endswith("json") else bytes(rng.randrange(256) for _ in range(20)), dict(kind="junk")))
        arch_only = rng.randrange(1 << 32)
        while any("%08X" % arch_only in nm for nm, _, _ in files):
            arch_only = rng.randrange(1 << 32)
        if rng.random() < 0.25:
            e = arch_only                       # the id is carried by an archived file only
        espell = rng.choice(["%08X", "0x%08x", "%08x"]) % e
        root, pel = build_tree(files, rng, path_word=("%08X" % e if rng.random() < 0.25 else None), archive_extra=[("old_%08X.pel" % arch_only, dirgen.set_ids(files[0][1], eid=arch_only) if files and files[0][2]["kind"] == "pel" else b"archived")])
        try:
            excl = os.path.join(root, "ex.txt")
            open(excl, "w").write("BD8D\n")
            k = rng.randrange(10)
            bits = rng.choice([1, 1, 0, rng.randrange(64)])
            sel = cli_runner.sel_argv(bits, ())
            pl = ["-P"] if not plugins else []
            clean = False
            if k < 3:
                kind, argv = "readonly", rng.choice(READ_ONLY + [["-i", espell, "-c"], ["-i", espell, "-c", "-x"], ["-i", espell], ["--plid", espell, "-c"], ["--src-exclude", excl], ["-f", os.path.join(root, "outside.pel")], ["-f", os.path.join(pel, files[0][0])] if files else ["-l"]])
            elif k < 5:
                kind, argv = "delete", ["-d", espell]
            elif k == 5:
                kind, argv = "delete-all", ["-D"]
            elif k < 8:
                clean = rng.random() < 0.3
                inplace = rng.random() < 0.3
                kind, argv = "json", ["-j"] + ([] if inplace else ["-o", os.path.join(root, "out")]) + (["-c"] if clean else [])
            else:
                # an earlier-ranked mode together with a delete option: only the first action may run
                first = rng.choice(READ_ONLY)
                kind, argv = "readonly", first + rng.choice([["-D"], ["-d", espell]])
            ext = rng.choice(["", "", ".pel", ".bak"]) if kind == "json" else ""
            argv = ["-p", pel] + sel + pl + (["-e", ext] if ext else []) + argv
            socks = []
            if kind in ("delete", "delete-all") and rng.random() < 0.5:
                # entries that are neither regular files nor directories: a FIFO, a unix socket (only the delete modes, which look
                # at names and types, meet them here: a listing mode would block opening a FIFO).  No option may remove them.
                import socket as _socket
                if rng.random() < 0.7:
                    os.mkfifo(os.path.join(pel, rng.choice(["aa_fifo", "zz_fifo", "pipe.pel"])))
                if rng.random() < 0.5:
                    sk = _socket.socket(_socket.AF_UNIX)
                    sk.bind(os.path.join(pel, rng.choice(["a_sock", "zz_sock"])))
                    socks.append(sk)
            before = snapshot(root)
            walk = next(os.walk(pel))[2]
            regular = {w: os.path.isfile(os.path.join(pel, w)) for w in walk}
            known = {f[0] for f in files}
            link_data = {w: open(os.path.join(pel, w), "rb").read() for w in walk if w not in known and os.path.islink(os.path.join(pel, w)) and regular[w]}
            rc, out, err = cli_runner.run_inproc(argv)
            after = snapshot(root)
        finally:
            for sk in locals().get("socks", []):
                sk.close()
            shutil.rmtree(root if os.path.basename(root).startswith("verif_c11_") else os.path.dirname(root), ignore_errors=True)
        removed, created, changed = diff(before, after)
        run.evaluations += 1
        run.count("kind:" + kind)
        if len(walk) >= 2:
            run.nontriv((tuple(walk), tuple(argv[2:])))
        rp = dict(fn="effects", files=[[f[0], f[1].hex()] for f in files], argv=argv[2:], walk=walk, removed=removed, created=created, changed=changed, rc=rc)
        if "Traceback" in err:
            run.violation("traceback:" + kind, "peltool prints a traceback", dict(rp, kind="S", stderr=err[-400:]))
        if changed:
            run.violation("modified:" + kind, "an existing file was modified: %r" % changed, dict(rp, kind="S"))
        top = lambda p: os.path.dirname(p) == "logs"
        if kind == "readonly" and (removed or created):
            run.violation("readonly-mode-changes-tree", "a mode without delete/json options changed the tree: removed %r created %r" % (removed, created), dict(rp, kind="S"))
        if kind == "delete":
            pid = ("%08X" % e)
            if len(removed) > 1 or created or any(not top(r) or pid not in os.path.basename(r) for r in removed):
                run.violation("delete-scope", "--delete %s removed %r created %r" % (espell, removed, created), dict(rp, kind="S"))
            cands = [w for w in walk if pid in w]
            if cands and removed != ["logs/" + cands[0]]:
                run.violation("delete-wrong-file", "--delete %s removed %r, first matching name is %r" % (espell, removed, cands[0]), dict(rp, kind="S"))
            if not cands and (removed or "PEL not found" not in out):
                run.violation("delete-notfound", "--delete of an absent id: removed %r, stdout %r" % (removed, out[:80]), dict(rp, kind="S"))
        links = {"logs/" + w for w in walk if before.get("logs/" + w, ("",))[0] == "link"}
        if kind == "delete-all":
            # symbolic links are outside the statement ("regular files"): whether one is removed depends on whether its target
            # still exists when it is reached; they are ignored on both sides
            want = sorted("logs/" + w for w in walk if regular[w] and "logs/" + w not in links)
            if [r for r in removed if r not in links] != want or created:
                run.violation("delete-all-scope", "--delete-all removed %r, the regular top-level files are %r" % (removed, want), dict(rp, kind="S"))
        if kind == "json":
            outdir = "logs" if "-o" not in argv else "out"
            for c in created:
                base = os.path.basename(c)
                ok = os.path.dirname(c) == outdir and base.endswith(".json") and any(base.startswith(w + ".") and len(base) == len(w) + 1 + 8 + 5 for w in walk)
                # <file name>.<ENTRY id of that file>.json
                eid_of = {f[0]: "%08X" % int.from_bytes(f[1][44:48], "big") for f in files if len(f[1]) >= 48}
                src_names = [w for w in walk if base.startswith(w + ".") and len(base) == len(w) + 1 + 8 + 5]
                if ok and src_names and all(w in eid_of and base[len(w) + 1:len(w) + 9].upper() != eid_of[w] for w in src_names):
                    ok = False
                if not ok:
                    run.violation("json-names", "--json created %r" % c, dict(rp, kind="S"))
            if removed and not clean:
                run.violation("json-removes", "--json without --clean removed %r" % removed, dict(rp, kind="S"))
        # ---- model
        act = dict(delete=0, **{"delete-all": 1}, json=2, readonly=3)[kind]
        args = [bytes([act]), bytes([(1 if clean else 0) | (4 if plugins else 0)]), bytes([bits]), b"", ext, espell]
        data_of = {f[0]: f[1] for f in files}
        for w in walk:
            p = data_of.get(w)
            if p is None:      # a symbolic link to a file: the content of its target
                p = link_data.get(w, b"")
            args += [w, bytes([1 if regular[w] else 0]), p]
        eff = model.call("cli_effects", *args)
        m_removed = sorted("logs/" + n for k2, n in eff if k2 == "remove" and not (kind == "delete-all" and "logs/" + n in links))
        if kind == "delete-all":
            removed = [r for r in removed if r not in links]
        m_created = sorted(("logs/" if "-o" not in argv else "out/") + n for k2, n in eff if k2 == "create")
        if kind == "json" and clean and links:
            # --json --clean with a link to a file of the same directory: whether the link still has a target when it is
            # reached depends on the walk order (its target may have been cleaned already); links are ignored on both sides
            lnames = tuple(os.path.basename(l) + "." for l in links)
            removed = [r for r in removed if r not in links]
            m_removed = [r for r in m_removed if r not in links]
            created = [c for c in created if not os.path.basename(c).startswith(lnames)]
            m_created = [c for c in m_created if not os.path.basename(c).startswith(lnames)]
        if m_removed != removed or m_created != created:
            run.disagreements_checked += 1
            run.violation("model:effects:" + kind, "effects differ from the model: removed %r / %r, created %r / %r" % (removed, m_removed, created, m_created),
                          dict(rp, kind="M", correspondence="Model.Cli.effects vs filesystem diff", model_removed=m_removed, model_created=m_created), no_input=True)
        if i < 3:
            run.sample(dict(argv=argv[2:], walk=walk, removed=removed, created=created))


def replay(run, model, path):
    globals()["run"](run, model, dict(ok=True))
