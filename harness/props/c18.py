"""C18: parser modules are chosen by creator/component, fed the right data, contained."""
import json
import struct
import sys
from collections import OrderedDict

import common
import fixtures as fxm
import pelgen
from props import c04

RULE = ("hand-framed PELs (user data, extended user data and SRC sections with callouts) over creators x components, decoded by the real "
        "parsePEL with fixture parser modules (well-behaved echo, returns text, returns None, returns '', returns a non-string, raises, raises "
        "ImportError from inside the call, fails to import) served from a temp dir on the plugin packages' __path__, plugins on/off; "
        "compared with the Coq model (decode with the same fixture environment) and with the statement: module consulted, arguments "
        "received, containment, nothing imported when disabled; plus the shipped plugins end to end; non-trivial = distinct "
        "(PEL, fixture set, plugin switch)")

CREATORS = [b"B", b"O", b"H", b"M", b"P", b"T", b"Z", b"b"]
COMPS = [0x1234, 0xABCD, 0x0001, 0xE500, 0x2C00, 0x2000, 0xFFFF]
BEHAVIOURS = [7, 7, 0, 1, 2, 3, 4, 5, 6, 8, 9]
TEXTS = ['{"k": 1}', "[1, 2]", "not json", '"s"', "null", "boom: \"q\"", "{\"Data\": 5, \"Error\": \"x\"}", ""]


def src_body(rng, refcode, proc=None, wcount=9, w2=None):
    words = [rng.randrange(1 << 32) for _ in range(8)]
    if w2 is not None:
        words[0] = w2
    callouts = b""
    flags = 0
    if proc is not None:
        fru = b"ID" + bytes([0, 0x42]) + proc.encode().ljust(8, b"\0")     # type 0x40 (maintenance procedure), maintProcSupplied
        co = bytes([4 + len(fru), 0, 0x48, 0]) + fru
        callouts = bytes([0xC0, 0, 0, (4 + len(co)) // 4]) + co
        flags = 1
    return bytes([2, flags, 0, wcount, 0, 0, 0, 72]) + b"".join(struct.pack(">I", w) for w in words) + refcode.encode().ljust(32, b" ") + callouts, words


def build_case(rng):
    creator = rng.choice(CREATORS)
    secs, meta = [], []
    for _ in range(rng.randrange(1, 5)):
        k = rng.randrange(4)
        if k < 2:
            comp, sub, ver = rng.choice(COMPS), rng.choice([1, 2, 3, 72, 73, 84, 0xFF, rng.randrange(256)]), rng.randrange(256)
            payload = bytes(rng.randrange(256) for _ in range(rng.randrange(1, 40)))
            if rng.random() < 0.3:
                payload = b"\xff" + payload
            if k == 0:
                secs.append((b"UD", ver, sub, comp, payload))
                meta.append(dict(kind="ud", creator=creator.decode(), comp=comp, sub=sub, ver=ver, payload=payload))
            else:
                cr = rng.choice(CREATORS)
                secs.append((b"ED", ver, sub, comp, cr + b"\0\0\0" + payload))
                meta.append(dict(kind="ud", creator=cr.decode(), comp=comp, sub=sub, ver=ver, payload=payload))
        else:
            ref = rng.choice(["BD8D1234", "BD12E500", "BC8A1234", "B7001111", "11001234", "BD8DE510", "BDA0e5FF", "BC8DE510", "BC8Ae5FF", "BD8D1210", "BC8D1210"])
            proc = rng.choice([None, "BMC0001", "FAIL0001", "XYZ", "BMC0008"])
            body, words = src_body(rng, ref, proc, wcount=rng.choice([9, 9, 1, 5]), w2=rng.choice([None, 0xFFFFFFFF]))
            secs.append((b"PS" if k == 2 else b"SS", 1, 1, 0x2000, body))
            meta.append(dict(kind="src", creator=creator.decode(), refcode=ref, proc=proc))
    return creator, secs, meta


def fixture_set(rng, creator, meta):
    fx = []
    names = set()
    for m in meta:
        if m["kind"] == "ud" and rng.random() < 0.7:
            leaf = (m["creator"].lower() + "%04x" % m["comp"])
            if leaf in ("oe500", "m2c00") or not leaf.isascii() or not leaf.isalnum():
                continue
            if (0, leaf) not in names:
                names.add((0, leaf))
                fx.append((0, leaf, rng.choice(BEHAVIOURS), rng.choice(TEXTS)))
        if m["kind"] == "src":
            c = m["creator"].lower()
            if c != "o" and rng.random() < 0.7 and (1, c + "src") not in names and c.isalnum():
                names.add((1, c + "src"))
                fx.append((1, c + "src", rng.choice(BEHAVIOURS), rng.choice(TEXTS)))
            if c == "o" and rng.random() < 0.7:
                leaf = "bsrc" if m["refcode"].startswith("BC") else "o" + m["refcode"][4:6].lower() + "00"
                if leaf != "oe500" and (1, leaf) not in names:
                    names.add((1, leaf))
                    fx.append((1, leaf, rng.choice(BEHAVIOURS), rng.choice(TEXTS)))
            if m["proc"] and c != "o" and rng.random() < 0.7 and (2, c + "callouts") not in names and c.isalnum():
                names.add((2, c + "callouts"))
                fx.append((2, c + "callouts", rng.choice(BEHAVIOURS), rng.choice(TEXTS)))
    return fx


def expected_calls(creator, meta, fx, plugins, bmc_creators=("O",)):
    """which fixture modules must be called, with which arguments (the statement, not the model)"""
    if not plugins:
        return []
    byname = {(k, l): b for k, l, b, _ in fx}
    calls = []
    for m in meta:
        if m["kind"] == "ud":
            if m["creator"] in bmc_creators and m["comp"] == 0x2000:
                continue
            leaf = m["creator"].lower() + "%04x" % m["comp"]
            if byname.get((0, leaf), 6) != 6:
                calls.append(("udparsers.%s.%s" % (leaf, leaf), "ud", m["sub"], m["ver"], m["payload"].hex()))
    return calls


def one(run, model, rng):
    creator, secs, meta = build_case(rng)
    data = c04.mini_pel(creator, secs)
    fx = fixture_set(rng, creator, meta)
    plugins = rng.random() < 0.8
    run.evaluations += 1
    run.nontriv((data, tuple(fx), plugins))
    rp = dict(fn="fixture-decode", input_hex=data.hex(), fixtures=[list(f) for f in fx], plugins=plugins)
    with fxm.Fixtures(fx) as F:
        before = set(sys.modules)
        impl = pelgen.impl_decode(data, plugins)
        calls = F.calls()
        loaded = [m for m in set(sys.modules) - before if "verif_fx_" in (getattr(sys.modules[m], "__file__", "") or "")]
        mo = pelgen.model_outcome(model.call("decode_fx", bytes([1 if plugins else 0]), data, *F.model_args()))
    if rng.random() < 0.15:
        # the same through the command line: --skip-parser-plugins in every position relative to the mode option
        import os
        import tempfile
        import cli_runner
        tmpd = tempfile.mkdtemp(prefix="verif_c18_")
        try:
            path = os.path.join(tmpd, "one.pel")
            with open(path, "wb") as f0:
                f0.write(data)
            for argv in (["-E", "-f", path, "-P"], ["-P", "-E", "-f", path], ["-E", "-p", tmpd, "-a", "-P"], ["-P", "-E", "-p", tmpd, "-l"]):
                with fxm.Fixtures(fx) as F2:
                    before2 = set(sys.modules)
                    cli_runner.run_inproc(argv)
                    calls2 = F2.calls()
                    loaded2 = [m for m in set(sys.modules) - before2 if "verif_fx_" in (getattr(sys.modules[m], "__file__", "") or "")]
                run.count("cli-skip-plugins")
                if calls2 or loaded2:
                    run.violation("disabled-but-imported:cli", "peltool %s: a parser module was imported or run although plug-ins are switched off: %r %r"
                                  % (" ".join(a if a != path and a != tmpd else "<path>" for a in argv), loaded2[:3], calls2[:2]),
                                  dict(rp, kind="S", argv=[a if a != path and a != tmpd else "<path>" for a in argv]))
                    break
        finally:
            import shutil
            shutil.rmtree(tmpd, ignore_errors=True)
    for f in fx:
        run.count("behaviour:%d" % f[2])
    run.count("plugins:%s" % plugins)
    # ---- the statement
    if not plugins and (calls or loaded):
        run.violation("disabled-but-imported", "with --skip-parser-plugins a parser module was imported or run: %r %r" % (loaded[:3], calls[:2]), dict(rp, kind="S"))
    want = expected_calls(creator.decode(), meta, fx, plugins)
    got_ud = [c for c in calls if c[1] == "ud"]
    if impl["kind"] == "ok" and got_ud != want:
        run.violation("ud-arguments", "user-data parser calls %r, expected (module, subtype, version, payload) %r" % (got_ud[:3], want[:3]), dict(rp, kind="S", calls=got_ud, want=want))
    for c in calls:
        if c[1] == "src":
            # reference code = the section's 32 characters, words 2..9 in order as %08X
            if len(c[3]) != 8 or any(len(w) != 8 for w in c[3]):
                run.violation("src-arguments", "SRC parser received %r" % (c,), dict(rp, kind="S"))
    # containment: every section of the PEL is still present when the PEL decodes
    if impl["kind"] == "ok" and len(impl["doc"]) != 2 + len(secs):
        run.violation("containment", "a parser's behaviour changed the number of entries: %d for %d sections" % (len(impl["doc"]) - 2, len(secs)), dict(rp, kind="S"))
    # ---- the model
    if mo[0] == "unsupported":
        run.unsupported += 1
        return
    if mo[0] != impl["kind"]:
        run.disagreements_checked += 1
        # a PEL lost because of a parser module is a containment violation in itself
        failing = [f for f in fx if f[2] in (1, 2, 3, 4, 6, 8, 9)]
        if impl["kind"] == "reject" and mo[0] == "ok" and failing:
            run.violation("containment:pel-lost", "a misbehaving parser module made the whole PEL fail (%s)" % impl.get("exc"), dict(rp, kind="S", exc=impl.get("exc"), msg=impl.get("msg")))
        else:
            run.violation("model:outcome", "model %s, decoder %s (%s)" % (mo[0], impl["kind"], impl.get("exc")),
                          dict(rp, kind="M", correspondence="Model.Pel.decode (fixture env) vs parsePEL", exc=impl.get("exc")), no_input=True)
    elif mo[0] == "ok":
        d = pelgen.first_diff(mo[2], impl["doc"])
        if d:
            run.disagreements_checked += 1
            key = "contained:error-note" if "Error" in d or "/Data" in d else "model:doc"
            if key.startswith("contained"):
                run.violation(key, "a failing parser module does not leave the documented error note + hex dump: %s" % d, dict(rp, kind="S", where=d))
            else:
                run.violation(key, "model and decoder disagree at %s" % d, dict(rp, kind="M", correspondence="Model.Pel.decode (fixture env) vs parsePEL", where=d), no_input=True)


def run(run, model, proof):
    rng = run.rng
    run.rule = RULE
    n = 20000 if run.tier == "thorough" else 1200
    for i in range(n):
        one(run, model, rng)
    # the shipped I/O-drawer plug-in (udparsers.m2c00) against Model/M2c00.v with the tables regenerated from /repo, and end to
    # end inside a PEL (creator M, component 0x2C00)
    from props import c18m, c04
    c18m.check_m2c00(run, model, rng, 3000 if run.tier == "thorough" else 300)
    for i in range(400 if run.tier == "thorough" else 60):
        sub = rng.choice([72, 73, 84, 72, 73, 84, 1, rng.randrange(256)])
        ver = rng.choice([1, 2, 1, 2, 0, 3, rng.randrange(256)])
        body = bytes(rng.choice([0, 0, 1, 0xDE, 0x8A, rng.randrange(256)]) for _ in range(rng.choice([1, 2, 8, 16, 38, 80])))
        data = c04.mini_pel(b"M", [(b"UD", ver, sub, 0x2C00, body)])
        impl = pelgen.impl_decode(data, True)
        mo = pelgen.model_outcome(model.call("decode", b"\1", data))
        run.evaluations += 1
        run.count("m2c00-in-pel")
        if mo[0] == "unsupported":
            run.unsupported += 1
        elif mo[0] != impl["kind"] or (mo[0] == "ok" and pelgen.first_diff(mo[2], impl["doc"])):
            run.disagreements_checked += 1
            run.violation("model:m2c00-in-pel", "model and decoder disagree on a PEL with an I/O-drawer user-data section: %s vs %s %s"
                          % (mo[0], impl["kind"], pelgen.first_diff(mo[2], impl["doc"]) if mo[0] == "ok" == impl["kind"] else ""),
                          dict(kind="M", fn="m2c00-pel", input_hex=data.hex(), correspondence="Model.Pel.decode (env0 with m2c00_shipped) vs parsePEL"),
                          no_input=True)
    run.sample(dict(creator="B", section="UD comp 0x1234", module="udparsers.b1234.b1234", behaviours="7=echo 0=text 1=None 2=raise 3=ImportError 4=non-str 5='' 6=import fails 8/9=conditional"))


def replay(run, model, path):
    r = json.load(open(path))
    if r.get("fn") == "m2c00":
        from props import c18m
        return c18m.replay_m2c00(run, model, r)
    if r.get("fn") != "fixture-decode":
        return globals()["run"](run, model, dict(ok=True))
    data = bytes.fromhex(r["input_hex"])
    fx = [tuple(f) for f in r["fixtures"]]
    with fxm.Fixtures(fx) as F:
        impl = pelgen.impl_decode(data, r["plugins"])
        mo = pelgen.model_outcome(model.call("decode_fx", bytes([1 if r["plugins"] else 0]), data, *F.model_args()))
    run.evaluations += 1
    if mo[0] != impl["kind"] or (mo[0] == "ok" and pelgen.first_diff(mo[2], impl["doc"])):
        run.violation("replay", "model and decoder still disagree: %s vs %s %s" % (mo[0], impl["kind"], pelgen.first_diff(mo[2], impl["doc"]) if mo[0] == "ok" == impl["kind"] else ""), dict(r))
