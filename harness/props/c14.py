"""C14 correspondence: io_drawer.ilog (parse_ilog_data, PTETableEntry, PTETable) and io_drawer.utils.format_timestamp
against the Coq model (Model/Ilog.v + Base/PyFmt.v, characterised by the theorems of Props/C14.v) and against the
property text evaluated directly on the implementation's output.

The PTE table is abstract in Coq; here it is always the one the real PTETable reads from a header file: the two shipped
files and synthetic files written to a scratch directory.  Cases outside the stated scope of the model (patterns with
regular-expression metacharacters, %-conversions Base/PyFmt.v does not cover) are answered "unsupported" by the model;
they are counted, not compared with the model, and still checked against the Python restatement of the property when
the pattern is a plain wildcard pattern."""
import functools
import json
import os
import shutil
import tempfile

import common

HEADING = ["hh:mm:ss seq  pppppppp description",
           "-------- ---- -------- ------------------------------------"]
SUFFIX = " - PEL entry created"
UNSUPPORTED = ("obj", [["unsupported", True]])
REGEX_META = ".^$+?{}[]\\|()"


# ---------------------------------------------------------------------------------------------
# implementation access

def shipped_paths():
    from io_drawer.drawer_type import DRAWER_TYPES
    return [(d.name, d.get_header_file_path()) for d in DRAWER_TYPES]


def impl_table(path):
    from io_drawer.ilog import PTETable
    return [(e.pte_pattern, e.message_format, tuple(e.params)) for e in PTETable(path).entries]


def impl_parse(d, path):
    """the decoder's lines; None for the DataStream assertion the model answers IAssert to; any other exception that escapes the
    decoder is a result of its own (never the model's lines)"""
    from io_drawer.ilog import parse_ilog_data
    try:
        return parse_ilog_data(memoryview(bytes(d)), path)
    except AssertionError:
        return None
    except Exception as e:  # noqa: BLE001
        return ["<parse_ilog_data raised %s: %s>" % (type(e).__name__, str(e)[:200])]


def impl_timestamp(t):
    from io_drawer.utils import format_timestamp
    return format_timestamp(t)


# ---------------------------------------------------------------------------------------------
# the property, stated directly (Python restatement of Spec/IoDrawer.v: entries8, nonzero, ts_text, stored_hex,
# reported_error, hits, param_values, message)

def pat_supported(pat):
    return all(ord(c) < 128 and c not in REGEX_META for c in pat)


def spec_reported(pte):
    return (pte & 0xF0000000) == 0xE0000000 and (pte & 0x00040000) != 0


@functools.lru_cache(maxsize=None)
def pat_mask(pat):
    """a wildcard pattern as (mask, value) over the 32-bit PTE: one nibble per pattern character, '*' = any digit,
    letters in either case; None when it cannot match eight hex digits (wrong length, a character that is no hex digit)"""
    if len(pat) != 8:
        return None
    mask = value = 0
    for c in pat:
        mask, value = mask << 4, value << 4
        if c == "*":
            continue
        if c not in "0123456789abcdefABCDEF":
            return None
        mask, value = mask | 0xF, value | int(c, 16)
    return mask, value


def spec_wild(pat, pte):
    mv = pat_mask(pat)
    return mv is not None and 0 <= pte < (1 << 32) and (pte & mv[0]) == mv[1]


def spec_hits(pat, pte):
    return spec_wild(pat, pte) or (spec_reported(pte) and spec_wild(pat, pte - 0x00040000))


def spec_message(fmt, params, pte):
    b = pte.to_bytes(4, "big")
    vals = tuple(b[p - 1] for p in params if 1 <= p <= 4)
    try:
        m = fmt % vals
    except Exception:
        m = fmt
    return m + (SUFFIX if spec_reported(pte) else "")


def spec_descr(entries, pte):
    for pat, fmt, params in entries:
        if spec_hits(pat, pte):
            return spec_message(fmt, params, pte)
    return "Undefined"


def spec_ts(t):
    return "--------" if t == 0xFFFF else "%2d:%02d:%02d" % (t // 3600, (t // 60) % 60, t % 60)


def spec_lines(entries, d):
    out = list(HEADING)
    for i in range(0, len(d) - len(d) % 8, 8):
        e = d[i:i + 8]
        if e == bytes(8):
            continue
        out.append("%s %s %s %s" % (spec_ts(int.from_bytes(e[0:2], "big")), e[2:4].hex().upper(), e[4:8].hex().upper(),
                                    spec_descr(entries, int.from_bytes(e[4:8], "big"))))
    return out


def prop_ilog(entries, d, lines):
    """None if the property holds for this output, else (key, what)."""
    if lines is None:
        return ("raises", "parse_ilog_data raised on %d bytes" % len(d))
    exp = spec_lines(entries, d)
    if lines == exp:
        return None
    if lines[:2] != HEADING:
        return ("heading", "output does not start with the two heading lines")
    if len(lines) != len(exp):
        return ("linecount", "%d entry lines for %d non-zero complete entries" % (len(lines) - 2, len(exp) - 2))
    for i, (a, b) in enumerate(zip(lines, exp)):
        if a != b:
            part = "timestamp" if a[:8] != b[:8] else "seq-pte" if a[:23] != b[:23] else "description"
            return (part, "line %d: expected %r, got %r" % (i, b, a))
    return ("lines", "output differs")


# ---------------------------------------------------------------------------------------------

def table_args(entries):
    a = []
    for pat, fmt, params in entries:
        a += [pat, fmt, bytes(params)]
    return a


class Table:
    def __init__(self, desc, path):
        self.desc, self.path = desc, path
        try:
            self.entries = impl_table(path)
            self.rejected = None
        except Exception as e:          # re.error: a pattern with metacharacters that is not a valid regular expression
            self.entries = []
            self.rejected = type(e).__name__
        self.args = table_args(self.entries)
        self.supported = all(pat_supported(p) for p, _, _ in self.entries)


def compare_one(run, model, tb, d):
    """(impl, model, property verdict) for one input"""
    got = impl_parse(d, tb.path)
    exp = model.call("ilog", bytes(d), *tb.args)
    what = prop_ilog(tb.entries, d, got) if tb.supported else None
    return got, exp, what


def check_data(run, model, tb, d, tag, shrink=True):
    run.evaluations += 1
    got, exp, what = compare_one(run, model, tb, d)
    run.count(tag)
    if exp == UNSUPPORTED and tb.supported and len(d) > 8:
        # some line is outside the model's %-format fragment: compare entry by entry instead
        ok = True
        for i in range(0, len(d) - len(d) % 8, 8):
            ok = check_data(run, model, tb, d[i:i + 8], tag + ":split", shrink=False) and ok
        return ok
    if exp == UNSUPPORTED:
        run.unsupported += 1
        run.count("unsupported:" + tag)
        exp = got                       # not compared with the model; the property check below still applies
    if got == exp and what is None:
        if got is not None and len(got) > 2:
            run.nontriv((tb.desc.get("drawer") or tuple(tb.desc["header_lines"]), bytes(d)))
        return True
    run.disagreements_checked += 1
    if shrink and len(d) > 8 and len(run.violations) < 2:
        # look for a single entry that shows it
        for i in range(0, min(len(d) - len(d) % 8, 8 * 64), 8):
            if not check_data(run, model, tb, d[i:i + 8], tag + ":shrunk", shrink=False):
                return False
    rep = dict(fn="ilog", table=tb.desc, input_hex=bytes(d).hex(), actual=got,
               expected_by_property=spec_lines(tb.entries, d) if tb.supported else None)
    if got != exp:
        run.violation("ilog:model-vs-impl" if what is None else "ilog:" + what[0],
                      "parse_ilog_data(%d bytes, %d table entries) differs from the model%s" % (
                          len(d), len(tb.entries), "" if what is None else ": " + what[1]),
                      dict(rep, kind="M", expected=exp, correspondence="Model.Ilog.parse_ilog = io_drawer.ilog.parse_ilog_data"),
                      no_input=what is None)
    else:
        run.violation("ilog:" + what[0], what[1], dict(rep, kind="S"))
    return False


def entry_bytes(rng, pte, ts=None, seq=None):
    ts = rng.choice((0, 1, 59, 60, 3599, 3600, 35999, 36000, 0xFFFE, 0xFFFF, rng.randrange(65536))) if ts is None else ts
    seq = rng.choice((0, 1, 0xFFFF, rng.randrange(65536))) if seq is None else seq
    return ts.to_bytes(2, "big") + seq.to_bytes(2, "big") + (pte & 0xFFFFFFFF).to_bytes(4, "big")


def instantiate(rng, pat):
    """a PTE that the pattern matches (wildcards and non-hex characters become random digits)"""
    h = "".join(c if c in "0123456789abcdefABCDEF" else rng.choice("0123456789ABCDEF") for c in pat)
    h = (h + "00000000")[:8]
    return int(h, 16)


def ptes_for(rng, entries, per_pattern=1):
    out = []
    for pat, _, _ in entries:
        for _ in range(per_pattern):
            p = instantiate(rng, pat)
            out += [p, p | 0x00040000, (p & 0x0FFFFFFF) | 0xE0040000, p ^ (1 << rng.randrange(32))]
    return out


def blob(rng, ptes):
    """entries for the PTEs, with all-zero entries and nearly-zero entries (only one field non-zero) in between"""
    out = []
    for p in ptes:
        k = rng.random()
        if k < 0.08:
            out.append(bytes(8))
        elif k < 0.12:
            out.append(rng.choice((entry_bytes(rng, 0, 0, 1), entry_bytes(rng, 0, 1, 0), entry_bytes(rng, 1, 0, 0),
                                   entry_bytes(rng, 0, 0x0100, 0), entry_bytes(rng, 0x01000000, 0, 0))))
        out.append(entry_bytes(rng, p))
    return b"".join(out)


# ---------------------------------------------------------------------------------------------
# synthetic header files

FORMATS = ["plain message", "PS%d - Faults Cleared", "level = %c%c", "0x%02X%02X", "month %x, day %x", "%d%%", "100%",
           "%5d|%-5d|", "%+d % d %#x %#X %#o", "%08.3X", "%s and %r", "%i %u", "%ld %hd", "%.2d", "%*d", "%(a)d", "%z", "%",
           "%d %d %d", "%f", "%e%d", 'VRM in \\"N-Mode\\"', "café %d", "%c", "%3c|%-3c|", "%.1s", "%%", "%%d", "trailing %",
           "%02X", "%d", "%d", "%02X%02X", "%x"]
PARAMS = ["", "4", "3, 4", "4, 3", "3", "1, 2, 3, 4", "0", "5", "0, 4", "1, 5", "9, 3", "10", "3, 3", "4,4,4", " 2 ", "1,2,3,4,1"]


def gen_pattern(rng, base):
    k = rng.randrange(10)
    s = list(base)
    if k <= 5:
        for i in range(8):
            if rng.random() < (0.15 * k):
                s[i] = "*"
    elif k == 6:
        s = ["*"] * 8
        s[rng.randrange(8)] = base[rng.randrange(8)]
    elif k == 7:
        s = [c.lower() for c in s]
        s[rng.randrange(8)] = "*"
    elif k == 8:
        s = s[:rng.choice((1, 7))] if rng.random() < 0.5 else s + [rng.choice("0*")]
    else:
        s[rng.randrange(8)] = rng.choice("gZ_ -")
    return "".join(s)


def gen_table(rng, n, meta=False):
    """list of (pattern, format-as-written, params-as-written)"""
    bases = ["%08X" % rng.randrange(1 << 32) for _ in range(max(1, n // 4))]
    bases += ["E3087704", "E30C7704", "E0000000", "01430100"]
    rows = []
    for _ in range(n):
        base = rng.choice(bases)
        pat = gen_pattern(rng, base)
        if meta and rng.random() < 0.3:
            i = rng.randrange(len(pat))
            pat = pat[:i] + rng.choice([".", "[0-9]", "+", "?", "(", "\\d", "|", "^", "$", "{2}"]) + pat[i + 1:]
        rows.append((pat, rng.choice(FORMATS), rng.choice(PARAMS)))
    return rows


def every_position_table():
    rows = []
    for i in range(8):
        rows.append(("".join("*" if j == i else "A" for j in range(8)), "one wildcard at %d" % i, ""))
    for i in range(8):
        rows.append(("".join("5" if j == i else "*" for j in range(8)), "one digit at %d: %%d" % i, "%d" % (i // 2 + 1)))
    rows.append(("********", "anything %02X%02X%02X%02X", "1, 2, 3, 4"))
    return rows


def header_lines(rng, rows, noise=False):
    lines = ["// generated", "#define PTE_TABLE_SIZE %d" % (len(rows) + 1)]
    if noise:
        lines.append('  { "01040000", "outside before", {}, "x.cpp", 1 },')
    style = rng.randrange(3) if noise else 0
    if style == 0:
        lines += ["static struct pte_entry_struct static_pte_entry_table[PTE_TABLE_SIZE] = ", "{"]
    elif style == 1:
        lines += ["struct pte_entry_struct static_pte_entry_table[] = {"]
    else:
        lines += ["   static   struct   pte_entry_struct   static_pte_entry_table [ N ]  =  ", "  {  "]
    # the table in two blocks, or another "The End"-terminated array in front of it: the entries of every block count, in order
    split = rng.randrange(1, len(rows)) if (noise and len(rows) >= 2 and rng.random() < 0.3) else None
    if noise and rng.random() < 0.2:
        lines[2:2] = ["struct other_entry other_table[] = {", '  { "99990000", "not a PTE entry", {}, "y.cpp", 1 },', '  { ""        , "The End" }', "};"]
    for i, (pat, fmt, params) in enumerate(rows):
        if split is not None and i == split:
            lines += ['  { ""        , "The End" }', "};", "", rng.choice(["struct pte_entry_struct static_pte_entry_table_more[] = {",
                                                                            "static struct pte_entry_struct static_pte_entry_table2[N2] = {"])]
        if noise and rng.random() < 0.2:
            lines.append(rng.choice(["", "  // comment", '  { "01040000", "no trailing comma", {}, "x.cpp", 1 }',
                                     '  { "", "empty pattern", {}, "x.cpp", 1 },', '  { "01040000", "four fields", {}, 1 },',
                                     '  "01040000", "no brace", {}, "x.cpp", 1,']))
        if noise and rng.random() < 0.12:
            # white space of the grammar that is not a line end: a form feed or a vertical tab between the fields of an entry
            ws = rng.choice(["\f", "\v", " \f", "\v "])
            lines.append('  {%s"%s",%s"%s", {%s},%s"f%d.cpp", %d },' % (ws, pat, ws, fmt, params, ws, i, 100 + i))
        elif style == 2:
            lines.append('   {  "%s"  ,  "  %s  "  ,  { %s }  ,  "f.cpp"  ,  %d  }  ,  ' % (pat, fmt, params, i))
        else:
            lines.append('  { "%s", "%s", {%s}, "f%d.cpp", %d },' % (pat, fmt, params, i, 100 + i))
    lines.append('  { ""        , "The End" }')
    lines.append("};")
    if noise:
        lines.append('  { "01040000", "outside after", {}, "x.cpp", 1 },')
    return lines


def write_header(tmp, idx, lines):
    path = os.path.join(tmp, "t%d_pte.h" % idx)
    with open(path, "w") as f:
        for ln in lines:
            f.write(ln + "\n")
    return path


def intended_entries(rows):
    """what the declarations mean: format unescaped, parameters = the listed single-digit numbers within 1..4"""
    out = []
    for pat, fmt, params in rows:
        nums = [x.strip() for x in params.split(",") if x.strip()]
        ps = tuple(int(x) for x in nums if 1 <= int(x) <= 4) if all(len(x) == 1 for x in nums) else None
        out.append((pat, fmt.replace('\\"', '"'), ps))
    return out


def check_table_read(run, rows, tb, lines):
    """entries are the declared ones, in header-file order"""
    run.evaluations += 1
    want = intended_entries(rows)
    got = tb.entries
    ok = len(want) == len(got) and all(w[0] == g[0] and w[1] == g[1] and (w[2] is None or w[2] == g[2])
                                       for w, g in zip(want, got))
    if not ok:
        run.violation("table:declared-entries", "PTETable does not hold the declared entries in header-file order",
                      dict(kind="S", fn="ilog_table", header_lines=lines, rows=[list(r) for r in rows],
                           expected=[list(w) for w in want], actual=[list(g) for g in got]))
    run.count("table-read")


# ---------------------------------------------------------------------------------------------
# entry level (constructor parameter filter, matches, get_message) and %-formatting

def check_entry(run, model, pat, fmt, params, pte, tag):
    from io_drawer.ilog import PTETableEntry
    run.evaluations += 1
    run.count(tag)
    if not pat_supported(pat):
        run.unsupported += 1
        return
    e = PTETableEntry(pat, fmt, tuple(params), "f.cpp", 1)
    try:
        got = dict(matches=e.matches(pte), message=e.get_message(pte))
    except Exception as ex:  # noqa: BLE001  (an escaping exception is a result of its own)
        got = dict(matches=None, message="<raised %s: %s>" % (type(ex).__name__, str(ex)[:120]))
    r = dict(model.call("ilog_entry", pte.to_bytes(4, "big"), pat, fmt, bytes(params))[1])
    spec = dict(matches=spec_hits(pat, pte), message=spec_message(fmt, params, pte))
    rep = dict(fn="ilog_entry", pattern=pat, format=fmt, params=list(params), pte="%08X" % pte, actual=got, spec=spec, model=r)
    if got != spec:
        k = "matches" if got["matches"] != spec["matches"] else "message"
        run.violation("entry:" + k, "PTETableEntry(%r, %r, %r) on %08X: %s is %r, the property says %r" % (
            pat, fmt, tuple(params), pte, k, got[k], spec[k]), dict(rep, kind="S"))
        return
    if r["message"] is None:
        run.unsupported += 1
        run.count("unsupported:format")
        r["message"] = got["message"]
    if (r["matches"], r["message"]) != (got["matches"], got["message"]):
        run.disagreements_checked += 1
        run.violation("entry:model-vs-impl", "PTETableEntry(%r, %r, %r) on %08X differs from the model" % (pat, fmt, tuple(params), pte),
                      dict(rep, kind="M", correspondence="Model.Ilog.matches/get_message = PTETableEntry.matches/get_message"),
                      no_input=True)
    if got["matches"]:
        run.nontriv(("e", pat, fmt, tuple(params), pte))


def gen_spec(rng):
    s = "%" + "".join(rng.choice("-+ #0") for _ in range(rng.choice((0, 0, 1, 1, 2))))
    k = rng.random()
    if k < 0.4:
        s += str(rng.choice((0, 1, 2, 3, 4, 5, 8, 12)))
    elif k < 0.45:
        s += "*"
    if rng.random() < 0.25:
        s += "." + rng.choice(("", "0", "1", "2", "3", "5", "*"))
    if rng.random() < 0.15:
        s += rng.choice("hlL")
    return s + rng.choice("diuxXocsra" * 8 + "%efgGbq(9")


def gen_format(rng):
    parts = []
    for _ in range(rng.choice((0, 1, 1, 2, 2, 3, 4))):
        parts += [rng.choice(["", "abc ", " ", "x=", "100", "é", "%%"]), gen_spec(rng)]
    return "".join(parts) + rng.choice(["", "", " end", "%", "%%"])


def check_pyfmt(run, model, fmt, args, tag):
    run.evaluations += 1
    run.count(tag)
    try:
        got = ("ok", fmt % tuple(args))
    except Exception as e:
        got = ("error", type(e).__name__)
    r = model.call("pyfmt", fmt, *[a.to_bytes(8, "big") for a in args])
    if r == "unsupported":
        run.unsupported += 1
        run.count("unsupported:pyfmt")
        return
    ok = (r == "error" and got[0] == "error") or (r != "error" and got[0] == "ok" and r[1][0][1] == got[1])
    if not ok:
        run.disagreements_checked += 1
        run.violation("pyfmt:model-vs-python", "Base/PyFmt.v disagrees with the interpreter on %r %% %r" % (fmt, tuple(args)),
                      dict(kind="M", fn="pyfmt", format=fmt, args=list(args), expected=list(got), actual=r,
                           correspondence="Base.PyFmt.pyfmt = str.__mod__ (CPython)"), no_input=True)
    elif got[0] == "ok" and "%" in fmt:
        run.nontriv(("f", fmt, tuple(args)))


def check_timestamp(run, model, t, tag):
    run.evaluations += 1
    run.count(tag)
    got = impl_timestamp(t)
    exp = model.call("timestamp", t.to_bytes(3, "big"))
    want = spec_ts(t) if t < 0x10000 else got
    if got != want:
        run.violation("timestamp", "format_timestamp(0x%X) = %r, the property says %r" % (t, got, want),
                      dict(kind="S", fn="timestamp", t=t, actual=got, expected=want))
    elif got != exp:
        run.disagreements_checked += 1
        run.violation("timestamp:model-vs-impl", "format_timestamp(0x%X) differs from the model" % t,
                      dict(kind="M", fn="timestamp", t=t, actual=got, expected=exp,
                           correspondence="Model.Ilog.format_timestamp = io_drawer.utils.format_timestamp"), no_input=True)


# ---------------------------------------------------------------------------------------------

def length_sweep(run, model, rng, tb, tag, maxlen=32):
    ptes = ptes_for(rng, tb.entries[:6]) or [0x01020304]
    for n in range(0, maxlen + 1):
        check_data(run, model, tb, bytes(n), tag + ":zero")
        check_data(run, model, tb, b"\xff" * n, tag + ":ones")
        check_data(run, model, tb, bytes(rng.randrange(256) for _ in range(n)), tag + ":random")
        check_data(run, model, tb, (blob(rng, [rng.choice(ptes) for _ in range(n // 8 + 1)]))[:n], tag + ":table-ptes")


def run(run, model, proof):
    rng = run.rng
    thorough = run.tier == "thorough"
    run.rule = ("parse_ilog_data run in-process on the two shipped PTE tables and on synthetic header files (overlapping "
                "patterns in random order, a wildcard in every position, lower-case and wrong-length patterns, parameter lists "
                "with out-of-range and repeated entries, format/argument arity mismatches, escaped quotes); data = every length "
                "0..32 (zero, all-ones, random, table PTEs) and blobs of entries whose PTEs instantiate each table pattern "
                "with and without the reported flag, with the error class forced, and with one bit flipped; plus PTETableEntry "
                "built directly with raw parameter tuples, %-format strings against the interpreter, and timestamps. Each "
                "output is compared with the extracted Coq model and with the property restated in Python. "
                "non-trivial = distinct input producing at least one entry line / a matching entry / a formatted message")
    tmp = tempfile.mkdtemp(prefix="verif_c14_")
    try:
        # ---- shipped tables
        for name, path in shipped_paths():
            tb = Table(dict(drawer=name), path)
            run.extra.setdefault("shipped_tables", {})[name] = dict(entries=len(tb.entries), supported=tb.supported)
            if not tb.entries or not tb.supported:
                run.violation("table:shipped", "shipped table %s is empty or has a pattern with regex metacharacters" % name,
                              dict(kind="S", fn="ilog_table", table=tb.desc))
            ptes = ptes_for(rng, tb.entries, 6 if thorough else 1)
            rng.shuffle(ptes)
            step = 400
            for i in range(0, len(ptes), step):
                check_data(run, model, tb, blob(rng, ptes[i:i + step]), "shipped:%s:patterns" % name)
            check_data(run, model, tb, blob(rng, [rng.randrange(1 << 32) for _ in range(step)]), "shipped:%s:random" % name)
            check_data(run, model, tb, blob(rng, [0xE0000000 | rng.randrange(1 << 28) for _ in range(step)]), "shipped:%s:errors" % name)
            for n in (list(range(0, 26)) if thorough else [0, 1, 7, 8, 9, 15, 16, 17, 23, 24]):
                check_data(run, model, tb, blob(rng, ptes[:4])[:n], "shipped:%s:length" % name)
        # ---- synthetic tables
        idx = 0
        rows = every_position_table()
        lines = header_lines(rng, rows)
        tb = Table(dict(header_lines=lines), write_header(tmp, idx, lines))
        idx += 1
        check_table_read(run, rows, tb, lines)
        length_sweep(run, model, rng, tb, "positions")
        ptes = ptes_for(rng, tb.entries, 8) + [0xAAAAAAAA ^ (0xF << (4 * i)) for i in range(8)] + [0x55555555, 0]
        check_data(run, model, tb, blob(rng, ptes), "positions:patterns")
        for t in range(600 if thorough else 36):
            n = rng.choice((0, 1, 2, 3, 5, 8, 13, 30))
            meta = t % 9 == 8
            rows = gen_table(rng, n, meta=meta)
            lines = header_lines(rng, rows, noise=True)
            tb = Table(dict(header_lines=lines), write_header(tmp, idx, lines))
            idx += 1
            if tb.rejected:
                if all(pat_supported(r[0]) for r in rows):
                    run.violation("table:rejected", "PTETable raised %s on a table of plain wildcard patterns" % tb.rejected,
                                  dict(kind="S", fn="ilog_table", header_lines=lines, rows=[list(r) for r in rows]))
                run.unsupported += 1
                run.count("table-rejected-metacharacters")
                continue
            check_table_read(run, rows, tb, lines)
            if not tb.supported:
                run.count("table-with-metacharacters")
            if t % 4 == 0:
                length_sweep(run, model, rng, tb, "synthetic", maxlen=32 if thorough else 17)
            ptes = ptes_for(rng, tb.entries, 3) + [rng.randrange(1 << 32) for _ in range(20)]
            rng.shuffle(ptes)
            for i in range(0, len(ptes), 64):
                check_data(run, model, tb, blob(rng, ptes[i:i + 64]), "synthetic:patterns")
        # ---- entries built directly: raw parameter tuples (constructor filter), every format
        for t in range(30000 if thorough else 1200):
            base = "%08X" % rng.randrange(1 << 32)
            pat = gen_pattern(rng, base)
            fmt = rng.choice(FORMATS).replace('\\"', '"') if t % 3 else gen_format(rng)
            params = [rng.choice((0, 1, 2, 3, 4, 5, 9, 255)) for _ in range(rng.choice((0, 1, 1, 2, 2, 3, 4, 6)))]
            p = instantiate(rng, pat)
            for pte in (p, p | 0x00040000, (p & 0x0FFFFFFF) | 0xE0040000, rng.randrange(1 << 32)):
                check_entry(run, model, pat, fmt, params, pte, "entry")
        # ---- %-formatting against the interpreter
        for t in range(60000 if thorough else 3000):
            fmt = gen_format(rng)
            for k in {rng.randrange(0, 6), fmt.count("%") - 2 * fmt.count("%%")}:
                args = [rng.choice((0, 1, 9, 10, 15, 16, 65, 97, 127, 128, 255, rng.randrange(256))) for _ in range(max(0, k))]
                check_pyfmt(run, model, fmt, args, "pyfmt")
        # ---- timestamps
        ts = set([0, 1, 59, 60, 61, 3599, 3600, 3601, 35999, 36000, 36001, 0xFFFD, 0xFFFE, 0xFFFF, 0x10000, 0x12345])
        ts |= set(range(0, 0x10000)) if thorough else set(rng.randrange(0x10000) for _ in range(1500))
        for t in sorted(ts):
            check_timestamp(run, model, t, "timestamp")
        run.extra["timestamps_exhaustive"] = thorough
        name, path = shipped_paths()[0]
        d = bytes.fromhex("0005 0001 E30C7704  0000000000000000  FFFF 0002 02004445  003C 0003 01430100 010203".replace(" ", ""))
        run.sample(dict(fn="ilog", table=dict(drawer=name), input_hex=d.hex(), lines=impl_parse(d, path)))
    finally:
        shutil.rmtree(tmp, ignore_errors=True)


def replay(run, model, path):
    r = json.load(open(path))
    fn = r.get("fn")
    if fn == "ilog_entry":
        check_entry(run, model, r["pattern"], r["format"], r["params"], int(r["pte"], 16), "replay")
    elif fn == "pyfmt":
        check_pyfmt(run, model, r["format"], r["args"], "replay")
    elif fn == "timestamp":
        check_timestamp(run, model, r["t"], "replay")
    elif fn in ("ilog", "ilog_table"):
        tmp = tempfile.mkdtemp(prefix="verif_c14_")
        try:
            table = r.get("table") or dict(header_lines=r.get("header_lines"))
            if "drawer" in table:
                tb = Table(table, dict(shipped_paths())[table["drawer"]])
            else:
                tb = Table(table, write_header(tmp, 0, table["header_lines"]))
            if fn == "ilog_table":
                if "rows" in r:
                    check_table_read(run, [tuple(x) for x in r["rows"]], tb, table.get("header_lines"))
            else:
                check_data(run, model, tb, bytes.fromhex(r["input_hex"]), "replay")
        finally:
            shutil.rmtree(tmp, ignore_errors=True)
    else:
        run.notes.append("replay kind %r is a proof/build record; re-running the whole check" % fn)
        globals()["run"](run, model, dict(ok=True))
