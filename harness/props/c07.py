"""C07: considerPEL against the model (exhaustive on the abstract domain) and against the documented rules."""
import itertools
import json

import common

RULE = ("the real considerPEL evaluated on the whole abstract domain: 256 severity bytes x 8 combinations of the three class bits "
        "(the other 13 flag bits random per row) x 64 switch combinations x severity-group subsets (quick: 10 subsets, thorough: all 128) "
        "x look-up kind, compared cell by cell with the Coq model; the documented rules are re-evaluated in Python for the "
        "disagreeing cells to decide whether the property fails there; non-trivial = distinct (config, severity, flags) cell")

GROUPS = [0, 1, 2, 4, 5, 6, 7]
LOOKUPS = [None, "plid", "src", "bmcID", "pelID", "srcExcludeFile"]


class UH:
    def __init__(self, sev, flags):
        from pel.peltool.user_header import UserHeader
        self.__class__ = type("UHx", (UserHeader,), {})
        self.eventSeverity = sev
        self.actionFlags = flags


def make_uh(sev, flags):
    from pel.peltool.user_header import UserHeader
    u = UserHeader.__new__(UserHeader)
    u.eventSeverity = sev
    u.actionFlags = flags
    return u


def spec_select(bits, sevs, sev, flags):
    every, term, svc, nsvc, hid, only = [(bits >> i) & 1 for i in range(6)]
    hidden = bool(flags & 0x4000)
    serviceable = bool(flags & 0x8000) if sev == 0 else bool(flags & 0x2000) and not hidden
    ingroup = any(sev >> 4 == g for g in sevs)
    if every:
        return True
    if not only:
        return (serviceable and not hidden) or (term and sev == 0x51) or (svc and serviceable) or (nsvc and not serviceable) or \
            (hid and hidden) or ingroup
    anyclass = svc or nsvc or hid
    inclass = (svc and serviceable) or (nsvc and not serviceable) or (hid and hidden)
    return bool((term and sev == 0x51) or ((anyclass or sevs) and (not anyclass or inclass) and (not sevs or ingroup)))


def run(run, model, proof):
    from pel.peltool import peltool
    from pel.peltool.config import Config
    rng = run.rng
    thorough = run.tier == "thorough"
    run.rule = RULE
    import os
    cdir = os.path.join(common.VERIF, "corpus", "C07")
    for f in sorted(os.listdir(cdir)) if os.path.isdir(cdir) else []:
        replay(run, model, os.path.join(cdir, f))
        run.count("corpus")
    subsets = [tuple(g for i, g in enumerate(GROUPS) if m >> i & 1) for m in range(128)]
    if not thorough:
        subsets = [(), (0,), (5,), (0, 5), (1, 2, 4), (7,), (6, 7), tuple(GROUPS)] + rng.sample(subsets, 2)
    lookups = LOOKUPS if thorough else [None, "plid", "srcExcludeFile", rng.choice(["src", "bmcID", "pelID"])]
    uhs = {}
    cells = 0
    for bits in range(64):
        for sevs in subsets:
            for lk in lookups:
                if lk is not None and not thorough and (bits not in (0, 32, 36, 48) and rng.random() < 0.8):
                    continue
                noise = rng.randrange(0x2000)
                c = Config()
                c.every_pel, c.critSysTerm, c.serviceable, c.non_serviceable, c.hidden, c.only = [bool(bits >> i & 1) for i in range(6)]
                c.severities = list(sevs)
                if lk:
                    setattr(c, lk, "x")
                cfg_byte = bits | (64 if lk else 0)
                table = model.call("consider_table", bytes([cfg_byte]), bytes(sevs), noise.to_bytes(2, "big"))
                i = 0
                for sev in range(256):
                    for k in range(8):
                        flags = (k << 13) | noise
                        u = uhs.get((sev, flags))
                        if u is None:
                            u = uhs[(sev, flags)] = make_uh(sev, flags)
                        got = bool(peltool.considerPEL(u, c))
                        exp = table[i] == "1"
                        i += 1
                        if got != exp:
                            run.disagreements_checked += 1
                            rp = dict(fn="considerPEL", bits=bits, severities=list(sevs), lookup=lk, sev=sev, flags=flags, expected=exp, actual=got)
                            rule = spec_select(bits, sevs, sev, flags) if not lk else None
                            if lk and bits == 0 and not sevs:
                                # a look-up without selection options must consider every PEL
                                if not got:
                                    run.violation("lookup-bypass:" + lk, "look-up by %s without selection options skips a hidden/non-serviceable PEL" % lk,
                                                  dict(rp, kind="S"))
                                    continue
                            if rule is not None and rule != got:
                                grp = "group-of-low-severity" if (sev >> 4 == 0 and sev != 0 and sevs) else "rules"
                                run.violation("select:" + grp, "considerPEL=%s, documented rules say %s (sev=0x%02X flags=0x%04X options=%s groups=%s)" % (
                                    got, rule, sev, flags, format(bits, "06b"), list(sevs)), dict(rp, kind="S"))
                            else:
                                run.violation("model:considerPEL", "considerPEL differs from the model where the documented rules do not decide",
                                              dict(rp, kind="M", correspondence="Model.Select.consider vs peltool.considerPEL"), no_input=True)
                cells += 2048
                run.count("lookup:%s" % lk, 2048)
            if len(uhs) > 200000:
                uhs.clear()
    for _ in range(20 if thorough else 3):
        cli_lookup_bypass(run, rng)
    for _ in range(12 if thorough else 3):
        cli_option_mapping(run, model, rng)
    run.evaluations += cells
    # distinct cells = configs x 2048 (each config has its own noise word)
    run.nontrivial = set(range(min(cells, 5000000)))
    run.exhaustive = thorough
    run.sample(dict(bits="0b100000 (--only)", severities=[5], sev=5, flags=0x2000, model=model.call("consider_table", bytes([32]), bytes([5]), b"\0\0")[5 * 8:5 * 8 + 8]))
    run.sample(dict(bits=0, severities=[], lookup="plid", note="look-up bypass row for sev 0x40",
                    model=model.call("consider_table", bytes([64]), b"", b"\0\0")[0x40 * 8:0x40 * 8 + 8]))


def cli_option_mapping(run, model, rng):
    """the selection options through the real command line (how main() turns -E -t -s -N -H -O, alone and together, into the Config
    the decision procedure sees): --show-pel-count on a directory with one PEL of each class against the model's count"""
    import cli_runner
    import dirgen
    from props import c04
    from collections import OrderedDict
    files = []
    for i, (sev, flags) in enumerate([(0x40, 0xA000), (0x40, 0x4000), (0x40, 0x0000), (0x00, 0x0000), (0x51, 0x2000), (0x51, 0x4000), (0x10, 0x2000),
                                      (0x00, 0x8000), (0x21, 0xA000)]):
        d = bytearray(c04.mini_pel(b"O", [(b"UD", 1, 1, 0x2000, b"{}")]))
        d[58] = sev
        d[66:68] = flags.to_bytes(2, "big")
        files.append(("c%d_%08X" % (i, 0x5500 + i), dirgen.set_ids(bytes(d), eid=0x5500 + i), dict(kind="pel", eid=0x5500 + i)))
    combos = [0b100000, 0b100010, 0b000010, 0b100100, 0b101000, 0b110000, 0b000000, rng.randrange(64), rng.randrange(64)]
    with dirgen.TempDir(files) as dpath:
        for bits in combos:
            argv = ["-p", dpath] + cli_runner.sel_argv(bits, ()) + ["-n"]
            rc, out, err = cli_runner.run_inproc(argv)
            m = pelgen_to_py(dirgen.model_cli(model, 0, files, bits=bits))
            run.evaluations += 1
            run.count("cli-options")
            try:
                got = json.loads(out).get("Number of PELs found")
            except Exception:  # noqa: BLE001
                got = None
            if rc != 0 or got != m.get("count"):
                run.violation("select:cli-options", "peltool %s counts %r, the documented rules give %r" % (" ".join(argv[2:]), got, m.get("count")),
                              dict(kind="S", fn="cli-options", argv=argv[2:], bits=bits, files=[[f[0], f[1].hex()] for f in files], got=got, want=m.get("count")))


def pelgen_to_py(x):
    import pelgen
    return pelgen.to_py(x)


def cli_lookup_bypass(run, rng):
    """the look-up exemption through the real command line: hidden, non-serviceable and informational PELs are found by
    --id, --bmc-id, --plid, --src whatever the id is (0 included)"""
    import struct
    import cli_runner
    import dirgen
    from props import c04
    from collections import OrderedDict
    classes = [("hidden", 0x40, 0x4000), ("not-reported", 0x40, 0x0000), ("informational", 0x00, 0x0000), ("serviceable", 0x40, 0xA000)]
    ids = [0, 1, 7, 0x50000001, 0xFFFFFFFF]
    files = []
    shift = rng.randrange(len(ids))
    for i, (cls, sev, flags) in enumerate(classes):
        body = bytes([2, 0, 0, 9, 0, 0, 0, 72]) + b"".join(struct.pack(">I", w) for w in range(8)) + ("BD8D%04X" % (0x1000 + i)).encode().ljust(32, b" ")
        d = bytearray(c04.mini_pel(b"O", [(b"PS", 1, 1, 0x2000, body)]))
        d[58] = sev
        d[66:68] = struct.pack(">H", flags)
        idv = ids[(i + shift) % len(ids)]        # distinct ids; which class gets id 0 varies
        d = dirgen.set_ids(bytes(d), eid=0x50000010 + i, plid=0x60000010 + i, obmc=idv)
        files.append(("%08X_%s" % (0x50000010 + i, cls), d, dict(kind="pel", cls=cls, eid=0x50000010 + i, plid=0x60000010 + i, obmc=idv, src="BD8D%04X" % (0x1000 + i))))
    with dirgen.TempDir(files) as dd:
        for name, data, m in files:
            for opt, arg in (("--bmc-id", str(m["obmc"])), ("-i", "%08X" % m["eid"]), ("--plid", "%08X" % m["plid"]), ("--src", m["src"])):
                rc, out, err = cli_runner.run_inproc(["-p", dd, opt, arg])
                run.evaluations += 1
                run.count("cli-lookup:%s:%s" % (opt, m["cls"]))
                want = "0x%08X" % m["eid"]
                try:
                    j = json.loads(out, object_pairs_hook=OrderedDict)
                    found = (j.get("Private Header", {}).get("Entry Id") == want) if opt in ("--bmc-id", "-i") else want in j
                except Exception:  # noqa: BLE001
                    found = False
                if rc != 0 or not found:
                    run.violation("lookup-bypass:cli:" + opt, "peltool %s %s does not show the %s PEL it names (no selection options given)" % (opt, arg, m["cls"]),
                                  dict(kind="S", fn="cli-lookup", argv=[opt, arg], files=[[f[0], f[1].hex()] for f in files], stdout=out[:300], stderr=err[-200:], rc=rc))


def replay(run, model, path):
    r = json.load(open(path))
    if r.get("fn") == "cli-lookup":
        return cli_lookup_bypass(run, run.rng)
    if r.get("fn") != "considerPEL":
        return globals()["run"](run, model, dict(ok=True))
    from pel.peltool import peltool
    from pel.peltool.config import Config
    c = Config()
    bits = r["bits"]
    c.every_pel, c.critSysTerm, c.serviceable, c.non_serviceable, c.hidden, c.only = [bool(bits >> i & 1) for i in range(6)]
    c.severities = list(r["severities"])
    if r.get("lookup"):
        setattr(c, r["lookup"], "x")
    got = bool(peltool.considerPEL(make_uh(r["sev"], r["flags"]), c))
    run.evaluations += 1
    exp = spec_select(bits, r["severities"], r["sev"], r["flags"]) if not r.get("lookup") else True
    if got != exp:
        run.violation("select:replay", "considerPEL=%s, expected %s" % (got, exp), dict(r, actual=got))
