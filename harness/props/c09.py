"""C09: junk files never disturb the output for the others."""
import json
import os
import shutil
import struct
import tempfile
from collections import OrderedDict

import cli_runner
import common
import dirgen
import pelgen
import scan_source
from props import c04

RULE = ("for generated directories of well-formed PELs: every directory mode (-n -l -a --plid --src --src-exclude, with and without -x, and -j) "
        "is run through the real peltool main() on the directory alone and on the directory plus junk (empty, truncated, corrupted, "
        "random, header-damaged and unreadable files (a link whose target is gone), a PEL whose PCE size field is too small, subdirectories); junk is classified with the Coq model "
        "(a file all three partial decoders reject); stdout must be byte-identical, valid JSON, exit status 0, diagnostics on stderr only; "
        "non-trivial = directory pair with >= 1 PEL and >= 1 junk file")


def pce_small_pel(eid):
    words = b"".join(struct.pack(">I", i) for i in range(8))
    callout = bytes([4 + 24, 0, 0x48, 0]) + b"PE" + bytes([10, 0]) + b"MTM12345" + b"SN1234567890"
    co = bytes([0xC0, 0, 0, (4 + len(callout)) // 4]) + callout
    body = bytes([2, 1, 0, 9, 0, 0, 0, 72]) + words + b"BD8D1234".ljust(32, b" ") + co
    data = c04.mini_pel(b"O", [(b"PS", 1, 1, 0x2000, body)])
    return dirgen.set_ids(data, eid=eid)


def classify_junk(model, files, plugins):
    """(junk every mode rejects, junk only the count mode accepts - its two headers are intact)"""
    j_all, j_la, j_a = [], [], []
    for name, data, meta in files:
        if meta.get("kind") == "unreadable":
            j_all.append((name, data, meta))
            continue
        acc = []
        for mode in (0, 1, 2):
            m = pelgen.to_py(dirgen.model_cli(model, mode, [(name, data, meta)], plugins=plugins, bits=1))
            acc.append(bool(m.get("count") or m.get("list") or m.get("all")))
        if not any(acc):
            j_all.append((name, data, meta))
        elif acc == [True, False, False]:
            j_la.append((name, data, meta))
        elif acc == [True, True, False]:
            j_a.append((name, data, meta))          # damaged behind its primary SRC: only the full decode rejects it
    return j_all, j_la, j_a


def run_modes(d, modes, outdir):
    import fixtures
    res = {}
    for key, argv in modes:
        # every invocation of the tool is a process of its own: it starts with empty parser caches
        fixtures.reset_caches()
        a = ["-p", d] + argv
        if "-j" in argv:
            od = os.path.join(outdir, "out_" + str(len(res)))
            os.makedirs(od)
            a += ["-o", od]
            rc, out, err = cli_runner.run_inproc(a)
            res[key] = (rc, out, err, sorted((n, open(os.path.join(od, n), "rb").read().decode("utf-8", "replace")) for n in os.listdir(od)))
        else:
            res[key] = cli_runner.run_inproc(a) + (None,)
    return res


def check_pair(run, model, rng, good, junk, plugins, bits, i):
        junk, junk_la, junk_a = classify_junk(model, junk, plugins)
        FULL = ("-a", "-ax", "-j")                  # the modes that decode every section
        sev_args = cli_runner.sel_argv(bits, ())
        plid = "%08X" % (good[0][2]["eid"] if good and rng.random() < 0.3 else rng.randrange(1 << 32))
        if good:
            plid = "%08X" % int.from_bytes(rng.choice(good)[1][40:44], "big")
        pl = ["-P"] if not plugins else []
        modes = [("-n", sev_args + pl + ["-n"]), ("-l", sev_args + pl + ["-l"]), ("-a", sev_args + pl + ["-a"]),
                 ("--plid", pl + ["--plid", plid]), ("--src", pl + ["--src", rng.choice(["BD", "B", "11", "8D", " "])]),
                 ("-lx", sev_args + pl + ["-l", "-x"]), ("-ax", sev_args + pl + ["-a", "-x"]), ("-j", sev_args + pl + ["-j"])]
        if rng.random() < 0.5:
            modes.append(("-lr", sev_args + pl + ["-l", "-r"]))
        tmp = tempfile.mkdtemp(prefix="verif_c09_")
        try:
            excl = os.path.join(tmp, "exclude.txt")
            with open(excl, "w") as f:
                f.write("BD8D1234\n11001100\n")
            modes.append(("--src-exclude", pl + ["--src-exclude", excl]))
            with dirgen.TempDir(good) as d1:
                r1 = run_modes(d1, modes, tmp + "/a")
            subdirs = ["archive"] if rng.random() < 0.5 else []
            real = {}
            with dirgen.TempDir(good + junk + junk_la, subdirs=subdirs) as d2:
                r2 = run_modes(d2, [m for m in modes if m[0] != "-n"], tmp + "/b")
                if i % 12 == 0 or any("_uni_" in f[0] for f in good):
                    # the same through a real process: what reaches a real standard output (its encoding included)
                    for key, argv in modes:
                        if key in ("-a", "-l"):
                            real[key] = cli_runner.run_subproc(["-p", d2] + argv)
                            # and with assertions disabled: what is junk must stay junk under python -O
                            real[key + " (python -O)"] = cli_runner.run_subproc(["-p", d2] + argv, optimize=True)
            with dirgen.TempDir(good + junk, subdirs=subdirs) as d3:
                r2.update(run_modes(d3, [m for m in modes if m[0] == "-n"], tmp + "/c"))
            if junk_a:
                # files that only the full decode rejects join the directory of the modes that decode every section
                with dirgen.TempDir(good + junk + junk_la + junk_a, subdirs=subdirs) as d4:
                    r2.update(run_modes(d4, [m for m in modes if m[0] in FULL], tmp + "/d"))
            junk_la_only = list(junk_la)
            junk = junk + junk_la + junk_a
        finally:
            shutil.rmtree(tmp, ignore_errors=True)
        run.evaluations += len(modes)
        if good and junk:
            run.nontriv(tuple(f[0] for f in good + junk))
        run.count("junk:%d" % len(junk))
        rp = dict(fn="junk", good=[[f[0], f[1].hex()] for f in good], junk=[[f[0], f[1].hex()] for f in junk], subdirs=subdirs,
                  plugins=plugins, bits=bits, unreadable=[f[0] for f in junk if f[2].get("kind") == "unreadable"])
        for key, (rcr, outr, errr) in real.items():
            run.count("real-process:" + key)
            base_key = key.split(" ")[0]
            if rcr != 0 or outr != r2[base_key][1]:
                run.violation("stdout-real-process:" + key, "peltool %s as a real process: exit status %r, standard output differs from what the mode produces in-process" % (key, rcr),
                              dict(rp, kind="S", mode=key, real_stdout=outr[-500:], inproc_stdout=r2[base_key][1][-500:], stderr=errr[-300:]))
        for key, argv in modes:
            rc1, out1, err1, files1 = r1[key]
            rc2, out2, err2, files2 = r2[key]
            run.count("mode:" + key)
            if rc1 != 0 or rc2 != 0:
                run.violation("exit-status:" + key, "peltool %s exits with %r / %r" % (key, rc1, rc2), dict(rp, kind="S", mode=key, argv=argv, stderr=err2[-300:]))
                continue
            if out1 != out2:
                run.violation("stdout-changed:" + key, "adding undecodable files changes the standard output of %s" % key,
                              dict(rp, kind="S", mode=key, argv=argv, without=out1[:600], with_junk=out2[:600]))
                continue
            if key == "-j":
                import re
                junknames = {f[0] for f in junk}
                f2 = [x for x in files2 if not any(re.fullmatch(re.escape(j) + r"\.[0-9A-Fa-f]{8}\.json", x[0]) for j in junknames)]
                if files1 != f2:
                    run.violation("json-files-changed", "-j writes different files for the good PELs when junk is present",
                                  dict(rp, kind="S", a=[x[0] for x in files1], b=[x[0] for x in files2],
                                       differing=[x[0] for x in files1 if x not in f2][:5]))
                if out2.strip():
                    run.violation("stdout-noise:-j", "-j writes diagnostics to standard output", dict(rp, kind="S", stdout=out2[:300]))
            elif key.endswith("x"):
                pass
            else:
                try:
                    json.loads(out2)
                except Exception:
                    run.violation("stdout-not-json:" + key, "standard output of %s is not one JSON document" % key, dict(rp, kind="S", mode=key, stdout=out2[:600]))
        # the directory with its junk against the Coq CLI model (entries that cannot be opened flagged as such)
        for mode, key in ((0, "-n"), (1, "-l"), (2, "-a")):
            if key not in r2 or r2[key][0] != 0:
                continue
            # (each mode saw the junk its own decoder rejects: see the directories above)
            files_m = good + [f for f in junk if (f not in junk_a or key in FULL) and (f not in junk_la_only or key != "-n")]
            try:
                mp = pelgen.to_py(dirgen.model_cli_o(model, mode, files_m, plugins=plugins, bits=bits))
                out2 = json.loads(r2[key][1], object_pairs_hook=OrderedDict)
            except pelgen.Unsupported:
                run.unsupported += 1
                continue
            except Exception:  # noqa: BLE001 - unreadable stdout is reported above
                continue
            if mode == 0:
                ok = mp.get("count") == out2.get("Number of PELs found")
            elif mode == 1:
                ok = pelgen.first_diff(mp.get("list"), out2) is None
            else:
                ok = pelgen.first_diff(mp.get("all"), list(out2)) is None
            run.count("model:" + key)
            if not ok:
                run.disagreements_checked += 1
                run.violation("model:cli_o:" + key, "the CLI model (with unreadable entries) and peltool %s disagree" % key,
                              dict(rp, kind="M", correspondence="Model.Cli mode_*_o vs peltool.main()", mode=key,
                                   expected=str(mp)[:600], actual=r2[key][1][:600]), no_input=True)
        if i < 2:
            run.sample(dict(good=[f[0] for f in good], junk=[f[0] for f in junk], modes=[m[0] for m in modes]))


def replay_file(run, model, path):
    r = json.load(open(path))
    if r.get("fn") != "junk":
        return False
    import random
    good = [(n, bytes.fromhex(h), dict(kind="pel", eid=int.from_bytes(bytes.fromhex(h)[44:48], "big"))) for n, h in r["good"]]
    junk = [(n, bytes.fromhex(h), dict(kind="unreadable" if n in r.get("unreadable", []) else "junk")) for n, h in r["junk"]]
    check_pair(run, model, random.Random(1), good, junk, r.get("plugins", True), r.get("bits", 1), 0)
    return True


def run(run, model, proof):
    rng = run.rng
    thorough = run.tier == "thorough"
    run.rule = RULE
    for w in scan_source.unexpected_stdout_writers(common.ROOT):
        run.violation("scan:stdout-writer", "a decoder module writes to stdout where the published list has no such write: " + w,
                      dict(kind="M", fn="scan", correspondence="harness/scan_source.PUBLISHED_STDOUT_WRITERS vs the source text", detail=w), no_input=True)
    prints = scan_source.stdout_prints(common.ROOT)
    allowed = [p for p in prints if p[0].endswith("peltool/peltool.py")]
    # SRC.parse(): print + exit(1) guarded by len(hexwords) < 8, unreachable because toJSON pads the list to 8 words (pad8 in the model)
    unreachable = {("modules/pel/peltool/src.py", "parse")}
    bad = [p for p in prints if not p[0].endswith("peltool/peltool.py") and (p[0], p[1]) not in unreachable]
    run.extra["stdout_print_scan"] = dict(decoder_modules=bad, peltool_printers=len(allowed))
    cdir = os.path.join(common.VERIF, "corpus", "C09")
    for f in sorted(os.listdir(cdir)) if os.path.isdir(cdir) else []:
        replay_file(run, model, os.path.join(cdir, f))
        run.count("corpus")
    n = 1500 if thorough else 120
    for i in range(n):
        plugins = rng.random() < 0.7
        good = dirgen.gen_dir(model, rng, rng.randrange(0, 7), plugins=plugins)
        withjunk = dirgen.gen_dir(model, rng, 0, junk=rng.randrange(1, 6), sources=good)
        used = {f[0] for f in good}
        junk = [f for f in withjunk if f[0] not in used]
        if rng.random() < 0.4:
            junk.append(("pce_small_%d.pel" % i, pce_small_pel(0x7000 + i), dict(kind="junk")))
        if rng.random() < 0.4:
            # a good PEL decoded by a shipped parser module, and an undecodable file whose complete first section makes that
            # same module fail before the file turns out to be truncated; the junk sorts before or after the good one
            sig = b"\0\0\0\1" + bytes(rng.randrange(256) for _ in range(12))
            g = dirgen.set_ids(c04.mini_pel(b"O", [(b"UD", 1, 1, 0xE500, sig)]), eid=0x6000 + i)
            short = c04.mini_pel(b"O", [(b"UD", 1, rng.choice([1, 2]), 0xE500, b"\0\0\0\2" + sig[4:9]), (b"UD", 1, 1, 0x2000, b"{}" * 8)])
            j = dirgen.set_ids(short[:len(short) - rng.randrange(1, 12)], eid=0x6800 + i)
            a, b = ("m_plug_%d" % i, "a_plug_%d" % i) if rng.random() < 0.7 else ("a_plug_%d" % i, "m_plug_%d" % i)
            good.append((a, g, dict(kind="pel", eid=0x6000 + i)))
            junk.append((b, j, dict(kind="junk")))
        if rng.random() < 0.35:
            # the same with SRC parsers: a good BMC PEL whose reference code reaches a shipped SRC parser through the osrc dispatcher,
            # and an undecodable file (truncated behind its SRC) whose reference code sends the same component to a module that does
            # not exist: what the dispatcher remembers of the junk must not change what the good one shows
            from props import c18
            comp = "E5"            # the component with a shipped SRC parser (srcparsers.oe500)
            gbody, _w = c18.src_body(rng, "BD8D%s10" % comp, proc=None, wcount=9)
            jbody, _w = c18.src_body(rng, rng.choice(["BC8A%s10", "BC20%s00", "BC8A%s10", "BC00%s01", "BD8D%s10"]) % comp, proc=None, wcount=9)
            g = dirgen.set_ids(c04.mini_pel(b"O", [(b"PS", 1, 1, 0x2000, gbody)]), eid=0x6400 + i)
            short = c04.mini_pel(b"O", [(b"PS", 1, 1, 0x2000, jbody), (b"UD", 1, 1, 0x2000, b"{}" * 8)])
            j = dirgen.set_ids(short[:len(short) - rng.randrange(1, 12)], eid=0x6C00 + i)
            a, b = ("m_src_%d" % i, "a_src_%d" % i) if rng.random() < 0.6 else ("a_src_%d" % i, "m_src_%d" % i)
            good.append((a, g, dict(kind="pel", eid=0x6400 + i)))
            junk.append((b, j, dict(kind="junk")))
        if rng.random() < 0.3:
            junk.append((rng.choice(["0_gone_%d", "m_gone_%d.pel", "zz_gone_%d"]) % i, b"", dict(kind="unreadable", how=rng.choice(["dangling", "loop", "socket"]))))
        if rng.random() < 0.3:
            # a good PEL whose document holds characters outside ASCII, a lone surrogate included (JSON user data): printing it
            # must not disturb the framing of what is printed around it
            body = ('{"Note": "%s"}' % rng.choice(["caf\u00e9", "\\ud83d", "\U0001f600", "\\udfff x"])).encode("utf-8")
            ueid = 0x6A00 + i
            good.append((rng.choice(["n_uni_%d", "zz_uni_%d", "0_uni_%d"]) % i, dirgen.set_ids(c04.mini_pel(b"O", [(b"UD", 1, 1, 0x2000, body)]), eid=ueid), dict(kind="pel", eid=ueid)))
        bits = rng.choice([1, 1, 0, rng.randrange(64)])
        check_pair(run, model, rng, good, junk, plugins, bits, i)
    if bad:
        run.violation("decoder-prints-to-stdout", "decoder modules print diagnostics to standard output: %s" % bad[:4],
                      dict(kind="proof", theorem="source scan: decoders never write to stdout (the model's decoders are pure)", detail=bad),
                      no_input=not any(v["key"].startswith(("stdout-changed", "stdout-not-json", "stdout-noise")) for v in run.violations))


def replay(run, model, path):
    if not replay_file(run, model, path):
        globals()["run"](run, model, dict(ok=True))
