"""C12: --clean never deletes a PEL whose decoded output was not completely written.  Exhaustive fault injection."""
import builtins
import contextlib
import errno
import io
import json
from collections import OrderedDict
import os
import shutil
import subprocess
import sys
import tempfile

import cli_runner
import common
import dirgen
import pelgen
from props import c04

RULE = ("both --clean paths (parseAndWriteOutput for --json, main() for --file) are run on the real code under EVERY fault schedule: "
        "any subset of {open, write, close} of the output file respectively {write, flush} of stdout (document and -x hex display) raising OSError (ENOSPC/EIO/EPIPE), "
        "x decode outcome {decodes, filtered out, truncated, bad header}; the observed sequence of operations and the survival "
        "of the input file are compared with the statement and with the Coq model; plus real-OS runs with stdout on /dev/full and on "
        "a closed pipe; non-trivial = distinct (path, decode outcome, schedule)")


class FaultyFile:
    def __init__(self, real, sched, events, path, real_open):
        self.real, self.sched, self.events, self.path, self.real_open = real, sched, events, path, real_open

    def _w(self):
        self.events.append("write")
        if self.sched.get("write"):
            raise OSError(errno.ENOSPC, "No space left on device (injected)")

    def write(self, s):
        self._w()
        return self.real.write(s)

    def writelines(self, s):
        self._w()
        return self.real.writelines(s)

    def close(self):
        self.events.append("close")
        if self.sched.get("close"):
            self.real.close()
            with self.real_open(self.path, "w"):     # the buffered data never reached the disk
                pass
            raise OSError(errno.EIO, "Input/output error on close (injected)")
        return self.real.close()

    def __enter__(self):
        return self

    def __exit__(self, *a):
        self.close()
        return False


class FaultyStdout(io.StringIO):
    def __init__(self, sched, events):
        super().__init__()
        self.sched, self.events = sched, events

    def write(self, s):
        if "print" not in self.events:
            self.events.append("print")
        if self.sched.get("print"):
            raise OSError(errno.EPIPE, "Broken pipe (injected)")
        return super().write(s)

    def flush(self):
        self.events.append("flush")
        if self.sched.get("flush"):
            raise OSError(errno.ENOSPC, "No space left on device (injected)")


def inputs(model, rng):
    case = pelgen.gen_case(model, rng, maxsecs=3, maxpayload=30, plugins=True)
    good = dirgen.set_ids(case["data"], eid=0x51000001)
    b = bytearray(good)
    b[8 + 8 + 8 + 1 + 2 + 1 + 4 + 8 + 4 + 4 + 8 + 2] = 0x10     # recovered severity ...
    b[8 + 8 + 8 + 1 + 2 + 1 + 4 + 8 + 4 + 4 + 8 + 10: 8 + 8 + 8 + 1 + 2 + 1 + 4 + 8 + 4 + 4 + 8 + 12] = b"\x40\x00"  # ... hidden: filtered by default
    return dict(ok=(good, ["-E"]), filtered=(bytes(b), []), reject=(good[:-3] if len(good) > 75 else good[:60], ["-E"]), badheader=(b"XX" + good[2:], ["-E"]))


def run_json(data, sel, sched, tmp, pre=None):
    """parseAndWriteOutput with faults on the output file; returns (events, input still there, output complete).
    pre: what an earlier run has left under the output name (a truncated or a different rendering), or None"""
    from pel.peltool import peltool
    src = os.path.join(tmp, "in", "pel_51000001")
    os.makedirs(os.path.dirname(src), exist_ok=True)
    os.makedirs(os.path.join(tmp, "out"), exist_ok=True)
    with open(src, "wb") as f:
        f.write(data)
    want = None
    if pre is not None:
        r0 = pelgen.impl_decode(data, True)
        if r0["kind"] == "ok":
            want = r0["doc"]
            with open(os.path.join(tmp, "out", "pel_51000001.%s.json" % r0["eid"]), "w") as f0:
                f0.write(pre(r0["text"]))
    events = []
    real_open, real_remove = builtins.open, os.remove

    def fake_open(path, mode="r", *a, **k):
        if str(path).startswith(os.path.join(tmp, "out")) and "w" in mode:
            events.append("open")
            if sched.get("open"):
                raise OSError(errno.ENOSPC, "No space left on device (injected)")
            return FaultyFile(real_open(path, mode, *a, **k), sched, events, path, real_open)
        return real_open(path, mode, *a, **k)

    def fake_remove(path):
        events.append("remove")
        return real_remove(path)
    cfg = pelgen.make_config(True, every=("-E" in sel))
    err = io.StringIO()
    builtins.open, os.remove = fake_open, fake_remove
    try:
        with contextlib.redirect_stderr(err), contextlib.redirect_stdout(io.StringIO()):
            try:
                peltool.parseAndWriteOutput(src, os.path.join(tmp, "out"), cfg, True)
            except Exception as e:  # noqa: BLE001
                events.append("raised:" + type(e).__name__)
    finally:
        builtins.open, os.remove = real_open, real_remove
    outs = os.listdir(os.path.join(tmp, "out"))
    complete = False
    if outs:
        try:
            back = json.loads(open(os.path.join(tmp, "out", outs[0])).read(), object_pairs_hook=OrderedDict)
            complete = not (sched.get("open") or sched.get("write") or sched.get("close"))
            if want is not None and pelgen.first_diff(want, back):
                complete = False                 # what is there is not this PEL's document (left by the earlier run)
        except Exception:
            complete = False
    alive = os.path.exists(src)
    shutil.rmtree(os.path.join(tmp, "in"), ignore_errors=True)
    shutil.rmtree(os.path.join(tmp, "out"), ignore_errors=True)
    return events, alive, complete


def run_file(data, sel, sched, tmp, hexm=False):
    src = os.path.join(tmp, "in2", "one.pel")
    os.makedirs(os.path.dirname(src), exist_ok=True)
    with open(src, "wb") as f:
        f.write(data)
    events = []
    real_remove = os.remove

    def fake_remove(path):
        events.append("remove")
        return real_remove(path)
    out = FaultyStdout(sched, events)
    from pel.peltool import peltool
    old_argv, old_out, old_err = sys.argv, sys.stdout, sys.stderr
    sys.argv = ["peltool.py"] + sel + ["-f", src, "--clean"] + (["-x"] if hexm else [])
    sys.stdout, sys.stderr = out, io.StringIO()
    os.remove = fake_remove
    try:
        try:
            peltool.main()
        except SystemExit:
            pass
        except Exception as e:  # noqa: BLE001
            events.append("raised:" + type(e).__name__)
    finally:
        sys.argv, sys.stdout, sys.stderr = old_argv, old_out, old_err
        os.remove = real_remove
    alive = os.path.exists(src)
    printed = out.getvalue()
    shutil.rmtree(os.path.join(tmp, "in2"), ignore_errors=True)
    return events, alive, bool(printed.strip()) and not sched.get("print") and not sched.get("flush")


def os_level(run, data, tmp, target, hexm=False):
    """real process, stdout on /dev/full or a closed pipe"""
    src = os.path.join(tmp, "os.pel")
    with open(src, "wb") as f:
        f.write(data)
    cmd = [common.PY, os.path.join(common.ROOT, cli_runner.PELTOOL), "-E", "-f", src, "--clean"] + (["-x"] if hexm else [])
    if target == "devfull":
        with open("/dev/full", "w") as out:
            p = subprocess.run(cmd, stdout=out, stderr=subprocess.PIPE, env=common.IMPL_ENV, timeout=60)
    else:
        r, w = os.pipe()
        os.close(r)
        p = subprocess.run(cmd, stdout=w, stderr=subprocess.PIPE, env=common.IMPL_ENV, timeout=60)
        os.close(w)
    run.evaluations += 1
    run.count("os:" + target + (":hex" if hexm else ""))
    alive = os.path.exists(src)
    if not alive:
        run.violation("os:" + target, "peltool -f x --clean with stdout on %s deleted the PEL although its output was lost (rc %d)" % (target, p.returncode),
                      dict(kind="S", fn="os-level", target=target, rc=p.returncode, stderr=p.stderr.decode()[-300:], input_hex=data.hex()))
    else:
        os.remove(src)


def os_level_json(run, data, tmp, limit):
    """real process: --json --clean with the size of the files it may write limited by the kernel (RLIMIT_FSIZE, as a quota or a
    full disk would): whatever way the output is written, the input may only go when the whole document is in the output file"""
    import resource
    import signal
    d = os.path.join(tmp, "fs_in")
    o = os.path.join(tmp, "fs_out")
    shutil.rmtree(d, ignore_errors=True)
    shutil.rmtree(o, ignore_errors=True)
    os.makedirs(d)
    os.makedirs(o)
    src = os.path.join(d, "pel_51000001")
    with open(src, "wb") as f:
        f.write(data)
    want = pelgen.impl_decode(data, True)
    if want["kind"] != "ok" or len(want["text"]) <= limit:
        return

    def pre():
        signal.signal(signal.SIGXFSZ, signal.SIG_IGN)
        resource.setrlimit(resource.RLIMIT_FSIZE, (limit, limit))
    cmd = [common.PY, os.path.join(common.ROOT, cli_runner.PELTOOL), "-E", "-p", d, "-j", "-o", o, "--clean"]
    p = subprocess.run(cmd, stdout=subprocess.PIPE, stderr=subprocess.PIPE, env=common.IMPL_ENV, timeout=60, preexec_fn=pre)
    run.evaluations += 1
    run.count("os:fsize")
    alive = os.path.exists(src)
    outs = os.listdir(o)
    complete = False
    if outs:
        try:
            complete = pelgen.first_diff(want["doc"], json.loads(open(os.path.join(o, outs[0])).read(), object_pairs_hook=OrderedDict)) is None
        except Exception:  # noqa: BLE001
            complete = False
    if not alive and not complete:
        run.violation("os:fsize", "peltool -j --clean under a file-size limit of %d bytes removed the PEL although its document (%d bytes) is not in the output file"
                      % (limit, len(want["text"])), dict(kind="S", fn="os-level", target="fsize", limit=limit, rc=p.returncode,
                                                          stderr=p.stderr.decode()[-300:], input_hex=data.hex()))


def run(run, model, proof):
    rng = run.rng
    thorough = run.tier == "thorough"
    run.rule = RULE
    tmp = tempfile.mkdtemp(prefix="verif_c12_")
    try:
        for rep in range(6 if thorough else 2):
            ins = inputs(model, rng)
            for dec_name, (data, sel) in ins.items():
                dcode = dict(ok=0, filtered=1, reject=2, badheader=1)[dec_name]
                # ---- --json --clean: all subsets of {open, write, close}
                for bits in range(8):
                    sched = dict(open=bits & 1, write=bits & 2, close=bits & 4)
                    events, alive, complete = run_json(data, sel, sched, tmp)
                    run.evaluations += 1
                    run.nontriv(("json", dec_name, bits))
                    run.count("json:" + dec_name)
                    m = dict(model.call("clean_trace", b"\0", bytes([dcode]), b"\1", bytes([bits]))[1])
                    rp = dict(fn="json-clean", decode=dec_name, schedule=sched, events=events, input_survives=alive, output_complete=complete, input_hex=data.hex())
                    if not alive and not (dec_name == "ok" and complete):
                        run.violation("json-clean:removed-without-output:%s:%s" % (dec_name, "+".join(k for k, v in sched.items() if v) or "nofault"),
                                      "--json --clean removed the input although %s" % ("its output was not completely written" if dec_name == "ok" else "it was not decoded"),
                                      dict(rp, kind="S"))
                    trace = [e for e in events if not e.startswith("raised")]
                    if trace != m["trace"] or (not alive) != m["removed"]:
                        run.disagreements_checked += 1
                        run.violation("model:json-clean", "operations %r / removed=%s differ from the model %r / %s" % (trace, not alive, m["trace"], m["removed"]),
                                      dict(rp, kind="M", correspondence="Model.Clean.json_prog vs parseAndWriteOutput", model=m), no_input=True)
                # ---- --json --clean run again over what an earlier, interrupted or different, run has left under the output name
                if dec_name == "ok":
                    for pname, pre in (("truncated", lambda t: t[:max(1, len(t) // 2)]), ("other", lambda t: "{}\n"), ("longer", lambda t: t + " " * 4096 + "[1]\n")):
                        for bits in (0, 2, 4):
                            sched = dict(open=bits & 1, write=bits & 2, close=bits & 4)
                            events, alive, complete = run_json(data, sel, sched, tmp, pre=pre)
                            run.evaluations += 1
                            run.count("json-rerun:" + pname)
                            rp = dict(fn="json-clean", decode=dec_name, schedule=sched, events=events, input_survives=alive, output_complete=complete,
                                      input_hex=data.hex(), earlier_run_left=pname)
                            if not alive and not complete:
                                run.violation("json-clean:rerun-removed-without-output:%s" % pname,
                                              "--json --clean, run over the %s output an earlier run left, removed the input although its document is not in the output file" % pname,
                                              dict(rp, kind="S"))
                # ---- --file --clean, as a document and as a hex display (-x): all subsets of {print, flush}
                for bits in range(8):
                    hexm = bool(bits & 4)
                    sched = dict(print=bits & 1, flush=bits & 2)
                    events, alive, complete = run_file(data, sel, sched, tmp, hexm=hexm)
                    run.evaluations += 1
                    run.nontriv(("file", dec_name, bits))
                    run.count(("file-hex:" if hexm else "file:") + dec_name)
                    fb = (8 if sched["print"] else 0) | (16 if sched["flush"] else 0)
                    m = dict(model.call("clean_trace", b"\1", bytes([dcode]), b"\1", bytes([fb]))[1])
                    rp = dict(fn="file-clean", decode=dec_name, schedule=sched, hex=hexm, events=events, input_survives=alive, output_complete=complete, input_hex=data.hex())
                    if not alive and not (dec_name == "ok" and complete):
                        run.violation("file-clean:removed-without-output:%s:%s" % (dec_name, "+".join(k for k, v in sched.items() if v) or "nofault"),
                                      "--file --clean removed the input although %s" % ("the document was not completely printed" if dec_name == "ok" else "it was not decoded"),
                                      dict(rp, kind="S"))
                    if (not alive) != m["removed"]:
                        run.disagreements_checked += 1
                        run.violation("model:file-clean", "removed=%s differs from the model (%s)" % (not alive, m["removed"]),
                                      dict(rp, kind="M", correspondence="Model.Clean.file_prog vs main() --file", model=m), no_input=True)
            for limit in (0, 1, 300, 700):
                os_level_json(run, ins["ok"][0], tmp, limit)
            for target in ("devfull", "closedpipe"):
                os_level(run, ins["ok"][0], tmp, target)
                os_level(run, ins["ok"][0], tmp, target, hexm=True)
        run.exhaustive = True
        run.sample(dict(path="json", decode="ok", schedule=dict(close=True), model=dict(model.call("clean_trace", b"\0", b"\0", b"\1", bytes([4]))[1])))
        run.sample(dict(path="file", decode="reject", schedule={}, model=dict(model.call("clean_trace", b"\1", b"\2", b"\1", b"\0")[1])))
    finally:
        shutil.rmtree(tmp, ignore_errors=True)


def replay(run, model, path):
    globals()["run"](run, model, dict(ok=True))
