"""C19: decoding a PEL gives the same result whatever was decoded before it."""
import hashlib
import json
import os
import subprocess

import cli_runner
import common
import dirgen
import fixtures as fxm
import pelgen
from props import c04, c18

RULE = ("histories of 2..30 decodes inside ONE interpreter without resetting anything: generated and hand-framed PELs (well-formed, truncated, "
        "corrupted; creators/components hitting fixture parser modules that echo, fail always, or fail only for particular payloads "
        "(ImportError / ValueError raised from inside the call), shipped plugins), repeated and interleaved; every output is compared "
        "with the decode of the same bytes from a reset state (empty caches, fixture modules unloaded), with the Coq model, and for a "
        "sample with a fresh interpreter process; plus -a on a directory in both orders vs per-file -f; non-trivial = distinct history")


def digest(r):
    if r["kind"] == "ok":
        return ("ok", r["text"])
    return (r["kind"],)


def fresh_worker_digest(items):
    """decode each PEL in its own fresh interpreter"""
    out = []
    for data, plugins in items:
        cmd = [common.PY, os.path.join(common.VERIF, "harness", "impl_worker.py"), common.ROOT]
        p = subprocess.run(cmd, input=json.dumps(dict(op="decode", hex=data.hex(), plugins=plugins)) + "\n", capture_output=True, text=True,
                           env=common.IMPL_ENV, timeout=60)
        out.append(json.loads(p.stdout.splitlines()[-1]))
    return out


def fresh_process_decode(data, plugins, fx):
    """the same bytes in a brand-new interpreter (with the same fixture modules available)"""
    cmd = [common.PY, os.path.join(common.VERIF, "harness", "impl_worker.py"), common.ROOT]
    req = dict(op="decode_fx", hex=data.hex(), plugins=plugins, fixtures=[list(f) for f in fx])
    p = subprocess.run(cmd, input=json.dumps(req) + "\n", capture_output=True, text=True, env=common.IMPL_ENV, timeout=120)
    return json.loads(p.stdout.splitlines()[-1])


def history_case(run, model, rng, i, sample_fresh):
    fx = []
    pool = []
    # a small universe of PELs sharing creators/components so that caches are hit across logs
    creator = rng.choice([b"B", b"T", b"O", b"P"])
    leafs = set()
    for _ in range(rng.randrange(2, 6)):
        cr, secs, meta = c18.build_case(rng)
        cr = creator if rng.random() < 0.7 else cr
        for m in meta:
            if m["kind"] == "ud" and "creator" in m and rng.random() < 0.8:
                m["creator"] = m["creator"]
        data = c04.mini_pel(cr, secs)
        pool.append((data, meta, cr))
        for f in c18.fixture_set(rng, cr, meta):
            if (f[0], f[1]) not in leafs:
                leafs.add((f[0], f[1]))
                beh = rng.choice([7, 7, 8, 9, 8, 2, 3, 1, 0, 6])
                fx.append((f[0], f[1], beh, f[3]))
    for _ in range(rng.randrange(0, 3)):
        case = pelgen.gen_case(model, rng, maxsecs=4, maxpayload=40, plugins=True)
        pool.append((case["data"], [], b"?"))
    # damaged variants
    for data, meta, cr in list(pool)[:3]:
        if len(data) > 80:
            pool.append((data[:rng.randrange(60, len(data))], meta, cr))
            b = bytearray(data)
            b[rng.randrange(72, len(b))] ^= 0xFF
            pool.append((bytes(b), meta, cr))
    hist = [rng.choice(pool) for _ in range(rng.randrange(2, 31))]
    plugins_seq = [rng.random() < 0.85 for _ in hist]
    run.evaluations += len(hist)
    run.nontriv(tuple(h[0] for h in hist) + tuple(fx))
    run.count("history-length:%d" % (len(hist) // 5 * 5))
    rp = dict(fn="history", fixtures=[list(f) for f in fx], history=[h[0].hex() for h in hist], plugins=plugins_seq)
    with fxm.Fixtures(fx) as F:
        # 1. the history, nothing reset in between
        got = [pelgen.impl_decode(h[0], pl) for h, pl in zip(hist, plugins_seq)]
        # 2. each PEL from a reset state
        ref = []
        for h, pl in zip(hist, plugins_seq):
            fxm.reset_caches()
            ref.append(pelgen.impl_decode(h[0], pl))
        margs = F.model_args()
        for idx, (g, r) in enumerate(zip(got, ref)):
            if digest(g) != digest(r):
                d = pelgen.first_diff(r.get("doc"), g.get("doc")) if g["kind"] == r["kind"] == "ok" else "%s vs %s" % (r["kind"], g["kind"])
                run.violation("history-dependent", "decode #%d of a history differs from the decode of the same bytes in a fresh state: %s" % (idx, d),
                              dict(rp, kind="S", index=idx, where=d))
                break
        # 2b. the last decode of the history against a brand-new interpreter (state that reset_caches() does not know about)
        if i % 2 == 0 or run.tier == "thorough":
            f = fresh_process_decode(hist[-1][0], plugins_seq[-1], fx)
            g = got[-1]
            same = f["kind"] == g["kind"] and (f["kind"] != "ok" or f.get("text") == g["text"])
            run.count("fresh-process-reference")
            if not same:
                run.violation("history-dependent:vs-fresh-process", "the last decode of a history differs from the decode of the same bytes in a new interpreter",
                              dict(rp, kind="S", index=len(hist) - 1, fresh_kind=f["kind"], history_kind=g["kind"]))
        # 3. the model (stateless by theorem C19) against the history outputs
        for idx, (h, pl) in enumerate(zip(hist, plugins_seq)):
            if idx % 3 and idx != len(hist) - 1:
                continue
            mo = pelgen.model_outcome(model.call("decode_fx", bytes([1 if pl else 0]), h[0], *margs))
            g = got[idx]
            if mo[0] == "unsupported":
                run.unsupported += 1
                continue
            if mo[0] != g["kind"] or (mo[0] == "ok" and pelgen.first_diff(mo[2], g["doc"])):
                run.disagreements_checked += 1
                if digest(g) == digest(ref[idx]):
                    run.violation("model:history", "model and decoder disagree on decode #%d (history and fresh state agree)" % idx,
                                  dict(rp, kind="M", correspondence="Model.Pel.decode (fixture env) vs parsePEL", index=idx), no_input=True)
    if sample_fresh:
        fresh = fresh_worker_digest([(h[0], pl) for h, pl in list(zip(hist, plugins_seq))[:4] if not fx])
        for (h, pl), f, g in zip(list(zip(hist, plugins_seq))[:4], fresh, got):
            if fx:
                break
            mine = dict(kind=g["kind"], sha=hashlib.sha1(g["text"].encode()).hexdigest() if g["kind"] == "ok" else None)
            if f["kind"] != mine["kind"] or (f["kind"] == "ok" and f.get("sha") != hashlib.sha1(__import__("pel.peltool.peltool", fromlist=["x"]).prettyPrint(g["text"]).encode()).hexdigest()):
                run.violation("history-vs-fresh-process", "a decode inside a history differs from a fresh interpreter", dict(rp, kind="S", fresh=f, mine=mine))


def directory_orders(run, model, rng):
    files = dirgen.gen_dir(model, rng, rng.randrange(2, 7), plugins=True)
    if rng.random() < 0.5:
        # two different logs that carry the same entry id (copied between systems, or a counter that started over): what is
        # shown for one must not depend on the other having been shown before
        src = rng.choice(files)
        other = rng.choice(files)
        twin = dirgen.set_ids(other[1], eid=src[2]["eid"])
        files.append((rng.choice(["0_twin", "m_twin", "zz_twin"]), twin, dict(kind="pel", eid=src[2]["eid"])))
    if rng.random() < 0.6:
        # logs whose decoding raises (cut behind the headers), before, between and after the good ones: what is shown for a good log
        # does not depend on a failed decode having come before it
        for k in range(rng.randrange(1, 3)):
            src = rng.choice(files)
            cut = src[1][:max(73, len(src[1]) - rng.randrange(1, 9))]
            files.append((rng.choice(["0_cut%d", "m_cut%d", "zz_cut%d"]) % k, cut, dict(kind="junk")))
    run.evaluations += 1
    with dirgen.TempDir(files) as d:
        rc1, out1, _ = cli_runner.run_inproc(["-p", d, "-E", "-a"])
        rc2, out2, _ = cli_runner.run_inproc(["-p", d, "-E", "-a", "-r"])
        single = {}
        for name, data, _m in files:
            fxm.reset_caches()
            rc, out, _ = cli_runner.run_inproc(["-E", "-f", os.path.join(d, name)])
            single[name] = json.loads(out) if out.strip() else None
    a1, a2 = json.loads(out1), json.loads(out2)
    run.count("directory-orders")
    names = sorted(single)
    want = [single[n] for n in names if single[n] is not None]
    if a1 != want or a2 != list(reversed(want)):
        run.violation("directory-order-dependent", "-a (either order) differs from decoding each file on its own",
                      dict(kind="S", fn="directory", files=[[f[0], f[1].hex()] for f in files]))


def registry_history(run, model, rng):
    """with a message registry and component-name files for several creators installed (fixture pel_registry): PELs of different
    creators decoded one after the other in ONE interpreter, each compared with the same bytes in a fresh interpreter that has
    the same registry"""
    from props import c03reg
    pels, _ = c03reg.rand_registry(rng)
    comp_ids = ["2000", "1234", "ABCD"]
    comps = {cr: {c: "name-%s-%s" % (cr, c) for c in rng.sample(comp_ids, rng.randrange(1, 4))} for cr in rng.sample(["O", "B", "H", "T"], rng.randrange(2, 5))}
    hist = []
    for _ in range(rng.randrange(3, 9)):
        creator = rng.choice([b"O", b"B", b"H", b"T", b"P"])
        comp = int(rng.choice(comp_ids), 16)
        secs = [(b"UD", 1, 7, comp, bytes(rng.randrange(256) for _ in range(8)))]
        if rng.random() < 0.75:
            # a primary SRC whose reference code may hit an entry of the message registry (repeated codes, codes earlier in the
            # registry than the previous hit, unregistered codes in between: the look-up must not depend on earlier look-ups)
            from props import c18
            ref = rng.choice(["BD", "11", "BC", "B7"]) + rng.choice(["8D", "00", "12"]) + rng.choice(["8D12", "1234", "E500", "00E5", "2030", "8D00"])
            hits = [p_ for p_ in pels if len(p_["SRC"].get("ReasonCode", "")) == 6]
            if hits and rng.random() < 0.7:
                # a code that IS in the registry (the same entry is hit again and again within a history, its message arguments and
                # word descriptions included)
                h = rng.choice(hits[:2])
                ref = h["SRC"].get("Type", "BD") + rng.choice(["8D", "00"]) + h["SRC"]["ReasonCode"][2:6]
            body, _words = c18.src_body(rng, ref, proc=rng.choice([None, "BMC0001"]), wcount=9)
            secs.insert(0, (b"PS", 1, 1, comp, body))
        if rng.random() < 0.5:
            secs.append((b"ED", 1, 7, int(rng.choice(comp_ids), 16), rng.choice([b"O", b"B", b"H"]) + b"\0\0\0" + b"abcd"))
        data = c04.mini_pel(creator, secs)
        data = data[:6] + comp.to_bytes(2, "big") + data[8:]
        if rng.random() < 0.3:
            data = data[:-3]          # a log that fails to decode after its headers have been shown
        hist.append(data)
    w = c03reg.RegistryWorker(pels, comps)
    try:
        got = [w.decode(d, True) for d in hist]
    finally:
        w.close()
    for idx, d in enumerate(hist):
        f = c03reg.RegistryWorker(pels, comps)
        try:
            ref = f.decode(d, True)
        finally:
            f.close()
        run.evaluations += 1
        run.count("registry-history")
        if not (ref.get("kind") == got[idx].get("kind") and ref.get("text") == got[idx].get("text")):
            run.violation("history-dependent:registry", "decode #%d of a history (component-name files for %s installed) differs from a fresh interpreter" % (idx, sorted(comps)),
                          dict(kind="S", fn="registry-history", history=[h.hex() for h in hist], index=idx, components=comps, registry=pels,
                               in_history=(got[idx].get("text") or got[idx].get("kind"))[:600], fresh=(ref.get("text") or ref.get("kind"))[:600]))
            break
    run.nontriv(tuple(hist))


def drawer_history(run, model, rng):
    """logs of the I/O drawer (creator 'M', component 0x2C00, ILOG user data) decoded one after the other in ONE interpreter: the
    PTE table is the shipped one for every log, whatever entries earlier logs have matched (exact entries, wild-card entries over the
    same prefix, entries in between); each decode is compared with a fresh interpreter's"""
    import struct
    from props import c03reg
    from io_drawer.drawer_type import DRAWER_TYPES
    from io_drawer.ilog import PTETable
    dt = rng.choice(DRAWER_TYPES)
    pats = [e.pte_pattern if hasattr(e, "pte_pattern") else e.pattern for e in PTETable(dt.get_header_file_path()).entries]
    wild = [p_ for p_ in pats if "*" in p_] or pats
    import re as _re
    pairs = [(w_, e_) for w_ in wild for e_ in pats if "*" not in e_ and _re.fullmatch(w_.replace("*", "."), e_, _re.IGNORECASE)]
    hist = []
    if pairs and rng.random() < 0.8:
        # a PTE only the wild-card entry matches, then one a more specific entry of the same family matches (and the other way round)
        w_, e_ = rng.choice(pairs)
        only_w = "".join(c if c != "*" else rng.choice("0123456789ABCDEF") for c in w_)
        fam = [int(only_w, 16), int(e_, 16)]
        if rng.random() < 0.5:
            fam.reverse()
        for v in fam + [fam[0]]:
            hist.append(c04.mini_pel(b"M", [(b"UD", dt.user_data_version, 73, 0x2C00, struct.pack(">HHI", rng.randrange(1, 4000), 1, v))]))
    for _ in range(rng.randrange(2, 5)):
        ptes = []
        for _e in range(rng.randrange(1, 5)):
            base = rng.choice(wild if rng.random() < 0.6 else pats)
            exact = [p_ for p_ in pats if "*" not in p_ and p_[:6].upper() == base[:6].upper()]
            pick = rng.choice(exact) if exact and rng.random() < 0.5 else "".join(c if c != "*" else rng.choice("0123456789ABCDEF") for c in base)
            try:
                ptes.append(int(pick, 16))
            except ValueError:
                ptes.append(rng.randrange(1 << 32))
        body = b"".join(struct.pack(">HHI", rng.randrange(1, 4000), i + 1, v) for i, v in enumerate(ptes))
        hist.append(c04.mini_pel(b"M", [(b"UD", dt.user_data_version, 73, 0x2C00, body)]))
    w = c03reg.RegistryWorker([], {})
    try:
        got = [w.decode(d, True) for d in hist]
    finally:
        w.close()
    for idx, d in enumerate(hist):
        f = c03reg.RegistryWorker([], {})
        try:
            ref = f.decode(d, True)
        finally:
            f.close()
        run.evaluations += 1
        run.count("drawer-history")
        if not (ref.get("kind") == got[idx].get("kind") and ref.get("text") == got[idx].get("text")):
            run.violation("history-dependent:drawer", "decode #%d of a history of I/O-drawer logs differs from a fresh interpreter" % idx,
                          dict(kind="S", fn="drawer-history", history=[h.hex() for h in hist], index=idx,
                               in_history=(got[idx].get("text") or got[idx].get("kind"))[-600:], fresh=(ref.get("text") or ref.get("kind"))[-600:]))
            break
    run.nontriv(tuple(hist))


def run(run, model, proof):
    rng = run.rng
    thorough = run.tier == "thorough"
    run.rule = RULE
    for _ in range(60 if thorough else 8):
        drawer_history(run, model, rng)
    for _ in range(100 if thorough else 12):
        registry_history(run, model, rng)
    n = 2500 if thorough else 160
    for i in range(n):
        history_case(run, model, rng, i, sample_fresh=(i % (100 if thorough else 40) == 0))
        if i % 8 == 0:
            directory_orders(run, model, rng)
    run.sample(dict(history="PEL A (UD b1234, payload starting 0xFF -> fixture raises ImportError), PEL B (UD b1234), PEL A again", compared="each with the same bytes decoded after reset_caches()"))


def replay(run, model, path):
    r = json.load(open(path))
    if r.get("fn") == "registry-history":
        for _ in range(20):
            registry_history(run, model, run.rng)
        return
    if r.get("fn") != "history":
        return globals()["run"](run, model, dict(ok=True))
    fx = [tuple(f) for f in r["fixtures"]]
    hist = [bytes.fromhex(h) for h in r["history"]]
    with fxm.Fixtures(fx):
        got = [pelgen.impl_decode(h, pl) for h, pl in zip(hist, r["plugins"])]
        for idx, (h, pl) in enumerate(zip(hist, r["plugins"])):
            fxm.reset_caches()
            ref = pelgen.impl_decode(h, pl)
            run.evaluations += 1
            if digest(got[idx]) != digest(ref):
                run.violation("history-dependent", "decode #%d of the recorded history differs from a fresh-state decode" % idx, dict(r, index=idx))
                break
        f = fresh_process_decode(hist[-1], r["plugins"][-1], fx)
        g = got[-1]
        if not (f["kind"] == g["kind"] and (f["kind"] != "ok" or f.get("text") == g["text"])):
            run.violation("history-dependent:vs-fresh-process", "the last decode of the recorded history differs from a new interpreter", dict(r))
