"""C16 correspondence: io_drawer.hlog.parse_hlog_data against the Coq model (Model/Hlog.v, proved equal to the
specification in Props/C16.v) and against the property text evaluated directly on the implementation's output.

The field table is abstract in Coq; here it is always the one the real get_hlog_fields() reads from a header file:
the two shipped files, and synthetic files written to a scratch directory."""
import json
import os
import shutil
import tempfile

import common

HEAD1 = ["Hex Dump", "--------"]
HEAD2 = ["", "Non-Zero Field Values", "---------------------"]


# ---------------------------------------------------------------------------------------------
# implementation access

def impl_fields(path):
    from io_drawer.hlog import get_hlog_fields
    try:
        return [(f.name, f.size) for f in get_hlog_fields(path)]
    except Exception as e:  # noqa: BLE001  (an escaping exception is a result of its own)
        return [("<get_hlog_fields raised %s: %s>" % (type(e).__name__, str(e)[:120]), 1)]


def impl_parse(d, path):
    from io_drawer.hlog import parse_hlog_data
    try:
        return parse_hlog_data(memoryview(bytes(d)), path)
    except AssertionError:
        return None
    except Exception as e:  # noqa: BLE001
        return ["<parse_hlog_data raised %s: %s>" % (type(e).__name__, str(e)[:120])]


def impl_dump_parse(lines):
    import pel.hexdump as hd
    return bytes(hd.parse(lines, hd.DEFAULT_LINE_FORMAT))


def shipped_paths():
    from io_drawer.drawer_type import DRAWER_TYPES
    return [(d.name, d.get_header_file_path()) for d in DRAWER_TYPES]


# ---------------------------------------------------------------------------------------------
# the property, stated directly (Python re-statement of Spec/IoDrawer.v take_fitting / nonzero_lines)

def expected_field_lines(fields, d):
    out, off = [], 0
    for name, w in fields:
        if off + w > len(d):
            break
        v = int.from_bytes(d[off:off + w], "big")
        if v != 0:
            out.append("%s: 0x%s" % (name, ("%X" % v).rjust(2 * w, "0")))
        off += w
    return out


def prop_hlog(fields, d, lines):
    """None if the property holds for this output, else (key, what)."""
    if lines is None:
        return ("raises", "parse_hlog_data raised on %d bytes" % len(d))
    if lines[:2] != HEAD1:
        return ("heading", "output does not start with the dump heading")
    n = (len(d) + 15) // 16
    dump = lines[2:2 + n]
    if len(dump) != n or impl_dump_parse(dump) != bytes(d):
        return ("dump-lossy", "the hex dump does not parse back to the %d bytes of the record" % len(d))
    if lines[2 + n:5 + n] != HEAD2:
        return ("heading2", "field heading missing after %d dump lines" % n)
    got = lines[5 + n:]
    exp = expected_field_lines(fields, d)
    if got != exp:
        i = 0
        while i < min(len(got), len(exp)) and got[i] == exp[i]:
            i += 1
        return ("fields", "field lines differ at line %d: expected %r, got %r" % (
            i, exp[i] if i < len(exp) else None, got[i] if i < len(got) else None))
    return None


# ---------------------------------------------------------------------------------------------

def model_args(fields, d):
    a = [bytes(d)]
    for name, w in fields:
        a += [w, name]
    return a


def check_cases(run, model, table, fields, path, datas, tag):
    """table: replay description of the header file; datas: list of bytes."""
    for d in datas:
        exp = model.call("hlog", *model_args(fields, d))
        run.evaluations += 1
        got = impl_parse(d, path)
        what = prop_hlog(fields, d, got)
        rep = dict(fn="hlog", table=table, fields=[list(f) for f in fields], input_hex=bytes(d).hex(), actual=got)
        if got != exp:
            run.disagreements_checked += 1
            run.violation("hlog:model-vs-impl" if what is None else "hlog:" + what[0],
                          "parse_hlog_data(%d bytes, %d fields) differs from the model%s" % (
                              len(d), len(fields), "" if what is None else ": " + what[1]),
                          dict(rep, kind="M", expected=exp,
                               correspondence="Model.Hlog.parse_hlog = io_drawer.hlog.parse_hlog_data"),
                          no_input=what is None)
        elif what is not None:
            # model and implementation agree but the Python statement of the property fails: the proved
            # theorem says the model satisfies the Coq specification, so the two statements differ
            run.violation("hlog:" + what[0], what[1], dict(rep, kind="S", expected=expected_field_lines(fields, d)))
        run.count(tag)
        if got is not None and len(got) > 5 + (len(d) + 15) // 16:
            run.nontriv((tuple(fields), bytes(d)))


def data_styles(rng, n, fields):
    """zero / all-ones / random / one byte set per position class / low values (leading zero digits)"""
    out = [bytes(n), b"\xff" * n, bytes(rng.randrange(256) for _ in range(n)),
           bytes(rng.choice((0, 0, 1, 0x0f, 0x10, 0xa0)) for _ in range(n))]
    if n:
        k = rng.randrange(n)
        out.append(bytes(n - 1 - k) + bytes([rng.randrange(1, 256)]) + bytes(k))
    return out


def sweep(run, model, rng, table, fields, path, tag, extra=8):
    total = sum(w for _, w in fields)
    datas = []
    for n in range(0, total + extra + 1):
        datas += data_styles(rng, n, fields)
    check_cases(run, model, table, fields, path, datas, tag)


# ---------------------------------------------------------------------------------------------
# synthetic header files

NAME_ALPHABET = "abcxyz_019 %{}:.-#'\\é€"


def gen_name(rng, i):
    if rng.random() < 0.15:
        return rng.choice(("hl_reserved", "pad", "f0"))        # the same description on several fields (padding entries)
    k = rng.randrange(6)
    if k == 0:
        return "f%d" % i
    if k == 1:
        return "hl_" + "".join(rng.choice("abcdefgh_12") for _ in range(rng.randrange(1, 25)))
    return "".join(rng.choice(NAME_ALPHABET) for _ in range(rng.randrange(1, 12))) + str(i)


def header_lines(rng, fields, noise=False):
    """Header-file text declaring exactly [fields], in order.  With noise: layout variations and lines the
    grammar does not accept as declarations (sizes other than 1/2, missing braces, text outside the array)."""
    style = rng.randrange(4) if noise else 0
    lines = []
    if noise:
        lines += ["// generated", "struct other { int a; };", '  { 1, "outside_before" },']
    if style == 0:
        lines += ["struct mex_hlog_field mex_hlog_fields[MEX_HLOG_FIELD_COUNT] =", "{"]
    elif style == 1:
        lines += ["static struct mex_hlog_field mex_hlog_fields[%d] = {" % len(fields)]
    elif style == 2:
        lines += ["  static   struct  mex_hlog_field   mex_hlog_fields [ N ]  =  ", "", "  {  "]
    else:
        lines += ["struct mex_hlog_field mex_hlog_fields[]={"]
    # the table declared in two blocks (the array closed, other text, the array opened again): the fields of both count, in order
    split = rng.randrange(1, len(fields)) if (noise and len(fields) >= 2 and rng.random() < 0.3) else None
    for i, (name, w) in enumerate(fields):
        if split is not None and i == split:
            lines += ["};", "", '  { 1, "between_blocks" },', "#ifdef MORE",
                      rng.choice(["struct mex_hlog_field mex_hlog_fields_more[] = {", "static struct mex_hlog_field mex_hlog_fields[N2] =", "struct mex_hlog_field mex_hlog_fields2[]={"])]
        if noise and rng.random() < 0.25:
            lines.append(rng.choice(['  { 0, "zero_width" },', '  { 3, "three" },', '    1, "nobrace"', '  { "nosize" },',
                                     "", "  // comment", '  { 12, "twelve" },', '  { 1, "" },',
                                     # lines that merely CONTAIN a field-shaped fragment: an entry commented out, two entries on
                                     # one line, an entry followed or preceded by other text (the grammar takes whole lines)
                                     '  // { 1, "commented_out" },', '  /* { 2, "old_field" }, */',
                                     '  { 1, "two" }, { 2, "on_one_line" },', '  { 2, "with_remark" }, // remark',
                                     '  x { 1, "prefixed" },',
                                     # widths that are 1 or 2 by value but not by spelling
                                     '  { 01, "leading_zero" },', '  { 002, "two_zeros" },', '  { +1, "signed" },', '  { 1.0, "decimal" },']))
        last = i == len(fields) - 1
        comma = "" if (last and rng.random() < 0.5) else ","
        if noise and rng.random() < 0.15:
            # white space of the grammar that is not a line end: a form feed or a vertical tab between the tokens of an entry
            ws = rng.choice(["\f", "\v", " \f ", "\t\v"])
            lines.append('  {%s%d,%s"%s"%s}%s' % (ws, w, ws, name, ws, comma))
        elif style == 3:
            lines.append('{%d,"%s"}%s' % (w, name, comma))
        elif style == 2:
            lines.append('   {  %d  ,  "%s"  }  %s  ' % (w, name, comma))
        else:
            lines.append('  { %d, "%s" }%s ' % (w, name, comma))
    lines.append("};" if style != 2 else "  } ;  ")
    if noise:
        lines += ['  { 2, "outside_after" },', "#endif"]
    return lines


def write_header(tmp, idx, lines):
    # a small pool of paths, each rewritten with table after table: the field table in force is the one the file at the
    # path holds now, whatever an earlier decode read from the same path
    path = os.path.join(tmp, "t%d_pte.h" % (idx % 3))
    with open(path, "w") as f:
        for ln in lines:
            f.write(ln + "\n")
    return path


def check_table_read(run, intended, fields, lines):
    """the fields are those declared, in order, with their declared widths"""
    run.evaluations += 1
    if fields != intended:
        run.violation("table:declared-fields", "get_hlog_fields does not return the declared fields in order",
                      dict(kind="S", fn="hlog_table", header_lines=lines, expected=[list(f) for f in intended],
                           actual=[list(f) for f in fields]))
    run.count("table-read")


def run(run, model, proof):
    rng = run.rng
    thorough = run.tier == "thorough"
    run.rule = ("parse_hlog_data run in-process on the two shipped header files and on synthetic header files (every order of "
                "1- and 2-byte fields up to a bound, random tables with odd names and layout noise), data = every length "
                "0..record+8 in five styles (zero, all-ones, random, sparse low values, single non-zero byte); each output "
                "compared with the extracted Coq model and checked against the property restated in Python (dump parses "
                "back, field lines by contiguous offsets). non-trivial = distinct (table, data) with at least one field line")
    tmp = tempfile.mkdtemp(prefix="verif_c16_")
    try:
        # shipped tables
        for name, path in shipped_paths():
            fields = impl_fields(path)
            run.extra.setdefault("shipped_tables", {})[name] = dict(fields=len(fields), record=sum(w for _, w in fields))
            if len(fields) == 0:
                run.violation("table:shipped-empty", "no history-log fields read from %s" % path,
                              dict(kind="S", fn="hlog_table", table=dict(drawer=name)))
            for rep in range(6 if thorough else 2):
                sweep(run, model, rng, dict(drawer=name), fields, path, "shipped:" + name)
        # every order of 1- and 2-byte fields
        maxn = 9 if thorough else 6
        idx = 0
        for n in range(0, maxn + 1):
            for mask in range(1 << n):
                fields = [("f%d" % i, 1 + ((mask >> i) & 1)) for i in range(n)]
                lines = header_lines(rng, fields)
                path = write_header(tmp, idx, lines)
                idx += 1
                got_fields = impl_fields(path)
                check_table_read(run, fields, got_fields, lines)
                sweep(run, model, rng, dict(header_lines=lines), got_fields, path, "orders:n=%d" % n, extra=3)
        run.extra["orders_exhaustive_up_to"] = maxn
        # random tables
        for t in range(400 if thorough else 60):
            n = rng.choice([0, 1, 2, 3, 5, 8, 13, 38, 60])
            fields = [(gen_name(rng, i), rng.choice((1, 1, 2))) for i in range(n)]
            lines = header_lines(rng, fields, noise=True)
            path = write_header(tmp, idx, lines)
            idx += 1
            got_fields = impl_fields(path)
            check_table_read(run, fields, got_fields, lines)
            sweep(run, model, rng, dict(header_lines=lines), got_fields, path, "random-table")
        # a large record (offset column beyond one line group) on a shipped table
        name, path = shipped_paths()[0]
        fields = impl_fields(path)
        check_cases(run, model, dict(drawer=name), fields, path,
                    [bytes(rng.randrange(256) for _ in range(n)) for n in (255, 256, 257, 4096, 70000)], "long")
        f2 = [("a", 1), ("b", 2), ("c", 1)]
        p2 = write_header(tmp, idx, header_lines(rng, f2))
        run.sample(dict(fn="hlog", fields=f2, input_hex="01de", lines=impl_parse(bytes.fromhex("01de"), p2)))
        run.sample(dict(fn="hlog", fields=f2, input_hex="0000ad07ff", lines=impl_parse(bytes.fromhex("0000ad07ff"), p2)))
    finally:
        shutil.rmtree(tmp, ignore_errors=True)


def replay(run, model, path):
    r = json.load(open(path))
    fn = r.get("fn")
    if fn not in ("hlog", "hlog_table"):
        run.notes.append("replay kind %r is a proof/build record; re-running the whole check" % fn)
        globals()["run"](run, model, dict(ok=True))
        return
    tmp = tempfile.mkdtemp(prefix="verif_c16_")
    try:
        table = r.get("table") or dict(header_lines=r.get("header_lines"))
        if "drawer" in table:
            hpath = dict(shipped_paths())[table["drawer"]]
        else:
            hpath = write_header(tmp, 0, table["header_lines"])
        fields = impl_fields(hpath)
        if fn == "hlog_table":
            check_table_read(run, [tuple(f) for f in r["expected"]], fields, table.get("header_lines"))
        else:
            check_cases(run, model, table, fields, hpath, [bytes.fromhex(r["input_hex"])], "replay")
    finally:
        shutil.rmtree(tmp, ignore_errors=True)
