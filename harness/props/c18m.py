"""C18, the I/O-drawer plugin part: udparsers.m2c00.m2c00.parseUDToJson against the Coq model with the shipped tables
(Model/M2c00.v m2c00_shipped, command `m2c00`; theorems in Props/C18m.v) and against the statement evaluated directly:
always a JSON object; sub-types 72 / 73 / 84 with version 1 (mex) / 2 (nimitz) give exactly the stand-alone history-log /
ILOG / trace decoder's lines for that payload with that drawer's files, under 'History Log' / 'ILOG' / 'Trace'; any other
sub-type gives the payload as a hex dump under 'Data'; 72 / 73 / 84 with any other version give 'Error' then 'Data', the
dump parsing back to the payload.

Not a property module of its own: c18.py calls  check_m2c00(run, model, rng, n)  and, for replays with fn == "m2c00",
replay_m2c00(run, model, record)."""
import json
import os

import common
from props import c14, c15

SUBS = {72: "History Log", 73: "ILOG", 84: "Trace"}
VERSIONS = {1: "mex", 2: "nimitz"}            # Props/C18m.v C18_m2c00_drawer_versions
UNSUPPORTED = ("obj", [["unsupported", True]])


def impl_call(sub, ver, data):
    from udparsers.m2c00.m2c00 import parseUDToJson
    return parseUDToJson(sub, ver, memoryview(bytes(data)))


def drawer_files(ver):
    from io_drawer.drawer_type import DRAWER_TYPES
    for d in DRAWER_TYPES:
        if d.name == VERSIONS.get(ver):
            return d.get_header_file_path(), d.get_trace_string_file_path()
    return None


def expected_doc(sub, ver, data):
    """the document the statement requires, as ("obj", [[key, value], ...]); None when only its shape is prescribed"""
    import pel.hexdump as hd
    from io_drawer.hlog import parse_hlog_data
    from io_drawer.ilog import parse_ilog_data
    from io_drawer.trace import parse_trace_data
    data = bytes(data)
    if sub not in SUBS:
        return ("obj", [["Data", hd.hexdump(memoryview(data)) if data else []]])
    if not data:
        return ("obj", [[SUBS[sub], []]])
    files = drawer_files(ver)
    if files is None:
        return None
    mv = memoryview(data)
    lines = (parse_hlog_data(mv, files[0]) if sub == 72 else parse_ilog_data(mv, files[0]) if sub == 73
             else parse_trace_data(mv, files[1]))
    return ("obj", [[SUBS[sub], lines]])


def prop_m2c00(sub, ver, data, text):
    """None if the statement holds for this answer, else (key, what)"""
    import pel.hexdump as hd
    if not isinstance(text, str):
        return ("not-a-string", "parseUDToJson returned %s" % type(text).__name__)
    try:
        doc = json.loads(text, object_pairs_hook=lambda p: ("obj", [list(x) for x in p]))
    except ValueError:
        return ("not-json", "parseUDToJson returned text that is not JSON")
    if not (isinstance(doc, tuple) and doc[0] == "obj"):
        return ("not-an-object", "parseUDToJson returned JSON that is not an object")
    exp = expected_doc(sub, ver, data)
    if exp is not None:
        if doc != norm_doc(exp):
            key = "routing" if sub in SUBS else "other-subtype"
            return (key, "sub-type %d version %d: the document is not %s" % (
                sub, ver, "the %s decoder's output for the payload with the %s files" % (SUBS[sub], VERSIONS.get(ver)) if sub in SUBS
                else "{'Data': hex dump of the payload}"))
        return None
    keys = [k for k, _ in doc[1]]
    if sorted(keys) != ["Data", "Error"]:        # the order (Error first) is compared through the model only
        return ("bad-version:keys", "sub-type %d with unknown version %d: keys are %r, not 'Error' and 'Data'" % (sub, ver, keys))
    d = dict(doc[1])
    if not (isinstance(d["Error"], str) and d["Error"].startswith("Unable to format data: ")):
        return ("bad-version:note", "the error note is %r" % (d["Error"],))
    if not isinstance(d["Data"], list) or bytes(hd.parse(d["Data"], hd.DEFAULT_LINE_FORMAT)) != bytes(data):
        return ("bad-version:dump", "the 'Data' hex dump does not parse back to the payload")
    return None


def norm_doc(doc):
    """same normal form as the model's JSON answer (surrogate pairs produced by two %c in a row read back as one code point)"""
    return json.loads(json.dumps(dict_of(doc)), object_pairs_hook=lambda p: ("obj", [list(x) for x in p]))


def dict_of(doc):
    from collections import OrderedDict
    if isinstance(doc, tuple) and doc and doc[0] == "obj":
        return OrderedDict((k, dict_of(v)) for k, v in doc[1])
    if isinstance(doc, list):
        return [dict_of(x) for x in doc]
    return doc


def check_one(run, model, sub, ver, data, tag):
    data = bytes(data)
    run.evaluations += 1
    run.count("m2c00:" + tag)
    try:
        text = impl_call(sub, ver, data)
    except Exception as e:
        run.violation("m2c00:raises", "parseUDToJson(%d, %d, %d bytes) raised %s" % (sub, ver, len(data), type(e).__name__),
                      dict(kind="S", fn="m2c00", sub=sub, ver=ver, input_hex=data.hex(), case=tag))
        return
    what = prop_m2c00(sub, ver, data, text)
    rep = dict(fn="m2c00", sub=sub, ver=ver, input_hex=data.hex(), actual=text, case=tag)
    if what is not None:
        exp = expected_doc(sub, ver, data)
        run.violation("m2c00:" + what[0], what[1] + " (%d bytes, %s)" % (len(data), tag),
                      dict(rep, kind="S", expected=None if exp is None else dict_of(exp), theorem="C18_m2c00_routing / _other / _bad_version"))
    ans = model.call("m2c00", sub, ver, data)
    if ans == UNSUPPORTED:
        run.unsupported += 1
        run.count("m2c00:unsupported")
        return
    got = json.loads(text, object_pairs_hook=lambda p: ("obj", [list(x) for x in p])) if what is None or what[0] not in ("not-json", "not-a-string") else None
    model_doc = dict(ans[1]).get("ok")
    if got != model_doc and what is None:
        run.disagreements_checked += 1
        run.violation("m2c00:model-vs-impl", "parseUDToJson(%d, %d, %d bytes) satisfies the statement but differs from the model (%s)"
                      % (sub, ver, len(data), tag),
                      dict(rep, kind="M", expected=dict_of(model_doc) if model_doc is not None else None,
                           correspondence="Model.M2c00.m2c00_shipped vs udparsers.m2c00.m2c00.parseUDToJson"), no_input=True)
    if sub in SUBS and ver in VERSIONS and data:
        run.nontriv(("m2c00", sub, ver, data))


# ---------------------------------------------------------------------------------------------
# payloads

class Shipped:
    """the shipped tables, read by the real parsers (to build well-formed-ish payloads)"""
    _cache = {}

    @classmethod
    def get(cls, ver):
        key = (common.ROOT, ver)
        if key not in cls._cache:
            hdr, strs = drawer_files(ver)
            from io_drawer.hlog import get_hlog_fields
            cls._cache[key] = dict(pte=c14.impl_table(hdr), strings=c15.Table(os.path.basename(strs), strs),
                                   hlog=sum(f.size for f in get_hlog_fields(hdr)))
        return cls._cache[key]


def gen_payload(rng, sub, ver):
    k = rng.randrange(10)
    if k == 0:
        return b""
    if k == 1:
        return bytes(rng.randrange(256) for _ in range(rng.choice((1, 2, 7, 8, 9, 15, 16, 17, 31, 32, 33, 64))))
    tables = Shipped.get(ver if ver in VERSIONS else rng.choice((1, 2)))
    if sub == 73 or (sub not in SUBS and k < 4):
        ents = rng.sample(tables["pte"], min(len(tables["pte"]), rng.randrange(1, 6)))
        d = c14.blob(rng, c14.ptes_for(rng, ents))
        return d + bytes(rng.randrange(256) for _ in range(rng.choice((0, 0, 3, 8))))
    if sub == 84 or (sub not in SUBS and k < 7):
        st = tables["strings"]
        es = c15.gen_entries(rng, st, rng.choice((0, 1, 2, 3, 6)))
        h = c15.mk_header(rng, c15.wf_size(rng, es), comp=rng.choice((b"IICS", b"FANS", b"POWR", b"ERRL")).ljust(12, b"\0"))
        d = c15.py_encode(h, es)
        r = rng.random()
        if r < 0.15:
            d = d[:rng.randrange(len(d) + 1)]                  # truncated
        elif r < 0.3 and len(d) > 40:
            o = rng.randrange(32, len(d))
            d = d[:o] + bytes([d[o] ^ (1 << rng.randrange(8))]) + d[o + 1:]     # one bit flipped
        return d
    n = tables["hlog"]
    size = rng.choice((n, n, n - 1, n + 1, n + 8, n // 2, 1, 2, 3, rng.randrange(1, n + 20)))
    style = rng.randrange(4)
    if style == 0:
        return bytes(size)
    if style == 1:
        return b"\xff" * size
    if style == 2:
        return bytes(rng.choice((0, 0, 0, 1, 0x10, 0xa5)) for _ in range(size))
    return bytes(rng.randrange(256) for _ in range(size))


def check_m2c00(run, model, rng, n):
    """grid of sub-types x versions x (empty, short, typical) payloads, then n random cases"""
    subs = [72, 73, 84, 0, 1, 71, 74, 83, 85, 255]
    vers = [1, 2, 0, 3, 255]
    for sub in subs:
        for ver in vers:
            check_one(run, model, sub, ver, b"", "grid:empty")
            check_one(run, model, sub, ver, bytes([rng.randrange(256)]), "grid:one-byte")
            check_one(run, model, sub, ver, gen_payload(rng, sub, ver) or b"\x00\x01", "grid:typical")
    for sub in range(256):                                     # every sub-type value once
        check_one(run, model, sub, rng.choice((1, 2)), bytes(rng.randrange(256) for _ in range(rng.randrange(1, 20))), "all-subtypes")
    for ver in range(256):                                     # every version value once
        sub = rng.choice((72, 73, 84))
        check_one(run, model, sub, ver, bytes(rng.randrange(256) for _ in range(rng.randrange(1, 20))), "all-versions")
    for i in range(n):
        sub = rng.choice((72, 73, 84, 72, 73, 84, rng.randrange(256)))
        ver = rng.choice((1, 2, 1, 2, 1, 2, rng.randrange(256)))
        check_one(run, model, sub, ver, gen_payload(rng, sub, ver), "random:%s" % (SUBS.get(sub, "other")))


def replay_m2c00(run, model, r):
    check_one(run, model, int(r["sub"]), int(r["ver"]), bytes.fromhex(r["input_hex"]), "replay")
