"""C01-C04 share one correspondence run; each property looks at its own projection of the comparison."""
import json
import os

import common
import pelgen


def hexdump_payload(lines):
    from pel.hexdump import parse
    return bytes(parse(lines))


def isolated_fresh(case, j):
    """optional section j of the generated PEL alone behind the two headers, decoded in a brand-new interpreter:
    what the section's own bytes display as when nothing else has been decoded.  Returns the section's document or None."""
    import subprocess
    from collections import OrderedDict
    data = case["data"]
    offs = case["offsets"]
    ph = bytearray(data[:48])
    ph[27] = 3
    pel = bytes(ph) + data[48:72] + data[offs[j]:offs[j + 1]]
    cmd = [common.PY, os.path.join(common.VERIF, "harness", "impl_worker.py"), common.ROOT]
    try:
        p = subprocess.run(cmd, input=json.dumps(dict(op="decode_plain", hex=pel.hex(), plugins=case["plugins"])) + "\n",
                           capture_output=True, text=True, env=common.IMPL_ENV, timeout=60)
        ans = json.loads(p.stdout.splitlines()[-1])
        if ans.get("kind") != "ok":
            return None
        doc = json.loads(ans["text"], object_pairs_hook=OrderedDict)
        keys = list(doc.keys())
        return doc[keys[2]] if len(keys) == 3 else None
    except Exception:  # noqa: BLE001
        return None


def sections_of(case, model):
    """(key, id) pairs of optional sections as the specification names them"""
    exp = case["expected"]
    keys = [k for k, _ in exp[1]][2:] if exp is not None else None
    return keys


def check_case(run, model, case, pid, corpus_tag=None):
    """Compare spec / model / implementation on one generated PEL; record violations that belong to `pid`."""
    run.evaluations += 1
    data = case["data"]
    impl = pelgen.impl_decode(data, case["plugins"])
    mo = pelgen.model_outcome(case["model"])
    if mo[0] == "ok":
        run.count("doc-wf:%s" % pelgen.LAST["wf"])
    replay = dict(kind="S", gen="gen_pel", choices=case["choices"], maxsecs=case["maxsecs"], maxpayload=case["maxpayload"],
                  plugins=case["plugins"], input_hex=case["hex"] if len(case["hex"]) < 20000 else case["hex"][:20000] + "...")
    nsec = len(case["ids"])
    run.count("sections:%d" % min(nsec, 8))
    if nsec:
        run.nontriv(case["hex"])
    expected = None
    unsupported = False
    if case["expected"] is not None:
        try:
            expected = pelgen.to_py(case["expected"])
        except pelgen.Unsupported:
            unsupported = True
    if mo[0] == "unsupported":
        unsupported = True
    if unsupported:
        run.unsupported += 1
    for i in case["ids"]:
        run.count("id:%s" % (bytes([i >> 8, i & 255]).decode("latin1") if 0x2020 <= i and all(32 <= b < 127 for b in (i >> 8, i & 255)) else "other"))

    # ---- framing (C01): the decoder must accept the PEL, start every section header at the prefix sums of the
    # declared lengths, stop at the end, and name the sections as the specification does
    if impl["kind"] == "hang":
        if pid in ("C01", "C05"):
            run.violation("hang", "the decoder does not terminate on a well-formed PEL", dict(replay, actual="hang"))
        return
    if impl["kind"] != "ok":
        # a well-formed PEL was not decoded: attribute to the section kind that follows an SRC if that is the pattern
        what = "well-formed PEL rejected (%s: %s)" % (impl.get("exc"), impl.get("msg"))
        key = "reject:" + reject_signature(case, impl)
        owner = reject_owner(case, impl)
        if pid in owner:
            run.violation(key, what, dict(replay, actual=impl.get("exc"), offsets_seen=impl["offsets"], offsets_expected=case["offsets"]))
        return
    exp_offsets = [0, 48] + case["offsets"][:-1]
    if pid == "C01":
        if impl["offsets"] != exp_offsets:
            run.violation("framing:offsets", "section headers read at %r, declared lengths give %r" % (impl["offsets"][:12], exp_offsets[:12]),
                          dict(replay, actual=impl["offsets"], expected=exp_offsets))
        elif impl["final_index"] != case["offsets"][-1]:
            run.violation("framing:end", "decoder stopped at %d, PEL ends at %d" % (impl["final_index"], case["offsets"][-1]),
                          dict(replay, actual=impl["final_index"], expected=case["offsets"][-1]))
    doc = impl["doc"]
    if expected is not None:
        if pid == "C01" and list(doc.keys()) != list(expected.keys()):
            run.violation("framing:keys", "top-level entries %r, expected %r" % (list(doc.keys())[:10], list(expected.keys())[:10]),
                          dict(replay, actual=list(doc.keys()), expected=list(expected.keys())))
        for k in expected:
            if k not in doc:
                continue
            owner = pelgen.property_of_key(k)
            d = pelgen.first_diff(expected[k], doc[k], "/" + k)
            if d and owner == pid:
                run.violation("display:" + diff_key(d), "specification and decoder disagree at %s" % d,
                              dict(replay, expected=expected[k], actual=doc[k], where=d))
            elif d and pid == "C01" and list(doc.keys()) == list(expected.keys()):
                # the section is shown wrongly; is that its own decoder's business (C02-C04), or does what is shown depend on
                # something else than the section's bytes?  The same bytes alone, in a fresh interpreter, tell.
                j = list(expected.keys()).index(k) - 2
                alone = isolated_fresh(case, j) if 0 <= j < len(case["ids"]) else None
                run.count("isolated-section-decodes")
                if alone is not None and pelgen.first_diff(expected[k], alone) is None:
                    run.violation("framing:context", "section %s is shown differently from what its own bytes decode to alone (%s): the display "
                                  "depends on the sections or PELs decoded before it" % (k, d),
                                  dict(replay, expected=expected[k], actual=doc[k], where=d))
            if pid == "C01" and "Data" in expected[k] and isinstance(expected[k]["Data"], list) and isinstance(doc[k].get("Data"), list):
                # a section decoded from shifted bytes shows a shifted payload even when the keys are right
                try:
                    if hexdump_payload(doc[k]["Data"]) != hexdump_payload(expected[k]["Data"]):
                        run.violation("framing:payload", "section %s was decoded from other bytes than its own" % k,
                                      dict(replay, expected=expected[k]["Data"][:4], actual=doc[k]["Data"][:4]))
                except Exception:
                    pass
    # ---- model vs implementation (whole document)
    if mo[0] == "ok":
        d = pelgen.first_diff(mo[2], doc)
        if d:
            run.disagreements_checked += 1
            k = d.split("/")[1] if "/" in d else ""
            owner = pelgen.property_of_key(k) if k in doc or k in mo[2] else "C01"
            if d.startswith("/: keys"):
                owner = "C01"
            if owner == pid and expected is None:
                # the specification says nothing for this PEL (e.g. built-in JSON) - only the correspondence is broken
                run.violation("model:" + diff_key(d), "model and decoder disagree at %s" % d,
                              dict(replay, kind="M", correspondence="Model.Pel.decode vs peltool.parsePEL", where=d), no_input=True)
            elif owner == pid and not any(v["key"].startswith("display:") or v["key"].startswith("framing:") for v in run.violations):
                run.violation("model:" + diff_key(d), "model and decoder disagree at %s (specification agrees with the decoder)" % d,
                              dict(replay, kind="M", correspondence="Model.Pel.decode vs peltool.parsePEL", where=d), no_input=True)
    elif mo[0] != "unsupported":
        run.disagreements_checked += 1
        if pid == "C01":
            run.violation("model:outcome", "model says %s, decoder produced a document" % mo[0],
                          dict(replay, kind="M", correspondence="Model.Pel.decode vs peltool.parsePEL"), no_input=True)


def diff_key(d):
    """stable key for a difference: the path without list indices and numbering"""
    import re
    p = d.split(":")[0]
    p = re.sub(r"\[\d+\]", "[]", p)
    p = re.sub(r" \d+(?=/|$)", "", p)
    return p


def reject_signature(case, impl):
    ids = case["ids"]
    sig = []
    for a, b in zip(ids, ids[1:]):
        if a in (0x5053, 0x5353) and b in (0x4944, 0x5045, 0x4D52):
            sig.append("src-then-" + bytes([b >> 8, b & 255]).decode())
    return (sig[0] if sig else "other") + ":" + str(impl.get("exc"))


def reject_owner(case, impl):
    """which properties a rejected well-formed PEL violates: C01 always (the log is not decoded section by section);
    C03 too when an SRC's callouts are involved"""
    owners = {"C01"}
    if any(i in (0x5053, 0x5353) for i in case["ids"]):
        owners.add("C03")
    return owners


CORPUS = os.path.join(common.VERIF, "corpus")


def run_corpus(run, model, pid):
    d = os.path.join(CORPUS, pid)
    if not os.path.isdir(d):
        return
    for f in sorted(os.listdir(d)):
        if f.endswith(".json"):
            r = json.load(open(os.path.join(d, f)))
            if r.get("gen") == "gen_pel":
                case = pelgen.gen_case(model, run.rng, r["maxsecs"], r["maxpayload"], r["plugins"], choices=bytes.fromhex(r["choices"]))
                check_case(run, model, case, pid)
                run.count("corpus")


def run_pel_property(run, model, proof, pid, rule):
    rng = run.rng
    thorough = run.tier == "thorough"
    run.rule = rule
    run_corpus(run, model, pid)
    if pid in ("C01", "C04"):
        big_sections(run, model, pid)
    if pid in ("C01", "C02", "C03"):
        hand_framed(run, model, pid)
    n = 20000 if thorough else 1000
    for i in range(n):
        plugins = rng.random() < 0.8
        if thorough and i % 500 == 0:
            case = pelgen.gen_case(model, rng, maxsecs=253, maxpayload=300, plugins=plugins, nchoices=150000)
        elif i % 97 == 0:
            case = pelgen.gen_case(model, rng, maxsecs=3, maxpayload=65000, plugins=plugins)
        elif i % 10 == 0:
            case = pelgen.gen_case(model, rng, maxsecs=40, maxpayload=64, plugins=plugins, nchoices=20000)
        else:
            case = pelgen.gen_case(model, rng, maxsecs=6, maxpayload=300, plugins=plugins)
        check_case(run, model, case, pid)
        if i < 3:
            run.sample(dict(input_hex=case["hex"][:400], ids=case["ids"], offsets=case["offsets"]))


def big_sections(run, model, pid):
    """sections around the 15-bit and 16-bit boundaries of the length field, of every length-driven kind, each followed by a
    small section that must still be decoded intact"""
    import struct
    from pel.hexdump import parse
    from props import c04
    mt = (b"MT", 1, 0, 0x2000, b"MTM12345" + b"SN1234567890")
    kinds = [(b"ZZ", 1, 0, 0x1234), (b"UD", 1, 7, 0x1234), (b"DH", 1, 0, 0x2000), (b"ED", 1, 7, 0x1234), (b"SW", 1, 0, 0x2000)]
    for n in (32750, 32759, 32760, 32761, 32768, 40000, 65000, 65527 - 4):
        sid, ver, sub, comp = kinds[n % len(kinds)]
        body = bytes((i * 7 + n) & 0xFF for i in range(n))
        payload = (b"B\0\0\0" + body) if sid == b"ED" else body
        data = c04.mini_pel(b"B", [(sid, ver, sub, comp, payload), mt])
        run.evaluations += 1
        run.count("big-section")
        impl = pelgen.impl_decode(data, True)
        rp = dict(kind="S", gen="big-section", section=sid.decode(), payload_len=n, input_hex=data[:200].hex() + "...")
        if impl["kind"] != "ok":
            if pid in ("C01", "C04"):
                run.violation("reject:big-section", "a PEL with a %s section of %d payload bytes is rejected (%s)" % (sid.decode(), n, impl.get("exc")),
                              dict(rp, actual=impl.get("exc")))
            continue
        keys = list(impl["doc"].keys())
        sec = impl["doc"][keys[2]] if len(keys) == 4 else {}
        try:
            ok = len(keys) == 4 and keys[3] == "Failing MTMS" and bytes(parse(sec["Data"])) == body
        except Exception:  # noqa: BLE001
            ok = False
        if not ok and pid in ("C01", "C04"):
            run.violation("framing:big-section", "a %s section of %d payload bytes is not shown from exactly its own bytes, or the section after it is lost" % (sid.decode(), n),
                          dict(rp, keys=keys))
        mo = pelgen.model_outcome(model.call("decode", b"\1", data))
        if mo[0] == "ok" and pelgen.first_diff(mo[2], impl["doc"]) and pid == "C01":
            run.disagreements_checked += 1
            run.violation("model:big-section", "model and decoder disagree on a PEL with a large section", dict(rp, kind="M", correspondence="Model.Pel.decode vs peltool.parsePEL"), no_input=True)


def hand_framed(run, model, pid):
    """shapes the specification's generator does not draw (it keeps callout substructures in the canonical order and its text
    fields left-justified): a callout's FRU / PCE / MRU substructures in every order, and header text fields with
    NULs in front / inside / everywhere - compared with the model, and with what must hold whatever the display is: the PEL
    decodes, and the section after the one in question is decoded intact"""
    import itertools
    import struct
    from pel.hexdump import parse
    from props import c04
    rng = run.rng
    tail = (b"UD", 1, 7, 0x1234, bytes(range(1, 12)))
    cases = []
    expect_text = {}          # case index -> (section, {key: the field's text with the NUL padding on both sides removed})
    if pid in ("C01", "C03"):
        fru = lambda: b"ID" + bytes([28, 0x0D]) + b"PN123456" + b"CCIN" + b"SN1234567890"          # pn + ccin + sn supplied
        pce = lambda nm=b"NAME": b"PE" + bytes([24 + len(nm), 0]) + b"9105-22A" + b"SN7654321098" + nm
        mru = lambda n=2: b"MR" + bytes([8 + 8 * n, n]) + bytes(4) + b"".join(struct.pack(">II", 0x48, 0x1000 + i) for i in range(n))
        kinds = {"F": fru, "P": pce, "M": mru}
        orders = ["".join(p) for r in (1, 2, 3) for p in itertools.permutations("FPM", r)]      # at most one of each kind, any order
        for order in orders:
            subs = b"".join(kinds[k]() for k in order)
            loc = rng.choice([b"", b"U78D.001", b"ID12"])
            loc = loc + bytes(-len(loc) % 4)
            co = bytes([4 + len(loc) + len(subs), 0, 0x48, len(loc)]) + loc + subs
            callouts = bytes([0xC0, 0]) + struct.pack(">H", (4 + len(co)) // 4) + co
            words = b"".join(struct.pack(">I", w) for w in (0x020000F0, 1, 2, 3, 4, 5, 6, 7))
            body = bytes([2, 1, 0, 9, 0, 0]) + struct.pack(">H", 72 + len(callouts)) + words + b"BD8D1001".ljust(32, b" ") + callouts
            cases.append(("substructures:" + order, c04.mini_pel(b"O", [(b"PS", 1, 0, 0x2000, body), tail]), 1))
    if pid == "C02":
        for f in (b"\0\0MTM123", b"\0" * 8, b"AB\0CD\0\0\0", b"\0\0\0\0\0\0\0Z", b"12345678"):
            for sn in (b"\0SN123456789", b"SN12\0\0\0\0\0\0\0\0", b"\0" * 11 + b"9"):
                cases.append(("mtms-nuls", c04.mini_pel(b"O", [(b"MT", 1, 0, 0x2000, f + sn), tail]), 1))
                expect_text[len(cases) - 1] = ("Failing MTMS", {"Machine Type Model": f.decode().strip("\0"), "Serial Number": sn.decode().strip("\0")})
                eh = f + sn + b"\0FW1".ljust(16, b"\0") + b"\0\0SUB".ljust(16, b"\0") + bytes(4) + bytes.fromhex("2024010112000000") + bytes([0, 0, 0, 4]) + b"\0S\0\0"
                cases.append(("eh-nuls", c04.mini_pel(b"O", [(b"EH", 1, 0, 0x2000, eh), tail]), 1))
                expect_text[len(cases) - 1] = ("Extended User Header", {"Reporting Machine Type": f.decode().strip("\0"), "Reporting Serial Number": sn.decode().strip("\0"),
                                                                         "FW Released Ver": "FW1", "FW SubSys Version": "SUB", "Symptom Id": "S"})
    if pid in ("C01", "C02"):
        # Impacted Partition sections whose name length is not a multiple of four and whose target count is odd or even (the
        # specification's generator keeps every field aligned): the name is exactly its declared bytes, the targets follow
        for nl in (1, 2, 3, 5, 6, 7, 9):
            for cnt in (0, 1, 2, 3):
                name = (b"LPAR-" + b"x" * 8)[:nl]
                targets = [0x0100 + 17 * k for k in range(cnt)]
                body = struct.pack(">HBBI", 0x0042, nl, cnt, 0x50001234) + name + b"".join(struct.pack(">H", t) for t in targets) + (b"\0\0" if cnt % 2 else b"")
                cases.append(("lp-name:%d:%d" % (nl, cnt), c04.mini_pel(b"O", [(b"LP", 1, 0, 0x2000, body), tail]), 1))
                want = {"Primary Partition Name": name.decode(), "Length of LP Name": "0x%02X" % nl, "Target LP Count": "0x%02X" % cnt}
                if cnt:
                    want["Target LP"] = ["0x%04X" % t for t in targets]
                expect_text[len(cases) - 1] = ("Impacted Partition", want)
    for ci, (tag, data, nbefore) in enumerate(cases):
        run.evaluations += 1
        run.count("hand-framed:" + tag.split(":")[0])
        impl = pelgen.impl_decode(data, True)
        rp = dict(kind="S", gen="hand-framed", what_case=tag, input_hex=data.hex())
        if impl["kind"] != "ok":
            run.violation("reject:hand-framed", "a well-formed PEL (%s) is rejected (%s: %s)" % (tag, impl.get("exc"), impl.get("msg")), dict(rp, actual=impl.get("exc")))
            continue
        keys = list(impl["doc"].keys())
        try:
            ok = len(keys) == 2 + nbefore + 1 and keys[-1].startswith("User Data") and bytes(parse(impl["doc"][keys[-1]]["Data"])) == tail[4]
        except Exception:  # noqa: BLE001
            ok = False
        if ci in expect_text:
            sec, want = expect_text[ci]
            got = impl["doc"].get(sec, {})
            bad = {k: (v, got.get(k)) for k, v in want.items() if got.get(k) != v}
            if bad:
                run.violation("display:hand-framed:" + sec.replace(" ", "_"), "fields of the %s section are not shown as stored (NUL padding of text removed): %r" % (sec, bad),
                              dict(rp, expected=want, actual={k: got.get(k) for k in want}))
        if not ok and pid == "C01":
            run.violation("framing:hand-framed", "the section after the %s section is not decoded intact" % tag, dict(rp, keys=keys))
        mo = pelgen.model_outcome(model.call("decode", b"\1", data))
        d = pelgen.first_diff(mo[2], impl["doc"]) if mo[0] == "ok" else "model says " + mo[0]
        if d:
            run.disagreements_checked += 1
            k = d.split("/")[1] if d.startswith("/") and "/" in d[1:] else ""
            owner = pelgen.property_of_key(k) if k else "C01"
            if owner == pid or (pid == "C01" and not ok):
                run.violation("model:hand-framed:" + tag.split(":")[0], "model and decoder disagree on a hand-framed PEL (%s) at %s" % (tag, d),
                              dict(rp, kind="M", correspondence="Model.Pel.decode vs peltool.parsePEL", where=d), no_input=True)


def replay_pel(run, model, path, pid):
    r = json.load(open(path))
    if r.get("gen") == "gen_pel":
        case = pelgen.gen_case(model, run.rng, r["maxsecs"], r["maxpayload"], r["plugins"], choices=bytes.fromhex(r["choices"]))
        check_case(run, model, case, pid)
    else:
        run.notes.append("replay file is a proof/build record; re-running the whole check")
        return False
    return True
