"""C13 correspondence: pel.hexdump.hexdump / parse and the --hex display, against the model and the spec."""
import contextlib
import io
import json

import common


def impl_hexdump(d, bpl=16, bpc=4):
    from pel.hexdump import hexdump
    try:
        return hexdump(memoryview(bytes(d)), bpl, bpc)
    except AssertionError:
        return None
    except Exception as e:  # noqa: BLE001  (an escaping exception is a result of its own: never the model's lines)
        return ["<hexdump raised %s: %s>" % (type(e).__name__, str(e)[:120])]


def impl_parse(lines, fmt_id):
    import pel.hexdump as hd
    from io_drawer import dump as iod
    fmt = hd.DEFAULT_LINE_FORMAT if fmt_id == 0 else iod.HEX_DUMP_LINE_FORMATS[fmt_id - 1]
    try:
        return list(hd.parse(lines, fmt))
    except Exception as e:  # noqa: BLE001
        return ["<parse raised %s: %s>" % (type(e).__name__, str(e)[:120])]


def gen_bytes(rng, n):
    style = rng.randrange(5)
    if style == 0:
        return bytes(rng.randrange(256) for _ in range(n))
    if style == 1:
        return bytes(rng.choice((0x1f, 0x20, 0x7e, 0x7f, 0x00, 0xff, 0x0a, 0x30, 0x41, 0x61)) for _ in range(n))
    if style == 2:
        return bytes((i * 7 + 3) & 0xff for i in range(n))
    if style == 3:
        return bytes(rng.randrange(0x20, 0x7f) for _ in range(n))
    return bytes(rng.choice((0, 0xff)) for _ in range(n))


def check_dump(run, model, d, bpl, bpc, tag):
    """model vs implementation on hexdump, plus the property itself on the implementation's output"""
    run.evaluations += 1
    got = impl_hexdump(d, bpl, bpc)
    exp = model.call("hexdump", bpl.to_bytes(2, "big"), bpc.to_bytes(2, "big"), d)
    if got != exp:
        run.disagreements_checked += 1
        key = "hexdump:model-vs-impl"
        # decide with the property: line count, equal width, offsets
        what = prop_dump(d, bpl, bpc, got)
        run.violation(key if what is None else "hexdump:" + what[0],
                      "hexdump(%d bytes, %d, %d) differs from the model%s" % (len(d), bpl, bpc, "" if what is None else ": " + what[1]),
                      dict(kind="M", fn="hexdump", input_hex=d.hex(), bpl=bpl, bpc=bpc, expected=exp, actual=got),
                      no_input=what is None)
        return
    what = prop_dump(d, bpl, bpc, got) if got is not None else None
    if what:
        run.violation("hexdump:" + what[0], what[1], dict(kind="S", fn="hexdump", input_hex=d.hex(), bpl=bpl, bpc=bpc, actual=got))
    if len(d) > bpl:
        run.nontriv((d, bpl, bpc))
    run.count("dump:" + tag)


def prop_dump(d, bpl, bpc, lines):
    if not (1 <= bpl <= 256 and 1 <= bpc <= 256):
        return None if lines is None else ("domain", "layout outside 1..256 accepted")
    if lines is None:
        return ("domain", "permitted layout (%d,%d) rejected" % (bpl, bpc))
    n = (len(d) + bpl - 1) // bpl
    if len(lines) != n:
        return ("linecount", "%d lines for %d bytes at %d per line" % (len(lines), len(d), bpl))
    if len(set(len(x) for x in lines)) > 1:
        return ("width", "lines of different widths")
    for i, x in enumerate(lines):
        if x[:8] != "%08X" % (i * bpl):
            return ("offset", "line %d does not begin with its offset" % i)
    return None


def check_roundtrip(run, model, d, tag):
    """parse(hexdump(d)) == d on the implementation (S) and model-vs-impl on parse (M)"""
    run.evaluations += 1
    lines = impl_hexdump(d)
    back = impl_parse(lines, 0)
    if bytes(back) != d:
        run.violation("roundtrip:default", "parse(hexdump(d)) != d for %d bytes" % len(d),
                      dict(kind="S", fn="parse.hexdump", input_hex=d.hex(), lines=lines, actual=bytes(back).hex()))
    run.count("roundtrip:" + tag)
    if len(d) > 16:
        run.nontriv(("rt", d))


def readdress(rng, lines, fmt_id):
    """the same dump with another address column: taken from a non-zero start address, an address that wraps, or arbitrary hex
    digits (the address digits of a line are part of its layout, their value is not part of the data)"""
    import pel.hexdump as hd
    from io_drawer import dump as iod
    fmt = hd.DEFAULT_LINE_FORMAT if fmt_id == 0 else iod.HEX_DUMP_LINE_FORMATS[fmt_id - 1]
    cols = [i for i, c in enumerate(fmt) if c == "A"]
    if not cols:
        return lines
    style = rng.randrange(3)
    start = rng.choice([0x10, 0xFFF0, 0xFFFFFFF0, rng.randrange(1 << 32)])
    out = []
    for k, ln in enumerate(lines):
        if len(ln) <= cols[-1] or any(ln[i] not in "0123456789abcdefABCDEF" for i in cols):
            out.append(ln)
            continue
        if style == 0:
            digits = "%0*X" % (len(cols), (start + 16 * k) % (16 ** len(cols)))
        elif style == 1:
            digits = "".join(rng.choice("0123456789ABCDEFabcdef") for _ in cols)
        else:
            digits = "0" * len(cols)
        ln = list(ln)
        for i, c in zip(cols, digits):
            ln[i] = c
        out.append("".join(ln))
    return out


def check_parse(run, model, lines, fmt_id, tag, expect=None):
    run.evaluations += 1
    got = impl_parse(lines, fmt_id)
    exp = model.call("parse", bytes([fmt_id]), *lines)
    if got != exp:
        run.disagreements_checked += 1
        run.violation("parse:model-vs-impl:fmt%d" % fmt_id, "parse differs from the model on %d lines (%s)" % (len(lines), tag),
                      dict(kind="M", fn="parse", fmt=fmt_id, lines=lines, expected=exp, actual=got),
                      no_input=expect is None)
    if expect is not None and bytes(got) != expect:
        run.violation("roundtrip:fmt%d:%s" % (fmt_id, tag.split(":")[0]), "parsing a rendered dump does not return the bytes (%s)" % tag,
                      dict(kind="S", fn="parse", fmt=fmt_id, lines=lines, expected=expect.hex(), actual=bytes(got).hex()))
    run.count("parse:" + tag)
    if len(lines) > 1:
        run.nontriv(("p", fmt_id, tuple(lines)))


def mutate_lines(rng, lines):
    lines = list(lines)
    for _ in range(rng.randrange(1, 4)):
        k = rng.randrange(8)
        if not lines:
            lines.append("")
        i = rng.randrange(len(lines))
        s = lines[i]
        if k == 0 and s:
            j = rng.randrange(len(s))
            lines[i] = s[:j] + rng.choice("0aF gZ.:<>|\té") + s[j + 1:]
        elif k == 1:
            lines[i] = s.lower()
        elif k == 2 and s:
            lines[i] = s[:rng.randrange(len(s))]
        elif k == 3:
            lines.insert(i, rng.choice(["", "# comment", "\n", "  ", "Dump of memory:", "-- 00000000", "xyz 00 11"]))
        elif k == 4:
            lines[i] = s + rng.choice(["\n", "\n\n", " ", "X", " \n"])
        elif k == 5 and s:
            j = rng.randrange(len(s))
            lines[i] = s[:j] + s[j + 1:]
        elif k == 6:
            lines[i] = s.upper()
        else:
            lines[i] = rng.choice(" 0") + s
    return lines


def comments_mix(rng, lines):
    out = []
    for x in lines:
        while rng.random() < 0.3:
            out.append(rng.choice(["", "\n", "# c", "Header line", "----", "* 00", "  "]))
        out.append(x)
    out.append(rng.choice(["", "\n", "trailer"]))
    return out


def check_hex_display(run, d):
    from pel.peltool import peltool
    run.evaluations += 1
    buf = io.StringIO()
    with contextlib.redirect_stdout(buf):
        peltool.printPELInHexFormat(d)
    out = buf.getvalue().split("\n")
    try:
        b = out.index("-------------- PEL Begin  ----------------")
        e = out.index("-------------- PEL End    ----------------")
        back = bytes(impl_parse(out[b + 1:e], 0))
    except ValueError:
        back = None
    if back != d:
        run.violation("hexdisplay", "--hex display does not reproduce the bytes between its markers",
                      dict(kind="S", fn="printPELInHexFormat", input_hex=d.hex(), stdout=out[:40]))
    run.count("hexdisplay")


def check_dump_file(run, model, rng, d):
    """the same bytes written as an I/O-drawer dump file in either format, with comment / blank / title lines, read back by
    io_drawer.dump.parse_dump_file (the bytes it hands to the decoder are captured)"""
    import os
    import tempfile
    from io_drawer import dump
    titles = ["", "# dump", "IO drawer dump", "-----"]
    for fid, cmd in ((1, "render1"), (2, "render2")):
        lines = list(model.call(cmd, bytes([rng.randrange(2)]), d))
        extra = list(titles)
        if fid == 1:
            # the format with an address column: a title that begins with two hex digits is no data line of it
            extra += ["Date: 2024-01-01", "Dec 12 10:00:01", "Add", "BEEF", "00 first"]
        for _ in range(rng.randrange(0, 4)):
            lines.insert(rng.choice([0, 0, rng.randrange(len(lines) + 1)]), rng.choice(extra) + "\n")
        fd, path = tempfile.mkstemp(prefix="verif_c13_", suffix=".txt")
        got = {}
        orig = dump.parse_dump_data
        try:
            # the line ends of the platform the dump was saved on: LF, CRLF or CR (the file is read in text mode)
            eol = rng.choice(["\n", "\n", "\r\n", "\r"])
            with os.fdopen(fd, "w", newline="") as f:
                f.write("".join(lines).replace("\n", eol))
            dump.parse_dump_data = lambda data, *a, **k: got.setdefault("bytes", bytes(data)) and []
            try:
                dump.parse_dump_file(path, "/nonexistent_header", "/nonexistent_strings")
            except Exception as e:  # noqa: BLE001
                got["exc"] = repr(e)
        finally:
            dump.parse_dump_data = orig
            os.remove(path)
        run.evaluations += 1
        run.count("dump-file:%d" % fid)
        back = got.get("bytes", b"")
        if back != d:
            run.violation("dumpfile:format%d" % fid, "a dump file in format %d with comment / title lines is not read back as its bytes (%d of %d bytes)" % (fid, len(back), len(d)),
                          dict(kind="S", fn="dump-file", fmt=fid, eol=repr(eol), input_hex=d.hex()[:4000], file_text="".join(lines)[:3000], got_hex=back.hex()[:400], exc=got.get("exc")))


def check_cli_hex(run, model, rng):
    """the --hex display through the real command line: -f, -a, -l, -i on PELs with and without bytes after the last section"""
    import os
    import cli_runner
    import dirgen
    import pelgen
    # sizes: the usual few hundred bytes, and PELs beyond 4 KB / 64 KB (every byte of the file must come back, whatever part
    # of it the mode needs for deciding)
    big = rng.random() < 0.35
    files = dirgen.gen_dir(model, rng, rng.randrange(1, 4), plugins=True, maxsecs=8 if big else 3, maxpayload=rng.choice([2000, 9000, 40000]) if big else 24)
    files = [(n, d + bytes(rng.randrange(256) for _ in range(rng.choice([0, 0, 1, 3, 16, 40, 5000 if big else 0]))), m) for n, d, m in files]
    names = sorted(f[0] for f in files)
    by_name = {f[0]: f[1] for f in files}
    with dirgen.TempDir(files) as d:
        runs = [("-a", cli_runner.run_inproc(["-p", d, "-E", "-a", "-x"]), [by_name[n] for n in names]),
                ("-l", cli_runner.run_inproc(["-p", d, "-E", "-l", "-x"]), [by_name[n] for n in names])]
        if rng.random() < 0.5:
            runs.append(("-l -r", cli_runner.run_inproc(["-p", d, "-E", "-l", "-x", "-r"]), [by_name[n] for n in reversed(names)]))
            runs.append(("--src", cli_runner.run_inproc(["-p", d, "--src", "", "-x"]), None))
        n0 = rng.choice(names)
        runs.append(("-f", cli_runner.run_inproc(["-E", "-f", os.path.join(d, n0), "-x"]), [by_name[n0]]))
    for mode, (rc, out, err), want in runs:
        run.evaluations += 1
        run.count("cli-hex:" + mode)
        lines = out.split("\n")
        blocks, cur = [], None
        for ln in lines:
            if ln == "-------------- PEL Begin  ----------------":
                cur = []
            elif ln == "-------------- PEL End    ----------------":
                blocks.append(bytes(impl_parse(cur, 0)))
                cur = None
            elif cur is not None:
                cur.append(ln)
        if want is None:
            # a look-up shows some of the files: each block must be one of them, whole
            want = blocks if all(b in by_name.values() for b in blocks) else []
        if blocks != want:
            run.violation("hexdisplay:cli:" + mode, "peltool %s -x does not reproduce the file's bytes between its markers" % mode,
                          dict(kind="S", fn="cli-hex", mode=mode, files=[[f[0], f[1].hex()] for f in files], got=[b.hex() for b in blocks]))


def run(run, model, proof):
    rng = run.rng
    thorough = run.tier == "thorough"
    run.rule = ("hexdump/parse of pel.hexdump and printPELInHexFormat run on: every length 0..N with five byte styles "
                "(random, boundary bytes 0x1F/0x20/0x7E/0x7F, arithmetic, printable, 00/FF), layout settings, the three line "
                "formats rendered by the Coq specification (upper/lower case), comment/blank-line interleavings and mutated "
                "lines. non-trivial = distinct case with more than one line of data")
    maxlen = 1200 if thorough else 330
    for n in range(0, maxlen):
        d = gen_bytes(rng, n)
        check_dump(run, model, d, 16, 4, "default")
        check_roundtrip(run, model, d, "len")
    for b in range(256):
        d = bytes([b]) * (1 + b % 17) + bytes([0x41, b])
        check_dump(run, model, d, 16, 4, "bytevalue")
        check_roundtrip(run, model, d, "bytevalue")
    # layouts
    if thorough:
        layouts = [(a, b) for a in range(1, 257) for b in range(1, 257)]
    else:
        layouts = [(rng.randrange(1, 257), rng.randrange(1, 257)) for _ in range(400)]
        layouts += [(a, b) for a in (1, 2, 3, 15, 16, 17, 255, 256) for b in (1, 2, 3, 4, 5, 16, 255, 256)]
    for (a, b) in layouts:
        for n in ({0, 1, a - 1, a, a + 1, 2 * a + b} if not thorough else {a + 1, 2 * a + (b % 7)}):
            if n >= 0:
                check_dump(run, model, gen_bytes(rng, n), a, b, "layout")
    for (a, b) in [(0, 4), (16, 0), (257, 4), (16, 257), (0, 0)]:
        check_dump(run, model, b"abc", a, b, "layout-invalid")
    run.extra["layouts_exhaustive"] = thorough
    # the three formats through the specification renderers
    reps = 4000 if thorough else 500
    for i in range(reps):
        n = rng.choice([0, 1, 15, 16, 17, 31, 32, 33]) if i % 3 == 0 else rng.randrange(0, 400)
        d = gen_bytes(rng, n)
        for fid, cmd in ((1, "render1"), (2, "render2")):
            case = rng.randrange(2)
            lines = model.call(cmd, bytes([case]), d)
            check_parse(run, model, lines, fid, "render%d:%s" % (fid, "upper" if case == 0 else "lower"), expect=d)
            other = 2 if fid == 1 else 1
            check_parse(run, model, lines, other, "crossformat", expect=None)
            if i % 4 == 0:
                check_parse(run, model, comments_mix(rng, lines), fid, "render%d:comments" % fid, expect=d)
            if i % 3 == 1:
                check_parse(run, model, readdress(rng, lines, fid), fid, "render%d:addresses" % fid, expect=d)
            if i % 5 == 0:
                check_parse(run, model, mutate_lines(rng, lines), fid, "mutated", expect=None)
        lines = impl_hexdump(d)
        check_parse(run, model, comments_mix(rng, lines), 0, "default:comments", expect=d)
        check_parse(run, model, [x + "\n" for x in lines], 0, "default:newlines", expect=d)
        if i % 3 == 2:
            check_parse(run, model, readdress(rng, lines, 0), 0, "default:addresses", expect=d)
        check_parse(run, model, [x.lower() for x in lines], 0, "default:lower", expect=None)
        check_parse(run, model, mutate_lines(rng, lines), 0, "mutated", expect=None)
        if i % 10 == 0:
            check_hex_display(run, d if d else b"\0")
            check_cli_hex(run, model, rng)
        if i % 7 == 0 and d:
            check_dump_file(run, model, rng, d)
        if i % 9 == 0:
            # rows that repeat (zero fill, 0xFF fill, a pattern): equal neighbouring lines in the format without an address column
            fill = rng.choice([b"\x00", b"\xff", b"\x20", bytes(range(16))])
            check_dump_file(run, model, rng, (gen_bytes(rng, rng.randrange(0, 20)) + fill * rng.choice([16, 33, 48, 64]))[:rng.randrange(40, 200)] + fill * 32)
    if thorough:
        for n in (65536, 65537, 70000, 200000):
            d = gen_bytes(rng, n)
            check_roundtrip(run, model, d, "long")
            for fid, cmd in ((1, "render1"), (2, "render2")):
                check_parse(run, model, model.call(cmd, b"\0", d), fid, "render%d:long" % fid, expect=d)
    run.sample(dict(fn="hexdump", input_hex="001f207e7fff", lines=impl_hexdump(bytes.fromhex("001f207e7fff"))))
    run.sample(dict(fn="render1", lines=model.call("render1", b"\0", bytes(range(20)))))
    run.sample(dict(fn="render2", lines=model.call("render2", b"\1", bytes(range(250, 256)) + b"AB")))


def replay(run, model, path):
    r = json.load(open(path))
    fn = r.get("fn")
    if fn == "hexdump":
        check_dump(run, model, bytes.fromhex(r["input_hex"]), r["bpl"], r["bpc"], "replay")
    elif fn == "parse.hexdump":
        check_roundtrip(run, model, bytes.fromhex(r["input_hex"]), "replay")
    elif fn == "parse":
        exp = bytes.fromhex(r["expected"]) if isinstance(r.get("expected"), str) else None
        check_parse(run, model, r["lines"], r["fmt"], "replay", expect=exp)
    elif fn == "printPELInHexFormat":
        check_hex_display(run, bytes.fromhex(r["input_hex"]))
    else:
        run.notes.append("replay kind %r is a proof/build record; re-running the whole check" % fn)
        globals()["run"](run, model, dict(ok=True))
