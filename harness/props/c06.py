"""C06: prettyPrint keeps the JSON tokens; printed output parses back to the document."""
import json
import random
from collections import OrderedDict

import common
import pelgen
from props import c04

RULE = ("documents with keys/values over an adversarial alphabet (quote, backslash, colon, braces, brackets, comma, space, non-ASCII, "
        "the two-character sequence quote-colon), nesting depth <= 6, rendered by json.dumps(indent=4) and passed through the real "
        "prettyPrint at widths 29, 34 and random: (S) json.loads of the result equals the document, (M) the text equals the model's; "
        "json.loads against its Gallina model (edge list, random token soup, valid and damaged json.dumps output in several layouts) and "
        "json.dumps(indent=4) against dumps4; plus arbitrary text lines, end-to-end parsePEL of text/JSON user-data sections, and the command line (-a, -l, -f stdout and -j "
        "files on directories with selected, filtered and undecodable files, in-process and as subprocesses) parsed back; non-trivial = distinct text with a key line")

ALPHA = ['"', "\\", ":", "{", "}", "[", "]", ",", " ", "a", "Z", "0", "é", " ", "/", "'", "\":", "\": ", "k", "\t", "\\\"", "\x7f"]


def rtext(rng, n):
    return "".join(rng.choice(ALPHA) for _ in range(n))


def rdoc(rng, depth=0):
    k = rng.randrange(8 if depth < 6 else 4)
    if k == 0:
        return rng.randrange(-3, 1 << 33)
    if k in (1, 2):
        return rtext(rng, rng.randrange(0, 10))
    if k == 3:
        return rng.choice([True, False, None, 1.5])
    if k in (4, 5):
        return [rdoc(rng, depth + 1) for _ in range(rng.randrange(0, 4))]
    return OrderedDict((rtext(rng, rng.randrange(0, 7)), rdoc(rng, depth + 1)) for _ in range(rng.randrange(0, 5)))


class PrettyTimeout(BaseException):
    pass


def real_pretty(text, w=None):
    """the real prettyPrint, under a time limit (it is a regular-expression pass: it must come back at once)"""
    import signal
    from pel.peltool import peltool
    fn = getattr(peltool, "_verif_orig_pretty", peltool.prettyPrint)

    def on_alarm(signum, frame):
        raise PrettyTimeout()
    old = signal.signal(signal.SIGALRM, on_alarm)
    signal.setitimer(signal.ITIMER_REAL, 10.0)
    try:
        return fn(text) if w is None else fn(text, w)
    except PrettyTimeout:
        return None
    except Exception as e:  # noqa: BLE001  (an exception is a result of its own: never JSON, never the model's text)
        return "<prettyPrint raised %s: %s>" % (type(e).__name__, str(e)[:200])
    finally:
        signal.setitimer(signal.ITIMER_REAL, 0)
        signal.signal(signal.SIGALRM, old)


def check_text(run, model, text, w, tag, doc=None):
    run.evaluations += 1
    got = real_pretty(text, w)
    if got is None:
        if sum(1 for v in run.violations if v["key"] == "pretty:hang") < 2:
            run.violation("pretty:hang", "prettyPrint does not come back within 10 s on a text of %d characters" % len(text),
                          dict(fn="prettyPrint", text=text, width=w, kind="S"))
        return
    exp = model.call("pretty", (w if w is not None else 34).to_bytes(2, "big"), text)
    run.count(tag)
    if '":' in text:
        run.nontriv((text, w))
    rp = dict(fn="prettyPrint", text=text, width=w)
    bad_s = False
    if doc is not None:
        try:
            back = json.loads(got, object_pairs_hook=OrderedDict)
            ok = back == doc and json.dumps(back) == json.dumps(doc)
        except Exception:
            ok = False
        if not ok:
            bad_s = True
            run.violation("pretty:not-equal", "json.loads(prettyPrint(json.dumps(doc))) differs from the document",
                          dict(rp, kind="S", actual=got[:2000]))
    if exp != got:
        run.disagreements_checked += 1
        if not bad_s:
            # does the property hold anyway?  (token equality cannot be observed directly; use json.loads where it applies)
            run.violation("pretty:model-vs-impl", "prettyPrint output differs from the model (%s)" % tag,
                          dict(rp, kind="M", correspondence="Model.Pretty.pretty_print vs peltool.prettyPrint", expected=exp[:2000], actual=got[:2000]),
                          no_input=True)


def run(run, model, proof):
    rng = run.rng
    thorough = run.tier == "thorough"
    run.rule = RULE
    import os
    import scan_source
    for w in scan_source.unexpected_stdout_writers(common.ROOT):
        # (fail-closed source scan: the printed text is JSON only if nothing else writes to stdout while documents are decoded)
        run.violation("scan:stdout-writer", "a decoder module writes to stdout where the published list has no such write: " + w,
                      dict(kind="M", fn="scan", correspondence="harness/scan_source.PUBLISHED_STDOUT_WRITERS vs the source text", detail=w), no_input=True)
    cdir = os.path.join(common.VERIF, "corpus", "C06")
    for f in sorted(os.listdir(cdir)) if os.path.isdir(cdir) else []:
        r = json.load(open(os.path.join(cdir, f)))
        run.count("corpus")
        if r.get("fn") == "prettyPrint":
            try:
                doc = json.loads(r["text"], object_pairs_hook=OrderedDict)
            except Exception:
                doc = None
            check_text(run, model, r["text"], r.get("width"), "corpus", doc=doc)
    for doc in ([("\u00e9\u4e2d" * 30)], {"k": ["\u00fc" * 64, "\\" * 40]}, ["\"" * 50], {"a": {"b": ["\u2028" * 45]}}):
        check_text(run, model, json.dumps(doc, indent=4), 34, "long-escapes", doc=doc)
    n = 60000 if thorough else 4000
    for i in range(n):
        doc = rdoc(rng)
        if not isinstance(doc, dict) and i % 3:
            doc = OrderedDict([(rtext(rng, 4), doc)])
        text = json.dumps(doc, indent=4, ensure_ascii=rng.random() < 0.7)
        w = rng.choice([None, 29, 34, rng.randrange(0, 60)])
        check_text(run, model, text, w, "dumps", doc=doc)
        if i < 2:
            run.sample(dict(text=text[:300], width=w))
    for i in range(n // 4):
        lines = [rng.choice(["", " ", "    "]) + rtext(rng, rng.randrange(0, 14)) for _ in range(rng.randrange(1, 5))]
        check_text(run, model, "\n".join(lines), rng.choice([None, 29, 5]), "arbitrary")
    # end to end: the real parsePEL output (with the real prettyPrint) parses back to the document before alignment
    for i in range(3000 if thorough else 300):
        run.evaluations += 1
        body = "\n".join(rtext(rng, rng.randrange(0, 16)).replace("\n", "") for _ in range(rng.randrange(1, 4))).encode("utf-8") or b"x"
        sub = rng.choice([1, 3])
        if sub == 1:
            body = json.dumps(rdoc(rng)).encode()
        data = c04.mini_pel(b"O", [(b"UD", 1, sub, 0x2000, body)])
        plain = pelgen.impl_decode(data, True)
        if plain["kind"] != "ok":
            continue
        from pel.peltool import peltool
        from pel.datastream import DataStream
        try:
            _, js = peltool.parsePEL(DataStream(data, byte_order="big", is_signed=False), pelgen.make_config(True), False)
        except Exception as e:  # noqa: BLE001
            run.violation("pretty:pel-output", "printing a decoded PEL raises %s: %s" % (type(e).__name__, str(e)[:120]),
                          dict(kind="S", fn="parsePEL", input_hex=data.hex(), actual=type(e).__name__))
            continue
        run.count("end-to-end")
        # the printed text itself is prettyPrint(json.dumps(doc, indent=4)) as modelled: dumps4 then pretty_print 34
        try:
            m = model.call("dumps4", (34).to_bytes(2, "big"), json.dumps(plain["doc"]))
            md = dict(m[1]) if isinstance(m, tuple) else {}
        except Exception:  # noqa: BLE001
            md = {}
        if "printed" in md and md["printed"] != js:
            run.disagreements_checked += 1
            run.violation("printed:model-vs-impl", "the text parsePEL returns is not pretty_print 34 (dumps4 doc)",
                          dict(kind="M", fn="parsePEL", input_hex=data.hex(), correspondence="Model.JsonLoads.dumps4 + Model.Pretty.pretty_print vs parsePEL text",
                               expected=md["printed"][:800], actual=js[:800]), no_input=True)
        try:
            ok = json.loads(js, object_pairs_hook=OrderedDict) == plain["doc"]
        except Exception:
            ok = False
        if not ok:
            run.violation("pretty:pel-output", "the printed PEL does not parse back to the decoded document",
                          dict(kind="S", fn="parsePEL", input_hex=data.hex(), printed=js[:1500]))
    # a document near the interpreter's nesting limits: whatever the decoder keeps of a deeply nested JSON value (the value itself
    # or, beyond what it can handle, the hex dump of its text) the PEL is printed, and the print parses back
    deep_docs(run, rng, thorough)
    # json.loads and json.dumps(indent=4) themselves against their Gallina models
    for t in JSON_EDGE:
        check_loads(run, model, t, "edge")
    for i in range(20000 if thorough else 1500):
        k = rng.randrange(4)
        if k == 0:
            text = "".join(rng.choice(JALPHA) for _ in range(rng.randrange(1, 14)))
            tag = "random"
        else:
            doc = rdoc(rng) if k == 1 else int_doc(rng)
            text = json.dumps(doc, indent=rng.choice([None, None, 4, 1]), ensure_ascii=rng.random() < 0.6,
                              separators=rng.choice([None, (",", ":"), (" , ", " : ")]))
            tag = "dumps"
            if rng.random() < 0.5:
                # damage a valid text
                j = rng.randrange(len(text) + 1)
                text = text[:j] + rng.choice(["", "", rng.choice(JALPHA)]) + text[j + rng.randrange(0, 2):]
                tag = "damaged"
        check_loads(run, model, text, tag)
    for i in range(6000 if thorough else 500):
        doc = int_doc(rng)
        try:
            json.dumps(doc).encode("utf-8")
        except UnicodeEncodeError:
            continue
        check_dumps(run, model, doc, rng.choice([None, 29, 34, rng.randrange(0, 60)]))
    # the command line: what -a, -l, -f print and -j writes
    for i in range(600 if thorough else 60):
        cli_dir(run, model, rng, rng.choice([0, 1, 2, 3, 5, 8]), sub=(i % 30 == 0))


def py_of_model(v):
    """model value -> Python value with OrderedDict (no marker resolution)"""
    if isinstance(v, tuple) and v and v[0] == "obj":
        return OrderedDict((k, py_of_model(x)) for k, x in v[1])
    if isinstance(v, list):
        return [py_of_model(x) for x in v]
    return v


def has_float(v):
    if isinstance(v, float):
        return True
    if isinstance(v, dict):
        return any(has_float(x) for x in v.values())
    if isinstance(v, list):
        return any(has_float(x) for x in v)
    return False


JSON_EDGE = ["", " ", "null", "true", "false", "nul", "True", "0", "-0", "00", "01", "-", "--1", "+1", "1.", ".5", "1.5", "1e5", "1E+5", "1e", "1e+",
             "-1.0e-2", "NaN", "-NaN", "Infinity", "-Infinity", "infinity", "[]", "{}", "[ ]", "{ }", "[,]", "[1,]", "[,1]", "{,}", '{"a"}', '{"a":}',
             '{"a":1,}', '{"a" 1}', "{1:2}", '{"a":1 "b":2}', "[1 2]", "[1,2", "1 2", "[1]]", '"', '"a', '"\\"', '"\\', '"\\x"', '"\\u12"',
             '"\\u12G4"', '"\\uD83D\\uDE00"', '"\\ud83d"', '"\\ude00\\ud83d"', '"\\ud83d\\u0041"', '"\\ud83d\\ud83d\\ude00"', '"\\ud83dx"',
             '"\\/\\b\\f\\n\\r\\t\\"\\\\"', '"a\tb"', '"a\nb"', '"\x7f"', '"\u00e9\U0001f600"', "\ufeff1", "\f1", "1\f", "[\v]", "'a'",
             '{"k":1,"j":2,"k":3}', '{"":{"":[[]]}}', "1" * 4300, "1" * 4301, "-" + "9" * 4300, "-" + "9" * 4301, "0" * 5, "[" * 200 + "]" * 200,
             "[" * 201 + "]" * 201, "[" * 300, '{"a":' * 199 + "1" + "}" * 199, "[1e999]", '{"a": [1, 2.0]}', "\t\n\r 1 \t\n\r", "1\x00", "nullx",
             "[nullx]", "truefalse", '[1"a"]', '"a""b"', "[1,\n2]", "\u00a01", "1\u2028"]

JALPHA = list('[]{},:" \\') + ["\n", "\t", "1", "0", "-", ".", "e", "E", "+", "a", "u", "n", "t", "f", "l", "r", "s", "N", "I", "\\u", "d83d", "de00", "00e9", "é", "\\\"", "null", "true", '"k"', "12"]


def check_loads(run, model, text, tag):
    """the Gallina json.loads (Model/JsonLoads.v) against CPython's on the same text"""
    run.evaluations += 1
    run.count("loads:" + tag)
    try:
        data = text.encode("utf-8")
    except UnicodeEncodeError:
        return
    try:
        want = ("ok", json.loads(text, object_pairs_hook=OrderedDict))
    except RecursionError:
        want = ("deep",)
    except ValueError:
        want = ("error",)
    got = model.call("loads", data)
    gk = got[1][0][0] if isinstance(got, tuple) else "null"
    rp = dict(fn="loads", text=text if len(text) < 3000 else text[:3000] + "...", kind="M", correspondence="Model.JsonLoads.loads vs json.loads")
    if gk == "beyond":
        run.count("loads:beyond")
        if want[0] == "ok" and not has_float(want[1]) and text.count("[") + text.count("{") <= 200:
            run.violation("loads:beyond-unjustified", "the model leaves a text to Python that holds no float and is not deep", rp, no_input=True)
        return
    if want[0] == "deep":
        run.violation("loads:deep", "json.loads raises RecursionError, the model answers %s" % gk, rp, no_input=True)
        return
    ok = (gk == "error" and want[0] == "error") or \
         (gk == "ok" and want[0] == "ok" and not has_float(want[1]) and pelgen.first_diff(want[1], py_of_model(got[1][0][1])) is None)
    if want[0] == "ok":
        run.nontriv(("loads", text))
    if not ok:
        run.disagreements_checked += 1
        run.violation("loads:model-vs-impl", "json.loads gives %s, the model %s" % (want[0], gk),
                      dict(rp, expected=repr(want)[:600], actual=repr(got)[:600]), no_input=True)


def check_dumps(run, model, doc, w):
    """json.dumps(doc, indent=4) and prettyPrint of it against the model's dumps4 / pretty_print, and the round trip"""
    run.evaluations += 1
    run.count("dumps4")
    text = json.dumps(doc, indent=4)
    got = model.call("dumps4", (w if w is not None else 34).to_bytes(2, "big"), json.dumps(doc))
    d = dict(got[1]) if isinstance(got, tuple) else {}
    rp = dict(fn="dumps4", doc=json.dumps(doc)[:3000], width=w, kind="M", correspondence="Model.JsonLoads.dumps4 vs json.dumps(indent=4)")
    if d.get("text") != text:
        run.disagreements_checked += 1
        run.violation("dumps4:model-vs-impl", "json.dumps(indent=4) differs from the model's dumps4", dict(rp, expected=text[:1500], actual=str(d.get("text"))[:1500]), no_input=True)
    elif d.get("printed") != real_pretty(text, w):
        run.disagreements_checked += 1
        run.violation("pretty:model-vs-impl", "prettyPrint(json.dumps(indent=4)) differs from the model", rp, no_input=True)


def int_doc(rng, depth=0):
    """documents without floats (the domain of the round-trip theorems)"""
    k = rng.randrange(8 if depth < 5 else 4)
    if k == 0:
        return rng.choice([0, -1, 7, 10 ** 30, -(10 ** 19), rng.randrange(-3, 1 << 33)])
    if k in (1, 2):
        return rtext(rng, rng.randrange(0, 10)) + rng.choice(["", "\U0001f600", "\ud800", "\x00\x1f"])
    if k == 3:
        return rng.choice([True, False, None])
    if k in (4, 5):
        return [int_doc(rng, depth + 1) for _ in range(rng.randrange(0, 4))]
    return OrderedDict((rtext(rng, rng.randrange(0, 7)), int_doc(rng, depth + 1)) for _ in range(rng.randrange(0, 5)))


def deep_docs(run, rng, thorough):
    import os
    import cli_runner
    import dirgen
    depths = [150, 300, 480, 490, 500, 640, 800, 900, 960, 990, 1000, 1040, 1100, 1200, 1300, 1400, 1480, 1500, 1700, 2100, 3000]
    if thorough:
        depths += [rng.randrange(100, 3200) for _ in range(60)]
    for i, depth in enumerate(depths):
        shape = rng.choice(["list", "dict", "mixed"])
        if shape == "list":
            text = "[" * depth + "1" + "]" * depth
        elif shape == "dict":
            text = '{"a":' * depth + "1" + "}" * depth
        else:
            text = '[{"k":' * (depth // 2) + '"v"' + "}]" * (depth // 2)
        ed = rng.random() < 0.3
        sec = (b"ED", 1, 1, 0x2000, b"O\0\0\0" + text.encode()) if ed else (b"UD", 1, 1, 0x2000, text.encode())
        data = c04.mini_pel(b"O", [sec])
        run.evaluations += 1
        run.count("deep-json:" + shape)
        rp = dict(kind="S", fn="parsePEL", input_hex=data.hex(), depth=depth, shape=shape)
        r = pelgen.impl_decode(data, rng.random() < 0.5)
        if r["kind"] != "ok":
            run.violation("deep:not-printed", "a PEL whose JSON user data is nested %d deep is not printed at all (%s)" % (depth, r.get("exc")),
                          dict(rp, actual=r.get("exc")))
            continue
        try:
            back = json.loads(r["text"], object_pairs_hook=OrderedDict)
        except RecursionError:
            back = None
        except ValueError as e:
            run.violation("deep:not-json", "the print of a PEL with deeply nested user data is not valid JSON (%s)" % e, dict(rp, printed=r["text"][:400]))
            continue
        if back is not None and pelgen.first_diff(r["doc"], back):
            run.violation("deep:not-equal", "the print of a PEL with deeply nested user data does not parse back to the document", rp)
        if i % 3 == 0 or thorough:
            # the same through a real interpreter (its stack is not this process's): -f prints the PEL
            with dirgen.TempDir([("deep.pel", data, dict(kind="pel"))]) as d:
                rc, out, err = cli_runner.run_subproc(["-f", os.path.join(d, "deep.pel")])
            run.count("deep-json:cli")
            ok = bool(out.strip())
            if ok:
                try:
                    json.loads(out)
                except RecursionError:
                    pass
                except ValueError:
                    ok = False
            if not ok:
                run.violation("deep:cli", "peltool -f prints no valid JSON for a PEL whose JSON user data is nested %d deep" % depth,
                              dict(rp, fn="cli06deep", stdout=out[:300], stderr=err[-300:]))


def cli_dir(run, model, rng, nfiles, sub=False):
    """stdout of -a / -l / -f and the files of -j parse back to the decoded documents, whatever the directory holds
    (PELs the selection options leave out and files that do not decode included)"""
    import fixtures
    fx = []
    if not sub and rng.random() < 0.35:
        # parser plug-ins that fail while the documents are printed: an SRC parser and a user-data parser of creator 'T' that raise
        # (their diagnostics belong on stderr; the printed text must stay the JSON of the documents)
        fx = [(1, "tsrc", rng.choice([2, 9, 2]), "src parser failed"), (0, "t1234", rng.choice([2, 9]), "ud parser failed")]
    with fixtures.Fixtures(fx):
        cli_dir_body(run, model, rng, nfiles, sub, failing_plugins=bool(fx))


def cli_dir_body(run, model, rng, nfiles, sub, failing_plugins):
    import os
    import cli_runner
    import dirgen
    plugins = True if failing_plugins else rng.random() < 0.6
    files = dirgen.gen_dir(model, rng, nfiles, plugins=plugins, junk=rng.randrange(0, 3))
    if rng.random() < 0.3:
        files.append(("m_unopenable_%d" % rng.randrange(1000), b"", dict(kind="unreadable", how=rng.choice(["dangling", "loop", "socket"]))))
    if rng.random() < 0.5:
        # a PEL whose document holds strings outside ASCII: accented and astral characters, a lone surrogate, control characters
        # (BMC JSON user data; json.loads of "\ud83d" is a lone surrogate, which only an ASCII-escaping printer can write out)
        notes = ["caf\u00e9 \u4e2d", "\U0001f600", "\\ud83d", "\\ude00x\\ud83d", "tab\\there", "\u2028\u00a0", "plain"]
        body = ('{"Note": "%s", "%s": [1, "%s"]}' % (rng.choice(notes), rng.choice(["k", "cl\u00e9"]), rng.choice(notes))).encode("utf-8")
        eid = 0x51000000 + rng.randrange(1 << 16)
        files.append(("u%08X.pel" % eid, dirgen.set_ids(c04.mini_pel(b"O", [(b"UD", 1, 1, 0x2000, body)]), eid=eid), dict(kind="pel", eid=eid)))
        files.sort(key=lambda f: rng.random())
    if rng.random() < 0.3:
        # a PEL that a diagnostic is printed for while it is decoded (a PCE identity declaring fewer than its 24 fixed bytes: the
        # PEL is left out, the note belongs on stderr): the printed text must stay the JSON of the others
        from props import c05
        eid = 0x53000000 + rng.randrange(1 << 16)
        files.append(("p%08X.pel" % eid, dirgen.set_ids(c05.pce_consistent_pel(rng.choice([4, 12, 20, 23]), tail_section=rng.random() < 0.5), eid=eid),
                      dict(kind="pel", eid=eid)))
        files.sort(key=lambda f: rng.random())
    if failing_plugins:
        from props import c18
        for j in range(rng.randrange(1, 3)):
            eid = 0x52000000 + rng.randrange(1 << 16)
            body, _w = c18.src_body(rng, rng.choice(["BD8D1234", "11001234"]), proc=None, wcount=9,
                                    w2=(0xFFFFFFFF if rng.random() < 0.5 else None))       # hex word 2 = FFFFFFFF: the fixture's trigger
            secs = [(b"PS", 1, 1, 0x1234, body), (b"UD", 1, 7, 0x1234, bytes([0xFF]) + bytes(rng.randrange(256) for _ in range(7)))]
            files.append(("t%08X.pel" % eid, dirgen.set_ids(c04.mini_pel(b"T", secs), eid=eid), dict(kind="pel", eid=eid)))
        files.sort(key=lambda f: rng.random())
    bits = rng.choice([0, 0, 1, 1, rng.randrange(64)])       # 0: informational / hidden PELs are left out; 1: every PEL
    rev = rng.random() < 0.4
    run.evaluations += 1
    run.count("cli-dir")
    rp = dict(fn="cli06", files=[[f[0], f[1].hex()] for f in files], bits=bits, rev=rev, plugins=plugins)
    runner = cli_runner.run_subproc if sub else cli_runner.run_inproc
    sel = cli_runner.sel_argv(bits, ()) + (["-P"] if not plugins else [])
    with dirgen.TempDir(files) as d:
        base = ["-p", d] + sel + (["-r"] if rev else [])
        res = {m: runner(base + [m]) for m in ("-a", "-l")}
        single = {}
        for name, data, meta in files[:4]:
            single[name] = runner(["-f", os.path.join(d, name)] + sel)
        if plugins and bits & 1 and rng.random() < 0.6:
            # (with -E every file is exported again) an earlier export into the same directory, of a longer rendering (every byte of it must be gone afterwards)
            for name, data, meta in files:
                r0 = pelgen.impl_decode(data, True)
                if r0["kind"] == "ok":
                    with open(os.path.join(d, "%s.%s.json" % (name, r0["eid"])), "w") as f0:
                        # (the aligned rendering is longer than r0["text"]: pad well beyond it)
                        f0.write(r0["text"] + "\n" + " " * (3 * len(r0["text"]) + 4096) + "{\"left over from an earlier export\": [%s]}\n" % ("1, " * 40 + "1"))
        rj = runner(["-p", d, "-j"] + sel)
        written = {n: open(os.path.join(d, n), encoding="utf-8").read() for n in sorted(os.listdir(d)) if n.endswith(".json") and n not in [f[0] for f in files]}
    docs = {}
    for name, data, meta in files:
        r = pelgen.impl_decode(data, plugins)       # a damaged copy may still decode (and share its entry id with the original)
        if r["kind"] == "ok":
            docs[name] = r["doc"]
    cands = {}
    for doc in docs.values():
        cands.setdefault(doc["Private Header"]["Entry Id"], []).append(doc)

    def differs(back):
        c = cands.get(back.get("Private Header", {}).get("Entry Id")) if isinstance(back, dict) else None
        if not c or any(pelgen.first_diff(w, back) is None for w in c):
            return None
        return pelgen.first_diff(c[0], back)
    for m, (rc, out, err) in res.items():
        try:
            back = json.loads(out, object_pairs_hook=OrderedDict)
        except Exception as e:  # noqa: BLE001
            run.violation("cli:not-json:" + m, "stdout of peltool %s is not valid JSON (%s)" % (m, e), dict(rp, kind="S", mode=m, stdout=out[-400:]))
            continue
        if m == "-a" and bits & 1 and isinstance(back, list) and len(back) != len(docs):
            run.violation("cli:all-missing", "-a with --extended shows %d documents, %d files decode" % (len(back), len(docs)),
                          dict(rp, kind="S", mode=m, stderr=err[-300:]))
        if m == "-a":
            for doc in back if isinstance(back, list) else []:
                if differs(doc):
                    run.violation("cli:document-differs", "a document printed by -a differs from the decoded document at %s" % differs(doc),
                                  dict(rp, kind="S", mode=m))
    for name, (rc, out, err) in single.items():
        if name in docs and bits & 1 and not out.strip():
            run.violation("cli:file-output-missing", "peltool -f with --extended prints nothing for a PEL that decodes",
                          dict(rp, kind="S", name=name, stderr=err[-300:]))
        if name in docs and out.strip():
            try:
                ok = pelgen.first_diff(docs[name], json.loads(out, object_pairs_hook=OrderedDict)) is None
            except Exception:  # noqa: BLE001
                ok = False
            if not ok:
                run.violation("cli:file-output", "stdout of peltool -f does not parse back to the decoded document", dict(rp, kind="S", name=name, stdout=out[:600]))
    if bits & 1:
        for name in docs:
            if not any(n.startswith(name + ".") for n in written):
                run.violation("cli:json-file-missing", "-j with --extended wrote no file for a PEL that decodes", dict(rp, kind="S", name=name, stderr=rj[2][-300:]))
    for n, text in written.items():
        try:
            back = json.loads(text, object_pairs_hook=OrderedDict)
            ok = differs(back) is None
        except Exception:  # noqa: BLE001
            ok = False
        if not ok:
            run.violation("cli:json-file", "a file written by -j does not parse back to the decoded document", dict(rp, kind="S", name=n, text=text[:600]))


def replay(run, model, path):
    r = json.load(open(path))
    if r.get("fn") == "cli06":
        import random as _r
        import dirgen as _d
        files = [(n, bytes.fromhex(h), dict(kind="pel")) for n, h in r["files"]]
        orig = _d.gen_dir
        _d.gen_dir = lambda *a, **k: files
        try:
            class FixedRng(_r.Random):
                pass
            rng = FixedRng(0)
            rng.choice = lambda seq: r["bits"] if len(seq) == 5 else seq[0]
            rng.random = lambda: 0.0 if r["plugins"] else 0.99
            cli_dir(run, model, rng, len(files))
        finally:
            _d.gen_dir = orig
        return
    if r.get("fn") == "prettyPrint":
        text = r["text"]
        try:
            doc = json.loads(text, object_pairs_hook=OrderedDict)
        except Exception:
            doc = None
        check_text(run, model, text, r.get("width"), "replay", doc=doc)
    else:
        globals()["run"](run, model, dict(ok=True))
