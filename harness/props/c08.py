"""C08: count, list and display-all agree, in file-name order."""
import json
from collections import OrderedDict

import cli_runner
import common
import dirgen
import pelgen

RULE = ("directories of 0..N generated well-formed PELs with distinct entry ids, random file names (extensions, dots, case, non-ASCII), "
        "random selection options, -r / -e / -x; the real peltool main() is run in-process for -n, -l and -a (a sample also as real "
        "subprocesses) and compared with each other (the property) and with the Coq CLI model; non-trivial = directory with >= 2 PELs")


def parse_hex_blocks(out):
    from pel.hexdump import parse
    blocks, cur = [], None
    for line in out.split("\n"):
        if line == "-------------- PEL Begin  ----------------":
            cur = []
        elif line == "-------------- PEL End    ----------------":
            blocks.append(bytes(parse(cur)))
            cur = None
        elif cur is not None:
            cur.append(line)
    return blocks


def one_dir(run, model, rng, nfiles, sub=False):
    plugins = rng.random() < 0.7
    big = rng.random() < 0.3
    files = dirgen.gen_dir(model, rng, nfiles, plugins=plugins, maxsecs=8 if big else 3, maxpayload=rng.choice([600, 1500, 5000]) if big else 24)
    if big and rng.random() < 0.7:
        # a PEL whose primary SRC lies beyond the first kilobyte / the first 4 KB (a large section before it)
        import struct
        from props import c04
        words = b"".join(struct.pack(">I", w) for w in (0x020000F0, 1, 2, 3, 4, 5, 6, 7))
        src = bytes([2, 0, 0, 9, 0, 0, 0, 72]) + words + b"BD8D2002".ljust(32, b" ")
        eid = 0x52000000 + rng.randrange(1 << 16)
        d = c04.mini_pel(b"O", [(b"UD", 1, 7, 0x1234, bytes(rng.randrange(256) for _ in range(rng.choice([990, 1100, 4200])))), (b"PS", 1, 0, 0x2000, src)])
        files.append(("late_src_%08X" % eid, dirgen.set_ids(d, eid=eid), dict(kind="pel", eid=eid)))
    neighbours = nfiles >= 2 and rng.random() < 0.35
    if neighbours:
        # severities that share their group (high nibble) and differ in the low one, over two action-flag words: PELs that a
        # selection option must tell apart although they look alike by group / hidden / serviceable (C08_m: a decision cache keyed
        # by that triple made the selected set depend on the processing order under -t)
        hi = rng.choice([0x50, 0x50, 0x50, 0x40, 0x20, 0x10, 0x00, 0x60, 0x70])
        pool = [hi | x for x in rng.sample(range(16), 3)] + ([0x51, 0x51] if hi == 0x50 else [])
        acts = rng.sample([0x0000, 0x4000, 0x8000, 0xC000, 0x8800, 0x4800], 2)

        def reclass(d):
            b = bytearray(d)
            if len(b) > 68 and b[48:50] == b"UH":
                b[58] = rng.choice(pool)
                b[66:68] = rng.choice(acts).to_bytes(2, "big")
            return bytes(b)
        files = [(f[0], reclass(f[1]), f[2]) if f[2].get("kind") == "pel" else f for f in files]
        run.count("severity-neighbours")
    bits = rng.choice([0, 0, 1, 1, rng.randrange(64)]) if not neighbours else rng.choice([2, 2, 1 << rng.randrange(6), rng.randrange(64)])
    sevs = tuple(sorted(rng.sample([0, 1, 2, 4, 5, 6, 7], rng.randrange(0, 3)))) if rng.random() < 0.4 else ()
    rev = rng.random() < (0.6 if neighbours else 0.4)
    ext = rng.choice(["", "", ".pel", ".PEL", ".txt", ".", "pel", "l", ".pel.pel"])
    hexm = rng.random() < 0.15
    run.evaluations += 1
    if nfiles >= 2:
        run.nontriv(tuple(f[0] for f in files) + (bits, sevs, rev, ext))
    run.count("files:%d" % min(nfiles, 10))
    run.count("ext:%r" % ext)
    by_eid = {("0x%08X" % f[2]["eid"]): f[0] for f in files}
    rp = dict(fn="cli", files=[[f[0], f[1].hex()] for f in files], bits=bits, sevs=list(sevs), rev=rev, ext=ext, hex=hexm, plugins=plugins)
    with dirgen.TempDir(files) as d:
        common_args = ["-p", d] + cli_runner.sel_argv(bits, sevs) + (["-P"] if not plugins else []) + (["-e", ext] if ext else []) + (["-r"] if rev else []) + (["-x"] if hexm else [])
        runner = cli_runner.run_subproc if sub else cli_runner.run_inproc
        res = {m: runner(common_args + [m]) for m in ("-n", "-l", "-a")}
    for m, (rc, out, err) in res.items():
        if rc != 0:
            run.violation("exit-status", "peltool %s exits with %r on a directory of well-formed PELs" % (m, rc), dict(rp, kind="S", mode=m, stderr=err[-300:]))
            return
    try:
        count = json.loads(res["-n"][1])["Number of PELs found"]
        if hexm:
            lst = parse_hex_blocks(res["-l"][1])
            alld = parse_hex_blocks(res["-a"][1])
            list_names = [next(f[0] for f in files if f[1] == b) for b in lst]
            all_names = [next(f[0] for f in files if f[1] == b) for b in alld]
        else:
            lst = json.loads(res["-l"][1], object_pairs_hook=OrderedDict)
            alld = json.loads(res["-a"][1], object_pairs_hook=OrderedDict)
            list_names = [by_eid[k] for k in lst.keys()]
            all_names = [by_eid[doc["Private Header"]["Entry Id"]] for doc in alld]
    except Exception as e:  # noqa: BLE001
        run.violation("output-unreadable", "output of a directory mode is not readable: %s" % e, dict(rp, kind="S", outputs={m: r[1][:400] for m, r in res.items()}))
        return
    # ---- the property
    if not (count == len(list_names) == len(all_names)) or sorted(list_names) != sorted(all_names):
        run.violation("modes-disagree", "-n reports %d, -l %d entries, -a %d documents" % (count, len(list_names), len(all_names)),
                      dict(rp, kind="S", count=count, list=list_names, all=all_names))
    for nm, names in (("-l", list_names), ("-a", all_names)):
        want = sorted(names, reverse=rev)
        if names != want:
            run.violation("order:" + nm, "%s does not present the PELs in %s file-name order" % (nm, "descending" if rev else "ascending"),
                          dict(rp, kind="S", got=names, want=want))
        import os as _os
        if ext and any(_os.path.splitext(n)[1] != ext for n in names):
            run.violation("extension:" + nm, "%s shows a file without the requested extension" % nm, dict(rp, kind="S", got=names))
    if not hexm:
        docs = {doc["Private Header"]["Entry Id"]: doc for doc in alld}
        for eid, s in lst.items():
            doc = docs.get(eid)
            if doc is None:
                continue
            want = OrderedDict()
            if "Primary SRC" in doc:
                want["SRC"] = doc["Primary SRC"]["Reference Code"]
            elif "Primary SRC 0" in doc:
                want["SRC"] = doc["Primary SRC 0"]["Reference Code"]
            want["PLID"] = doc["Private Header"]["Platform Log Id"]
            want["CreatorID"] = doc["Private Header"]["Creator Subsystem"]
            want["Subsystem"] = doc["User Header"]["Subsystem"]
            want["Commit Time"] = doc["Private Header"]["Committed at"]
            want["Sev"] = doc["User Header"]["Event Severity"]
            want["CompID"] = doc["Private Header"]["Created by"]
            dd = pelgen.first_diff(want, s)
            if dd:
                run.violation("summary-fields", "a --list entry differs from the full decode at %s" % dd, dict(rp, kind="S", eid=eid, summary=s, want=want))
    # ---- the model
    for mode, key in ((0, "-n"), (1, "-l"), (2, "-a")):
        m = dirgen.model_cli(model, mode, files, rev=rev, hexmode=hexm, plugins=plugins, bits=bits, sevs=sevs, ext=ext)
        try:
            mp = pelgen.to_py(m)
        except pelgen.Unsupported:
            run.unsupported += 1
            continue
        if mode == 0:
            ok = mp.get("count") == count
        elif hexm:
            ok = [bytes.fromhex(h) for h in mp.get("hex", [])] == (lst if mode == 1 else alld)
        elif mode == 1:
            ok = pelgen.first_diff(mp.get("list"), lst) is None
        else:
            ok = pelgen.first_diff(mp.get("all"), list(alld)) is None
        if not ok:
            run.disagreements_checked += 1
            run.violation("model:cli:" + key, "the CLI model and peltool %s disagree" % key,
                          dict(rp, kind="M", correspondence="Model.Cli mode functions vs peltool.main()", mode=key,
                               expected=str(mp)[:600], actual=res[key][1][:600]), no_input=True)


def run(run, model, proof):
    rng = run.rng
    thorough = run.tier == "thorough"
    run.rule = RULE
    n = 3000 if thorough else 250
    for i in range(n):
        k = rng.randrange(6)
        nfiles = 0 if k == 0 and i % 5 == 0 else 1 if k == 1 else rng.randrange(2, 12) if k < 5 else rng.randrange(12, 40)
        one_dir(run, model, rng, nfiles, sub=(i % (60 if thorough else 25) == 0))
    run.sample(dict(argv="peltool.py -p <dir> -E -r -e .pel -l", note="example of a generated command line"))


def replay(run, model, path):
    r = json.load(open(path))
    if r.get("fn") != "cli":
        return globals()["run"](run, model, dict(ok=True))
    run.notes.append("replaying the recorded directory")
    files = [(n, bytes.fromhex(h), dict(kind="pel", eid=int.from_bytes(bytes.fromhex(h)[44:48], "big"))) for n, h in r["files"]]

    class FixedRng:
        pass
    import random
    rng = random.Random(0)
    orig = dirgen.gen_dir
    dirgen.gen_dir = lambda *a, **k: files
    try:
        one_dir(run, model, rng, len(files))
    finally:
        dirgen.gen_dir = orig
