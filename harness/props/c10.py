"""C10: look-ups by platform log id, BMC id, entry id and SRC return exactly the matches."""
import json
import os
import tempfile
from collections import OrderedDict

import cli_runner
import common
import dirgen
import pelgen

RULE = ("generated directories of well-formed PELs (hidden and non-serviceable ones included) whose platform log ids / BMC ids are drawn "
        "with heavy weight on small values (< 0x10000000), duplicates and values that are digit-suffixes of each other; --plid in all six "
        "spellings, --bmc-id, --id (file names containing / not containing the id), --src with substrings, --src-exclude with a file; "
        "the real peltool main() compared with the expected set computed from the ids (the property) and with the Coq CLI model; "
        "non-trivial = look-up on a directory with >= 2 PELs")


def ids_of(files):
    out = {}
    for name, data, meta in files:
        out[name] = dict(plid=int.from_bytes(data[40:44], "big"), eid=int.from_bytes(data[44:48], "big"), obmc=int.from_bytes(data[28:32], "big"))
    return out


def junk_lookup(run, model, rng):
    """look-ups in a directory that also holds files too short to be a PEL (empty, a few bytes, cut inside the private header),
    sorting before and after the PEL looked for: the PEL is still shown, exit status 0, no traceback"""
    files = dirgen.gen_dir(model, rng, rng.randrange(1, 4), plugins=True)
    target = rng.choice(files)
    obmc = rng.choice([0, 3, 77])
    tdata = dirgen.set_ids(target[1], obmc=obmc)
    tname = "%s_%08X" % (rng.choice(["b", "m", "y"]), target[2]["eid"])
    # (no other file may carry the target's ids: its BMC id, or - in its name - its entry id; the look-up takes the first it meets)
    files = [f for f in files if f is not target and int.from_bytes(f[1][28:32], "big") != obmc
             and ("%08X" % target[2]["eid"]) not in f[0].upper()] + [(tname, tdata, target[2])]
    shorts = [b"", b"P", b"PH\0\x30\1", tdata[:20], tdata[:47], bytes(7)]
    for k in range(rng.randrange(1, 4)):
        files.append((rng.choice(["0", "a", "n", "zz"]) + "_short%d" % k, rng.choice(shorts), dict(kind="junk")))
    eid, plid = target[2]["eid"], int.from_bytes(tdata[40:44], "big")
    rp = dict(fn="junk-lookup", files=[[f[0], f[1].hex()] for f in files])
    with dirgen.TempDir(files) as d:
        for opt, arg in (("--bmc-id", str(obmc)), ("-i", "%08X" % eid), ("--plid", "%08X" % plid)):
            rc, out, err = cli_runner.run_inproc(["-p", d, opt, arg])
            run.evaluations += 1
            run.count("junk-lookup:" + opt)
            want = "0x%08X" % eid
            try:
                j = json.loads(out, object_pairs_hook=OrderedDict)
                found = (j.get("Private Header", {}).get("Entry Id") == want) if opt != "--plid" else want in j
            except Exception:  # noqa: BLE001
                found = False
            if rc != 0 or "Traceback" in err or not found:
                run.violation("junk-lookup:" + opt, "peltool %s %s in a directory that also holds too-short files: exit status %r, PEL shown: %s" % (opt, arg, rc, found),
                              dict(rp, kind="S", argv=[opt, arg], stdout=out[:300], stderr=err[-300:]))


def refcode_of(data, plugins):
    r = pelgen.impl_decode(data, plugins)
    if r["kind"] != "ok":
        return None
    for k in ("Primary SRC", "Primary SRC 0"):
        if k in r["doc"]:
            return r["doc"][k]["Reference Code"]
    return None


def run(run, model, proof):
    rng = run.rng
    thorough = run.tier == "thorough"
    run.rule = RULE
    for _ in range(200 if thorough else 15):
        junk_lookup(run, model, rng)
    n = 2500 if thorough else 220
    small = [0, 1, 2, 0x10, 0xABC, 0x0FFFFFFF, 0x10000000, 0x00000100, 0x01000001, 0xFFFFFFFF, 0x0000000A]
    for i in range(n):
        plugins = rng.random() < 0.7
        nfiles = rng.randrange(1, 9)
        files = dirgen.gen_dir(model, rng, nfiles, plugins=plugins)
        long_ref = None
        if rng.random() < 0.15:
            # a reference code that fills its 32-character field (no padding): --src may be given all of it
            from props import c04, c18
            long_ref = "BD8D" + "".join(rng.choice("0123456789ABCDEFXYZ") for _ in range(28))
            body, _w = c18.src_body(rng, long_ref, proc=None, wcount=9)
            eid32 = 0x54000000 + rng.randrange(1 << 16)
            files.append(("r%08X.pel" % eid32, dirgen.set_ids(c04.mini_pel(b"O", [(b"PS", 1, 1, 0x2000, body)]), eid=eid32), dict(kind="pel", eid=eid32)))
        pool = [rng.choice(small) for _ in range(3)] + [rng.randrange(1 << 32)]
        files = [(nm, dirgen.set_ids(d, plid=rng.choice(pool), obmc=rng.choice(small[:6] + [rng.randrange(1 << 32)])), m) for nm, d, m in files]
        # some files are named after their entry id, as phosphor-logging does
        renamed = []
        used = set()
        for nm, d, m in files:
            if rng.random() < 0.6:
                nm2 = "2024010112000000_%08X" % m["eid"]
                if nm2 not in used:
                    nm = nm2
            used.add(nm)
            renamed.append((nm, d, m))
        files = renamed
        ids = ids_of(files)
        # (added after the ids were collected: these files are in the directory but never what a look-up should find)
        if rng.random() < 0.3:
            # files whose decoding raises something unusual (a PCE identity below its fixed size: AttributeError; a valid-word count
            # above 9: IndexError): every look-up over the directory steps over them
            from props import c09 as _c09, c04 as _c04, c18 as _c18
            files.append(("j_pce_%d.pel" % i, dirgen.set_ids(_c09.pce_small_pel(0x7200 + i), plid=0x7F000000 + i, obmc=0x7F000000 + i), dict(kind="junk", eid=0x7200 + i)))
            wbody, _w = _c18.src_body(rng, "BD8D9999", proc=None, wcount=rng.choice([10, 12, 200]))
            files.append(("j_wc_%d.pel" % i, dirgen.set_ids(_c04.mini_pel(b"O", [(b"PS", 1, 1, 0x2000, wbody)]), eid=0x7300 + i, plid=0x7F100000 + i, obmc=0x7F100000 + i), dict(kind="junk", eid=0x7300 + i)))
        run.evaluations += 1
        if nfiles >= 2:
            run.nontriv(tuple(sorted(ids)) + (i,))
        by_eid = {("0x%08X" % v["eid"]): k for k, v in ids.items()}
        rp = dict(fn="lookup", files=[[f[0], f[1].hex()] for f in files], plugins=plugins)
        pl = ["-P"] if not plugins else []
        with dirgen.TempDir(files) as d:
            walk = next(os.walk(d))[2]
            ordered = [next(f for f in files if f[0] == w) for w in walk]
            # ---- --plid, six spellings
            x = rng.choice(pool) if rng.random() < 0.8 else rng.randrange(1 << 32)
            spell = rng.choice(["%08X", "%08x", "0x%08X", "0x%08x", "0X%08X", "0X%08x"]) % x
            rc, out, err = cli_runner.run_inproc(["-p", d] + pl + ["--plid", spell])
            run.count("plid:" + ("hit" if any(v["plid"] == x for v in ids.values()) else "miss"))
            want = sorted(k for k, v in ids.items() if v["plid"] == x)
            try:
                got = [by_eid[e] for e in json.loads(out, object_pairs_hook=OrderedDict).keys()]
            except Exception:
                got = None
            if rc != 0 or got != want:
                run.violation("plid", "--plid %s lists %r, the PELs with that platform log id are %r" % (spell, got, want),
                              dict(rp, kind="S", plid=spell, got=got, want=want, rc=rc, stderr=err[-200:]))
            m = pelgen.to_py(dirgen.model_cli(model, 3, ordered, plugins=plugins, extra=spell))
            if got is not None and list(m.get("list", {}).keys()) != list(json.loads(out, object_pairs_hook=OrderedDict).keys()):
                run.disagreements_checked += 1
                run.violation("model:plid", "the CLI model and peltool --plid disagree", dict(rp, kind="M", correspondence="Model.Cli.plid_names", plid=spell), no_input=True)
            # ---- --bmc-id
            b = rng.choice([v["obmc"] for v in ids.values()]) if rng.random() < 0.7 else rng.randrange(1 << 32)
            rc, out, err = cli_runner.run_inproc(["-p", d] + pl + ["--bmc-id", str(b)])
            holders = [k for k, v in ids.items() if v["obmc"] == b]
            run.count("bmcid:" + ("hit" if holders else "miss"))
            if holders:
                try:
                    doc = json.loads(out)
                    ok = doc["Private Header"]["BMC Event Log Id"] == str(b)
                except Exception:
                    ok = False
                if not ok:
                    run.violation("bmcid", "--bmc-id %d does not display a PEL with that id although %r have it" % (b, holders),
                                  dict(rp, kind="S", bmcid=b, stdout=out[:300], stderr=err[-200:]))
            elif out.strip() != "PEL not found":
                run.violation("bmcid-notfound", "--bmc-id %d for an absent id does not report 'PEL not found'" % b, dict(rp, kind="S", bmcid=b, stdout=out[:300]))
            m = pelgen.to_py(dirgen.model_cli(model, 7, ordered, plugins=plugins, extra=str(b)))
            mdoc = (m.get("all") or [None])[0] if "all" in m else None
            if holders and mdoc is not None:
                try:
                    if pelgen.first_diff(mdoc, json.loads(out, object_pairs_hook=OrderedDict)):
                        run.disagreements_checked += 1
                        run.violation("model:bmcid", "the CLI model and peltool --bmc-id disagree", dict(rp, kind="M", correspondence="Model.Cli.mode_bmcid", bmcid=b), no_input=True)
                except Exception:
                    pass
            # ---- --id
            e = rng.choice(list(ids.values()))["eid"] if rng.random() < 0.7 else rng.randrange(1 << 32)
            espell = rng.choice(["%08X", "0x%08x", "%08x"]) % e
            rc, out, err = cli_runner.run_inproc(["-p", d] + pl + ["--id", espell])
            containing = [w for w in walk if ("%08X" % e) in w]
            run.count("id:" + ("hit" if containing else "miss"))
            if containing:
                try:
                    doc = json.loads(out)
                    stored = containing[0]
                    ok = doc["Private Header"]["Entry Id"] == "0x%08X" % ids[stored]["eid"]
                except Exception:
                    ok = False
                if not ok:
                    run.violation("id", "--id %s does not display the PEL stored under that id (%s)" % (espell, containing[0]),
                                  dict(rp, kind="S", id=espell, stdout=out[:300], stderr=err[-200:]))
            elif out.strip() != "PEL not found":
                run.violation("id-notfound", "--id %s for an absent id does not report 'PEL not found'" % espell, dict(rp, kind="S", id=espell, stdout=out[:300]))
            # ---- --src / --src-exclude
            refs = {k: refcode_of(f[1], plugins) for k, f in ((f[0], f) for f in files)}
            some = [r for r in refs.values() if r]
            s = rng.choice(some)[rng.randrange(0, 4):][:rng.randrange(1, 9)] if some and rng.random() < 0.8 else rng.choice(["ZZZ", "BD", "1", " "])
            if long_ref is not None:
                s = rng.choice([long_ref, long_ref[:31], long_ref[1:], long_ref[:32]])      # 32, 31, 31 and 32 characters
            if s:
                rc, out, err = cli_runner.run_inproc(["-p", d] + pl + ["--src", s])
                want = sorted(k for k, r in refs.items() if r is not None and s in r)
                try:
                    got = [by_eid[e2] for e2 in json.loads(out, object_pairs_hook=OrderedDict).keys()]
                except Exception:
                    got = None
                run.count("src:" + ("hit" if want else "miss"))
                if rc != 0 or got != want:
                    run.violation("src", "--src %r lists %r, the PELs whose reference code contains it are %r" % (s, got, want),
                                  dict(rp, kind="S", src=s, got=got, want=want, stderr=err[-200:]))
            tmp = tempfile.mkdtemp(prefix="verif_c10_")
            try:
                ex = os.path.join(tmp, "ex.txt")
                listed = [r for r in some if rng.random() < 0.5]
                # the file is searched as text: one code per line, or codes separated / decorated any other way (comma lists, quoted
                # codes or lines copied from a listing, a trailing remark character)
                deco = rng.choice(["%s", "%s", '"%s"', "%s,", '"SRC": "%s",', "%s:", "#%s#", "code=%s;"])
                sepr = rng.choice(["\n", "\n", ",", ", ", " ", ";", "\t"])
                with open(ex, "w") as f:
                    f.write(sepr.join(deco % r for r in listed) + "\n")
                rc, out, err = cli_runner.run_inproc(["-p", d] + pl + ["--src-exclude", ex])
                content = open(ex).read()
            finally:
                import shutil
                shutil.rmtree(tmp, ignore_errors=True)
            want = sorted(k for k, r in refs.items() if r is not None and r not in content)
            try:
                got = [by_eid[e2] for e2 in json.loads(out, object_pairs_hook=OrderedDict).keys()]
            except Exception:
                got = None
            run.count("src-exclude")
            if rc != 0 or got != want:
                run.violation("src-exclude", "--src-exclude lists %r, the PELs whose reference code is not in the file are %r" % (got, want),
                              dict(rp, kind="S", exclude=listed, got=got, want=want, stderr=err[-200:]))
        if i < 2:
            run.sample(dict(names=[f[0] for f in files], plid=spell, bmcid=b, id=espell, src=s))


def replay(run, model, path):
    globals()["run"](run, model, dict(ok=True))
