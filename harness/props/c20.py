"""C20 correspondence: pel.hwdiags.parserdata.ParserData, udparsers.oe500.oe500.parseUDToJson and
srcparsers.oe500.oe500.parseSRCToJson against the Coq specification (S) and the Gallina model (M).

Chip data: synthetic JSON files (complete / partial / absent / odd) are written to a temp dir outside /repo and
/verif and served by pointing pel.hwdiags.data.__file__ at <tmp>/__init__.py for the duration of one
environment; the attribute is restored and the directory removed afterwards.  Nothing in /repo is touched."""
import json
import os
import shutil
import tempfile

import common

PAIRS = lambda p: ("obj", [list(x) for x in p])  # noqa: E731


# ----------------------------------------------------------------------------------------------
# chip-data environments


class ChipData:
    """Serve a list of chip-data file contents (dicts) to ParserData."""

    def __init__(self, files):
        self.files = files
        self.enc = enc_cd(files)

    def __enter__(self):
        import pel.hwdiags.data as d
        self.mod = d
        self.old = d.__file__
        self.tmp = tempfile.mkdtemp(prefix="c20_chipdata_")
        assert not self.tmp.startswith(("/repo", common.VERIF, common.ROOT + os.sep))
        open(os.path.join(self.tmp, "__init__.py"), "w").close()
        for i, f in enumerate(self.files):
            with open(os.path.join(self.tmp, "chip_%02d.json" % i), "w") as fp:
                json.dump(f, fp)
        d.__file__ = os.path.join(self.tmp, "__init__.py")
        return self

    def __exit__(self, *a):
        self.mod.__file__ = self.old
        shutil.rmtree(self.tmp, ignore_errors=True)


def enc_text(s):
    cps = [ord(c) for c in s]
    return len(cps).to_bytes(2, "big") + b"".join(c.to_bytes(3, "big") for c in cps)


def enc_opt(s):
    return b"\0" if s is None else b"\1" + enc_text(s)


def enc_map(d, encv):
    return len(d).to_bytes(2, "big") + b"".join(enc_text(k) + encv(v) for k, v in d.items())


def enc_entry(e):
    return enc_text(e[0]) + enc_map(e[1], enc_text)


def enc_cd(files):
    """The abstract environment of Model/Hwdiags.v: a missing section and an empty one are the same."""
    out = len(files).to_bytes(2, "big")
    for f in files:
        me = f["model_ec"]
        out += enc_text(me["id"]) + enc_opt(me.get("type")) + enc_opt(me.get("desc"))
        out += enc_map(f.get("attn_types", {}), enc_text)
        out += enc_map(f.get("signatures", {}), enc_entry)
        out += enc_map(f.get("registers", {}), enc_entry)
    return out


WORDS = ["TRUE_MASK", "PLL_UNLOCK", "EQ_CORE_FIR", "LOCAL_FIR", "x", "", "Recoverable attention", "Unit checkstop",
         "a \"quoted\" name", "back\\slash", "café µs", "中文 name", "\U0001f600", "tab\there",
         "A_VERY_LONG_REGISTER_NAME_THAT_IS_CROPPED", "EXACTLY_25_CHARACTERS_LONG", "EXACTLY_24_CHARACTERS_LON",
         "TWENTY_SIX_CHARACTERS_LONG", "%s %d", "0x10", "node 0", "unknown"]
IDS = ["20da0020", "60d20020", "ffffffff", "00000000", "abcdef01", "0a1b2c3d", "deadbeef", "12345678"]


def gen_word(rng):
    return rng.choice(WORDS) if rng.random() < 0.8 else "".join(rng.choice("abXYZ_09 ") for _ in range(rng.randrange(40)))


def hexs(rng, n, letters=0.6):
    if rng.random() < letters:
        return "".join(rng.choice("0123456789abcdef"[rng.randrange(2) * 6:]) for _ in range(n))
    return "".join(rng.choice("0123456789") for _ in range(n))


def gen_addr(rng, bad):
    v = rng.choice([0, 1, 0xffffffff, 0x100000000, rng.getrandbits(32), rng.getrandbits(64), rng.getrandbits(12)])
    k = rng.randrange(6)
    if bad and rng.random() < 0.5:
        return rng.choice(["", "zz", "0x", "12g4", "0x0x12", "x10", "é"])
    if k == 0:
        return "0x%08x" % v
    if k == 1:
        return "0X%X" % v
    if k == 2:
        return "%x" % v
    if k == 3:
        return "%016X" % v
    return "%08x" % v


def gen_file(rng, mid, kind):
    """kind: complete | partial | bad (partial plus addresses int(.., 16) rejects)."""
    part = kind != "complete"

    def drop(p=0.3):
        return part and rng.random() < p

    f = {"model_ec": {"id": mid}}
    if not drop():
        f["model_ec"]["type"] = gen_word(rng)
    if not drop():
        f["model_ec"]["desc"] = gen_word(rng)
    if not drop(0.2):
        f["attn_types"] = {str(a): gen_word(rng) for a in rng.sample(range(0, 256), rng.choice([0, 1, 4, 6]))
                           if not drop(0.1)}
        if rng.random() < 0.5:
            f["attn_types"].update({"1": "SYSTEM_CS", "2": "UNIT_CS", "3": "RECOVERABLE", "4": "SP_ATTN", "5": "HOST_ATTN"})
    if not drop(0.2):
        f["signatures"] = {}
        for _ in range(rng.choice([0, 1, 3, 8])):
            bits = {str(b): gen_word(rng) for b in rng.sample(range(0, 256), rng.choice([0, 1, 3, 10])) if not drop(0.2)}
            f["signatures"][hexs(rng, 4, 0.8)] = [gen_word(rng), bits]
    bad = kind == "bad"
    if bad or not drop(0.2):
        f["registers"] = {}
        for _ in range(4 if bad else rng.choice([0, 1, 3, 8])):
            insts = {str(i): gen_addr(rng, bad) for i in rng.sample(range(0, 256), rng.choice([6, 12] if bad else [0, 1, 2, 6]))
                     if bad or not drop(0.2)}
            f["registers"][hexs(rng, 6, 0.8)] = [gen_word(rng), insts]
    return f


def gen_env(rng, kind):
    if kind == "absent":
        return []
    if kind == "upperid":                      # a file keyed by an upper-case id is never the file of that chip
        return [gen_file(rng, "20DA0020", "complete"), gen_file(rng, "ABCDEF01", "complete")]
    if kind == "oddid":                        # ids that no model/EC word can spell
        return [gen_file(rng, "p10", "complete"), gen_file(rng, "", "complete"), gen_file(rng, "20da00200", "partial")]
    n = rng.choice([1, 2, 3])
    return [gen_file(rng, mid, kind) for mid in rng.sample(IDS, n)]


# ----------------------------------------------------------------------------------------------
# implementation


def impl_pd(fn, *args):
    from pel.hwdiags.parserdata import ParserData
    try:
        r = getattr(ParserData(), fn)(*args)
    except Exception as e:  # noqa: BLE001
        return ("raise", type(e).__name__)
    return ("ok", common.canon(r))


def impl_ud_raw(subtype, version, data):
    from udparsers.oe500.oe500 import parseUDToJson
    try:
        return ("ok", parseUDToJson(subtype, version, memoryview(bytes(data))))
    except Exception as e:  # noqa: BLE001
        return ("raise", type(e).__name__)


def impl_src_raw(refcode, words):
    from srcparsers.oe500.oe500 import parseSRCToJson
    try:
        return ("ok", parseSRCToJson(refcode, *words))
    except Exception as e:  # noqa: BLE001
        return ("raise", type(e).__name__)


def loaded(r):
    """('ok', json text) -> ('ok', ordered value)"""
    return ("ok", json.loads(r[1], object_pairs_hook=PAIRS)) if r[0] == "ok" else r


# ----------------------------------------------------------------------------------------------
# model / spec answers


def mres(a):
    """{"ok": x} | "raise" | "fuel"  ->  ("ok", x) | ("raise",) | ("fuel",)"""
    if isinstance(a, str):
        return (a,)
    return ("ok", common.canon_model(a[1][0][1]))


def from_pairs(x):
    """model value -> plain Python (dict keeps insertion order)"""
    if isinstance(x, tuple) and x and x[0] == "obj":
        return {k: from_pairs(v) for k, v in x[1]}
    if isinstance(x, list):
        return [from_pairs(v) for v in x]
    return x


def resolve_ffdc(val):
    """Model/spec value for the FFDC section -> the text the plugin must return, or None if json.loads raises.
    The model decides json.loads itself (Model/JsonLoads.v); only for a float or very deep nesting it leaves the marker."""
    assert val[1][0][0] == "Callout List FFDC"
    inner = val[1][0][1]
    if isinstance(inner, tuple) and inner[1] and inner[1][0][0] == "@loads" and len(inner[1]) == 1:
        try:
            return json.dumps({"Callout List FFDC": json.loads(inner[1][0][1])})
        except Exception:  # noqa: BLE001
            return None
    return json.dumps({"Callout List FFDC": from_pairs(inner)})


def same(impl, exp):
    """impl: ('ok', v) | ('raise', cls);  exp: ('ok', v) | ('raise',) | ('fuel',)"""
    if exp[0] == "fuel":
        return False
    if impl[0] != exp[0]:
        return False
    return impl[0] == "raise" or impl[1] == exp[1]


# ----------------------------------------------------------------------------------------------
# cases.  A case is a JSON-able dict; run_case evaluates it under the chip data being served.


def case_words(rng, words, style):
    if style == "lower":
        return [w.lower() for w in words]
    if style == "upper":
        return [w.upper() for w in words]
    return ["".join(c.upper() if rng.random() < 0.5 else c.lower() for c in w) for w in words]


def model_call(model, cd, c):
    fn = c["fn"]
    if fn == "ud":
        return mres(model.call("hw_ud", cd.enc, c["subtype"], c["version"], bytes.fromhex(c["data"])))
    if fn == "src":
        return mres(model.call("hw_src", cd.enc, c["refcode"], *c["words"]))
    cmd = dict(get_signature="hw_sig", query_model_ec="hw_query", get_attn_desc="hw_attn", get_chip_desc="hw_chip",
               get_sig_desc="hw_sigdesc", get_reg_data="hw_reg")[fn]
    return mres(model.call(cmd, cd.enc, *c["args"]))


def impl_call(c):
    fn = c["fn"]
    if fn == "ud":
        return impl_ud_raw(c["subtype"], c["version"], bytes.fromhex(c["data"]))
    if fn == "src":
        return impl_src_raw(c["refcode"], c["words"])
    return impl_pd(fn, *c["args"])


def spec_expected(model, cd, c):
    """Expected value from the specification-side builder named in the case (None if the case has none)."""
    g = c.get("gen")
    if not g:
        return None
    a = model.call(g["cmd"], cd.enc, *[bytes.fromhex(x) if k == "h" else x for k, x in g["args"]])
    if isinstance(a, str):
        return None
    d = dict(a[1])
    if g["cmd"] == "hw_gen_regdump" and not d["addrs_ok"]:
        return None
    if d["expected"] == "@raise":
        return ("raise",)
    return ("ok", common.canon_model(d["expected"]))


def run_case(run, model, cd, c, tag):
    """S: implementation against the specification's expected rendering (when the case comes from an abstract
    value); M: implementation against the model.  An M disagreement is decided by the property where it applies."""
    run.evaluations += 1
    run.count(tag)
    got_raw = impl_call(c)
    is_ffdc = c["fn"] == "ud" and c["subtype"] == 3
    text_out = c["fn"] in ("ud", "src")

    def conv(exp):   # bring an expected value into the shape of got
        if exp[0] == "ok" and is_ffdc:
            t = resolve_ffdc(exp[1])
            return ("ok", t) if t is not None else ("raise",)
        return exp

    got = got_raw if (is_ffdc or not text_out) else loaded(got_raw)
    if got[0] == "ok":
        run.nontriv((cd.enc, json.dumps(c, sort_keys=True)))
    rep = dict(case=c, chipdata=cd.files, actual=got)
    sexp = spec_expected(model, cd, c)
    if sexp is not None:
        sexp = conv(sexp)
        if not same(got, sexp):
            run.violation("%s:%s" % (c["fn"] + (str(c["subtype"]) if c["fn"] == "ud" else ""), c.get("what", tag)),
                          "%s: implementation differs from the rendering the property prescribes (%s)" % (c["fn"], tag),
                          dict(kind="S", expected=sexp, **rep))
            return got
    mexp = conv(model_call(model, cd, c))
    if not same(got, mexp):
        run.disagreements_checked += 1
        verdict = decide(model, cd, c, got)
        key = "%s:model-vs-impl" % c["fn"] if verdict is None else "%s:%s" % (c["fn"], verdict[0])
        run.violation(key, "%s differs from the model (%s)%s" % (c["fn"], tag, "" if verdict is None else ": " + verdict[1]),
                      dict(kind="M", expected=mexp, correspondence="Model/Hwdiags.v %s" % c["fn"], **rep),
                      no_input=verdict is None)
    return got


def decide(model, cd, c, got):
    """Evaluate the property itself on an input where model and implementation disagree."""
    try:
        if c["fn"] == "get_signature" or c["fn"] == "src":
            ws = c["args"] if c["fn"] == "get_signature" else c["words"][4:7]
            if not all(len(w) == 8 and all(ch in "0123456789abcdefABCDEF" for ch in w) for w in ws):
                return None
            b = bytes.fromhex("".join(ws))
            ch = sig_choice_from_bytes(b)
            if c["fn"] == "get_signature":
                exp = dict(model.call("hw_gen_sig", cd.enc, ch)[1])["expected"]
                g = got
            else:
                exp = dict(model.call("hw_gen_src", cd.enc, c["refcode"], ch)[1])["expected"]
                g = got
            if not same(g, ("ok", common.canon_model(exp))):
                return ("fields", "fields are not those of byte positions of %s" % b.hex())
        if c["fn"] == "ud" and c["subtype"] == 1:
            d = bytes.fromhex(c["data"])
            if len(d) >= 4:
                n = int.from_bytes(d[:4], "big")
                if 4 + 12 * n <= len(d):
                    ch = b"".join(sig_choice_from_bytes(d[4 + 12 * i:16 + 12 * i]) for i in range(n))
                    exp = dict(model.call("hw_gen_siglist", cd.enc, ch)[1])["expected"]
                    if not same(got, ("ok", common.canon_model(exp))):
                        return ("siglist", "signature list of %d entries not rendered entry by entry" % n)
    except Exception:  # noqa: BLE001
        return None
    return None


def sig_choice_from_bytes(b):
    f = [b[0:4], b[4:6], b[6:7], b[7:8], b[8:10], b[10:11], b[11:12]]
    return b"".join(int.from_bytes(x, "big").to_bytes(4, "big") for x in f)


def sig_choice(fields):
    return b"".join((v & 0xffffffff).to_bytes(4, "big") for v in fields)


# ----------------------------------------------------------------------------------------------
# generators (all choices from run.rng), steered towards the keys the chip data has


def env_ids(cd):
    return [f["model_ec"]["id"] for f in cd.files if len(f["model_ec"]["id"]) == 8
            and all(c in "0123456789abcdefABCDEF" for c in f["model_ec"]["id"])]


def file_of(cd, mid):
    for f in cd.files:
        if f["model_ec"]["id"].lower() == mid.lower():
            return f
    return None


BOUND8 = [0, 1, 0x7f, 0x80, 0xfe, 0xff, 9, 10, 99, 100]
BOUND16 = [0, 1, 0xff, 0x100, 0x7fff, 0x8000, 0xfffe, 0xffff, 9999, 10000]
BOUND32 = [0, 1, 0xffffffff, 0x80000000, 0x7fffffff, 0x0a0b0c0d, 0xa0b0c0d0, 0xabcdefab]


def pick(rng, bounds, bits):
    return rng.choice(bounds) if rng.random() < 0.3 else rng.getrandbits(bits)


def gen_sig_fields(rng, cd):
    ids = env_ids(cd)
    model = int(rng.choice(ids), 16) if ids and rng.random() < 0.65 else pick(rng, BOUND32, 32)
    f = file_of(cd, "%08x" % model)
    pos, node, attn = pick(rng, BOUND16, 16), pick(rng, BOUND8, 8), pick(rng, BOUND8, 8)
    sid, inst, bit = pick(rng, BOUND16, 16), pick(rng, BOUND8, 8), pick(rng, BOUND8, 8)
    if f:
        at = [int(k) for k in f.get("attn_types", {}) if k.isdigit() and int(k) < 256]
        if at and rng.random() < 0.6:
            attn = rng.choice(at)
        sg = f.get("signatures", {})
        if sg and rng.random() < 0.7:
            k = rng.choice(list(sg))
            sid = int(k, 16)
            bits = [int(b) for b in sg[k][1] if int(b) < 256]
            if bits and rng.random() < 0.7:
                bit = rng.choice(bits)
    return [model, pos, node, attn, sid, inst, bit]


def sig_cases(run, model, cd, n):
    rng = run.rng
    for i in range(n):
        ch = sig_choice(gen_sig_fields(rng, cd))
        g = dict(model.call("hw_gen_sig", cd.enc, ch)[1])
        style = ("lower", "upper", "mixed")[i % 3]
        words = case_words(rng, g["words"], style)
        c = dict(fn="get_signature", args=words, what="fields", gen=dict(cmd="hw_gen_sig", args=[("h", ch.hex())]))
        got = run_case(run, model, cd, c, "sig:" + style)
        # case-insensitivity on the implementation alone
        other = impl_pd("get_signature", *case_words(rng, words, ("upper", "mixed", "lower")[i % 3]))
        if got != other:
            run.violation("get_signature:case", "upper/lower-case words give different results",
                          dict(kind="S", case=c, chipdata=cd.files, actual=got, other=other))
        if i % 3 == 0:
            # the same signature as SRC words 6..8
            ref = rng.choice(["BD8D5610", "BD8D5601", "BD8D5611", "BD8D5600", "BD8D56", "BD8D561", "", "BD8D56100", "bd8d5610",
                              "BD8D5610  ", "11111010", "10101101"])
            others = ["%08X" % rng.getrandbits(32) for _ in range(5)]
            ws = others[:4] + case_words(rng, g["words"], "upper" if i % 2 else "mixed") + others[4:]
            c2 = dict(fn="src", refcode=ref, words=ws, what="words6to8",
                      gen=dict(cmd="hw_gen_src", args=[("t", ref), ("h", ch.hex())]))
            run_case(run, model, cd, c2, "src")
    run.sample(dict(fn="get_signature", words=g["words"], chipdata_ids=[f["model_ec"]["id"] for f in cd.files],
                    expected=from_pairs(common.canon_model(g["expected"]))))


BAD_WORDS = ["", "1234567", "123456789", "1234567g", "0x123456", " 1234567", "1234567 ", "12345678\n", "١234567",
             "１234567", "12 45678", "+1234567", "1234_678", "ABCDEFGH", "İbcdef01", "abcdef0K"]


def invalid_cases(run, model, cd):
    rng = run.rng
    good = "%08x" % rng.getrandbits(32)
    for bad in BAD_WORDS:
        for k in range(3):
            ws = [good, good, good]
            ws[k] = bad
            run_case(run, model, cd, dict(fn="get_signature", args=ws), "sig:invalid")
        run_case(run, model, cd, dict(fn="query_model_ec", args=[bad]), "query:invalid")
        run_case(run, model, cd, dict(fn="get_attn_desc", args=[bad, 1]), "attn:invalid")
        run_case(run, model, cd, dict(fn="get_chip_desc", args=[bad, 1, 2]), "chip:invalid")
        run_case(run, model, cd, dict(fn="get_sig_desc", args=[bad, "1234", 1, 2]), "sigdesc:invalid")
        run_case(run, model, cd, dict(fn="get_sig_desc", args=[good, bad[:4], 1, 2]), "sigdesc:invalid")
        run_case(run, model, cd, dict(fn="get_reg_data", args=[bad, "123456", 1]), "reg:invalid")
        run_case(run, model, cd, dict(fn="get_reg_data", args=[good, bad[:6], 1]), "reg:invalid")
        run_case(run, model, cd, dict(fn="src", refcode="BD8D5610", words=["0"] * 4 + [good, bad, good] + ["0"]), "src:invalid")
    for v in (256, 257, 65535, 65536, 65537, 1 << 32):
        run_case(run, model, cd, dict(fn="get_chip_desc", args=[good, v, 1]), "chip:range")
        run_case(run, model, cd, dict(fn="get_chip_desc", args=[good, 1, v]), "chip:range")
        run_case(run, model, cd, dict(fn="get_sig_desc", args=[good, "12ab", v, 1]), "sigdesc:range")
        run_case(run, model, cd, dict(fn="get_sig_desc", args=[good, "12ab", 1, v]), "sigdesc:range")
        run_case(run, model, cd, dict(fn="get_reg_data", args=[good, "12ab34", v]), "reg:range")
        run_case(run, model, cd, dict(fn="get_attn_desc", args=[good, v]), "attn:wide")
    for nw in (0, 7, 9):
        run_case(run, model, cd, dict(fn="src", refcode="BD8D5610", words=[good] * nw), "src:argcount")


def direct_cases(run, model, cd, n):
    """The individual ParserData accessors on keys that hit and miss."""
    rng = run.rng
    for i in range(n):
        f_ = gen_sig_fields(rng, cd)
        m = case_words(rng, ["%08x" % f_[0]], ("lower", "upper", "mixed")[i % 3])[0]
        sid = case_words(rng, ["%04x" % f_[4]], ("upper", "mixed", "lower")[i % 3])[0]
        run_case(run, model, cd, dict(fn="query_model_ec", args=[m]), "query")
        run_case(run, model, cd, dict(fn="get_attn_desc", args=[m, f_[3]]), "attn")
        run_case(run, model, cd, dict(fn="get_chip_desc", args=[m, f_[2], f_[1]]), "chip")
        run_case(run, model, cd, dict(fn="get_sig_desc", args=[m, sid, f_[5], f_[6]]), "sigdesc")
        rid, inst = gen_reg_key(rng, cd, f_[0])
        rs = case_words(rng, ["%06x" % rid], ("mixed", "lower", "upper")[i % 3])[0]
        run_case(run, model, cd, dict(fn="get_reg_data", args=[m, rs, inst]), "reg")


def gen_reg_key(rng, cd, model):
    f = file_of(cd, "%08x" % model)
    rid, inst = rng.getrandbits(24) if rng.random() < 0.8 else rng.choice([0, 0xffffff, 0xabcdef]), pick(rng, BOUND8, 8)
    if f:
        rg = f.get("registers", {})
        if rg and rng.random() < 0.75:
            k = rng.choice(list(rg))
            rid = int(k, 16)
            insts = [int(b) for b in rg[k][1] if int(b) < 256]
            if insts and rng.random() < 0.75:
                inst = rng.choice(insts)
    return rid, inst


def mutate_payload(rng, d):
    """truncations, extensions and byte edits of an encoded payload"""
    out = []
    if d:
        out.append(d[:rng.randrange(len(d))])
        out.append(d[:-1])
    out.append(d + bytes(rng.randrange(256) for _ in range(rng.randrange(1, 14))))
    if len(d) >= 4:
        n = int.from_bytes(d[:4], "big")
        out.append((n + 1).to_bytes(4, "big") + d[4:])
        if n:
            out.append((n - 1).to_bytes(4, "big") + d[4:])
    if d:
        b = bytearray(d)
        b[rng.randrange(len(b))] = rng.choice([0, 1, 0xff, rng.randrange(256)])
        out.append(bytes(b))
    return out


def ud_case(sub, data, ver=1, gen=None, what=None):
    c = dict(fn="ud", subtype=sub, version=ver, data=bytes(data).hex())
    if gen:
        c["gen"] = gen
        c["what"] = what
    return c


def siglist_cases(run, model, cd, counts, mutants):
    rng = run.rng
    for n in counts:
        ch = b"".join(sig_choice(gen_sig_fields(rng, cd)) for _ in range(n))
        g = dict(model.call("hw_gen_siglist", cd.enc, ch)[1])
        d = bytes.fromhex(g["hex"])
        assert g["count"] == n and len(d) == 4 + 12 * n
        run_case(run, model, cd, ud_case(1, d, rng.randrange(256), dict(cmd="hw_gen_siglist", args=[("h", ch.hex())]), "siglist"),
                 "siglist:n=%s" % (n if n < 3 else "3-50" if n <= 50 else "51-200"))
        if mutants:
            for m in mutate_payload(rng, d):
                run_case(run, model, cd, ud_case(1, m), "siglist:mutated")
    for d in (b"", b"\0", b"\0\0\0", b"\0\0\0\0", b"\xff\xff\xff\xff", b"\xff\xff\xff\xff" + bytes(24), b"\0\0\0\1" + bytes(11)):
        run_case(run, model, cd, ud_case(1, d), "siglist:edge")


def regdump_choice(rng, cd, nchips, maxregs, sizes):
    out = nchips.to_bytes(2, "big")
    ids = env_ids(cd)
    seen = []        # register keys used by earlier chips: another chip type may use the same id and instance
    for _ in range(nchips):
        model = int(rng.choice(ids), 16) if ids and rng.random() < 0.7 else pick(rng, BOUND32, 32)
        nregs = rng.randrange(maxregs + 1)
        out += model.to_bytes(4, "big") + pick(rng, BOUND16, 16).to_bytes(2, "big") + pick(rng, BOUND8, 8).to_bytes(1, "big")
        out += nregs.to_bytes(2, "big")
        for _ in range(nregs):
            rid, inst = gen_reg_key(rng, cd, model)
            if seen and rng.random() < 0.3:
                rid, inst = rng.choice(seen)
            seen.append((rid, inst))
            size = rng.choice(sizes) if rng.random() < 0.5 else rng.randrange(1, 256)
            out += rid.to_bytes(3, "big") + bytes([inst, size - 1]) + bytes(rng.randrange(256) for _ in range(size))
    return out


def regdump_cases(run, model, cd, n, mutants):
    rng = run.rng
    sizes = [1, 2, 3, 4, 5, 7, 8, 9, 16, 254, 255]
    for i in range(n):
        nchips = rng.choice([0, 1, 1, 2, 3, 5]) if i else 0
        ch = regdump_choice(rng, cd, nchips, rng.choice([0, 1, 3, 8]), sizes)
        g = model.call("hw_gen_regdump", cd.enc, ch)
        assert not isinstance(g, str), g
        g = dict(g[1])
        d = bytes.fromhex(g["hex"])
        got = run_case(run, model, cd, ud_case(2, d, 1, dict(cmd="hw_gen_regdump", args=[("h", ch.hex())]), "regdump"),
                       "regdump:%s" % ("addrs_ok" if g["addrs_ok"] else "bad_addr"))
        if got[0] == "ok" and g["regs"]:
            # "exactly its data bytes": the data column of every register line reads back as the encoded bytes
            lines = dict(got[1][1])["Register Dump"]
            datas = regdump_datas(d)
            reglines = [x for x in lines if x.startswith("  ")]
            back = [bytes.fromhex(model.call("hw_data_back", b"", x.rsplit(") ", 1)[1])) for x in reglines[:3]]
            if back != datas[:3]:
                run.violation("ud2:databytes", "register data column does not read back as the data bytes",
                              dict(kind="S", case=ud_case(2, d), chipdata=cd.files, actual=lines[:8]))
        if mutants:
            for m in mutate_payload(rng, d):
                run_case(run, model, cd, ud_case(2, m), "regdump:mutated")
    # size byte 0 (get_mem(0)) and other edges
    edges = [b"", b"\0\0\0", b"\0\0\0\0", b"\0\0\0\1", b"\0\0\0\1" + bytes(11),
             b"\0\0\0\1" + bytes.fromhex("20da0020000100") + b"\0\0\0\1" + bytes.fromhex("abcdef0100"),
             b"\0\0\0\1" + bytes.fromhex("20da0020000100") + b"\0\0\0\1" + bytes.fromhex("abcdef0101"),
             b"\0\0\0\1" + bytes.fromhex("20da0020000100") + b"\0\0\0\1" + bytes.fromhex("abcdef0101ee"),
             b"\xff\xff\xff\xff" + bytes.fromhex("20da0020000100") + b"\0\0\0\0"]
    for d in edges:
        run_case(run, model, cd, ud_case(2, d), "regdump:edge")


def regdump_datas(d):
    """the data fields of a well-formed register dump payload, in order"""
    out, i = [], 4
    for _ in range(int.from_bytes(d[:4], "big")):
        n = int.from_bytes(d[i + 7:i + 11], "big")
        i += 11
        for _ in range(n):
            sz = d[i + 4]
            out.append(d[i + 5:i + 5 + sz])
            i += 5 + sz
    return out


def gen_json(rng, depth=0):
    k = rng.randrange(8 if depth < 3 else 5)
    if k == 0:
        return rng.choice([None, True, False])
    if k == 1:
        return rng.choice([0, -1, 1 << 70, rng.getrandbits(16), -rng.getrandbits(40)])
    if k == 2:
        return rng.choice([0.5, -1e300, 1e-7, 3.0, float("inf"), float("nan")])
    if k in (3, 4):
        return gen_word(rng)
    if k == 5:
        return [gen_json(rng, depth + 1) for _ in range(rng.randrange(4))]
    return {gen_word(rng): gen_json(rng, depth + 1) for _ in range(rng.randrange(4))}


def ffdc_cases(run, model, cd, n):
    rng = run.rng
    for i in range(n):
        j = gen_json(rng) if i % 4 else {"Callout List": [{"Priority": "high", "LocationCode": "P0-C%d" % i, "Deconfigured": False}]}
        t = json.dumps(j, ensure_ascii=bool(rng.randrange(2)), indent=rng.choice([None, 2]))
        if i % 7 == 3:
            t = rng.choice(['{"a":1,"a":2}', " [1, 2] ", "﻿{}", "{'a': 1}", "", "nul", "[1,]", '"\\ud800"', "1 2", "{\"a\":\"é\"}"])
        nz = rng.choice([0, 1, 1, 2, 9])
        g = model.call("hw_gen_ffdc", b"", t, nz)
        if isinstance(g, str):
            run.unsupported += 1
            continue
        g = dict(g[1])
        d = bytes.fromhex(g["hex"])
        run_case(run, model, cd, ud_case(3, d, 1, dict(cmd="hw_gen_ffdc", args=[("t", t), ("t", nz)]), "ffdc"), "ffdc")
        # bytes that are not UTF-8, NULs inside, truncation inside a multi-byte character
        for m in (d[:max(0, len(d) - nz - 1)], b"\0" + d, d + b"\xff", d.replace(b"a", b"\x80", 1), d.rstrip(b"\0") + b"\0 \0"):
            run_case(run, model, cd, ud_case(3, m), "ffdc:mutated")
    for d in (b"", b"\0", b"\0\0\0", b"\xc3", b"\xed\xa0\x80", b"\xf4\x90\x80\x80", b"\xc0\x80", b"null\0", b"0"):
        run_case(run, model, cd, ud_case(3, d), "ffdc:edge")


def scratch_cases(run, model, cd, n):
    rng = run.rng
    for i in range(n):
        ch = bytes(rng.randrange(256) for _ in range(24)) if i % 3 else rng.choice([bytes(24), b"\xff" * 24, b"\0\0\0\1" * 6,
                                                                                     bytes(8) + bytes(4) + bytes(12)])
        g = dict(model.call("hw_gen_scratch", b"", ch)[1])
        d = bytes.fromhex(g["hex"])
        run_case(run, model, cd, ud_case(4, d, 1, dict(cmd="hw_gen_scratch", args=[("h", ch.hex())]), "scratch"), "scratch")
        g5 = dict(model.call("hw_gen_scratch_sig", b"", ch[:8])[1])
        d5 = bytes.fromhex(g5["hex"])
        run_case(run, model, cd, ud_case(5, d5, 1, dict(cmd="hw_gen_scratch_sig", args=[("h", ch[:8].hex())]), "scratchsig"), "scratchsig")
        if i % 4 == 0:
            for k in (0, 3, 4, 7, 8, 15, 16, 23):
                run_case(run, model, cd, ud_case(4, d[:k]), "scratch:truncated")
            for k in (0, 3, 4, 7):
                run_case(run, model, cd, ud_case(5, d5[:k]), "scratchsig:truncated")
            run_case(run, model, cd, ud_case(4, d + b"xyz"), "scratch:extended")
            run_case(run, model, cd, ud_case(5, d5 + b"xyz"), "scratchsig:extended")
            for sub in (0, 6, 7, 255, 256, 65535):
                run_case(run, model, cd, ud_case(sub, d), "ud:other-subtype")
                run_case(run, model, cd, ud_case(sub, b""), "ud:other-subtype")


def one_env(run, model, kind, scale, mutants=True):
    rng = run.rng
    files = gen_env(rng, kind)
    with ChipData(files) as cd:
        got = model.call("hw_cd", cd.enc)
        assert [x[0] for x in got] == [f["model_ec"]["id"] for f in files], "chip-data encoding"
        run.count("env:" + kind)
        sig_cases(run, model, cd, 40 * scale)
        direct_cases(run, model, cd, 12 * scale)
        siglist_cases(run, model, cd, [0, 1, 2, 3] + [rng.randrange(4, 51) for _ in range(scale)]
                      + [rng.randrange(51, 201) for _ in range(max(1, scale // 2))] + ([200] if kind == "complete" else []), mutants)
        regdump_cases(run, model, cd, 5 * scale, mutants)
        ffdc_cases(run, model, cd, 3 * scale)
        scratch_cases(run, model, cd, 2 * scale)
        if kind in ("absent", "partial"):
            invalid_cases(run, model, cd)


def run(run, model, proof):
    thorough = run.tier == "thorough"
    run.rule = ("ParserData (get_signature, query_model_ec, get_attn_desc, get_chip_desc, get_sig_desc, get_reg_data), "
                "udparsers.oe500.oe500.parseUDToJson (sub-types 1-5 and others) and srcparsers.oe500.oe500.parseSRCToJson run "
                "in-process under synthetic chip-data environments (absent / complete / partial at every level / addresses "
                "int() rejects / upper-case and non-hex file ids) served through pel.hwdiags.data.__file__; inputs: abstract "
                "signatures (boundary and random 96-bit values, steered to hit and to miss the chip-data keys) encoded by the "
                "Coq specification, as lower/upper/mixed-case words, as SRC words 6..8 and as signature lists of 0..200 "
                "entries; register dumps (0..5 chips x 0..8 registers x data sizes 1..255); scratch-register sections; FFDC "
                "JSON texts with 0..9 NULs; truncated, extended and byte-edited payloads; malformed words and out-of-range "
                "integers.  Every case is compared with the specification's rendering when it comes from an abstract value "
                "and with the model always.  non-trivial = distinct (environment, input) that the implementation decodes "
                "without raising")
    kinds = ["absent", "complete", "partial", "partial", "complete", "bad", "upperid", "oddid", "partial", "complete"]
    scale = 2
    kinds = kinds * (30 if thorough else 3)
    if thorough:
        scale = 4
    for k in kinds:
        one_env(run, model, k, scale)
    import pel.hwdiags.data as d
    assert os.path.dirname(d.__file__).startswith(os.path.join(common.ROOT, "modules")), "data path restored"


def replay(run, model, path):
    r = json.load(open(path))
    if "case" not in r:
        run.notes.append("replay is a proof/build record; re-running the whole check")
        globals()["run"](run, model, dict(ok=True))
        return
    c = r["case"]
    if c.get("gen"):
        c["gen"]["args"] = [tuple(x) for x in c["gen"]["args"]]
    with ChipData(r["chipdata"]) as cd:
        run_case(run, model, cd, c, "replay")
        if c["fn"] == "get_signature":
            a, b = impl_pd("get_signature", *[w.upper() for w in c["args"]]), impl_pd("get_signature", *[w.lower() for w in c["args"]])
            if a != b:
                run.violation("get_signature:case", "upper/lower-case words give different results",
                              dict(kind="S", case=c, chipdata=r["chipdata"], actual=a, other=b))
