"""Registry part of C02/C03: component names and registry messages through a fixture `pel_registry` package.
The registry is loaded when pel.peltool.src is imported, so every fixture gets its own worker process."""
import json
import os
import shutil
import struct
import subprocess
import tempfile
from collections import OrderedDict

import common
import pelgen
from props import c04, c18

MESSAGES = ["plain message", "word %1", "a %1 b %2", "%2 then %1", "%1 %1 %2", "100%", "50% of %1", "brace {x} %1", "%3 only", "", "é %1",
            "trailing %", "%1%2%3"]


def rand_registry(rng):
    pels = []
    for _ in range(rng.randrange(1, 6)):
        src = OrderedDict()
        if rng.random() < 0.9:
            src["ReasonCode"] = "0x" + rng.choice(["8D12", "1234", "E500", "00E5", "2030", "8D"]) + rng.choice(["", "", "0"])
        if rng.random() < 0.6:
            src["Type"] = rng.choice(["BD", "11", "BC", "B7"])
        w = OrderedDict()
        for num in rng.sample(["6", "7", "8", "9"], rng.randrange(0, 4)):
            d = OrderedDict()
            if rng.random() < 0.7:
                d["Description"] = "desc of word " + num
            d["AdditionalDataPropSource"] = rng.choice(["PROP_A", "PROP_B", "Message", "X" + num])
            w[num] = d
        if w or rng.random() < 0.3:
            src["Words6To9"] = w
        doc = OrderedDict(Message=rng.choice(MESSAGES))
        if rng.random() < 0.7:
            doc["MessageArgSources"] = ["SRCWord" + str(rng.choice([2, 3, 5, 6, 7, 8, 9, 6, 7])) for _ in range(rng.randrange(0, 4))]
        pels.append(OrderedDict(SRC=src, Documentation=doc))
    comps = {}
    for cr in rng.sample(["O", "B", "H", "T"], rng.randrange(0, 3)):
        comps[cr] = {rng.choice(["2000", "1234", "ABCD", "E500"]): "name-" + cr + str(i) for i in range(rng.randrange(1, 3))}
    return pels, comps


def model_args(pels, comps):
    a = []
    triples = [(cr, k, v) for cr, d in comps.items() for k, v in d.items()]
    a.append(bytes([len(triples)]))
    for cr, k, v in triples:
        a += [cr, k, v]
    for p in pels:
        s, d = p["SRC"], p["Documentation"]
        a += [bytes([1 if "ReasonCode" in s else 0]), s.get("ReasonCode", ""), bytes([1 if "Type" in s else 0]), s.get("Type", ""), d["Message"]]
        args = d.get("MessageArgSources")
        a += [bytes([1 if args is not None else 0]), bytes([len(args or [])])] + list(args or [])
        w = s.get("Words6To9") or {}
        a.append(bytes([len(w)]))
        for num, wd in w.items():
            a += [num, bytes([1 if "Description" in wd else 0]), wd.get("Description", ""), wd["AdditionalDataPropSource"]]
    return a


class RegistryWorker:
    def __init__(self, pels, comps):
        self.tmp = tempfile.mkdtemp(prefix="verif_reg_")
        pkg = os.path.join(self.tmp, "pel_registry")
        os.makedirs(pkg)
        with open(os.path.join(pkg, "__init__.py"), "w") as f:
            f.write("import os\ndef get_registry_path():\n    return os.path.join(os.path.dirname(__file__), 'message_registry.json')\n")
        with open(os.path.join(pkg, "message_registry.json"), "w") as f:
            json.dump({"PELs": pels}, f)
        for cr, d in comps.items():
            with open(os.path.join(pkg, cr + "_component_ids.json"), "w") as f:
                json.dump(d, f)
        env = dict(common.IMPL_ENV, PYTHONPATH=self.tmp + os.pathsep + common.IMPL_ENV["PYTHONPATH"])
        self.p = subprocess.Popen([common.PY, os.path.join(common.VERIF, "harness", "impl_worker.py"), common.ROOT],
                                  stdin=subprocess.PIPE, stdout=subprocess.PIPE, stderr=subprocess.DEVNULL, text=True, env=env)

    def decode(self, data, plugins):
        self.p.stdin.write(json.dumps(dict(op="decode_plain", hex=data.hex(), plugins=plugins)) + "\n")
        self.p.stdin.flush()
        line = self.p.stdout.readline()
        return json.loads(line) if line else dict(kind="died")

    def close(self):
        try:
            self.p.stdin.close()
            self.p.wait(timeout=10)
        except Exception:
            self.p.kill()
        shutil.rmtree(self.tmp, ignore_errors=True)


def expected_message(pels, refcode, words):
    """the statement, for entries with ordered placeholders: first entry of the SRC's type whose reason code contains the code"""
    code, ty = "0x" + refcode[4:8], refcode[0:2]
    for p in pels:
        s = p["SRC"]
        if "ReasonCode" not in s or s.get("Type", "BD") != ty or code not in s["ReasonCode"]:
            continue
        msg = p["Documentation"]["Message"]
        if any(wd.get("AdditionalDataPropSource") == "Message" and "Description" in wd for wd in (s.get("Words6To9") or {}).values()):
            return None   # a described word stored under the key "Message" replaces the message (dict update): outside the statement
        args = p["Documentation"].get("MessageArgSources")
        if args is None:
            return msg
        import re
        ph = re.findall(r"%[1-9]", msg)
        if "{" in msg or "}" in msg or ph != ["%" + str(i + 1) for i in range(len(ph))] or len(ph) > len(args):
            return None   # outside the statement's domain
        for i, a in enumerate(args):
            msg = msg.replace("%" + str(i + 1), hex(words[int(a[-1]) - 2]))
        return msg
    return ""


def check_registry(run, model, rng, n):
    for _ in range(n):
        pels, comps = rand_registry(rng)
        w = RegistryWorker(pels, comps)
        try:
            margs = model_args(pels, comps)
            for _ in range(12):
                creator = rng.choice([b"O", b"B", b"H", b"T"])
                ref = rng.choice(["BD", "11", "BC", "B7"]) + rng.choice(["8D", "00", "12"]) + rng.choice(["8D12", "1234", "E500", "00E5", "2030", "8D00"])
                body, words = c18.src_body(rng, ref, proc=rng.choice([None, "BMC0001"]), wcount=9)
                comp = rng.choice([0x2000, 0x1234, 0xABCD, 0xE500])
                data = c04.mini_pel(creator, [(b"PS", 1, 1, comp, body)])
                data = data[:6] + struct.pack(">H", comp) + data[8:]
                plugins = rng.random() < 0.5
                run.evaluations += 1
                run.nontriv((data, json.dumps(pels), json.dumps(comps)))
                run.count("registry")
                impl = w.decode(data, plugins)
                mo = pelgen.model_outcome(model.call("decode_reg", bytes([1 if plugins else 0]), data, *margs))
                rp = dict(fn="registry", input_hex=data.hex(), registry=pels, components=comps, plugins=plugins)
                doc = json.loads(impl["text"], object_pairs_hook=OrderedDict) if impl["kind"] == "ok" else None
                want = expected_message(pels, ref, words)
                if doc is not None and want is not None and ref[:2] in ("BD", "11", "BC"):
                    got = doc["Primary SRC"].get("Error Details", {}).get("Message", "")
                    if got != want:
                        run.violation("registry-message", "registry message %r, expected %r (filled with the referenced hex words)" % (got, want), dict(rp, kind="S", got=got, want=want))
                if doc is not None:
                    cname = comps.get(creator.decode(), {}).get("%04X" % comp)
                    shown = doc["Private Header"]["Created by"]
                    if creator != b"H" and cname is not None and shown != cname:
                        run.violation("component-name", "component shown as %r, the registry names it %r" % (shown, cname), dict(rp, kind="S"))
                if mo[0] == "unsupported":
                    run.unsupported += 1
                    continue
                if mo[0] != impl["kind"] or (doc is not None and pelgen.first_diff(mo[2], doc)):
                    run.disagreements_checked += 1
                    d = pelgen.first_diff(mo[2], doc) if doc is not None and mo[0] == "ok" else "%s vs %s" % (mo[0], impl["kind"])
                    run.violation("model:registry", "model and decoder disagree with a registry present: %s" % d,
                                  dict(rp, kind="M", correspondence="Model.Render.error_details / display_comp vs registry.py / comp_id.py", where=d), no_input=True)
        finally:
            w.close()
