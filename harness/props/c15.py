"""C15 correspondence: io_drawer.trace.parse_trace_data against the Coq model (M), against the Coq
specification on spec-built buffers (S), and against the property text re-stated here (oracle) to
decide whether a model/implementation disagreement is a failure of the property itself.

String files: synthetic ones are written under tempfile.mkdtemp() (outside /repo and /verif, removed
afterwards); the two shipped ones are read in place.  The table handed to the model is always the one
the real TraceStringFile parsed (the regular-expression parsing is not modelled)."""
import json
import os
import shutil
import struct
import tempfile

import common

HEAD1 = 'HH:MM:SS Seq  Line  Entry Data'
HEAD2 = '-------- ---- ----- ----------'
INDENT = ' ' * 20
T_TRACE, T_BIN = 0x4654, 0x4644
BATCH = 64
BATCH_BYTES = 60000


# ------------------------------------------------------------------------------------------------
# implementation access

def impl_parse(data, path):
    """the decoder's lines; an exception that escapes it is a result of its own (never what the model or the specification say)"""
    from io_drawer.trace import parse_trace_data
    try:
        return parse_trace_data(memoryview(bytes(data)), path)
    except Exception as e:  # noqa: BLE001
        return ["<parse_trace_data raised %s: %s>" % (type(e).__name__, str(e)[:200])]


def impl_table(path):
    from io_drawer.trace import TraceStringFile
    return [(s.hash_value, s.message_format, s.location) for s in TraceStringFile(path).trace_strings]


def norm(lines):
    """same normal form as the model's JSON answer (a high and a low surrogate from two %c in a row
    read back as one code point)"""
    return json.loads(json.dumps(lines))


def enc_table(tbl):
    out = bytearray()
    for h, f, l in tbl:
        hb = h.to_bytes(max(1, (h.bit_length() + 7) // 8), "big")
        fb, lb = f.encode("utf-8"), l.encode("utf-8")
        out += bytes([len(hb)]) + hb + len(fb).to_bytes(4, "big") + fb + len(lb).to_bytes(4, "big") + lb
    return bytes(out)


class Table:
    """one string file: path for the implementation, parsed + encoded table for the model"""

    def __init__(self, name, path, source=None):
        self.name, self.path, self.source = name, path, source
        self.tbl = impl_table(path)
        self.blob = enc_table(self.tbl)
        self.pending = []     # (data, tag, implementation's answer) waiting for a model batch
        self.pending_bytes = 0
        self.pending_spec = []
        self.pending_spec_bytes = 0
        self.unsup_low = set()   # low hash digits of strings whose format is outside the modelled fragment

    def replay_ref(self):
        return dict(table_name=self.name) if self.source is None else dict(table_name=self.name, table_lines=self.source)


def write_string_file(tmpdir, name, lines):
    p = os.path.join(tmpdir, name)
    with open(p, "w", encoding="utf-8", newline="") as f:
        f.write("#FSP_TRACE_v2|||Thu Sep 24 12:55:43 2020|||BUILD:Release\n")
        for x in lines:
            f.write(x + "\n")
    return p


# ------------------------------------------------------------------------------------------------
# the property text, re-stated (used only to classify disagreements and as a second opinion)

def ref_hexdump(d):
    out = []
    for i in range(0, len(d), 16):
        row = d[i:i + 16]
        raw = "  ".join("".join("%02X" % b for b in row[j:j + 4]) for j in range(0, len(row), 4))
        txt = "".join(chr(b) if 0x20 <= b < 0x7f else "." for b in row)
        out.append("%08X     %s     %s" % (i, raw.ljust(38), txt.ljust(16)))
    return out


def ref_timestamp(t):
    if t >= 0xFFFF:
        return "--------"
    return "%2d:%02d:%02d" % (t // 3600, (t % 3600) // 60, t % 60)


def ref_choose(tbl, h):
    for s in tbl:
        if s[0] == h:
            return s, False
    part = [s for s in tbl if s[0] != h and s[0] % 100000 == h % 100000]
    return (part[-1], True) if part else (None, False)


def oracle(data, tbl):
    """-> list of (category, line)"""
    data = bytes(data)
    if len(data) < 32:
        return [("noheader", 'Unable to parse trace data.')] + [("noheader", x) for x in ref_hexdump(data)]
    comp = bytes(b for b in data[4:16] if b < 0x80).decode("ascii").rstrip("\0").rstrip(" ")
    size = int.from_bytes(data[20:24], "big")
    out = [("header", "Component: " + comp), ("header", "Version: %d" % data[0]), ("header", "Size: %d" % size),
           ("header", "Times Wrapped: %d" % int.from_bytes(data[24:28], "big")), ("header", ""),
           ("header", HEAD1), ("header", HEAD2)]
    i = 32
    while i < size:
        if len(data) - i < 16:
            break
        tbh, seq, ln, tag, h, line = struct.unpack(">HHHHII", data[i:i + 16])
        if ln > 1024:
            break
        tot = 16 + ln + (-ln) % 4 + 4
        if len(data) - i < tot or int.from_bytes(data[i + tot - 4:i + tot], "big") != tot:
            break
        d = data[i + 16:i + 16 + ln]
        s, partial = ref_choose(tbl, h)
        binary = tag == T_BIN
        if s is None:
            msg = "No trace string found with hash value %d" % h
        else:
            args = () if binary else tuple(int.from_bytes(d[k:k + 4], "big") for k in range(0, min(len(d) // 4, 5) * 4, 4))
            try:
                msg = s[1] % args
            except Exception:
                msg = s[1]
        out.append(("entry:main", "%s %04X %5d %s" % (ref_timestamp(tbh), seq, line, msg)))
        if partial:
            out.append(("entry:warning", INDENT + "Warning: Partial match with trace string from " + s[2]))
        if binary or s is None or partial:
            out += [("entry:dump", INDENT + x) for x in ref_hexdump(d)]
        i += tot
    return out


def first_diff(expected_cat, got):
    exp = norm([x[1] for x in expected_cat])
    got = norm(got)
    for k in range(max(len(exp), len(got))):
        if k >= len(exp):
            return "entries:extra", k
        if k >= len(got):
            return ("entries:missing" if expected_cat[k][0].startswith("entry") else expected_cat[k][0] + ":missing"), k
        if exp[k] != got[k]:
            return expected_cat[k][0], k
    return None


# ------------------------------------------------------------------------------------------------
# abstract buffers (the shape of Spec/TraceSpec.v : abuffer / aentry)

def pad_len(n):
    return (-n) % 4


def mk_entry(rng, data, tag=T_TRACE, h=0, pad=None, tbh=None, seq=None, line=None):
    return dict(tbh=rng.choice((0, 1, 59, 60, 3599, 3600, 35999, 36000, 65534, 65535, rng.randrange(65536))) if tbh is None else tbh,
                seq=rng.randrange(65536) if seq is None else seq, tag=tag, hash=h,
                line=rng.choice((0, 7, 99999, 100000, 0xFFFFFFFF, rng.randrange(1 << 32), rng.randrange(3000))) if line is None else line,
                data=bytes(data), pad=bytes(rng.randrange(256) for _ in range(pad_len(len(data)))) if pad is None else bytes(pad))


def entry_size(e):
    return 16 + len(e["data"]) + len(e["pad"]) + 4


def py_encode_entry(e, length=None, trailer=None):
    ln = len(e["data"]) if length is None else length
    tot = entry_size(e) if trailer is None else trailer
    return (struct.pack(">HHHHII", e["tbh"], e["seq"], ln & 0xFFFF, e["tag"], e["hash"], e["line"]) + e["data"] + e["pad"]
            + struct.pack(">I", tot & 0xFFFFFFFF))


def mk_header(rng, size, comp=None, ver=None):
    if comp is None:
        k = rng.randrange(8)
        if k == 0:
            comp = rng.choice((b"IICS", b"IICM", b"POWR", b"FANS", b"INFO", b"ERRL")).ljust(12, b"\0")
        elif k == 1:
            comp = bytes(rng.randrange(256) for _ in range(12))
        elif k == 2:
            comp = bytes(rng.choice((0, 0x20, 0x41, 0x80, 0xff, 0x7f)) for _ in range(12))
        elif k == 3:
            comp = (b"AB " + b"\0" * 3 + b" " * 3 + b"\0" * 3)
        elif k == 4:
            comp = b"X\0 \0 \0 \0 \0\x80\xff"
        elif k == 5:
            comp = b"  lead" + b" " * 6
        elif k == 6:
            comp = b"\0" * 12
        else:
            comp = bytes(rng.choice((0x20, 0x00, 0x0a, 0x09, 0x41)) for _ in range(12))
    return dict(ver=rng.randrange(256) if ver is None else ver, hdr_len=rng.randrange(256), time_flg=rng.randrange(256),
                endian_flg=rng.choice((0x42, 0x4c, rng.randrange(256))), comp=comp,
                reserved=bytes(rng.randrange(256) for _ in range(4)), size=size,
                wrap=rng.choice((0, 0, 1, 0xFFFFFFFF, rng.randrange(1 << 32))),
                # the next-free offset is only shown, never used to bound the entries: small values (inside the buffer) included
                next_free=rng.choice((0, 32, rng.randrange(0, min(size, 1 << 16) + 1), size & 0xFFFFFFFF, rng.randrange(1 << 32))))


def py_encode_header(h):
    return (bytes([h["ver"], h["hdr_len"], h["time_flg"], h["endian_flg"]]) + h["comp"] + h["reserved"]
            + struct.pack(">III", h["size"], h["wrap"], h["next_free"]))


def py_encode(h, es):
    return py_encode_header(h) + b"".join(py_encode_entry(e) for e in es)


def spec_args(h, es):
    out = [py_encode_header(h)]
    for e in es:
        out.append(struct.pack(">HHHIIB", e["tbh"], e["seq"], e["tag"], e["hash"], e["line"], len(e["pad"])) + e["pad"] + e["data"])
    return out


def abstract_json(h, es):
    hh = dict(h, comp=h["comp"].hex(), reserved=h["reserved"].hex())
    return dict(header=hh, entries=[dict(e, data=e["data"].hex(), pad=e["pad"].hex()) for e in es])


def abstract_from_json(j):
    h = dict(j["header"], comp=bytes.fromhex(j["header"]["comp"]), reserved=bytes.fromhex(j["header"]["reserved"]))
    return h, [dict(e, data=bytes.fromhex(e["data"]), pad=bytes.fromhex(e["pad"])) for e in j["entries"]]


# ------------------------------------------------------------------------------------------------
# checks

def is_unsupported(ans):
    return isinstance(ans, tuple) and ans[0] == "obj" and ans[1] and ans[1][0][0] == "unsupported"


def judge(run, table, data, got, exp_model, tag):
    """model and implementation differ on [data]: decide with the property text"""
    run.disagreements_checked += 1
    cat = oracle(data, table.tbl)
    diff = first_diff(cat, got)
    rep = dict(kind="M", fn="trace", input_hex=bytes(data).hex(), expected=exp_model, actual=got, case=tag, **table.replay_ref())
    if diff is None:
        run.violation("trace:model-vs-impl", "parse_trace_data agrees with the property text but not with the model (%s, %d bytes)"
                      % (tag, len(data)), dict(rep, correspondence="Model.Trace.parse_trace vs io_drawer.trace.parse_trace_data"),
                      no_input=True)
    else:
        rep["oracle"] = [x[1] for x in cat]
        run.violation("trace:" + diff[0], "parse_trace_data output line %d (%s) is not what the property requires (%s, %d bytes)"
                      % (diff[1], diff[0], tag, len(data)), rep)


def flush(run, model, table):
    if not table.pending:
        return
    pend, table.pending, table.pending_bytes = table.pending, [], 0
    answers = model.call("trace_batch", table.blob, *[p[0] for p in pend])
    for (data, tag, got), ans in zip(pend, answers):
        run.evaluations += 1
        if is_unsupported(ans):
            run.unsupported += 1
            run.count("unsupported:" + tag.split(":")[0])
            continue
        if norm(got) != ans:
            judge(run, table, data, got, ans, tag)
        run.count(tag)
        if len(got) > 7 and got[0].startswith("Component"):
            run.nontriv((table.name, data))


def check_raw(run, model, table, data, tag, got=None):
    """(M) arbitrary bytes: implementation now, model in the next batch; plus the parts of the property
    that are cheap to check directly"""
    data = bytes(data)
    if got is None:
        got = impl_parse(data, table.path)
    if len(data) < 32:
        import pel.hexdump as hd
        back = bytes(hd.parse(got[1:], hd.DEFAULT_LINE_FORMAT))
        if got[:1] != ['Unable to parse trace data.'] or back != data:
            run.violation("trace:noheader", "input of %d bytes (no header) is not hex-dumped losslessly" % len(data),
                          dict(kind="S", fn="trace", input_hex=data.hex(), actual=got, case=tag, **table.replay_ref()))
    table.pending.append((data, tag, got))
    table.pending_bytes += len(data)
    if len(table.pending) >= BATCH or table.pending_bytes >= BATCH_BYTES:
        flush(run, model, table)


def spec_blob(h, es):
    args = spec_args(h, es)
    return args[0] + b"".join(len(a).to_bytes(4, "big") + a for a in args[1:])


def check_spec(run, model, table, h, es, tag, also_raw=True):
    """(S) a buffer built by the Coq specification must be displayed exactly as the specification says
    (queued; evaluated by flush_spec)"""
    table.pending_spec.append((h, es, tag, also_raw))
    table.pending_spec_bytes += total_len(es)
    if len(table.pending_spec) >= BATCH or table.pending_spec_bytes >= BATCH_BYTES:
        flush_spec(run, model, table)


def flush_spec(run, model, table):
    if not table.pending_spec:
        return
    pend, table.pending_spec, table.pending_spec_bytes = table.pending_spec, [], 0
    answers = model.call("trace_spec_batch", table.blob, *[spec_blob(h, es) for (h, es, _t, _r) in pend])
    for (h, es, tag, also_raw), ans in zip(pend, answers):
        run.evaluations += 1
        ans = dict(ans[1])
        data = bytes.fromhex(ans["data"])
        if not ans["wf"] or data != py_encode(h, es):
            raise RuntimeError("harness: generated buffer is not well-formed for the specification (%s)" % tag)
        if ans["unsupported"]:
            run.unsupported += 1
            run.count("unsupported:spec")
            continue
        got = impl_parse(data, table.path)
        if norm(got) != ans["lines"]:
            cat = oracle(data, table.tbl)
            diff = first_diff(cat, got) or ("spec-vs-impl", -1)
            run.violation("roundtrip:" + diff[0], "a well-formed buffer with %d entries is not displayed as specified (%s; first "
                          "difference at line %d, %s)" % (len(es), tag, diff[1], diff[0]),
                          dict(kind="S", fn="spec", abstract=abstract_json(h, es), input_hex=data.hex(), expected=ans["lines"],
                               actual=got, case=tag, theorem="C15_roundtrip", **table.replay_ref()))
        run.count("spec:" + tag)
        if es:
            run.nontriv((table.name, "spec", data))
        if also_raw:
            check_raw(run, model, table, data, "wf:" + tag, got=got)


def check_fmt(run, model, fmt, args, tag):
    """the %-formatting sub-model against the interpreter itself"""
    run.evaluations += 1
    try:
        exp = fmt % tuple(args)
    except Exception:
        exp = None
    ans = model.call("trace_pyfmt", fmt, *[a.to_bytes(4, "big") for a in args])
    if is_unsupported(ans):
        run.unsupported += 1
        run.count("unsupported:pyfmt")
        return
    if ans != (None if exp is None else norm([exp])[0]):
        run.disagreements_checked += 1
        run.violation("pyfmt:model-vs-interpreter", "the %%-formatting model differs from CPython on %r %% %r" % (fmt, tuple(args)),
                      dict(kind="M", fn="pyfmt", fmt=fmt, args=list(args), expected=ans, actual=exp,
                           correspondence="Model.TraceFmt.pyfmt vs str.__mod__"), no_input=True)
    run.count("pyfmt:" + tag)


# ------------------------------------------------------------------------------------------------
# generators

ARG_VALUES = (0, 1, 9, 10, 15, 16, 65, 0x7f, 0x80, 0xff, 0x100, 0xd7ff, 0xd800, 0xdfff, 0xffff, 0x10000, 0x10ffff, 0x110000,
              99999, 100000, 0x7fffffff, 0x80000000, 0xffffffff)


def gen_arg(rng):
    return rng.choice(ARG_VALUES) if rng.random() < 0.6 else rng.randrange(1 << rng.choice((4, 8, 16, 21, 32)))


def gen_conv(rng, convs="diuxXcs"):
    s = "%"
    for _ in range(rng.choice((0, 0, 0, 1, 1, 2, 3))):
        s += rng.choice("-+ #0")
    if rng.random() < 0.5:
        s += str(rng.choice((0, 1, 2, 3, 4, 5, 8, 10, 12, 15)))
    if rng.random() < 0.35:
        s += "." + rng.choice(("", "0", "1", "2", "4", "8", "11"))
    if rng.random() < 0.15:
        s += rng.choice("hlL")
    return s + rng.choice(convs)


LITS = ("", " ", "E> ", "I> x=", ": ", ", rc ", "0x", " %% ", "é", "\U0001F600", "||", "(", ")", "[", "100%%", " -> ", "\t")


def gen_fmt(rng, nconv, bad=False):
    s = rng.choice(LITS)
    for _ in range(nconv):
        s += gen_conv(rng) + rng.choice(LITS)
    if bad:
        s += rng.choice(("%", "%q", "%(a)d", "%lld", "%5", "%.", "%-", "% %", "%5%", "%y", "%hhd", "%b", "%\x01", "%l"))
    return s


def gen_unsupported_fmt(rng):
    return rng.choice(LITS) + rng.choice(("%f", "%o", "%*d", "%.*d", "%r", "%e", "%G", "%a", "%#o", "%200000d", "%.200000d"))


def gen_data(rng, n):
    k = rng.randrange(4)
    if k == 0:
        return bytes(rng.randrange(256) for _ in range(n))
    if k == 1:
        return bytes((i * 11 + 5) & 0xff for i in range(n))
    if k == 2:
        return bytes(rng.choice((0, 0, 0, 1, 0x41, 0xff)) for _ in range(n))
    # small argument words so that %c / widths are exercised
    out = b"".join(struct.pack(">I", gen_arg(rng)) for _ in range((n + 3) // 4))
    return out[:n]


def check_path_reuse(run, rng, tmpdir):
    """the string file in force is the one the path holds now: the same buffer decoded before and after the file at one path was
    rewritten, the second answer against a decode with the same contents under a path never used before"""
    import struct
    for k in range(3):
        h = rng.randrange(1, 1 << 31)
        entry = struct.pack(">HHHHII", 1, k, 0, 0x4654, h, 10 + k) + struct.pack(">I", 20)
        data = bytes([1, 32, 0, ord("B")]) + b"POWR".ljust(12, b"\0") + bytes(4) + struct.pack(">III", 32 + len(entry), 0, 32 + len(entry)) + entry
        first = ["%d||first contents %d||a.cpp(1)" % (h, k)]
        second = rng.choice([["%d||second contents %d||b.cpp(2)" % (h, k)], ["%d||other string||c.cpp(3)" % (h + 1)], []])
        p = write_string_file(tmpdir, "reused_path", first)
        impl_parse(data, p)
        p = write_string_file(tmpdir, "reused_path", second)
        again = impl_parse(data, p)
        fresh = impl_parse(data, write_string_file(tmpdir, "fresh_path_%d_%d" % (k, rng.randrange(1 << 30)), second))
        run.evaluations += 1
        run.count("string-file-path-reuse")
        if again != fresh:
            run.violation("stringfile:stale", "a trace buffer is decoded with an earlier state of the string file at the same path",
                          dict(kind="S", fn="string-file-reuse", input_hex=data.hex(), first_contents=first, second_contents=second,
                               actual=again[-3:], expected=fresh[-3:]))


def synthetic_tables(rng, tmpdir, n_tables):
    """string files built so that exact / last-partial / unknown lookups all occur and the order matters"""
    tables = []
    for t in range(n_tables):
        lines, hashes, unsup = [], [], set()
        low_groups = [rng.randrange(100000) for _ in range(6)]
        for g, low in enumerate(low_groups):
            # several candidates with the same low digits; the exact one sits first, in the middle or last
            cands = [low + 100000 * k for k in rng.sample(range(0, 42949), 4)]
            if rng.random() < 0.3:
                cands.append(low + 100000 * rng.randrange(42950, 10 ** 9))          # beyond 32 bits: only ever partial
            rng.shuffle(cands)
            if rng.random() < 0.3:
                cands.append(cands[0])                                              # duplicate hash: the first wins
            for h in cands:
                nconv = rng.randrange(0, 7)
                r = rng.random()
                fmt = gen_unsupported_fmt(rng) if r < 0.03 else gen_fmt(rng, nconv, bad=r > 0.93)
                if r < 0.03:
                    unsup.add(h % 100000)
                lines.append("%s%d%s||%s||%s" % (rng.choice(("", "", " ", "00")), h, rng.choice(("", "", " ")), fmt,
                                               rng.choice(("file.cpp(%d)" % (h // 100000), "a||b.c(1)", "", "ü.cpp(2)"))))
                hashes.append(h)
        if t == 0:
            for nconv in range(0, 7):                      # plain formats with 0..6 conversions
                h = 7000000 + nconv
                lines.append("%d||plain%d:%s||plain.cpp(%d)" % (h, nconv, " %d" * nconv, nconv))
                hashes.append(h)
            # formats whose only conversions are literal percent signs (formatting with an empty argument tuple is not the identity)
            lines.append("7000100||pct: 100%% done, %%d left%%||pct.cpp(1)")
            lines.append("7000101||%%||pct.cpp(2)")
            hashes += [7000100, 7000101]
        if t % 2:
            rng.shuffle(lines)
        junk = ["", "no separators here", "12x||bad hash||f.c(1)", "||missing hash||f.c(2)", "5||only two fields"]
        for j in junk:
            lines.insert(rng.randrange(len(lines) + 1), j)
        path = write_string_file(tmpdir, "synth%d" % t, lines)
        tables.append(Table("synth%d" % t, path, source=lines))
        tables[-1].unsup_low = unsup
    return tables


def expected_table(lines):
    """the strings a string file holds, from the documented line format <hash>||<message>||<location>, written without the
    implementation's regular expression: the message is everything between the first and the last separator"""
    import re
    out = []
    for ln in lines:
        t = ln[len(re.match(r"\s*", ln).group(0)):]
        k = 0
        while k < len(t) and t[k] in "0123456789":
            k += 1
        if k == 0:
            continue
        rest = t[k:]
        rest = rest[len(re.match(r"\s*", rest).group(0)):]
        if not rest.startswith("||"):
            continue
        rest = rest[2:]
        j = rest.rfind("||")
        if j < 0 or "\n" in rest or "\r" in rest:
            continue
        out.append((int(t[:k]), rest[:j].strip(), rest[j + 2:].strip()))      # surrounding blanks do not belong to the message
    return out


def check_table_parse(run, table):
    if table.source is None:
        return
    run.evaluations += 1
    run.count("string-file-parse")
    want = expected_table(table.source)
    got = [(h, f, l) for h, f, l in table.tbl]
    if [(h, f) for h, f, _ in want] != [(h, f) for h, f, _ in got]:
        k = next((i for i, (a, b) in enumerate(zip(want, got)) if a[:2] != b[:2]), min(len(want), len(got)))
        run.violation("stringfile:parsed-table", "the trace strings read from a string file are not those its lines hold (%d expected, %d read; first difference at entry %d)"
                      % (len(want), len(got), k),
                      dict(kind="S", fn="string-file", lines=table.source[:200], expected=[list(x) for x in want[max(0, k - 1):k + 2]],
                           actual=[list(x) for x in got[max(0, k - 1):k + 2]]))


def pick_hash(rng, table, mode):
    """a hash value that has an exact / only partial / no match in the table"""
    hs = [s[0] for s in table.tbl]
    if table.unsup_low and rng.random() < 0.97:             # rarely pick strings the model does not cover
        hs = [h for h in hs if h % 100000 not in table.unsup_low]
    small = [h for h in hs if h < (1 << 32)]
    if mode == "exact" and small:
        return rng.choice(small)
    if mode == "partial" and hs:
        base = rng.choice(hs) % 100000
        for _ in range(50):
            h = base + 100000 * rng.randrange(0, 42949)
            if h not in hs:
                return h
    for _ in range(200):
        h = rng.randrange(1 << 32)
        if all(x % 100000 != h % 100000 for x in hs):
            return h
    return rng.randrange(1 << 32)


def gen_entries(rng, table, n, lengths=None):
    es = []
    for i in range(n):
        ln = lengths[i] if lengths is not None else rng.choice((0, 1, 2, 3, 4, 5, 7, 8, 12, 16, 19, 20, 21, 24, 28, 29, 33, rng.randrange(0, 80)))
        mode = rng.choice(("exact", "exact", "partial", "partial", "unknown"))
        tag = rng.choice((T_TRACE, T_TRACE, T_TRACE, T_BIN, T_BIN, 0, 0xFFFF, 0x4645, 0x4454, rng.randrange(65536)))
        es.append(mk_entry(rng, gen_data(rng, ln), tag=tag, h=pick_hash(rng, table, mode)))
    return es


def total_len(es):
    return 32 + sum(entry_size(e) for e in es)


def wf_size(rng, es):
    """a declared size for which every entry starts inside the buffer"""
    if not es:
        return rng.choice((0, 31, 32, 33, 1000, 0xFFFFFFFF))
    last_start = total_len(es) - entry_size(es[-1])
    return rng.choice((last_start + 1, total_len(es), total_len(es) - 1, total_len(es) + 1, total_len(es) + 100, 0xFFFFFFFF))


# ------------------------------------------------------------------------------------------------

def corruptions(rng, h, es):
    """single-field corruptions of a well-formed buffer -> list of (tag, bytes)"""
    out = []
    base = py_encode(h, es)
    if not es:
        return out
    k = rng.randrange(len(es))
    off = 32 + sum(entry_size(e) for e in es[:k])
    e = es[k]
    ln = len(e["data"])

    def patched(o, b):
        return base[:o] + b + base[o + len(b):]

    for newlen in {ln + 1, max(ln - 1, 0), ln + 4, max(ln - 4, 0), 0, 1024, 1025, 1028, 0xFFFF, ln ^ 1} - {ln}:
        out.append(("corrupt:length", patched(off + 4, struct.pack(">H", newlen))))
    tot = entry_size(e)
    for newtot in {tot + 1, tot - 1, tot + 4, tot - 4, 0, ln, 16 + ln, 20 + ln, 0xFFFFFFFF, tot + (1 << 16), tot << 8} - {tot}:
        out.append(("corrupt:trailer", patched(off + tot - 4, struct.pack(">I", newtot & 0xFFFFFFFF))))
    # pad: drop / add alignment bytes (trailer left as encoded, and recomputed for the new span)
    body = base[off:off + 16 + ln]
    rest = base[off + tot:]
    for padn in {0, 1, 2, 3, 4} - {len(e["pad"])}:
        out.append(("corrupt:pad", base[:off] + body + b"\xee" * padn + struct.pack(">I", tot) + rest))
        out.append(("corrupt:pad", base[:off] + body + b"\xee" * padn + struct.pack(">I", 16 + ln + padn + 4) + rest))
    # oversized entry that is otherwise perfectly framed
    big = dict(e, data=bytes(1025), pad=bytes(3))
    out.append(("corrupt:oversized", base[:off] + py_encode_entry(big) + rest))
    big = dict(e, data=bytes(1028), pad=b"")
    out.append(("corrupt:oversized", base[:off] + py_encode_entry(big) + rest))
    # declared size smaller / larger than the data
    starts = [32]
    for x in es:
        starts.append(starts[-1] + entry_size(x))
    for s in starts:
        for sz in (s - 1, s, s + 1):
            if sz >= 0:
                out.append(("corrupt:size", patched(20, struct.pack(">I", sz))))
    for sz in (0, 1, 31, len(base) + 1, len(base) + 20, len(base) * 2, 0x7FFFFFFF, 0xFFFFFFFF):
        out.append(("corrupt:size", patched(20, struct.pack(">I", sz))))
    # one random byte flipped somewhere in the fixed fields or trailer
    for _ in range(3):
        o = rng.randrange(32, len(base))
        out.append(("corrupt:byte", patched(o, bytes([base[o] ^ (1 << rng.randrange(8))]))))
    return out


def run(run, model, proof):
    rng = run.rng
    thorough = run.tier == "thorough"
    run.rule = ("parse_trace_data run on: buffers built by the Coq specification (all header byte values, 0..60 entries, every data "
                "length 0..1024 with its pad, trace/binary/unknown tags, exact / last-partial / unknown hashes, 0..7 argument words "
                "against formats with 0..6 conversions) for synthetic string files and both shipped ones; every truncation of some "
                "buffers; single-field corruptions (length, pad, trailer, oversized, declared size, bit flips); unstructured bytes; "
                "inputs shorter than a header; and the %-formatting sub-model against the interpreter. "
                "non-trivial = distinct input with a header and at least one displayed entry")
    tmpdir = tempfile.mkdtemp(prefix="verif_c15_")
    try:
        check_path_reuse(run, rng, tmpdir)
        tables = synthetic_tables(rng, tmpdir, 6 if thorough else 3)
        for t_ in tables:
            check_table_parse(run, t_)
        iodir = os.path.join(common.ROOT, "modules", "io_drawer")
        shipped = [Table(n, os.path.join(iodir, n)) for n in ("mexStringFile", "nimitzStringFile")]
        every = tables + shipped

        def tab(i, k):
            """mostly the (small) synthetic tables; a shipped one every k-th time (each lookup in those costs ~700 comparisons)"""
            return shipped[(i // k) % 2] if i % k == 0 else tables[i % len(tables)]
        run.extra["string_tables"] = {t.name: len(t.tbl) for t in every}

        # ---- the %-formatting sub-model against the interpreter ----
        for t in shipped:                                   # every shipped format, right / wrong argument counts
            for (_h, fmt, _l) in t.tbl:
                n = len([c for c in fmt.replace("%%", "") if c == "%"])
                for k in {n, max(n - 1, 0), n + 1} if thorough else {n}:
                    check_fmt(run, model, fmt, [gen_arg(rng) for _ in range(k)], "shipped")
        for i in range(60000 if thorough else 2500):
            n = rng.randrange(0, 7)
            fmt = gen_fmt(rng, n, bad=rng.random() < 0.08)
            k = n if rng.random() < 0.8 else rng.randrange(0, 8)
            check_fmt(run, model, fmt, [gen_arg(rng) for _ in range(k)], "random")
        for conv in "diuxXcs":                              # systematic: flags x width x precision
            for fl in ("", "-", "0", "+", " ", "#", "-0", "+0", " 0", "#0", "-#", "+#0", "- ", "+ "):
                for w in ("", "1", "6", "11"):
                    for p in ("", ".", ".0", ".3", ".9"):
                        for v in (0, 7, 0xAB, 0x10FFFF, 0xFFFFFFFF):
                            check_fmt(run, model, "<%" + fl + w + p + conv + ">", [v], "grid")
        for i in range(30):
            check_fmt(run, model, gen_unsupported_fmt(rng), [gen_arg(rng)], "unsupported")

        # ---- inputs without a header ----
        for n in range(0, 32):
            for t in (tables[0], shipped[0]):
                check_raw(run, model, t, gen_data(rng, n), "noheader")

        # ---- all header values; no entries / a few entries ----
        for ver in range(256):
            t = every[ver % len(every)]
            es = gen_entries(rng, t, rng.choice((0, 1, 2)))
            h = mk_header(rng, wf_size(rng, es), ver=ver)
            check_spec(run, model, t, h, es, "header")
        for b in range(256):                                # every byte value in the component name
            t = tables[b % len(tables)]
            comp = bytes([0x41, b, 0x42, b, 0x20, b, 0, b, 0x20, 0, b, b][:12])
            check_spec(run, model, t, mk_header(rng, 32, comp=comp), [], "component")

        # ---- every data length 0..1024 (all four alignments), spread over buffers of 0..60 entries ----
        lengths = list(range(0, 1025)) * (4 if thorough else 1)
        rng.shuffle(lengths)
        counts = list(range(0, 61))
        ci = 0
        while lengths:
            n = counts[ci % len(counts)]
            ci += 1
            if n > len(lengths):
                n = len(lengths)
            mine, lengths = lengths[:n], lengths[n:]
            t = tab(ci, 6)
            es = gen_entries(rng, t, n, mine)
            check_spec(run, model, t, mk_header(rng, wf_size(rng, es)), es, "lengths")
        # entry counts 0..60 with short entries (message selection and argument counts dominate)
        for n in range(0, 61):
            for t in (every if thorough else ([tables[n % len(tables)]] + ([shipped[n % 2]] if n in (0, 1, 2, 3, 10, 30, 59, 60) else []))):
                es = gen_entries(rng, t, n)
                check_spec(run, model, t, mk_header(rng, wf_size(rng, es)), es, "count")
        # argument counts 0..7 (and ragged tails) against plain formats with 0..6 conversions
        t0 = tables[0]
        for nconv in range(0, 7):
            for nbytes in range(0, 32):
                for tag in (T_TRACE, T_BIN, 0x1234):
                    es = [mk_entry(rng, gen_data(rng, nbytes), tag=tag, h=7000000 + nconv)]
                    check_spec(run, model, t0, mk_header(rng, wf_size(rng, es)), es, "args", also_raw=False)
        for hp in (7000100, 7000101):
            for nbytes in range(0, 10):
                for tag in (T_TRACE, T_BIN):
                    es = [mk_entry(rng, gen_data(rng, nbytes), tag=tag, h=hp)]
                    check_spec(run, model, t0, mk_header(rng, wf_size(rng, es)), es, "args:percent-only", also_raw=False)
        # lookups: every string of every table once exact, once partial
        for t in every:
            for (hv, _f, _l) in (t.tbl if thorough else rng.sample(t.tbl, min(len(t.tbl), 120))):
                es = []
                if hv < (1 << 32):
                    es.append(mk_entry(rng, gen_data(rng, rng.choice((0, 4, 8, 12, 16, 20, 24))), h=hv))
                for _ in range(2):
                    hp = hv % 100000 + 100000 * rng.randrange(0, 42949)
                    es.append(mk_entry(rng, gen_data(rng, rng.choice((0, 4, 8, 9, 20, 24))), h=hp, tag=rng.choice((T_TRACE, T_BIN))))
                check_spec(run, model, t, mk_header(rng, wf_size(rng, es)), es, "lookup", also_raw=False)

        # ---- truncation at every offset ----
        for i in range(24 if thorough else 4):
            t = every[i % len(every)] if thorough else tables[i % len(tables)]
            es = gen_entries(rng, t, rng.choice((3, 5, 8)))
            h = mk_header(rng, rng.choice((total_len(es), 0xFFFFFFFF)))
            data = py_encode(h, es)
            for cut in range(len(data) + 1):
                check_raw(run, model, t, data[:cut], "truncate")
            run.sample(dict(fn="trace", case="truncate", table=t.name, input_hex=data.hex(), lines=impl_parse(data, t.path)[:12]), 2)

        # ---- single-field corruptions ----
        for i in range(600 if thorough else 40):
            t = tab(i, 8)
            es = gen_entries(rng, t, rng.choice((1, 2, 3, 6)))
            h = mk_header(rng, rng.choice((total_len(es), total_len(es), 0xFFFFFFFF)))
            for tag, data in corruptions(rng, h, es):
                check_raw(run, model, t, data, tag)
            # trailing bytes after a complete buffer (declared size decides whether they are looked at)
            data = py_encode(h, es)
            check_raw(run, model, t, data + gen_data(rng, rng.randrange(1, 40)), "trailing")
            check_raw(run, model, t, data + py_encode_entry(mk_entry(rng, b"late", h=1)), "trailing")

        # ---- unstructured bytes behind a header ----
        for i in range(10000 if thorough else 300):
            t = every[i % len(every)]
            n = rng.randrange(0, 200)
            body = gen_data(rng, n)
            if rng.random() < 0.5 and n >= 16:                 # plausible length field
                body = body[:4] + struct.pack(">H", rng.randrange(0, 40)) + body[6:]
            check_raw(run, model, t, py_encode_header(mk_header(rng, rng.choice((0, 32, 33, 32 + n, 0xFFFFFFFF)))) + body, "random")

        for t in every:
            flush_spec(run, model, t)
            flush(run, model, t)
        es = gen_entries(rng, shipped[0], 3)
        d = py_encode(mk_header(rng, total_len(es), comp=b"POWR".ljust(12, b"\0")), es)
        run.sample(dict(fn="trace", table="mexStringFile", input_hex=d.hex(), lines=impl_parse(d, shipped[0].path)))
    finally:
        shutil.rmtree(tmpdir, ignore_errors=True)


def replay(run, model, path):
    r = json.load(open(path))
    fn = r.get("fn")
    tmpdir = tempfile.mkdtemp(prefix="verif_c15_")
    try:
        if fn == "pyfmt":
            check_fmt(run, model, r["fmt"], r["args"], "replay")
            return
        if fn not in ("trace", "spec"):
            run.notes.append("replay kind %r is a proof/build record; re-running the whole check" % fn)
            globals()["run"](run, model, dict(ok=True))
            return
        if "table_lines" in r:
            t = Table(r["table_name"], write_string_file(tmpdir, "replay", r["table_lines"]), source=r["table_lines"])
        else:
            t = Table(r["table_name"], os.path.join(common.ROOT, "modules", "io_drawer", r["table_name"]))
        if fn == "spec":
            h, es = abstract_from_json(r["abstract"])
            check_spec(run, model, t, h, es, "replay")
        else:
            check_raw(run, model, t, bytes.fromhex(r["input_hex"]), "replay")
        flush_spec(run, model, t)
        flush(run, model, t)
    finally:
        shutil.rmtree(tmpdir, ignore_errors=True)
