"""C17 correspondence: io_drawer.dump (parse_dump_data, parse_dump_file, `python -m io_drawer.dump`) against the Coq model
(Model/Dump.v, proved equal to the specification Spec/DumpSpec.v in Props/C17.v) and against the property text evaluated
directly on the implementation's output:

  * regions found here by an independent computation (first occurrence of each of the six header patterns by regular
    expression search, the set sorted) - the report must be the "ILOG" block of the stand-alone ILOG decoder on the bytes
    before the first offset followed by one "Trace" block of the stand-alone trace decoder per region, in address order;
  * a dump file in either text format (rendered by the Coq specification's renderers, upper/lower case digits, short last
    line, comment / blank lines, CRLF, no final newline) decodes exactly like its raw bytes; empty input gives no output.

Tables: the PTE table and the trace-string table are abstract in Coq; here they are always the ones the real PTETable /
TraceStringFile read - synthetic header / string files written to a scratch directory (outside /repo and /verif, removed
afterwards) and both shipped drawer types.  Cases the model answers "unsupported" (a %-conversion outside Base/PyFmt.v /
Model/TraceFmt.v) are counted, not compared with the model, and still checked against the property."""
import json
import os
import re
import shutil
import subprocess
import tempfile

import common
from props import c14, c15

START = bytes([0x02, 0x20, 0x01, 0x42])
NAMES = [b"IICS", b"IICM", b"POWR", b"FANS", b"INFO", b"ERRL"]
PATTERNS = [START + n for n in NAMES]
DIVIDER = "-" * 73
UNSUPPORTED = ("obj", [["unsupported", True]])
BATCH = 48
BATCH_BYTES = 40000
CORPUS = os.path.join(common.VERIF, "corpus", "C17")


# ---------------------------------------------------------------------------------------------
# implementation access

def impl_dump(d, setup):
    from io_drawer.dump import parse_dump_data
    try:
        return parse_dump_data(memoryview(bytes(d)), setup.header, setup.strings)
    except Exception as e:  # noqa: BLE001  (an escaping exception is a result of its own: never the model's lines)
        return ["<parse_dump_data raised %s: %s>" % (type(e).__name__, str(e)[:120])]


def impl_dump_file(path, setup):
    from io_drawer.dump import parse_dump_file
    try:
        return parse_dump_file(path, setup.header, setup.strings)
    except Exception as e:  # noqa: BLE001
        return ["<parse_dump_file raised %s: %s>" % (type(e).__name__, str(e)[:120])]


def norm(lines):
    return c15.norm(lines)


# ---------------------------------------------------------------------------------------------
# the property, stated directly

def py_split(d):
    """(offsets, regions) - ILOG region first.  Recognised header = first occurrence of each pattern."""
    d = bytes(d)
    offs = set()
    for p in PATTERNS:
        m = re.search(re.escape(p), d)
        if m:
            offs.add(m.start())
    offs = sorted(offs)
    bounds = offs + [len(d)]
    return offs, [d[:bounds[0]]] + [d[bounds[i]:bounds[i + 1]] for i in range(len(offs))]


def compose(setup, regions):
    """the report the property requires for these regions (stand-alone decoders of the implementation)"""
    out = ["ILOG", ""] + c14.impl_parse(regions[0], setup.header) + ["", DIVIDER, ""]
    for r in regions[1:]:
        out += ["Trace", ""] + c15.impl_parse(r, setup.strings) + ["", DIVIDER, ""]
    return out


def prop_dump(setup, d, got, regions=None):
    """None if the property holds for this output, else (key, what)"""
    d = bytes(d)
    if not d:
        return None if got == [] else ("empty", "empty input gives %d output lines" % len(got))
    if regions is None:
        offs, regions = py_split(d)
    if b"".join(regions) != d:
        raise RuntimeError("harness: regions do not partition the input")
    exp = compose(setup, regions)
    if got == exp:
        return None
    ntrace = sum(1 for x in got if x == "Trace")
    if got[:2] != ["ILOG", ""]:
        return ("headings", "the report does not begin with the ILOG heading")
    # block by block
    pos = 0
    blocks = [["ILOG", ""] + c14.impl_parse(regions[0], setup.header) + ["", DIVIDER, ""]]
    blocks += [["Trace", ""] + c15.impl_parse(r, setup.strings) + ["", DIVIDER, ""] for r in regions[1:]]
    for i, b in enumerate(blocks):
        if got[pos:pos + len(b)] != b:
            if ntrace != len(regions) - 1:
                return ("regions:count", "%d trace blocks reported for %d recognised headers (first difference in block %d)"
                        % (ntrace, len(regions) - 1, i))
            return ("regions:ilog" if i == 0 else "regions:trace",
                    "block %d (%s, region of %d bytes at offset %d) is not the stand-alone decoder's output for that region"
                    % (i, "ILOG" if i == 0 else "Trace", len(regions[i]), sum(len(r) for r in regions[:i])))
        pos += len(b)
    return ("regions:extra", "%d extra lines after the last region's block" % (len(got) - pos))


# ---------------------------------------------------------------------------------------------
# tables

class Setup:
    """one (header file, string file) pair: paths for the implementation, parsed + encoded tables for the model"""

    def __init__(self, name, pte_tb, str_tb):
        self.name, self.pte, self.str = name, pte_tb, str_tb
        self.header, self.strings = pte_tb.path, str_tb.path
        self.prefix = [str_tb.blob, len(pte_tb.entries)] + pte_tb.args
        self.pending, self.pending_bytes = [], 0
        self.pending_files, self.pending_files_bytes = [], 0
        self.drawer = pte_tb.desc.get("drawer")

    def ref(self):
        return dict(setup=self.name, pte_table=self.pte.desc, **self.str.replay_ref())


def shipped_setups():
    from io_drawer.drawer_type import DRAWER_TYPES
    out = []
    for d in DRAWER_TYPES:
        out.append(Setup(d.name, c14.Table(dict(drawer=d.name), d.get_header_file_path()),
                         c15.Table(d.string_file_name, d.get_trace_string_file_path())))
    return out


def synthetic_setups(rng, tmpdir, n):
    strs = c15.synthetic_tables(rng, tmpdir, n)
    out = []
    for i in range(n):
        rows = c14.gen_table(rng, rng.choice((4, 10, 25))) if i else c14.every_position_table()
        lines = c14.header_lines(rng, rows, noise=bool(i % 2))
        tb = c14.Table(dict(header_lines=lines), c14.write_header(tmpdir, 100 + i, lines))
        if tb.rejected or not tb.supported:
            rows = c14.every_position_table()
            lines = c14.header_lines(rng, rows)
            tb = c14.Table(dict(header_lines=lines), c14.write_header(tmpdir, 200 + i, lines))
        out.append(Setup("synth%d" % i, tb, strs[i]))
    return out


def setup_from_ref(r, tmpdir):
    desc = r["pte_table"]
    if desc.get("drawer"):
        path = dict(c14.shipped_paths())[desc["drawer"]]
        pte = c14.Table(desc, path)
    else:
        pte = c14.Table(desc, c14.write_header(tmpdir, 900, desc["header_lines"]))
    if "table_lines" in r:
        st = c15.Table(r["table_name"], c15.write_string_file(tmpdir, "replay_strings", r["table_lines"]), source=r["table_lines"])
    else:
        st = c15.Table(r["table_name"], os.path.join(common.ROOT, "modules", "io_drawer", r["table_name"]))
    return Setup(r.get("setup", "replay"), pte, st)


# ---------------------------------------------------------------------------------------------
# checks on raw bytes

def check_data(run, model, setup, d, tag, regions=None, layout=None):
    """implementation now (property checked directly), model in the next batch"""
    d = bytes(d)
    try:
        got = impl_dump(d, setup)
    except Exception as e:           # the stand-alone decoders do not raise on these tables; a raise is a failure of the property
        got = None
        what = ("raises", "parse_dump_data raised %s on %d bytes" % (type(e).__name__, len(d)))
    else:
        what = prop_dump(setup, d, got, regions)
    run.evaluations += 1
    run.count(tag)
    if what is not None:
        rep = dict(kind="S", fn="dump", input_hex=d.hex(), actual=got, case=tag, theorem="C17_compose / C17_order", **setup.ref())
        if got is not None:
            offs, regs = py_split(d)
            rep["offsets"] = offs
            rep["expected"] = compose(setup, regions or regs)
        if layout is not None:
            rep["layout_choices_hex"] = layout.hex()
        run.violation("dump:" + what[0], what[1] + " (%s)" % tag, rep)
    if got is not None and got.count("Trace") >= 1:
        run.nontriv((setup.name, d))
    setup.pending.append((d, tag, got, what is None))
    setup.pending_bytes += len(d)
    if len(setup.pending) >= BATCH or setup.pending_bytes >= BATCH_BYTES:
        flush(run, model, setup)
    return got


def flush(run, model, setup):
    if not setup.pending:
        return
    pend, setup.pending, setup.pending_bytes = setup.pending, [], 0
    datas = [p[0] for p in pend]
    answers = model.call("dump", *setup.prefix, *datas)
    splits = model.call("dump_split", *datas)
    for (d, tag, got, prop_ok), ans, sp in zip(pend, answers, splits):
        # the model's own search / sort / slices against the independent computation here
        offs, regs = py_split(d)
        sp = dict(sp[1])
        if sp["offsets"] != offs or [bytes.fromhex(x) for x in sp["regions"]] != regs:
            run.disagreements_checked += 1
            run.violation("split:model-vs-harness", "the model's offsets/regions differ from the independent computation (%s, %d bytes)"
                          % (tag, len(d)), dict(kind="M", fn="dump", input_hex=d.hex(), expected=dict(offsets=offs, regions=[r.hex() for r in regs]),
                                                actual=sp, correspondence="Model.Dump.dump_offsets/trace_slices vs first occurrences by re.search",
                                                **setup.ref()), no_input=True)
        if ans == UNSUPPORTED:
            run.unsupported += 1
            run.count("unsupported:" + tag.split(":")[0])
            continue
        if got is None or norm(got) != ans:
            run.disagreements_checked += 1
            if prop_ok:
                run.violation("dump:model-vs-impl", "parse_dump_data agrees with the property text but not with the model (%s, %d bytes)"
                              % (tag, len(d)), dict(kind="M", fn="dump", input_hex=d.hex(), expected=ans, actual=got, case=tag,
                                                    correspondence="Model.Dump.parse_dump vs io_drawer.dump.parse_dump_data", **setup.ref()),
                              no_input=True)
            # otherwise the failing input has already been reported by check_data


def check_spec_regions(run, model, datas, tag):
    """the quadratic specification (Spec/DumpSpec.v spec_offsets / regions) against the independent computation, small inputs"""
    answers = model.call("dump_regions", *datas)
    for d, a in zip(datas, answers):
        run.evaluations += 1
        run.count(tag)
        offs, regs = py_split(d)
        a = dict(a[1])
        if a["offsets"] != offs or [bytes.fromhex(x) for x in a["regions"]] != regs:
            run.disagreements_checked += 1
            run.violation("split:spec-vs-harness", "Spec.DumpSpec regions differ from the independent computation (%d bytes)" % len(d),
                          dict(kind="M", fn="regions", input_hex=bytes(d).hex(), expected=dict(offsets=offs, regions=[r.hex() for r in regs]),
                               actual=a, correspondence="Spec.DumpSpec.spec_offsets vs first occurrences by re.search"), no_input=True)


# ---------------------------------------------------------------------------------------------
# layouts built by the Coq specification (Spec/DumpSpec.v dump_gen)

def fill_item(b):
    out = bytearray()
    b = bytes(b)
    while True:
        chunk, b = b[:255], b[255:]
        out += bytes([0, len(chunk)]) + chunk
        if not b:
            return bytes(out)


def layout_choices(rng, setup, style):
    """a choice sequence in the encoding of Spec.DumpSpec.items_of"""
    if style == "random":
        return bytes(rng.randrange(256) for _ in range(rng.randrange(0, 60)))
    out = bytearray()
    # ILOG part
    k = rng.randrange(6)
    if k == 1:
        out += fill_item(bytes(rng.randrange(256) for _ in range(rng.choice((1, 7, 8, 9, 16, 40)))))
    elif k == 2:
        out += fill_item(c14.blob(rng, c14.ptes_for(rng, rng.sample(setup.pte.entries, min(3, len(setup.pte.entries))))) if setup.pte.entries else b"")
    elif k == 3:
        out += bytes([2, rng.randrange(6)]) + fill_item(bytes(rng.randrange(256) for _ in range(rng.randrange(0, 12)))) + bytes([3, rng.randrange(6)])
    elif k == 4:
        out += bytes([4]) + bytes([2, rng.randrange(6)])
    names = [rng.randrange(6) for _ in range(rng.choice((0, 1, 2, 3, 6, 8)))] if rng.random() < 0.5 else rng.sample(range(6), rng.randrange(0, 7))
    for n in names:
        out += bytes([5, n])
        k = rng.randrange(7)
        if k == 0:
            pass                                               # adjacent headers / header at the very end
        elif k == 1:
            out += fill_item(bytes(rng.randrange(256) for _ in range(rng.choice((1, 2, 7, 8, 23, 24, 25, 60)))))
        elif k == 2:                                           # the rest of a well-formed buffer
            es = c15.gen_entries(rng, setup.str, rng.choice((0, 1, 2, 4)))
            h = c15.mk_header(rng, c15.wf_size(rng, es), comp=NAMES[n].ljust(12, rng.choice((b"\0", b" "))))
            out += fill_item(c15.py_encode(h, es)[8:])
        elif k == 3:
            out += bytes([2, rng.randrange(6)])                # a bare name
        elif k == 4:
            out += bytes([3, rng.randrange(6)])                # near miss
        elif k == 5:
            out += bytes([4])                                  # broken start
        else:
            out += fill_item(bytes(rng.randrange(256) for _ in range(rng.randrange(0, 9)))) + bytes([5, n])     # the same header again
    return bytes(out)


def check_layouts(run, model, setup, choice_list, tag):
    answers = model.call("dump_gen", *choice_list)
    small = []
    for cs, a in zip(choice_list, answers):
        a = dict(a[1])
        d = bytes.fromhex(a["data"])
        intended = [bytes.fromhex(x) for x in a["regions"]]
        offs, regs = py_split(d)
        if regs != intended:
            # the generator's intention and the statement disagree: a defect of the generator, not of the implementation
            run.violation("layout:generator", "Spec.DumpSpec.dump_gen regions are not the first-occurrence regions of its bytes",
                          dict(kind="M", fn="layout", layout_choices_hex=cs.hex(), input_hex=d.hex(), expected=[r.hex() for r in regs],
                               actual=a["regions"], correspondence="Spec.DumpSpec.layout_regions vs spec regions"), no_input=True)
            continue
        check_data(run, model, setup, d, "layout:" + tag, regions=intended, layout=cs)
        if len(d) <= 400:
            small.append(d)
    if small:
        check_spec_regions(run, model, small, "spec-regions")


# ---------------------------------------------------------------------------------------------
# raw generators

def good_buffer(rng, setup, name):
    es = c15.gen_entries(rng, setup.str, rng.choice((0, 1, 2, 3, 5)))
    h = c15.mk_header(rng, c15.wf_size(rng, es), comp=name.ljust(12, rng.choice((b"\0", b" "))))
    h.update(ver=2, hdr_len=0x20, time_flg=1, endian_flg=0x42)
    return c15.py_encode(h, es)


def gen_raw(rng, setup, style):
    if style == "alphabet":        # headers arise by chance
        alpha = [START, b"\x02", b"\x20", b"\x01", b"\x42", b"\x02\x20", b"\x02\x20\x01", b"F", b"A", b"N", b"S", b"I", b"C", b"M"] + NAMES + PATTERNS
        return b"".join(rng.choice(alpha) for _ in range(rng.randrange(0, 40)))
    if style == "buffers":         # ILOG entries, then well-formed buffers in any order
        out = c14.blob(rng, c14.ptes_for(rng, rng.sample(setup.pte.entries, min(4, len(setup.pte.entries))))) if setup.pte.entries and rng.random() < 0.8 else b""
        if rng.random() < 0.3:
            out += bytes(rng.randrange(256) for _ in range(rng.randrange(1, 8)))        # trailing partial ILOG entry
        for n in rng.sample(NAMES, rng.randrange(0, 7)):
            out += good_buffer(rng, setup, n)
            if rng.random() < 0.3:
                out += bytes(rng.randrange(256) for _ in range(rng.randrange(1, 20)))
        return out
    if style == "overlap":         # patterns pushed into each other, truncated at the end
        parts = []
        for _ in range(rng.randrange(1, 6)):
            p = rng.choice(PATTERNS)
            parts.append(rng.choice((p, p[:rng.randrange(1, 8)], START + p, p[:4] + p, p + p, p[:7] + bytes([p[7] ^ 1]), p[1:])))
        return b"".join(parts)[:rng.choice((None, -1, -3, -7))]
    # spliced: random bytes with headers at random offsets
    n = rng.randrange(0, 200)
    d = bytearray(rng.randrange(256) for _ in range(n))
    for _ in range(rng.randrange(0, 8)):
        p = rng.choice(PATTERNS)
        o = rng.randrange(0, n + 1)
        if rng.random() < 0.5:
            d[o:o] = p
        else:
            d[o:o + 8] = p
    return bytes(d)


# ---------------------------------------------------------------------------------------------
# dump files

def py_translate(text):
    """universal newlines, as open(..., 'r') does"""
    return text.replace("\r\n", "\n").replace("\r", "\n")


def write_text(tmpdir, name, text):
    p = os.path.join(tmpdir, name)
    with open(p, "w", encoding="utf-8", newline="") as f:
        f.write(text)
    return p


COMMENTS = ["", "# comment", "; 0000:  00000000", "IO drawer dump", "   ", "-----", "Press any key", "ILOG / trace data:", "\t00 11 22",
            "G0: not hex", "==== 0123 ====", "<end>"]


HEXISH_TITLES = ["Date: 2024-01-01", "Dec 12 10:00:01 dump of drawer 2", "Add", "BEEF", "face off", "00 is the first byte"]


def decorate(rng, lines, how, fmt=None):
    """variations that must not change the bytes: comment / blank lines, CRLF, missing final newline; for the format with an
    address column also title lines that begin with two hex digits (they are no data lines of that format, whatever the
    other format would make of them)"""
    lines = list(lines)
    if fmt == 1 and how in ("comments", "all") and lines:
        for _ in range(rng.randrange(0, 3)):
            lines.insert(rng.choice([0, 0, rng.randrange(len(lines) + 1)]), rng.choice(HEXISH_TITLES) + "\n")
    if how in ("comments", "all"):
        for _ in range(rng.randrange(1, 5)):
            lines.insert(rng.randrange(len(lines) + 1), rng.choice(COMMENTS) + "\n")
    if how in ("nofinal", "all") and lines:
        lines[-1] = lines[-1].rstrip("\n")
    text = "".join(lines)
    if how in ("crlf", "all"):
        text = text.replace("\n", "\r\n")
    return text


FMT1 = 'AAAA:  DDDDDDDD DDDDDDDD DDDDDDDD DDDDDDDD  <CCCCCCCCCCCCCCCC>'
FMT2 = 'DD DD DD DD DD DD DD DD DD DD DD DD DD DD DD DD CCCCCCCCCCCCCCCC'


def detect(text):
    """the bytes of a dump file as the property text describes them: the first of the two supported formats that yields data"""
    import pel.hexdump as hd
    lines = py_translate(text).split("\n")
    lines = [x + "\n" for x in lines[:-1]] + ([lines[-1]] if lines[-1] else [])
    for f in (FMT1, FMT2):
        d = bytes(hd.parse(lines, f))
        if d:
            return d
    return b""


def check_file(run, model, setup, tmpdir, text, tag, raw=None, fmt=None):
    """raw = the bytes the file is a rendering of (then: the file's report must equal the raw bytes' report)"""
    path = write_text(tmpdir, "dump_%d.txt" % (run.evaluations % 7), text)
    run.evaluations += 1
    run.count(tag)
    try:
        got = impl_dump_file(path, setup)
    except Exception as e:
        got = None
        run.violation("file:raises", "parse_dump_file raised %s (%s)" % (type(e).__name__, tag),
                      dict(kind="S", fn="dump_file", file_text=text, case=tag, **setup.ref()))
        return
    prop_ok = True
    if raw is not None:
        want = impl_dump(raw, setup)
        if got != want:
            prop_ok = False
            run.violation("file:format%s" % fmt, "a %d-byte dump written in text format %s does not decode like its raw bytes (%s)"
                          % (len(raw), fmt, tag),
                          dict(kind="S", fn="dump_file", file_text=text, input_hex=bytes(raw).hex(), expected=want, actual=got, case=tag,
                               theorem="C17_file%s" % fmt, **setup.ref()))
        elif got.count("Trace") >= 1:
            run.nontriv((setup.name, "file", text))
    data = bytes(raw) if raw is not None else detect(text)
    what = prop_dump(setup, data, got) if prop_ok else None
    if what is not None:
        prop_ok = False
        run.violation("dump:" + what[0], what[1] + " (through a dump file, %s)" % tag,
                      dict(kind="S", fn="dump_file", file_text=text, input_hex=data.hex(), actual=got, case=tag,
                           expected=compose(setup, py_split(data)[1]) if data else [], theorem="C17_compose / C17_order", **setup.ref()))
    setup.pending_files.append((text, tag, got, prop_ok))
    setup.pending_files_bytes += len(text)
    if len(setup.pending_files) >= BATCH or setup.pending_files_bytes >= 4 * BATCH_BYTES:
        flush_files(run, model, setup)


def flush_files(run, model, setup):
    if not setup.pending_files:
        return
    pend, setup.pending_files, setup.pending_files_bytes = setup.pending_files, [], 0
    answers = model.call("dump_file", *setup.prefix, *[py_translate(p[0]) for p in pend])
    for (text, tag, got, prop_ok), ans in zip(pend, answers):
        if ans == UNSUPPORTED:
            run.unsupported += 1
            run.count("unsupported:file")
            continue
        if norm(got) != ans and prop_ok:
            run.disagreements_checked += 1
            run.violation("file:model-vs-impl", "parse_dump_file differs from the model (%s)" % tag,
                          dict(kind="M", fn="dump_file", file_text=text, expected=ans, actual=got, case=tag,
                               correspondence="Model.Dump.parse_dump_file vs io_drawer.dump.parse_dump_file", **setup.ref()),
                          no_input=True)


def render(model, fmt, lower, d):
    return model.call("render%d" % fmt, 1 if lower else 0, bytes(d))


def check_renderings(run, model, setup, tmpdir, rng, d, variations):
    for fmt in (1, 2):
        for lower in (False, True):
            lines = render(model, fmt, lower, d)
            if fmt == 1 and len(d) <= 65536 and lines and not lines[0].upper().startswith("0000:"):
                raise RuntimeError("harness: unexpected format-1 rendering")
            check_file(run, model, setup, tmpdir, "".join(lines), "file%d:plain" % fmt, raw=d, fmt=fmt)
            for how in variations:
                check_file(run, model, setup, tmpdir, decorate(rng, lines, how, fmt=fmt), "file%d:%s" % (fmt, how), raw=d, fmt=fmt)


def junk_file(rng, model, d):
    """text the auto-detection has to cope with: both formats mixed, damaged lines, the default hexdump format"""
    l1, l2 = render(model, 1, rng.random() < 0.5, d), render(model, 2, rng.random() < 0.5, d)
    pool = l1 + l2 + [x + "\n" for x in COMMENTS]
    if l1:
        x = rng.choice(l1)
        pool += [x[:rng.randrange(len(x))] + "\n", x.replace(":", ";"), x.replace("  ", " ", 1), "0" + x, x.rstrip("\n") + " trailing\n"]
    if l2:
        x = rng.choice(l2)
        pool += [x[:rng.randrange(len(x))] + "\n", x.replace(" ", "", 1), " " + x, x[:47] + "\n", x.rstrip("\n") + "x" * 20 + "\n"]
    import pel.hexdump as hd
    pool += [x + "\n" for x in hd.hexdump(memoryview(bytes(d[:40])))]
    k = rng.randrange(4)
    if k == 0:
        lines = [rng.choice(pool) for _ in range(rng.randrange(0, 12))]
    elif k == 1:
        lines = l2 + l1
    elif k == 2:
        lines = [x + "\n" for x in COMMENTS[:4]] + l2[:3] + l1[:2]
    else:
        lines = list(l1)
        if lines:
            i = rng.randrange(len(lines))
            lines[i] = rng.choice(pool)
    return "".join(lines)


# ---------------------------------------------------------------------------------------------
# the command line

def check_cli(run, setup, tmpdir, text, tag, explicit_files):
    path = write_text(tmpdir, "cli_dump.txt", text)
    want = impl_dump_file(path, setup)
    if any(("\n" in x or "\r" in x) for x in want):
        run.count("cli:skipped-embedded-newline")
        return
    args = [common.PY, "-m", "io_drawer.dump", "-t", setup.drawer or "mex"]
    if explicit_files:
        args += ["-d", setup.header, "-s", setup.strings]
    p = subprocess.run(args + [path], env=dict(common.IMPL_ENV, PYTHONIOENCODING="utf-8"), stdout=subprocess.PIPE,
                       stderr=subprocess.PIPE, timeout=120)
    run.evaluations += 1
    run.count(tag)
    out = p.stdout.decode("utf-8", "replace")

    def encodable(x):
        try:
            x.encode("utf-8")
            return True
        except UnicodeEncodeError:
            return False
    if all(encodable(x) for x in want):
        ok = out == "".join(x + "\n" for x in want)
    else:
        # a line holds a character no output encoding can write (a '%c' argument in the surrogate range): how it is shown is
        # not prescribed, but every region must still be reported - same number of lines, the other lines unchanged
        run.count("cli:unencodable-character")
        got = out.split("\n")[:-1]
        ok = len(got) == len(want) and all(g == w for g, w in zip(got, want) if encodable(w))
    if p.returncode != 0 or not ok:
        run.violation("cli:output", "`python -m io_drawer.dump -t %s` does not print the lines parse_dump_file returns (rc %d)"
                      % (setup.drawer or "mex", p.returncode),
                      dict(kind="S", fn="cli", file_text=text, explicit_files=explicit_files, expected=[x.encode("utf-8", "backslashreplace").decode() for x in want],
                           actual=out.split("\n"), stderr=p.stderr.decode("utf-8", "replace")[-500:], rc=p.returncode, **setup.ref()))


# ---------------------------------------------------------------------------------------------

def fixed_cases():
    """inputs every run checks first (each one separates the unchanged code from a realistic edit of dump.py)"""
    f, i, p, e = PATTERNS[3], PATTERNS[0], PATTERNS[2], PATTERNS[5]
    ilog = bytes.fromhex("8ADF0F19010000DE")
    return [
        ("empty", b""),
        ("ilog-only", ilog),
        ("one-byte", b"\x00"),
        ("header-at-0", f + b"\x00" * 30),
        ("only-header", f),
        ("reverse-name-order", ilog + e + b"\x01" * 5 + f + b"\x02" * 9 + i),          # offsets not in BUFFER_NAMES order
        ("repeated-name", ilog + f + b"abc" + i + b"defg" + f + b"hi"),               # the second FANS header is data
        ("adjacent", ilog + p + i + f + e),
        ("name-in-ilog", ilog + b"FANS" + START[:3] + b"IICS" + f + b"xyz"),
        ("truncated-header-at-end", ilog + f + b"12345678" + i[:7]),
        ("all-six", b"".join(x + bytes([k]) * (k + 1) for k, x in enumerate(reversed(PATTERNS)))),
    ]


def run_corpus(run, model, tmpdir):
    if not os.path.isdir(CORPUS):
        return
    for f in sorted(os.listdir(CORPUS)):
        if f.endswith(".json"):
            run.count("corpus")
            replay_record(run, model, json.load(open(os.path.join(CORPUS, f))), tmpdir, "corpus:" + f)


def run(run, model, proof):
    rng = run.rng
    thorough = run.tier == "thorough"
    run.rule = ("parse_dump_data / parse_dump_file / `python -m io_drawer.dump` run on: layouts built by the Coq specification (any "
                "subset / order / repetition of the six headers, adjacent, at offset 0, at the end, bare names, near misses and broken "
                "starts in ILOG data, well-formed trace buffers and ILOG entries as content), random bytes with headers spliced in or "
                "arising by chance, overlapping / truncated patterns, every short length; each dump also as a text file in both formats "
                "(upper / lower case, short last line, comment lines, CRLF, no final newline) and mixed / damaged files; synthetic PTE "
                "and trace-string files and both shipped drawer types.  non-trivial = distinct input with at least one trace region")
    tmpdir = tempfile.mkdtemp(prefix="verif_c17_")
    try:
        synth = synthetic_setups(rng, tmpdir, 4 if thorough else 2)
        shipped = shipped_setups()
        every = synth + shipped
        run.extra["tables"] = {s.name: dict(pte=len(s.pte.entries), strings=len(s.str.tbl)) for s in every}

        def pick(i, k=5):
            """mostly the small synthetic tables; a shipped pair every k-th time"""
            return shipped[(i // k) % len(shipped)] if i % k == 0 else synth[i % len(synth)]

        run_corpus(run, model, tmpdir)

        # ---- fixed cases, raw and as files, on every table pair ----
        for s in every:
            for tag, d in fixed_cases():
                check_data(run, model, s, d, "fixed:" + tag)
        for tag, d in fixed_cases():
            check_renderings(run, model, synth[0], tmpdir, rng, d, ("all",))
        check_spec_regions(run, model, [d for _, d in fixed_cases()], "spec-regions")

        # ---- every subset of the six headers in a random order, and all orders of three ----
        import itertools
        for mask in range(64):
            hs = [PATTERNS[k] for k in range(6) if mask >> k & 1]
            rng.shuffle(hs)
            gap = rng.choice((0, 1, 8, 24))
            d = bytes(rng.randrange(256) for _ in range(rng.choice((0, 8, 11)))) + b"".join(h + bytes(rng.randrange(256) for _ in range(gap)) for h in hs)
            check_data(run, model, pick(mask), d, "subsets")
        for perm in itertools.permutations(range(6), 3 if not thorough else 4):
            d = b"\x11" * 8 + b"".join(PATTERNS[k] + bytes([k]) * k for k in perm)
            check_data(run, model, synth[0], d, "orders")

        # ---- every short length (with and without a header) ----
        for n in range(0, 48):
            s = pick(n, 8)
            check_data(run, model, s, bytes(rng.randrange(256) for _ in range(n)), "short")
            check_data(run, model, s, (PATTERNS[n % 6] + bytes(rng.randrange(256) for _ in range(48)))[:n], "short-header")

        # ---- layouts from the Coq specification ----
        for i in range(160 if thorough else 24):
            s = pick(i)
            batch = [layout_choices(rng, s, "random" if j % 3 == 0 else "built") for j in range(25)]
            check_layouts(run, model, s, batch, "spec")

        # ---- raw bytes ----
        for i in range(13000 if thorough else 1200):
            s = pick(i, 6)
            style = ("spliced", "alphabet", "buffers", "overlap")[i % 4]
            check_data(run, model, s, gen_raw(rng, s, style), style)
        small = [gen_raw(rng, synth[0], ("spliced", "alphabet", "overlap")[i % 3])[:300] for i in range(2000 if thorough else 150)]
        for k in range(0, len(small), 50):
            check_spec_regions(run, model, small[k:k + 50], "spec-regions")

        # ---- dump files ----
        for i in range(600 if thorough else 40):
            s = pick(i, 7)
            d = gen_raw(rng, s, ("buffers", "spliced", "alphabet")[i % 3])
            if i % 5 == 0:
                d = d[:rng.choice((1, 15, 16, 17, 31, 32, 33))] or b"\x00"
            check_renderings(run, model, s, tmpdir, rng, d, (rng.choice(("comments", "crlf", "nofinal", "all")),))
            check_file(run, model, s, tmpdir, junk_file(rng, model, d), "file:junk")
        for n in range(1, 34):                                   # every length of the last line
            check_renderings(run, model, synth[0], tmpdir, rng, PATTERNS[n % 6] + bytes(range(n)), ())
        check_file(run, model, synth[0], tmpdir, "", "file:empty", raw=b"", fmt="1")
        if True:                                                 # beyond 64 KB the format-1 address column wraps (quick tier too since C17_m)
            big = bytes(rng.randrange(256) for _ in range(66000))
            big = big[:40000] + good_buffer(rng, synth[0], b"POWR") + big[40000:]
            big = big[:65700] + good_buffer(rng, synth[0], b"IICS") + big[65700:]      # a buffer that lies wholly beyond the wrap
            check_renderings(run, model, synth[0], tmpdir, rng, big, ())

        # ---- the command line, a sample ----
        for i in range(24 if thorough else 8):
            s = shipped[i % len(shipped)] if i % 4 else synth[i % len(synth)]
            d = c14.blob(rng, c14.ptes_for(rng, rng.sample(s.pte.entries, min(3, len(s.pte.entries))))) if s.pte.entries else b"\x00" * 8
            for n in rng.sample(NAMES, rng.randrange(0, 4)):
                d += good_buffer(rng, s, n)
            text = "".join(render(model, 1 + i % 2, bool(i & 2), d)) if i != 5 else ""
            check_cli(run, s, tmpdir, text, "cli", explicit_files=s.drawer is None or i % 3 == 0)

        # a '%c' argument outside what any output encoding can write (a surrogate), and an accented one
        import struct as _st
        for s in every:
            cs = [(h, f) for h, f, _l in s.str.tbl if "%c" in f and "%s" not in f]
            if not cs:
                continue
            h, f = cs[0]
            nargs = f.count("%") - 2 * f.count("%%")
            for ch in (0xD800, 0xE9, 0xDFFF):
                data = b"".join(_st.pack(">I", ch if k % 2 else 0x41) for k in range(max(1, nargs)))
                es = [c15.mk_entry(rng, data, tag=c15.T_TRACE, h=h, pad=b"" if len(data) % 4 == 0 else None), c15.mk_entry(rng, b"\0\0\0\7", tag=c15.T_BIN, h=1)]
                hd = c15.mk_header(rng, c15.total_len(es), comp=b"FANS".ljust(12, b"\0"))
                hd.update(ver=2, hdr_len=0x20, time_flg=1, endian_flg=0x42)
                d = c15.py_encode(hd, es) + good_buffer(rng, s, b"INFO")
                check_cli(run, s, tmpdir, "".join(render(model, 1, False, d)), "cli:%%c=%04X" % ch, explicit_files=True)

        for s in every:
            flush(run, model, s)
            flush_files(run, model, s)
        d = b"".join(x for _, x in fixed_cases()[5:7])
        run.sample(dict(fn="dump", tables="mex", input_hex=d.hex(), offsets=py_split(d)[0], lines=impl_dump(d, shipped[0])))
        run.sample(dict(fn="dump_file", tables="mex", file_text="".join(render(model, 2, True, d))[:400]))
    finally:
        shutil.rmtree(tmpdir, ignore_errors=True)


# ---------------------------------------------------------------------------------------------

def replay_record(run, model, r, tmpdir, tag):
    fn = r.get("fn")
    s = setup_from_ref(r, tmpdir)
    if fn == "dump":
        check_data(run, model, s, bytes.fromhex(r["input_hex"]), tag)
    elif fn == "layout":
        check_layouts(run, model, s, [bytes.fromhex(r["layout_choices_hex"])], tag)
    elif fn == "dump_file":
        raw = bytes.fromhex(r["input_hex"]) if "input_hex" in r else None
        check_file(run, model, s, tmpdir, r["file_text"], tag, raw=raw, fmt=(r.get("theorem") or "C17_file?")[-1])
    elif fn == "regions":
        check_spec_regions(run, model, [bytes.fromhex(r["input_hex"])], tag)
    elif fn == "cli":
        check_cli(run, s, tmpdir, r["file_text"], tag, r.get("explicit_files", True))
    else:
        return False
    flush(run, model, s)
    flush_files(run, model, s)
    return True


def replay(run, model, path):
    r = json.load(open(path))
    tmpdir = tempfile.mkdtemp(prefix="verif_c17_")
    try:
        if not replay_record(run, model, r, tmpdir, "replay"):
            run.notes.append("replay kind %r is a proof/build record; re-running the whole check" % r.get("fn"))
            globals()["run"](run, model, dict(ok=True))
    finally:
        shutil.rmtree(tmpdir, ignore_errors=True)
