#!/venv/bin/python
"""Translate, from the SOURCE TEXT (Python ast) of the I/O-drawer stream readers, the statements they run against a DataStream into
programs of the little language of coq/Model/StreamProg.v, on every run:

    ->  coq/Gen/Readers.v
        ok_readers            : bool
        prog_<label>          : st         one program per target (TraceBufferHeader.read, TraceEntry.read, ...)
        streams_big_unsigned  : bool       every DataStream(...) built in io_drawer/{trace,ilog,hlog}.py passes byte_order='big', is_signed=False

Proofs/ReaderProgFacts.v proves that running the translated programs is the model's header_read / entry_read on every byte string.

Fail-closed: a statement outside the fragment becomes TUnknown (whose execution is an error, so the theorems fail); a target that
cannot be found gives the stub  prog_<label> := TUnknown  and ok_readers = false."""
import ast
import os
import sys
import warnings

warnings.simplefilter("ignore")

ROOT = os.environ.get("VERIF_REPO_ROOT", "/repo")
VERIF = os.path.dirname(os.path.dirname(os.path.abspath(__file__)))

# wrappers around a read that only change how the bytes are displayed (the model keeps the raw bytes and applies them when rendering;
# the wrapper texts themselves are pinned by the layout tables of extract_layouts.py)
DISPLAY_WRAPPERS = ("bytes.decode(%s).strip('\\x00')", "bytes.decode(%s).rstrip('\\x00')", "bytes.decode(%s)", "'0x' + %s.hex()")

TARGETS = [
    # label, file, class, function, name of the stream parameter
    ("trace_header", "modules/io_drawer/trace.py", "TraceBufferHeader", "read", "stream"),
    ("trace_entry", "modules/io_drawer/trace.py", "TraceEntry", "read", "stream"),
    ("fru", "modules/pel/peltool/src.py", "FRUIdentity", "__init__", "stream"),
    ("pce", "modules/pel/peltool/src.py", "PCEIdentity", "__init__", "stream"),
    ("mru", "modules/pel/peltool/src.py", "MRU", "__init__", "stream"),
    # a toJSON method that reads self.stream and then only builds its display (stream-free statements, `return out`)
    ("lp", "modules/pel/peltool/imp_partition.py", "ImpactedPartition", "toJSON", "self.stream"),
    # the length-driven consumers: constructors that take the section header fields as further parameters
    ("ud", "modules/pel/peltool/user_data.py", "UserData", "__init__", "stream"),
    ("ed", "modules/pel/peltool/ext_user_data.py", "ExtUserData", "__init__", "stream"),
    ("dflt", "modules/pel/peltool/default.py", "Default", "__init__", "stream"),
]
# wrappers around an integer read that only change how it is displayed
INT_WRAPPERS = ("chr(%s)",)
# a constructor made of a straight part and one final `while` loop: head, loop condition and loop body are emitted separately
# the straight reading part of a toJSON method, up to (not including) the statement that starts building the display; nothing
# after it may mention the stream
HEAD_TARGETS = [
    ("src_head", "modules/pel/peltool/src.py", "SRC", "toJSON", "self.stream", "out = OrderedDict()"),
]
SPLIT_TARGETS = [
    ("callout", "modules/pel/peltool/src.py", "Callout", "__init__", "stream"),
]
# a method made of a straight reading part, one `while` loop, and statements that no longer mention the stream: the straight part
# and the loop condition are emitted (the loop body constructs objects whose constructors call further constructors: not translated)
WALK_TARGETS = [
    ("callouts", "modules/pel/peltool/src.py", "SRC", "getCallouts", "self.stream"),
    ("tracebuf", "modules/io_drawer/trace.py", "TraceBuffer", "read", "stream"),
]
# classes whose translated constructors may be called as  v = <Class>(stream)
CALLEES = {"FRUIdentity": "fru", "PCEIdentity": "pce", "MRU": "mru"}
LOOPS = [
    # label, file, function: the one loop of the function that reads the DataStream the function builds
    ("ilog_body", "modules/io_drawer/ilog.py", "parse_ilog_data"),
    ("hlog_body", "modules/io_drawer/hlog.py", "parse_hlog_data"),
]
# a method that builds its own DataStream and reads it in one `for _ in range(<constant>)` loop
METHOD_LOOPS = [
    ("trace_args", "modules/io_drawer/trace.py", "TraceEntry", "get_args"),
]
STREAM_FILES = ["modules/io_drawer/trace.py", "modules/io_drawer/ilog.py", "modules/io_drawer/hlog.py"]


class Unsupported(Exception):
    pass


def T(s):
    return "[" + ";".join(str(ord(c)) for c in s) + "]%N"


class Tr:
    def __init__(self, consts, stream):
        self.consts = consts        # class-level integer constants
        self.stream = stream
        self.unknown = []
        self.in_loop = False
        self.is_init = False
        self.is_tojson = False
        self.depth = 0
        self.alias = False
        self.int_vars = set()       # variables assigned from stream.get_int so far
        self.peek_ok = False        # the module's get_value is int.from_bytes(data[start:start + end], byteorder='big')
        self.records = set()        # classes whose constructor just stores its parameters, in order

    def is_stream(self, e):
        if self.alias and isinstance(e, ast.Attribute) and e.attr == "stream" and isinstance(e.value, ast.Name) and e.value.id == "self":
            return True                              # the constructor has kept its stream parameter in self.stream
        if self.stream == "self.stream":
            return isinstance(e, ast.Attribute) and e.attr == "stream" and isinstance(e.value, ast.Name) and e.value.id == "self"
        return isinstance(e, ast.Name) and e.id == self.stream

    def var(self, e):
        """name of a variable reference: self.<x> -> 'self.x', local -> 'x'"""
        if self.is_stream(e):
            return None
        if isinstance(e, ast.Attribute) and isinstance(e.value, ast.Name) and e.value.id == "self":
            return "self." + e.attr
        if isinstance(e, ast.Name) and e.id != self.stream:
            return e.id
        if isinstance(e, ast.Attribute) and isinstance(e.value, ast.Name) and e.value.id not in ("self", self.stream):
            return e.value.id + "." + e.attr
        if isinstance(e, ast.Attribute):
            # a chain of attributes below self / a local: self.fruIdentity.flattenedSize
            cur, ok = e, True
            while isinstance(cur, ast.Attribute):
                cur = cur.value
            if isinstance(cur, ast.Name) and cur.id != self.stream:
                return ast.unparse(e)
        return None

    def ex(self, e):
        if isinstance(e, ast.Constant) and isinstance(e.value, int) and not isinstance(e.value, bool):
            return "(XC %d)" % e.value
        if isinstance(e, ast.Attribute) and self.is_stream(e.value) and e.attr == "index":
            return "XIdx"
        if (isinstance(e, ast.Call) and isinstance(e.func, ast.Name) and e.func.id == "get_value" and self.peek_ok
                and [ast.unparse(a) for a in e.args] == [self.stream + ".data", self.stream + ".index", "2"] and not e.keywords):
            return "XPeek2"
        if (isinstance(e, ast.Attribute) and isinstance(e.value, ast.Name) and e.value.id in ("self", self.consts.get("__class__"))
                and e.attr in self.consts and e.attr != "__class__"):
            return "(XC %d)" % self.consts[e.attr]
        if isinstance(e, ast.Name) and e.id in self.consts and e.id != "__class__":
            return "(XC %d)" % self.consts[e.id]
        if isinstance(e, ast.Attribute) and ast.unparse(e) in self.consts:
            return "(XC %d)" % self.consts[ast.unparse(e)]
        v = self.var(e)
        if v is not None:
            return "(XV %s)" % T(v)
        if isinstance(e, ast.Attribute) and ast.unparse(e) in self.consts:
            return "(XC %d)" % self.consts[ast.unparse(e)]
        if isinstance(e, ast.BinOp) and isinstance(e.op, (ast.Add, ast.Sub, ast.Mult, ast.Mod, ast.BitAnd)):
            k = {ast.Add: "XAdd", ast.Sub: "XSub", ast.Mult: "XMul", ast.Mod: "XMod", ast.BitAnd: "XAnd"}[type(e.op)]
            return "(%s %s %s)" % (k, self.ex(e.left), self.ex(e.right))
        raise Unsupported("expression outside the fragment: %s" % ast.unparse(e))

    def stream_call(self, e, meth):
        return (isinstance(e, ast.Call) and isinstance(e.func, ast.Attribute) and self.is_stream(e.func.value) and e.func.attr == meth
                and len(e.args) == 1 and not e.keywords)

    def cond(self, e):
        if isinstance(e, ast.UnaryOp) and isinstance(e.op, ast.Not) and self.stream_call(e.operand, "check_range"):
            return "(CNoRange %s)" % self.ex(e.operand.args[0])
        if isinstance(e, ast.BoolOp):
            k = "CAnd" if isinstance(e.op, ast.And) else "COr"
            out = self.cond(e.values[-1])
            for v in reversed(e.values[:-1]):
                out = "(%s %s %s)" % (k, self.cond(v), out)
            return out
        if isinstance(e, ast.BinOp) and isinstance(e.op, (ast.BitAnd, ast.Mod)):
            return "(CTruthy %s)" % self.ex(e)
        if self.var(e) is not None and self.int_vars is not None and self.var(e) in self.int_vars:
            return "(CTruthy %s)" % self.ex(e)           # an integer read from the stream used as a condition
        if isinstance(e, ast.Compare) and len(e.ops) == 1:
            k = {ast.Gt: "CGt", ast.Lt: "CLt", ast.Eq: "CEq", ast.NotEq: "CNe"}.get(type(e.ops[0]))
            if k:
                return "(%s %s %s)" % (k, self.ex(e.left), self.ex(e.comparators[0]))
        raise Unsupported("condition outside the fragment: %s" % ast.unparse(e))

    def stmt(self, st):
        try:
            return self.stmt0(st)
        except Unsupported:
            # a statement that neither mentions the stream nor leaves the block has no stream effect (formatting, appending a line);
            # a variable it assigns stays unbound in the program, so a later stream expression that needs it is an error
            if (self.in_loop and not any(self.is_stream(n) for n in ast.walk(st))
                    and not any(isinstance(n, (ast.Return, ast.Continue, ast.Break, ast.Raise, ast.Yield, ast.YieldFrom, ast.Await,
                                               ast.FunctionDef, ast.ClassDef, ast.Lambda, ast.Global, ast.Nonlocal)) for n in ast.walk(st))):
                return self.pure(st)
            raise

    def pure(self, st):
        """TPure, preceded by a TForget for every variable the statement may assign: a later stream expression that needs such a
        variable finds it unbound (an error in the program, so the theorem fails) instead of reading a stale value.  A call of a
        method of self could assign anything: refused."""
        targets = []
        for n in ast.walk(st):
            if isinstance(n, ast.Call) and isinstance(n.func, ast.Attribute) and isinstance(n.func.value, ast.Name) and n.func.value.id == "self":
                raise Unsupported("a method of self is called in a statement that is otherwise free of the stream: %s" % ast.unparse(n))
            if isinstance(n, (ast.Assign, ast.Delete)):
                targets += n.targets
            elif isinstance(n, (ast.AugAssign, ast.AnnAssign, ast.NamedExpr, ast.For)):
                targets.append(n.target)
            elif isinstance(n, ast.With):
                targets += [i.optional_vars for i in n.items if i.optional_vars is not None]
            elif isinstance(n, ast.comprehension):
                targets.append(n.target)
            elif isinstance(n, (ast.Import, ast.ImportFrom)):
                targets += [ast.Name((a.asname or a.name).split(".")[0], ast.Store()) for a in n.names]
        names = []
        for t in targets:
            for e in (t.elts if isinstance(t, (ast.Tuple, ast.List)) else [t]):
                if isinstance(e, ast.Starred):
                    e = e.value
                while isinstance(e, ast.Subscript):       # x[i] = ... changes the object x names, not what the program knows of x
                    e = e.value
                    if isinstance(e, (ast.Name, ast.Attribute)):
                        e = None
                        break
                if e is None:
                    continue
                v = self.var(e)
                if v is None:
                    raise Unsupported("assignment target outside the fragment: %s" % ast.unparse(e))
                if v not in names:
                    names.append(v)
        term = "TPure"
        for v in reversed(names):
            term = "(TSeq (TForget %s) %s)" % (T(v), term)
        return term

    def stmt0(self, st):
        if isinstance(st, ast.Expr) and isinstance(st.value, ast.Constant) and isinstance(st.value.value, str):
            return None                              # docstring
        if isinstance(st, ast.Continue):
            return "TContinue"
        if isinstance(st, ast.Break):
            return "TBreak"
        if (isinstance(st, ast.Return) and self.is_tojson and self.depth == 0 and st.value is not None
                and not any(self.is_stream(n) for n in ast.walk(st.value))):
            return "TNop"                            # the final `return out` of a toJSON method
        if isinstance(st, ast.Return) and st.value is None and self.is_init:
            return "(TRet false)"                    # an early `return` of a constructor
        if isinstance(st, ast.AugAssign) and isinstance(st.op, (ast.Add, ast.Sub)) and self.var(st.target) is not None:
            v = self.var(st.target)
            return "(TLet %s (%s (XV %s) %s))" % (T(v), "XAdd" if isinstance(st.op, ast.Add) else "XSub", T(v), self.ex(st.value))
        if isinstance(st, ast.Return):
            if isinstance(st.value, ast.Constant) and isinstance(st.value.value, bool):
                return "(TRet %s)" % ("true" if st.value.value else "false")
            raise Unsupported("return of something other than True / False")
        if isinstance(st, ast.If):
            self.depth += 1
            try:
                if self.stream_call(st.test, "check_range"):
                    # if stream.check_range(e): A  else: B   is   if not stream.check_range(e): B  else: A
                    return "(TIf (CNoRange %s) %s %s)" % (self.ex(st.test.args[0]), self.block(st.orelse), self.block(st.body))
                return "(TIf %s %s %s)" % (self.cond(st.test), self.block(st.body), self.block(st.orelse))
            finally:
                self.depth -= 1
        if (isinstance(st, ast.Expr) and isinstance(st.value, ast.Call) and isinstance(st.value.func, ast.Attribute)
                and st.value.func.attr == "append" and self.var(st.value.func.value) is not None and len(st.value.args) == 1
                and self.stream_call(st.value.args[0], "get_int") and not st.value.keywords):
            return "(TAppendInt %s %s)" % (T(self.var(st.value.func.value)), self.ex(st.value.args[0].args[0]))
        if isinstance(st, ast.Expr) and self.stream_call(st.value, "inc_index"):
            return "(TSkip %s)" % self.ex(st.value.args[0])
        if isinstance(st, ast.For):
            # for _ in range(E):  x = C(stream.get_int(a), stream.get_int(b));  L.append(x)
            it = st.iter
            if (isinstance(it, ast.Call) and isinstance(it.func, ast.Name) and it.func.id == "range" and len(it.args) == 1 and not st.orelse
                    and len(st.body) == 2 and isinstance(st.body[0], ast.Assign) and len(st.body[0].targets) == 1
                    and isinstance(st.body[0].targets[0], ast.Name) and isinstance(st.body[0].value, ast.Call)
                    and isinstance(st.body[0].value.func, ast.Name) and st.body[0].value.func.id in self.records
                    and len(st.body[0].value.args) == 2 and all(self.stream_call(a, "get_int") for a in st.body[0].value.args)
                    and not st.body[0].value.keywords
                    and isinstance(st.body[1], ast.Expr) and isinstance(st.body[1].value, ast.Call)
                    and isinstance(st.body[1].value.func, ast.Attribute) and st.body[1].value.func.attr == "append"
                    and self.var(st.body[1].value.func.value) is not None
                    and [ast.unparse(a) for a in st.body[1].value.args] == [st.body[0].targets[0].id]):
                a, b = st.body[0].value.args
                return "(TRepeat %s (TAppendPair %s %s %s))" % (self.ex(it.args[0]), T(self.var(st.body[1].value.func.value)),
                                                                  self.ex(a.args[0]), self.ex(b.args[0]))
            if (isinstance(it, ast.Call) and isinstance(it.func, ast.Name) and it.func.id == "range" and len(it.args) == 1 and not st.orelse
                    and not it.keywords and isinstance(st.target, ast.Name)
                    and not any(isinstance(n, ast.Name) and n.id == st.target.id for b in st.body for n in ast.walk(b))):
                return "(TRepeat %s %s)" % (self.ex(it.args[0]), self.block(st.body))
            raise Unsupported("a for loop outside the fragment")
        if (isinstance(st, ast.Assign) and len(st.targets) == 1 and ast.unparse(st.targets[0]) == "self.stream"
                and isinstance(st.value, ast.Name) and st.value.id == self.stream and self.is_init and self.depth == 0):
            self.alias = True
            return "TNop"
        if isinstance(st, ast.Assign) and len(st.targets) == 1:
            v = self.var(st.targets[0])
            if (v is not None and isinstance(st.value, ast.Call) and isinstance(st.value.func, ast.Name) and st.value.func.id in CALLEES
                    and len(st.value.args) == 1 and self.is_stream(st.value.args[0]) and not st.value.keywords):
                return "(TCall %s %s)" % (T(v), T(st.value.func.id))
            if v is None:
                raise Unsupported("assignment target outside the fragment: %s" % ast.unparse(st.targets[0]))
            val = st.value
            if self.stream_call(val, "get_int"):
                self.int_vars.add(v)
                return "(TInt %s %s)" % (T(v), self.ex(val.args[0]))
            if self.stream_call(val, "get_mem"):
                return "(TMem %s %s)" % (T(v), self.ex(val.args[0]))
            inner_i = [n for n in ast.walk(val) if self.stream_call(n, "get_int")]
            if len(inner_i) == 1 and val is not inner_i[0] and any(ast.unparse(val) == w % ast.unparse(inner_i[0]) for w in INT_WRAPPERS):
                self.int_vars.add(v)
                return "(TInt %s %s)" % (T(v), self.ex(inner_i[0].args[0]))
            if ast.unparse(val) in ("memoryview(b'')", "''"):
                return "(TEmpty %s)" % T(v)
            inner = [n for n in ast.walk(val) if self.stream_call(n, "get_mem")]
            if len(inner) == 1 and any(ast.unparse(val) == w % ast.unparse(inner[0]) for w in DISPLAY_WRAPPERS):
                return "(TMem %s %s)" % (T(v), self.ex(inner[0].args[0]))
            # v = str(v, encoding='ascii', errors='ignore')
            if (isinstance(val, ast.Call) and isinstance(val.func, ast.Name) and val.func.id == "str" and len(val.args) == 1
                    and self.var(val.args[0]) == v
                    and sorted((k.arg, ast.unparse(k.value)) for k in val.keywords) == [("encoding", "'ascii'"), ("errors", "'ignore'")]):
                return "(TAscii %s)" % T(v)
            # v = v.rstrip(c1).rstrip(c2)...
            chain, cur = [], val
            while (isinstance(cur, ast.Call) and isinstance(cur.func, ast.Attribute) and cur.func.attr == "rstrip" and len(cur.args) == 1
                   and not cur.keywords and isinstance(cur.args[0], ast.Constant) and isinstance(cur.args[0].value, str)
                   and len(cur.args[0].value) == 1):
                chain.append(ord(cur.args[0].value))
                cur = cur.func.value
            if chain and self.var(cur) == v:
                out = None
                for c in chain:                      # innermost call last in `chain`; it runs first
                    t = "(TRstrip %s %d%%N)" % (T(v), c)
                    out = t if out is None else "(TSeq %s %s)" % (t, out)
                return out
            return "(TLet %s %s)" % (T(v), self.ex(val))      # (an expression that uses the stream outside stream.index / get_value is refused by ex)
        raise Unsupported("statement outside the fragment: %s" % ast.unparse(st).split("\n")[0])

    def block(self, stmts):
        out = []
        for st in stmts:
            try:
                t = self.stmt(st)
            except Unsupported as e:
                self.unknown.append("line %d: %s" % (st.lineno, e))
                t = "TUnknown"
            if t is not None:
                out.append(t)
        if not out:
            return "TNop"
        term = out[-1]
        for t in reversed(out[:-1]):
            term = "(TSeq %s\n      %s)" % (t, term)
        return term


def find(tree, cls, name):
    for n in tree.body:
        if isinstance(n, ast.ClassDef) and n.name == cls:
            consts = {"__class__": cls}
            for b in n.body:
                if (isinstance(b, ast.Assign) and len(b.targets) == 1 and isinstance(b.targets[0], ast.Name)
                        and isinstance(b.value, ast.Constant) and isinstance(b.value.value, int) and not isinstance(b.value.value, bool)):
                    consts[b.targets[0].id] = b.value.value
            for m in tree.body:                      # <Enum>.<member>.value of the module's enumerations
                if isinstance(m, ast.ClassDef) and any(ast.unparse(b) == "Enum" for b in m.bases):
                    for b in m.body:
                        if (isinstance(b, ast.Assign) and len(b.targets) == 1 and isinstance(b.targets[0], ast.Name)
                                and isinstance(b.value, ast.Constant) and isinstance(b.value.value, int) and not isinstance(b.value.value, bool)):
                            consts["%s.%s.value" % (m.name, b.targets[0].id)] = b.value.value
            fs = [b for b in n.body if isinstance(b, ast.FunctionDef) and b.name == name]
            if len(fs) == 1:
                return fs[0], consts
    raise Unsupported("%s.%s not found exactly once" % (cls, name))


def module_facts(tree):
    """(record classes, whether get_value is the plain big-endian slice read)"""
    records, peek = set(), False
    for n in tree.body:
        if isinstance(n, ast.ClassDef):
            inits = [b for b in n.body if isinstance(b, ast.FunctionDef) and b.name == "__init__"]
            if len(n.body) == 1 and len(inits) == 1:
                f = inits[0]
                params = [a.arg for a in f.args.args][1:]
                if params and [ast.unparse(b) for b in f.body] == ["self.%s = %s" % (q, q) for q in params]:
                    records.add(n.name)
        if isinstance(n, ast.FunctionDef) and n.name == "get_value":
            params = [a.arg for a in n.args.args]
            if params == ["data", "start", "end"] and [ast.unparse(b) for b in n.body] == ["return int.from_bytes(data[start:start + end], byteorder='big')"]:
                peek = True
    return records, peek


def module_consts(tree):
    c = {}
    for b in tree.body:
        if (isinstance(b, ast.Assign) and len(b.targets) == 1 and isinstance(b.targets[0], ast.Name)
                and isinstance(b.value, ast.Constant) and isinstance(b.value.value, int) and not isinstance(b.value.value, bool)):
            c[b.targets[0].id] = b.value.value
    return c


def loop_of(tree, fn):
    """(stream name, guard expression or None, body statements) of the one stream-reading loop of module-level function fn"""
    fs = [n for n in tree.body if isinstance(n, ast.FunctionDef) and n.name == fn]
    if len(fs) != 1:
        raise Unsupported("%s not found exactly once" % fn)
    f = fs[0]
    made = [st for st in f.body if isinstance(st, ast.Assign) and isinstance(st.value, ast.Call)
            and isinstance(st.value.func, ast.Name) and st.value.func.id == "DataStream"]
    if len(made) != 1 or len(made[0].targets) != 1 or not isinstance(made[0].targets[0], ast.Name):
        raise Unsupported("%s does not build exactly one DataStream in a local" % fn)
    stream = made[0].targets[0].id
    users = [st for st in f.body if st is not made[0] and any(isinstance(n, ast.Name) and n.id == stream for n in ast.walk(st))]
    if len(users) != 1 or not isinstance(users[0], (ast.While, ast.For)) or users[0].orelse:
        raise Unsupported("%s uses its stream outside one loop" % fn)
    if f.body.index(users[0]) < f.body.index(made[0]):
        raise Unsupported("%s: the loop precedes the stream" % fn)
    return stream, users[0]


def streams_ok():
    """every DataStream(...) construction in the io_drawer readers is big-endian and unsigned"""
    for rel in STREAM_FILES:
        tree = ast.parse(open(os.path.join(ROOT, rel)).read())
        for n in ast.walk(tree):
            if isinstance(n, ast.Call) and isinstance(n.func, ast.Name) and n.func.id == "DataStream":
                kw = sorted((k.arg, ast.unparse(k.value)) for k in n.keywords)
                if len(n.args) != 1 or kw != [("byte_order", "'big'"), ("is_signed", "False")]:
                    return False
    return True


def main():
    out = sys.argv[1] if len(sys.argv) > 1 else os.path.join(VERIF, "coq", "Gen", "Readers.v")
    lines = ["(* GENERATED by harness/extract_readers.py from the source text of the I/O-drawer stream readers.  Do not edit. *)",
             "From Coq Require Import List NArith ZArith.", "From PV Require Import Model.StreamProg.", "Import ListNotations.",
             "Open Scope Z_scope.", ""]
    ok = True
    for label, rel, cls, fn, stream in TARGETS:
        try:
            tree = ast.parse(open(os.path.join(ROOT, rel)).read())
            f, consts = find(tree, cls, fn)
            params = [a.arg for a in f.args.args]
            if params[:2] != ["self", stream] and not (stream == "self.stream" and params == ["self"]):
                raise Unsupported("%s.%s takes %s" % (cls, fn, params))
            extra = params[2:] if stream != "self.stream" else []
            if extra:
                lines.append("Definition params_%s : list name := [%s]." % (label, "; ".join(T(q) for q in extra)))
            tr = Tr(consts, stream)
            tr.is_init = fn == "__init__"
            tr.is_tojson = stream == "self.stream"
            tr.in_loop = tr.is_init or tr.is_tojson   # stream-free statements (a diagnostic print, building the display) have no stream effect
            tr.records, tr.peek_ok = module_facts(tree)
            term = tr.block(f.body)
            for u in tr.unknown:
                sys.stderr.write("extract_readers: %s.%s: %s\n" % (cls, fn, u))
                lines.append("(* outside the fragment: %s *)" % u.replace("*)", "* )").replace("(*", "( *")[:200])
            lines.append("Definition prog_%s : st :=\n  %s.\n" % (label, term))
        except Exception as e:  # noqa: BLE001 (fail-closed: whatever goes wrong gives the stub)
            sys.stderr.write("extract_readers: %s: %s\n" % (label, e))
            ok = False
            lines.append("(* STUB: %s *)" % str(e).replace("*)", "* )").replace("(*", "( *")[:300])
            lines.append("Definition prog_%s : st := TUnknown.\n" % label)
    for label, rel, cls, fn, stream, stop in HEAD_TARGETS:
        try:
            tree = ast.parse(open(os.path.join(ROOT, rel)).read())
            f, consts = find(tree, cls, fn)
            body = [b for b in f.body if not (isinstance(b, ast.Expr) and isinstance(b.value, ast.Constant))]
            cut = [i for i, b in enumerate(body) if ast.unparse(b) == stop]
            if len(cut) != 1:
                raise Unsupported("%s.%s: the statement `%s` does not occur exactly once at the top level" % (cls, fn, stop))
            tr = Tr(consts, stream)
            tr.is_tojson = tr.in_loop = True
            tr.records, tr.peek_ok = module_facts(tree)
            if any(tr.is_stream(n) for b in body[cut[0]:] for n in ast.walk(b)):
                raise Unsupported("%s.%s mentions its stream after `%s`" % (cls, fn, stop))
            term = tr.block(body[:cut[0]])
            for u in tr.unknown:
                sys.stderr.write("extract_readers: %s.%s: %s\n" % (cls, fn, u))
                lines.append("(* outside the fragment: %s *)" % u.replace("*)", "* )").replace("(*", "( *")[:200])
            lines.append("Definition prog_%s : st :=\n  %s.\n" % (label, term))
        except Exception as e:  # noqa: BLE001 (fail-closed: whatever goes wrong gives the stub)
            sys.stderr.write("extract_readers: %s: %s\n" % (label, e))
            ok = False
            lines.append("(* STUB: %s *)" % str(e).replace("*)", "* )").replace("(*", "( *")[:300])
            lines.append("Definition prog_%s : st := TUnknown.\n" % label)
    for label, rel, cls, fn, stream in WALK_TARGETS:
        try:
            tree = ast.parse(open(os.path.join(ROOT, rel)).read())
            f, consts = find(tree, cls, fn)
            body = [b for b in f.body if not (isinstance(b, ast.Expr) and isinstance(b.value, ast.Constant))]
            tr = Tr(consts, stream)
            tr.is_tojson = tr.in_loop = True
            tr.records, tr.peek_ok = module_facts(tree)
            loops = [i for i, b in enumerate(body) if isinstance(b, (ast.While, ast.For)) and any(tr.is_stream(n) for n in ast.walk(b))]
            if len(loops) != 1 or not isinstance(body[loops[0]], ast.While) or body[loops[0]].orelse:
                raise Unsupported("%s.%s does not read its stream in exactly one while loop" % (cls, fn))
            if any(tr.is_stream(n) for b in body[loops[0] + 1:] for n in ast.walk(b)):
                raise Unsupported("%s.%s mentions its stream after the loop" % (cls, fn))
            head = tr.block(body[:loops[0]])
            guard = tr.cond(body[loops[0]].test)
            for u in tr.unknown:
                sys.stderr.write("extract_readers: %s.%s: %s\n" % (cls, fn, u))
                lines.append("(* outside the fragment: %s *)" % u.replace("*)", "* )").replace("(*", "( *")[:200])
            lines.append("Definition prog_%s_head : st :=\n  %s.\n" % (label, head))
            lines.append("Definition guard_%s : cd := %s.\n" % (label, guard))
            lines.append("Definition loop_%s : list (list N) := [%s].\n" % (label, "; ".join(T(ast.unparse(b)) for b in body[loops[0]].body)))
            lines.append("Definition around_%s : list (list N) * list (list N) := ([%s], [%s]).\n" % (
                label, "; ".join(T(ast.unparse(b)) for b in body[:loops[0]]), "; ".join(T(ast.unparse(b)) for b in body[loops[0] + 1:])))
        except Exception as e:  # noqa: BLE001
            sys.stderr.write("extract_readers: %s: %s\n" % (label, e))
            ok = False
            lines.append("(* STUB: %s *)" % str(e).replace("*)", "* )").replace("(*", "( *")[:300])
            lines.append("Definition prog_%s_head : st := TUnknown." % label)
            lines.append("Definition guard_%s : cd := CTruthy (XC 0)." % label)
            lines.append("Definition loop_%s : list (list N) := []." % label)
            lines.append("Definition around_%s : list (list N) * list (list N) := ([], []).\n" % label)
    for label, rel, cls, fn, stream in SPLIT_TARGETS:
        try:
            tree = ast.parse(open(os.path.join(ROOT, rel)).read())
            f, consts = find(tree, cls, fn)
            if [a.arg for a in f.args.args] != ["self", stream]:
                raise Unsupported("%s.%s parameters" % (cls, fn))
            body = [b for b in f.body if not (isinstance(b, ast.Expr) and isinstance(b.value, ast.Constant))]
            if not body or not isinstance(body[-1], ast.While) or body[-1].orelse or any(isinstance(n, (ast.While, ast.For)) for b in body[:-1] for n in ast.walk(b)):
                raise Unsupported("%s.%s is not a straight part followed by one while loop" % (cls, fn))
            tr = Tr(consts, stream)
            tr.is_init = tr.in_loop = True
            tr.records, tr.peek_ok = module_facts(tree)
            head = tr.block(body[:-1])
            guard = tr.cond(body[-1].test)
            loop = tr.block(body[-1].body)
            for u in tr.unknown:
                sys.stderr.write("extract_readers: %s.%s: %s\n" % (cls, fn, u))
                lines.append("(* outside the fragment: %s *)" % u.replace("*)", "* )").replace("(*", "( *")[:200])
            lines.append("Definition prog_%s_head : st :=\n  %s.\n" % (label, head))
            lines.append("Definition guard_%s : cd := %s.\n" % (label, guard))
            lines.append("Definition prog_%s_body : st :=\n  %s.\n" % (label, loop))
        except Exception as e:  # noqa: BLE001 (fail-closed: whatever goes wrong gives the stub)
            sys.stderr.write("extract_readers: %s: %s\n" % (label, e))
            ok = False
            lines.append("(* STUB: %s *)" % str(e).replace("*)", "* )").replace("(*", "( *")[:300])
            lines.append("Definition prog_%s_head : st := TUnknown." % label)
            lines.append("Definition guard_%s : cd := CTruthy (XC 0)." % label)
            lines.append("Definition prog_%s_body : st := TUnknown.\n" % label)
    lines.append("Definition callee_progs : list (name * st) :=\n  [%s].\n" % "; ".join("(%s, prog_%s)" % (T(c), l) for c, l in CALLEES.items()))
    for label, rel, cls, fn in METHOD_LOOPS:
        try:
            tree = ast.parse(open(os.path.join(ROOT, rel)).read())
            f, consts = find(tree, cls, fn)
            made = [n for n in ast.walk(f) if isinstance(n, ast.Assign) and isinstance(n.value, ast.Call)
                    and isinstance(n.value.func, ast.Name) and n.value.func.id == "DataStream"]
            loops = [n for n in ast.walk(f) if isinstance(n, (ast.For, ast.While))]
            if len(made) != 1 or len(loops) != 1 or not isinstance(loops[0], ast.For) or loops[0].orelse:
                raise Unsupported("%s.%s does not build one DataStream and read it in one for loop" % (cls, fn))
            stream = made[0].targets[0].id
            users = [n for n in ast.walk(f) if isinstance(n, ast.Name) and n.id == stream and isinstance(n.ctx, ast.Load)]
            inside = [n for n in ast.walk(loops[0]) if isinstance(n, ast.Name) and n.id == stream]
            if len(users) != len(inside):
                raise Unsupported("%s.%s uses its stream outside the loop" % (cls, fn))
            it = loops[0].iter
            if not (isinstance(it, ast.Call) and isinstance(it.func, ast.Name) and it.func.id == "range" and len(it.args) == 1):
                raise Unsupported("the loop of %s.%s is not for _ in range(<count>)" % (cls, fn))
            tr = Tr(consts, stream)
            tr.in_loop = True
            term = "(TRepeat %s %s)" % (tr.ex(it.args[0]), tr.block(loops[0].body))
            for u in tr.unknown:
                sys.stderr.write("extract_readers: %s.%s: %s\n" % (cls, fn, u))
                lines.append("(* outside the fragment: %s *)" % u.replace("*)", "* )").replace("(*", "( *")[:200])
            lines.append("Definition data_of_%s : list N := %s." % (label, T(ast.unparse(made[0].value.args[0]))))
            lines.append("Definition prog_%s : st :=\n  %s.\n" % (label, term))
        except Exception as e:  # noqa: BLE001 (fail-closed: whatever goes wrong gives the stub)
            sys.stderr.write("extract_readers: %s: %s\n" % (label, e))
            ok = False
            lines.append("(* STUB: %s *)" % str(e).replace("*)", "* )").replace("(*", "( *")[:300])
            lines.append("Definition data_of_%s : list N := []." % label)
            lines.append("Definition prog_%s : st := TUnknown.\n" % label)
    for label, rel, fn in LOOPS:
        try:
            tree = ast.parse(open(os.path.join(ROOT, rel)).read())
            stream, loop = loop_of(tree, fn)
            tr = Tr(module_consts(tree), stream)
            if isinstance(loop, ast.While):
                t = loop.test
                if not tr.stream_call(t, "check_range"):
                    raise Unsupported("the loop condition is not stream.check_range(<expr>)")
                lines.append("Definition guard_%s : ex := %s." % (label, tr.ex(t.args[0])))
            else:
                if not (isinstance(loop.target, ast.Name) and isinstance(loop.iter, ast.Name)):
                    raise Unsupported("the loop is not `for <name> in <name>`")
                lines.append("Definition loopvar_%s : name := %s." % (label, T(loop.target.id)))
            tr.in_loop = True
            term = tr.block(loop.body)
            for u in tr.unknown:
                sys.stderr.write("extract_readers: %s: %s\n" % (fn, u))
                lines.append("(* outside the fragment: %s *)" % u.replace("*)", "* )").replace("(*", "( *")[:200])
            lines.append("Definition prog_%s : st :=\n  %s.\n" % (label, term))
        except Exception as e:  # noqa: BLE001 (fail-closed: whatever goes wrong gives the stub)
            sys.stderr.write("extract_readers: %s: %s\n" % (label, e))
            ok = False
            lines.append("(* STUB: %s *)" % str(e).replace("*)", "* )").replace("(*", "( *")[:300])
            lines.append("Definition guard_%s : ex := XC 0." % label)
            lines.append("Definition loopvar_%s : name := []." % label)
            lines.append("Definition prog_%s : st := TUnknown.\n" % label)
    try:
        sb = streams_ok()
    except (OSError, SyntaxError) as e:
        sys.stderr.write("extract_readers: %s\n" % e)
        sb = False
    lines.append("Definition streams_big_unsigned : bool := %s." % ("true" if sb else "false"))
    lines.append("Definition ok_readers : bool := %s." % ("true" if ok else "false"))
    text = "\n".join(lines) + "\n"
    if os.path.exists(out) and open(out).read() == text:
        print("extract_readers: unchanged", out)
        return
    with open(out, "w") as g:
        g.write(text)
    print("extract_readers: wrote", out)


main()
