#!/venv/bin/python
"""Translate the PEL selection code of /repo into Gallina, from its SOURCE TEXT (Python ast), on every run:

    modules/pel/peltool/peltool.py      considerPELIfSeverityMatches, considerPEL
    modules/pel/peltool/user_header.py  UserHeader.isHidden, UserHeader.isServiceable

    ->  coq/Gen/SelectGen.v   gen_is_hidden, gen_is_serviceable, gen_sev_matches, gen_consider

Props/C07.v proves  gen_consider c u = consider c u  for all c u (C07_source_is_model), so the theorems about the hand-written
model (Model/Select.v) are theorems about what the source says now.  The translation is fail-closed: any statement or
expression outside the fragment below stops the run.

Fragment.  Statements: `if`/`elif`/`else`, `return <expr>`, a bare string (docstring), and the loop
`for x in config.severities: if <cond>: return True` (= existsb).  Falling off the end of a function is `return None` (false).
Expressions, all read in boolean context unless compared: `not`, `and`, `or`, `==`, `!=`, `a & b` (non-zero test), `a >> n`,
integer literals, True/False, `config.<flag>`, `uh.<field>`/`self.<field>`, `<Enum>.<member>.value` (the regenerated constant
Gen.Tables.<Enum>_<member>), calls of the four translated functions.
Abstractions (stated in DESIGN.md): config.severities in boolean context is "non-empty"; the five look-up attributes
(plid, src, bmcID, pelID, srcExcludeFile) are each read as the model's single flag `lookup` (the harness's exhaustive
comparison sets them one at a time)."""
import ast
import os
import sys

ROOT = os.environ.get("VERIF_REPO_ROOT", "/repo")
VERIF = os.path.dirname(os.path.dirname(os.path.abspath(__file__)))

CONFIG_FLAGS = {"every_pel": "every c", "critSysTerm": "term c", "serviceable": "svc c", "non_serviceable": "nsvc c",
                "hidden": "hid c", "only": "only c",
                "plid": "lookup c", "src": "lookup c", "bmcID": "lookup c", "pelID": "lookup c", "srcExcludeFile": "lookup c"}
UH_FIELDS = {"eventSeverity": "uh_sev u", "actionFlags": "uh_flags u"}
ENUMS = ("SeverityValues", "ActionFlagsValues")
CALLS = {"considerPELIfSeverityMatches": "gen_sev_matches c u", "isHidden": "gen_is_hidden u", "isServiceable": "gen_is_serviceable u"}


class Unsupported(Exception):
    pass


def fail(node, what):
    raise Unsupported("%s at line %s: %s" % (what, getattr(node, "lineno", "?"), ast.dump(node)[:200]))


def num(e, loopvar):
    """an expression denoting a number (N)"""
    if isinstance(e, ast.Constant) and isinstance(e.value, int) and not isinstance(e.value, bool) and e.value >= 0:
        return str(e.value)
    if isinstance(e, ast.Name) and e.id == loopvar:
        return loopvar
    if isinstance(e, ast.Attribute) and isinstance(e.value, ast.Name) and e.value.id in ("uh", "self") and e.attr in UH_FIELDS:
        return "(%s)" % UH_FIELDS[e.attr]
    if (isinstance(e, ast.Attribute) and e.attr == "value" and isinstance(e.value, ast.Attribute)
            and isinstance(e.value.value, ast.Name) and e.value.value.id in ENUMS):
        return "%s_%s" % (e.value.value.id, e.value.attr)
    if isinstance(e, ast.BinOp) and isinstance(e.op, ast.RShift):
        return "(N.shiftr %s %s)" % (num(e.left, loopvar), num(e.right, loopvar))
    if isinstance(e, ast.BinOp) and isinstance(e.op, ast.BitAnd):
        a, b = sorted((num(e.left, loopvar), num(e.right, loopvar)))      # & is commutative: one spelling
        return "(N.land %s %s)" % (a, b)
    fail(e, "number expression outside the fragment")


def boolean(e, loopvar=None):
    """an expression read for its truth value"""
    if isinstance(e, ast.Constant) and e.value is True:
        return "true"
    if isinstance(e, ast.Constant) and (e.value is False or e.value is None):
        return "false"
    if isinstance(e, ast.UnaryOp) and isinstance(e.op, ast.Not):
        return "(negb %s)" % boolean(e.operand, loopvar)
    if isinstance(e, ast.BoolOp):
        op = " && " if isinstance(e.op, ast.And) else " || "
        return "(" + op.join(boolean(v, loopvar) for v in e.values) + ")"
    if isinstance(e, ast.Compare) and len(e.ops) == 1 and isinstance(e.ops[0], (ast.Eq, ast.NotEq)):
        a, b = sorted((num(e.left, loopvar), num(e.comparators[0], loopvar)))      # == is symmetric: one spelling
        if loopvar in (a, b):
            a, b = (b, a) if a == loopvar else (a, b)                              # the loop variable last, as in_group
        t = "(%s =? %s)" % (a, b)
        return t if isinstance(e.ops[0], ast.Eq) else "(negb %s)" % t
    if isinstance(e, ast.BinOp) and isinstance(e.op, ast.BitAnd):
        return "(nz %s)" % num(e, loopvar)
    if isinstance(e, ast.Attribute) and isinstance(e.value, ast.Name) and e.value.id == "config":
        if e.attr == "severities":
            return "(nonempty (sevs c))"
        if e.attr in CONFIG_FLAGS:
            return "(%s)" % CONFIG_FLAGS[e.attr]
    if isinstance(e, ast.Call) and not e.keywords:
        f = e.func
        if isinstance(f, ast.Name) and f.id in CALLS and [ast.dump(a) for a in e.args] == [ast.dump(ast.Name("uh", ast.Load())), ast.dump(ast.Name("config", ast.Load()))]:
            return "(%s)" % CALLS[f.id]
        if isinstance(f, ast.Attribute) and isinstance(f.value, ast.Name) and f.value.id in ("uh", "self") and f.attr in CALLS and not e.args:
            return "(%s)" % CALLS[f.attr]
    fail(e, "boolean expression outside the fragment")


def block(stmts, k):
    """statements followed by the continuation text k (what runs if the block falls through)"""
    if not stmts:
        return k
    s, rest = stmts[0], stmts[1:]
    if isinstance(s, ast.Expr) and isinstance(s.value, ast.Constant) and isinstance(s.value.value, str):
        return block(rest, k)
    if isinstance(s, ast.Return):
        return boolean(s.value if s.value is not None else ast.Constant(None))
    if isinstance(s, ast.If):
        after = block(rest, k)
        return "(if %s then %s else %s)" % (boolean(s.test), block(s.body, after), block(s.orelse, after))
    if (isinstance(s, ast.For) and isinstance(s.target, ast.Name) and not s.orelse and ast.dump(s.iter) == ast.dump(ast.parse("config.severities", mode="eval").body)
            and len(s.body) == 1 and isinstance(s.body[0], ast.If) and not s.body[0].orelse and len(s.body[0].body) == 1
            and isinstance(s.body[0].body[0], ast.Return) and isinstance(s.body[0].body[0].value, ast.Constant) and s.body[0].body[0].value.value is True):
        v = s.target.id
        return "(if existsb (fun %s => %s) (sevs c) then true else %s)" % (v, boolean(s.body[0].test, v), block(rest, k))
    fail(s, "statement outside the fragment")


def find_function(tree, name, cls=None):
    scope = tree.body
    if cls:
        cs = [n for n in tree.body if isinstance(n, ast.ClassDef) and n.name == cls]
        if len(cs) != 1:
            raise Unsupported("class %s not found exactly once" % cls)
        scope = cs[0].body
    fs = [n for n in scope if isinstance(n, ast.FunctionDef) and n.name == name]
    if len(fs) != 1:
        raise Unsupported("function %s not found exactly once" % name)
    f = fs[0]
    if f.decorator_list:
        raise Unsupported("function %s is decorated" % name)
    return f


def main():
    out = sys.argv[1] if len(sys.argv) > 1 else os.path.join(VERIF, "coq", "Gen", "SelectGen.v")
    try:
        pt = ast.parse(open(os.path.join(ROOT, "modules/pel/peltool/peltool.py")).read())
        uh = ast.parse(open(os.path.join(ROOT, "modules/pel/peltool/user_header.py")).read())
        f_hidden = find_function(uh, "isHidden", "UserHeader")
        f_svc = find_function(uh, "isServiceable", "UserHeader")
        f_match = find_function(pt, "considerPELIfSeverityMatches")
        f_cons = find_function(pt, "considerPEL")
        for f, want in ((f_hidden, ["self"]), (f_svc, ["self"]), (f_match, ["uh", "config"]), (f_cons, ["uh", "config"])):
            if [a.arg for a in f.args.args] != want or f.args.vararg or f.args.kwarg or f.args.kwonlyargs or f.args.defaults:
                raise Unsupported("unexpected parameters of %s" % f.name)
        text = "\n".join([
            "(* GENERATED by harness/translate_select.py from the source text of",
            "   modules/pel/peltool/peltool.py (considerPELIfSeverityMatches, considerPEL) and",
            "   modules/pel/peltool/user_header.py (UserHeader.isHidden, isServiceable).  Do not edit. *)",
            "From Coq Require Import List NArith Bool.",
            "From PV Require Import Base.Bytes Base.PelTypes Gen.Tables Model.Select.",
            "Import ListNotations.",
            "Open Scope N_scope.",
            "",
            "Definition gen_is_hidden (u : uh_t) : bool :=\n  %s." % block(f_hidden.body, "false"),
            "",
            "Definition gen_is_serviceable (u : uh_t) : bool :=\n  %s." % block(f_svc.body, "false"),
            "",
            "Definition gen_sev_matches (c : sel_config) (u : uh_t) : bool :=\n  %s." % block(f_match.body, "false"),
            "",
            "Definition gen_consider (c : sel_config) (u : uh_t) : bool :=\n  %s." % block(f_cons.body, "false"),
            ""])
    except Exception as e:  # noqa: BLE001 (fail-closed: whatever goes wrong gives the stub)
        # outside the fragment: only C07 depends on this file.  A stub keeps the other properties' builds going and makes
        # C07_source_is_model fail (proof obligation broken -> C07 reports it and searches for a failing input).
        sys.stderr.write("translate_select: %s\n" % e)
        reason = str(e).replace("*)", "* )").replace("(*", "( *")[:400]
        text = "\n".join([
            "(* GENERATED STUB: harness/translate_select.py could not translate the selection code:",
            "   " + reason,
            "   C07_source_is_model cannot hold for this stub. *)",
            "From Coq Require Import List NArith Bool.",
            "From PV Require Import Base.Bytes Base.PelTypes Gen.Tables Model.Select.",
            "Definition translation_failed : bool := true.",
            "Definition gen_is_hidden (u : uh_t) : bool := false.",
            "Definition gen_is_serviceable (u : uh_t) : bool := false.",
            "Definition gen_sev_matches (c : sel_config) (u : uh_t) : bool := false.",
            "Definition gen_consider (c : sel_config) (u : uh_t) : bool := false.",
            ""])
    if os.path.exists(out) and open(out).read() == text:
        print("translate_select: unchanged", out)
        return
    with open(out, "w") as g:
        g.write(text)
    print("translate_select: wrote", out)


main()
