#!/usr/bin/env python3
"""Confirm seeded changes and run the property's check against each.
usage: seeded_eval.py <seed_dir>...   (each dir has patch.diff, demo.py, meta.json)
For every seed: copy /repo to a scratch dir, apply the patch, run the test suite, run the demo on original and changed tree,
run ./check <property> with VERIF_REPO_ROOT=<scratch>; write results to /verif/build/seeded_results.json."""
import json
import os
import shutil
import subprocess
import sys
import tempfile
import time

VERIF = os.path.dirname(os.path.dirname(os.path.abspath(__file__)))
PY = "/venv/bin/python"


def sh(cmd, **kw):
    p = subprocess.run(cmd, stdout=subprocess.PIPE, stderr=subprocess.STDOUT, text=True, **kw)
    return p.returncode, p.stdout


def main():
    results = []
    out_path = os.path.join(VERIF, "build", "seeded_results.json")
    for d in sys.argv[1:]:
        meta = json.load(open(os.path.join(d, "meta.json")))
        pid = meta["property"]
        scratch = tempfile.mkdtemp(prefix="verif_seed_")
        try:
            rc, _ = sh(["git", "-C", "/repo", "archive", "--format=tar", "-o", os.path.join(scratch, "r.tar"), "HEAD"])
            os.makedirs(os.path.join(scratch, "orig"))
            os.makedirs(os.path.join(scratch, "mut"))
            for sub in ("orig", "mut"):
                sh(["tar", "-xf", os.path.join(scratch, "r.tar"), "-C", os.path.join(scratch, sub)])
            rc_apply, out_apply = sh(["git", "apply", "--directory=" + os.path.join(scratch, "mut").lstrip("/"), "--unsafe-paths", os.path.join(d, "patch.diff")], cwd="/")
            if rc_apply != 0:
                rc_apply, out_apply = sh(["patch", "-p1", "-s", "-i", os.path.join(d, "patch.diff")], cwd=os.path.join(scratch, "mut"))
            env = dict(os.environ, PYTHONDONTWRITEBYTECODE="1")
            env.pop("PYTHONUNBUFFERED", None)
            res = dict(seed=d, property=pid, summary=meta.get("summary"), applied=rc_apply == 0)
            e2 = dict(env, PYTHONPATH=os.path.join(scratch, "mut", "modules"))
            rc_t, out_t = sh([PY, "-m", "pytest", "-q", "-p", "no:cacheprovider"], cwd=os.path.join(scratch, "mut"), env=e2, timeout=600)
            res["tests"] = out_t.strip().splitlines()[-1] if out_t.strip() else ""
            for sub in ("orig", "mut"):
                e3 = dict(env, PYTHONPATH=os.path.join(scratch, sub, "modules"))
                rc_d, out_d = sh([PY, os.path.join(d, "demo.py"), os.path.join(scratch, sub)], env=e3, timeout=600, cwd=scratch)
                res["demo_" + sub] = rc_d
            t0 = time.time()
            e4 = dict(env, VERIF_REPO_ROOT=os.path.join(scratch, "mut"))
            rc_c, out_c = sh([os.path.join(VERIF, "check"), pid, "--tier", "quick"], cwd=VERIF, env=e4, timeout=3000)
            res["check_rc"] = rc_c
            res["check_wall"] = round(time.time() - t0, 1)
            res["violations"] = [l for l in out_c.splitlines() if l.startswith("VIOLATION")][:6]
            res["tail"] = out_c.strip().splitlines()[-1][:200] if out_c.strip() else ""
            results.append(res)
            print(json.dumps(res)[:600], flush=True)
        finally:
            shutil.rmtree(scratch, ignore_errors=True)
        old = json.load(open(out_path)) if os.path.exists(out_path) else []
        merged = {os.path.basename(r["seed"].rstrip("/")): r for r in old}
        merged.update({os.path.basename(r["seed"].rstrip("/")): r for r in results})
        with open(out_path, "w") as f:
            json.dump([merged[k] for k in sorted(merged)], f, indent=1)
    # restore Gen from /repo
    sh([os.path.join(VERIF, "check"), "C13", "--tier", "quick"], cwd=VERIF)


main()
