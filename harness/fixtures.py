"""Fixture parser modules served from a temp directory appended to the plugin packages' __path__ (no change to /repo)."""
import builtins
import importlib
import os
import shutil
import sys
import tempfile

KIND_PKG = {0: "udparsers", 1: "srcparsers", 2: "calloutparsers"}

TEMPLATE = {
    0: '''import json, builtins
def parseUDToJson(subtype, version, data):
    builtins._verif_calls.append((__name__, "ud", subtype, version, bytes(data).hex()))
    trigger = len(data) > 0 and data[0] == 0xFF
    echo = json.dumps({"fx_subtype": subtype, "fx_version": version, "fx_data": bytes(data).hex()})
%s
''',
    1: '''import json, builtins
def parseSRCToJson(refcode, word2, word3, word4, word5, word6, word7, word8, word9):
    words = [word2, word3, word4, word5, word6, word7, word8, word9]
    builtins._verif_calls.append((__name__, "src", refcode, words))
    trigger = word2 == "FFFFFFFF"
    echo = json.dumps({"fx_refcode": refcode, "fx_words": words})
%s
''',
    2: '''import json, builtins
def getMaintProcDesc(procedure):
    builtins._verif_calls.append((__name__, "co", procedure))
    trigger = procedure.startswith("FAIL")
    echo = json.dumps(procedure)
%s
''',
}


def body(behaviour, payload):
    p = repr(payload)
    return {
        0: "    return %s" % p,
        1: "    return None",
        2: "    raise ValueError(%s)" % p,
        3: "    raise ImportError(%s)" % p,
        4: "    return 12345",
        5: "    return ''",
        7: "    return echo",
        8: "    if trigger:\n        raise ImportError(%s)\n    return echo" % p,
        9: "    if trigger:\n        raise ValueError(%s)\n    return echo" % p,
    }[behaviour]


class Fixtures:
    """fixtures: list of (kind, module_leaf_name, behaviour, payload); module is <pkg>.<leaf>.<leaf>"""

    def __init__(self, fixtures):
        self.fixtures = list(fixtures)
        self.tmp = None
        self.added = []

    def model_args(self):
        out = []
        for kind, leaf, beh, payload in self.fixtures:
            out += [bytes([kind]), "%s.%s.%s" % (KIND_PKG[kind], leaf, leaf), bytes([beh]), payload]
        return out

    def __enter__(self):
        self.tmp = tempfile.mkdtemp(prefix="verif_fx_")
        builtins._verif_calls = []
        for kind, leaf, beh, payload in self.fixtures:
            pkg = importlib.import_module(KIND_PKG[kind])
            base = os.path.join(self.tmp, KIND_PKG[kind])
            d = os.path.join(base, leaf)
            os.makedirs(d, exist_ok=True)
            open(os.path.join(d, "__init__.py"), "w").close()
            with open(os.path.join(d, leaf + ".py"), "w") as f:
                if beh == 6:
                    f.write("raise RuntimeError(%r)\n" % payload)
                else:
                    f.write(TEMPLATE[kind] % body(beh, payload))
            if base not in pkg.__path__:
                pkg.__path__.append(base)
                self.added.append((pkg, base))
        reset_caches()
        return self

    def __exit__(self, *a):
        for pkg, base in self.added:
            try:
                pkg.__path__.remove(base)
            except ValueError:
                pass
        reset_caches()
        shutil.rmtree(self.tmp, ignore_errors=True)

    @staticmethod
    def calls():
        return list(builtins._verif_calls)

    @staticmethod
    def clear_calls():
        builtins._verif_calls = []


def fixture_module_names():
    return [m for m in sys.modules if m.split(".")[0] in KIND_PKG.values() and getattr(sys.modules[m], "__file__", None)
            and "verif_fx_" in (sys.modules[m].__file__ or "")]


def reset_caches():
    """what a fresh interpreter has: empty parser caches, no fixture modules loaded"""
    from pel.peltool import parse_user_data, src
    parse_user_data.userDataParsers.clear()
    src.srcParsers.clear()
    src.calloutParsers.clear()
    try:
        from srcparsers.osrc import osrc
        osrc.osrcParsers.clear()
    except Exception:
        pass
    for m in fixture_module_names():
        del sys.modules[m]
    for m in list(sys.modules):
        if m.split(".")[0] in KIND_PKG.values() and m.count(".") == 1 and sys.modules[m] is not None:
            f = getattr(sys.modules[m], "__file__", "") or ""
            if "verif_fx_" in f:
                del sys.modules[m]
    importlib.invalidate_caches()
