"""Directories of PEL files for the CLI properties."""
import os
import shutil
import struct
import tempfile

import pelgen

NAME_PARTS = ["00000001", "5000A1B2", "log", "PEL", "pel", "a", "Z", "2024010112000000_", "x.y", ".hidden", "b.", "..c", "é", " sp", "0x"]
EXTS = ["", ".pel", ".PEL", ".txt", ".pel.bak", ".", ".json"]


SPECIAL_NAMES = [".pel", ".txt", "pel", "a.pel.pel", "apel", ".", "x.l"]


def rand_name(rng, used):
    if rng.random() < 0.12:
        n = rng.choice(SPECIAL_NAMES)
        if n not in used and n not in (".", ".."):
            used.add(n)
            return n
    for _ in range(100):
        n = "".join(rng.choice(NAME_PARTS) for _ in range(rng.randrange(1, 4))) + rng.choice(EXTS)
        if n not in used and n not in (".", "..") and "/" not in n and len(n.encode()) < 200:
            used.add(n)
            return n
    raise RuntimeError("no name")


def set_ids(data, eid=None, plid=None, obmc=None):
    b = bytearray(data)
    if obmc is not None:
        b[28:32] = struct.pack(">I", obmc)
    if plid is not None:
        b[40:44] = struct.pack(">I", plid)
    if eid is not None:
        b[44:48] = struct.pack(">I", eid)
    return bytes(b)


def gen_dir(model, rng, nfiles, plugins=True, maxsecs=3, maxpayload=24, junk=0, sources=None):
    """[(name, bytes, meta)] : generated well-formed PELs with distinct entry ids (+ optional junk files)"""
    used = set()
    files = []
    base = rng.randrange(1, 1 << 31)
    for i in range(nfiles):
        case = pelgen.gen_case(model, rng, maxsecs=maxsecs, maxpayload=maxpayload, plugins=plugins)
        k = rng.randrange(4)
        eid = (base + i * 7) & 0xFFFFFFFF if k else (i + 1)
        data = set_ids(case["data"], eid=eid)
        files.append((rand_name(rng, used), data, dict(kind="pel", eid=eid)))
    pels = [f for f in (sources or files) if f[2]["kind"] == "pel" and len(f[1]) > 72]
    for i in range(junk):
        k = rng.randrange(6)
        if not pels and k in (2, 3, 4):
            k = 1
        if k == 0:
            d = b""
        elif k == 1:
            d = bytes(rng.randrange(256) for _ in range(rng.randrange(1, 200)))
        elif k == 2:
            src = rng.choice(pels)[1]
            d = src[:rng.randrange(len(src))]
        elif k == 3:
            b = bytearray(rng.choice(pels)[1])
            b[rng.randrange(min(len(b), 72))] ^= 1 << rng.randrange(8)
            d = bytes(b)
        elif k == 4:
            b = bytearray(rng.choice(pels)[1])
            b[rng.randrange(len(b))] = rng.randrange(256)
            d = bytes(b)
        else:
            d = b"PH" + bytes(rng.randrange(256) for _ in range(rng.randrange(0, 80)))
        files.append((rand_name(rng, used), d, dict(kind="junk")))
    rng.shuffle(files)
    return files


class TempDir:
    def __init__(self, files, subdirs=()):
        self.path = tempfile.mkdtemp(prefix="verif_dir_")
        for name, data, meta in files:
            if meta.get("kind") == "unreadable":
                # a directory entry that cannot be opened, for one reason or another: a symbolic link whose target is gone (what
                # a file purged between the listing and the read looks like, ENOENT), a link to itself (ELOOP), a socket (ENXIO)
                how = meta.get("how", "dangling")
                full = os.path.join(self.path, name)
                if how == "loop":
                    os.symlink(name, full)
                elif how == "socket":
                    import socket
                    sk = socket.socket(socket.AF_UNIX, socket.SOCK_STREAM)
                    try:
                        sk.bind(full)
                    finally:
                        sk.close()
                else:
                    os.symlink(os.path.join(self.path, "..", "verif_no_such_target"), full)
                continue
            with open(os.path.join(self.path, name), "wb") as f:
                f.write(data)
        for sd in subdirs:
            os.makedirs(os.path.join(self.path, sd), exist_ok=True)
            with open(os.path.join(self.path, sd, "inner.pel"), "wb") as f:
                f.write(files[0][1] if files else b"x")

    def __enter__(self):
        return self.path

    def __exit__(self, *a):
        shutil.rmtree(self.path, ignore_errors=True)


def model_cli(model, mode, files, rev=False, hexmode=False, plugins=True, bits=0, sevs=(), ext="", extra=""):
    args = [bytes([mode]), bytes([(1 if rev else 0) | (2 if hexmode else 0) | (4 if plugins else 0)]), bytes([bits]), bytes(sevs), ext, extra]
    for name, data, _ in files:
        args += [name, data]
    return model.call("cli", *args)


def model_cli_o(model, mode, files, rev=False, hexmode=False, plugins=True, bits=0, sevs=(), ext=""):
    """count / list / all on a directory some of whose entries cannot be opened (meta kind "unreadable")"""
    args = [bytes([mode]), bytes([(1 if rev else 0) | (2 if hexmode else 0) | (4 if plugins else 0)]), bytes([bits]), bytes(sevs), ext]
    for name, data, meta in files:
        args += [name, bytes([0 if meta.get("kind") == "unreadable" else 1]), data]
    return model.call("cli_o", *args)
