"""Shared PEL machinery for C01-C05, C08-C12, C18, C19: generation through the Coq specification,
running the real decoder in-process, canonical comparison."""
import contextlib
import io
import json
import struct
import sys
from collections import OrderedDict

import common


class Unsupported(Exception):
    pass


class ModelReject(Exception):
    pass


# ---------------------------------------------------------------- model side

def choices_bytes(rng, n):
    """a choice sequence: n numbers below 2^32, biased to small values now and then"""
    out = bytearray()
    for _ in range(n):
        k = rng.randrange(8)
        v = rng.randrange(1 << 32) if k else rng.randrange(16)
        out += struct.pack(">I", v)
    return bytes(out)


def gen_case(model, rng, maxsecs=6, maxpayload=300, plugins=True, nchoices=None, choices=None):
    if choices is None:
        choices = choices_bytes(rng, nchoices or (200 + 400 * maxsecs))
    r = model.call("gen_pel", maxsecs.to_bytes(4, "big"), maxpayload.to_bytes(4, "big"), bytes([1 if plugins else 0]), choices)
    d = dict(r[1])
    d["choices"] = choices.hex()
    d["plugins"] = plugins
    d["maxsecs"], d["maxpayload"] = maxsecs, maxpayload
    d["data"] = bytes.fromhex(d["hex"])
    return d


def _loads(text):
    return json.loads(text)     # Python's own json.loads (trusted): dict for objects, last duplicate wins


def to_py(x):
    """canonical model value -> plain Python value with OrderedDict, resolving the json.loads markers"""
    if isinstance(x, tuple) and x and x[0] == "obj":
        out = OrderedDict()
        pairs = x[1]
        if len(pairs) == 1 and pairs[0][0] == "@loads":
            # a plugin's own json.loads of its payload (oe500 callout FFDC): the value is whatever Python's json.loads gives
            try:
                return _loads(pairs[0][1])
            except Exception:
                raise Unsupported()
        i = 0
        while i < len(pairs):
            k, v = pairs[i]
            if k == "@loads":
                if v == "@unsupported":
                    raise Unsupported()
                fb = pairs[i + 1][1]
                i += 1
                try:
                    j = _loads(v)
                    json.dumps(j, indent=4)      # the decoder probes that the value can be printed again
                except (ValueError, RecursionError):
                    # not JSON, or beyond the interpreter's limits (integer digits, nesting depth): hex dump
                    j = list(fb)
                if isinstance(j, dict):
                    out.update(j)
                else:
                    out["Data"] = j
            elif k.startswith("@loads_opt:"):
                try:
                    out[k.split(":", 1)[1]] = _loads(v)
                except Exception:
                    pass
            elif k.startswith("@loads_strict:"):
                if v == "@unsupported":
                    raise Unsupported()
                if v not in ("", "null"):
                    try:
                        out[k.split(":", 1)[1]] = _loads(v)
                    except Exception:
                        raise ModelReject()
            else:
                if v == "@unsupported":
                    raise Unsupported()
                out[k] = to_py(v)
            i += 1
        return out
    if isinstance(x, list):
        return [to_py(v) for v in x]
    return x


LAST = {"wf": None}     # does the last model document meet wf_json (hypothesis of the C06 round-trip theorems)?


def model_outcome(m):
    """('ok', eid, doc) | ('reject',) | ('badph',) | ('baduh',) | ('filtered',) | ('unsupported',)"""
    kind, val = m[1][0]
    if kind == "ok":
        d = dict(val[1])
        LAST["wf"] = d.get("wf")
        try:
            return ("ok", d["eid"], to_py(d["doc"]))
        except Unsupported:
            return ("unsupported",)
        except ModelReject:
            return ("reject",)
    return (kind,)


# ---------------------------------------------------------------- implementation side

_patched = False
_offsets = []


def _patch():
    """observe section-header offsets and the document before prettyPrint, without touching /repo"""
    global _patched
    from pel.peltool import peltool
    if _patched:
        return peltool
    orig_header = peltool.parseHeader

    def parse_header(stream):
        _offsets.append(stream.index)
        return orig_header(stream)
    peltool.parseHeader = parse_header
    peltool._verif_orig_pretty = peltool.prettyPrint
    _patched = True
    return peltool


def make_config(plugins=True, every=True, **kw):
    from pel.peltool.config import Config
    c = Config()
    c.allow_plugins = plugins
    c.every_pel = every
    for k, v in kw.items():
        setattr(c, k, v)
    return c


class DecodeTimeout(BaseException):
    """the decoder did not come back within DECODE_LIMIT seconds"""


DECODE_LIMIT = 20.0


def _on_alarm(signum, frame):
    raise DecodeTimeout()


def impl_decode(data, plugins=True, config=None):
    """Run the real parsePEL.  Returns dict(kind=..., eid, doc (OrderedDict), offsets, final_index, exc, stderr).
    kind "hang": the decoder was still running after DECODE_LIMIT seconds (a decode takes milliseconds)."""
    import signal
    old = signal.signal(signal.SIGALRM, _on_alarm)
    signal.setitimer(signal.ITIMER_REAL, DECODE_LIMIT)
    try:
        return _impl_decode(data, plugins, config)
    except DecodeTimeout:
        peltool = _patch()
        peltool.prettyPrint = peltool._verif_orig_pretty
        return dict(kind="hang", exc="DecodeTimeout", msg="no result after %.0f s" % DECODE_LIMIT, offsets=list(_offsets), final_index=-1, stderr="", stdout="")
    finally:
        signal.setitimer(signal.ITIMER_REAL, 0)
        signal.signal(signal.SIGALRM, old)


def _impl_decode(data, plugins=True, config=None):
    peltool = _patch()
    from pel.datastream import DataStream
    cfg = config or make_config(plugins)
    stream = DataStream(bytes(data), byte_order="big", is_signed=False)
    del _offsets[:]
    err, out = io.StringIO(), io.StringIO()
    peltool.prettyPrint = lambda s, desiredSpace=34: s
    try:
        with contextlib.redirect_stderr(err), contextlib.redirect_stdout(out):
            eid, js = peltool.parsePEL(stream, cfg, False)
    except BaseException as e:  # noqa: BLE001 - SystemExit/KeyboardInterrupt classes are recorded too
        if isinstance(e, (KeyboardInterrupt, DecodeTimeout)):
            raise
        return dict(kind="reject", exc=type(e).__name__, msg=str(e)[:200], offsets=list(_offsets), final_index=stream.index,
                    stderr=err.getvalue(), stdout=out.getvalue())
    finally:
        peltool.prettyPrint = peltool._verif_orig_pretty
    e = err.getvalue()
    if js == "":
        if "Failed to parse Private Header" in e:
            kind = "badph"
        elif "Failed to parse User Header" in e:
            kind = "baduh"
        else:
            kind = "filtered"
        return dict(kind=kind, offsets=list(_offsets), final_index=stream.index, stderr=e, stdout=out.getvalue())
    doc = json.loads(js, object_pairs_hook=OrderedDict)
    return dict(kind="ok", eid=eid, doc=doc, text=js, offsets=list(_offsets), final_index=stream.index, stderr=e, stdout=out.getvalue())


def first_diff(a, b, path=""):
    """human-readable first difference between two ordered documents (None if equal, order included)"""
    if isinstance(a, dict) and isinstance(b, dict):
        ka, kb = list(a.keys()), list(b.keys())
        if ka != kb:
            return "%s: keys %r vs %r" % (path or "/", ka[:12], kb[:12])
        for k in ka:
            d = first_diff(a[k], b[k], path + "/" + str(k))
            if d:
                return d
        return None
    if isinstance(a, list) and isinstance(b, list):
        if len(a) != len(b):
            return "%s: list length %d vs %d" % (path, len(a), len(b))
        for i, (x, y) in enumerate(zip(a, b)):
            d = first_diff(x, y, "%s[%d]" % (path, i))
            if d:
                return d
        return None
    if isinstance(a, str) and isinstance(b, str) and a.endswith("Exception=@exc") and b.startswith(a[:-4]):
        return None     # the text of a shipped plugin's exception is not modelled
    if isinstance(a, float) and isinstance(b, float) and repr(a) == repr(b):
        return None     # nan == nan here: the same float is shown
    if type(a) != type(b) or a != b:
        return "%s: %r vs %r" % (path, a if not isinstance(a, (dict, list)) else type(a).__name__,
                                 b if not isinstance(b, (dict, list)) else type(b).__name__)
    return None


SECTION_PROPERTY = {
    "Private Header": "C02", "User Header": "C02", "Extended User Header": "C02", "Failing MTMS": "C02",
    "Impacted Partition": "C02", "Primary SRC": "C03", "Secondary SRC": "C03",
    "User Data": "C04", "Extended User Data": "C04",
}


def section_kind(key):
    base = key.rstrip("0123456789").rstrip(" ") if key[-1:].isdigit() else key
    return base


def property_of_key(key):
    return SECTION_PROPERTY.get(section_kind(key), "C04")


def strip_unsupported(doc):
    """expected documents may carry '@unsupported' where a shipped plugin model is not plugged in"""
    bad = []
    for k, v in doc.items():
        if isinstance(v, dict) and v.get("SRC Details") == "@unsupported":
            bad.append(k)
    return bad
