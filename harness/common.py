"""Shared machinery for the checks: build, model binary, evidence, verdicts."""
import fcntl
import hashlib
import json
import os
import random
import re
import subprocess
import sys
import time

VERIF = os.path.dirname(os.path.dirname(os.path.abspath(__file__)))
ROOT = os.environ.get("VERIF_REPO_ROOT", "/repo")
COQ = os.path.join(VERIF, "coq")
BUILD = os.path.join(VERIF, "build")
OCAML = os.path.join(BUILD, "ocaml")
REPLAYS = os.path.join(BUILD, "replays")
PY = "/venv/bin/python"
NPROC = 16

IMPL_ENV = dict({k: v for k, v in os.environ.items() if k != "PYTHONUNBUFFERED"}, PYTHONPATH=os.path.join(ROOT, "modules"), PYTHONHASHSEED="0",
                PYTHONDONTWRITEBYTECODE="1", PYTHONWARNINGS="ignore")

TRUSTED_BASE = [
    "Coq 8.16.1 kernel (coqc); vm_compute for closed computations; no native_compute",
    "axioms: none (every property theorem prints 'Closed under the global context'; see coverage.axioms)",
    "extraction: ExtrOcamlBasic only (bool, option, unit, list, prod, sumbool -> OCaml natives); N/positive/Z stay inductive; "
    "no Extract Constant / Extract Inductive of our own; OCaml 4.13.1; ocaml/driver.ml (hex words <-> list N)",
    "harness: extract_tables.py (imports /repo modules, dumps constants), scan_source.py, canonicaliser and comparison in harness/*.py",
    "CPython 3.12 semantics of bytes, slicing, int.from_bytes, str methods, %-formatting, re, json, importlib, os",
    "the Gallina model is hand-written; it is tied to /repo by regenerated tables (coq/Gen) with agreement lemmas and by the "
    "behavioural correspondence runs recorded in this evidence (bounded; they validate the model, they are not the proof)",
]


def log(*a):
    print(*a, file=sys.stderr, flush=True)


class BuildError(Exception):
    pass


def sh(cmd, timeout, cwd=None, env=None):
    p = subprocess.run(cmd, cwd=cwd, env=env, stdout=subprocess.PIPE, stderr=subprocess.STDOUT,
                       timeout=timeout, text=True, errors="replace")
    return p.returncode, p.stdout


def gate_sources():
    """Fail closed if the development contains anything that weakens the kernel's guarantees."""
    bad = re.compile(r"\b(Admitted|admit|Axiom|Axioms|Parameter|Parameters|Conjecture|Unset Guard|bypass_check|"
                     r"Admit Obligations|type-in-type|impredicative-set)\b")
    hits = []
    for d, _, fs in os.walk(COQ):
        for f in fs:
            if f.endswith(".v"):
                p = os.path.join(d, f)
                for i, line in enumerate(open(p, errors="replace"), 1):
                    if bad.search(line):
                        hits.append("%s:%d:%s" % (os.path.relpath(p, VERIF), i, line.strip()))
    for line in open(os.path.join(COQ, "_CoqProject")):
        if "type-in-type" in line or "impredicative" in line:
            hits.append("_CoqProject:" + line.strip())
    return hits


class Lock:
    def __enter__(self):
        os.makedirs(BUILD, exist_ok=True)
        self.f = open(os.path.join(BUILD, ".lock"), "w")
        fcntl.flock(self.f, fcntl.LOCK_EX)
        return self

    def __exit__(self, *a):
        fcntl.flock(self.f, fcntl.LOCK_UN)
        self.f.close()


def regenerate():
    os.makedirs(os.path.join(COQ, "Gen"), exist_ok=True)
    rc, out = sh([PY, os.path.join(VERIF, "harness", "extract_tables.py"), os.path.join(COQ, "Gen", "Tables.v")],
                 120, env=IMPL_ENV)
    if rc != 0:
        raise BuildError("extract_tables failed:\n" + out)
    # the io_drawer tables of /repo (history-log fields, PTE tables, trace strings of every drawer type)
    rc, out = sh([PY, os.path.join(VERIF, "harness", "extract_io_tables.py"), os.path.join(COQ, "Gen", "IoTables.v")],
                 300, env=IMPL_ENV)
    if rc != 0:
        raise BuildError("extract_io_tables failed:\n" + out)
    # read sequences and display tables of the fixed-layout sections, extracted from the source text (fail-closed per function)
    rc, out = sh([PY, os.path.join(VERIF, "harness", "extract_layouts.py"), os.path.join(COQ, "Gen", "Layouts.v")], 60, env=IMPL_ENV)
    if rc != 0:
        raise BuildError("extract_layouts failed:\n" + out)
    # the regular expressions the decoders are built on
    rc, out = sh([PY, os.path.join(VERIF, "harness", "extract_regexes.py"), os.path.join(COQ, "Gen", "Regexes.v")], 120, env=IMPL_ENV)
    if rc != 0:
        raise BuildError("extract_regexes failed:\n" + out)
    # the effect skeletons of the --clean paths, extracted from the source text
    rc, out = sh([PY, os.path.join(VERIF, "harness", "extract_clean.py"), os.path.join(COQ, "Gen", "CleanGen.v")], 60, env=IMPL_ENV)
    if rc != 0:
        raise BuildError("extract_clean failed:\n" + out)
    # the walk and dispatch of the optional sections
    rc, out = sh([PY, os.path.join(VERIF, "harness", "extract_sections.py"), os.path.join(COQ, "Gen", "Sections.v")], 60, env=IMPL_ENV)
    if rc != 0:
        raise BuildError("extract_sections failed:\n" + out)
    # the DataStream primitives, as source text
    rc, out = sh([PY, os.path.join(VERIF, "harness", "extract_datastream.py"), os.path.join(COQ, "Gen", "DataStreamGen.v")], 60, env=IMPL_ENV)
    if rc != 0:
        raise BuildError("extract_datastream failed:\n" + out)
    # the I/O-drawer stream readers, translated from the source text into programs of Model/StreamProg.v
    rc, out = sh([PY, os.path.join(VERIF, "harness", "extract_readers.py"), os.path.join(COQ, "Gen", "Readers.v")], 60, env=IMPL_ENV)
    if rc != 0:
        raise BuildError("extract_readers failed:\n" + out)
    # the mode dispatch of main(), extracted from the source text
    rc, out = sh([PY, os.path.join(VERIF, "harness", "extract_dispatch.py"), os.path.join(COQ, "Gen", "Dispatch.v")], 60, env=IMPL_ENV)
    if rc != 0:
        raise BuildError("extract_dispatch failed:\n" + out)
    # the selection code, translated from its source text (fail-closed Python-ast translator)
    rc, out = sh([PY, os.path.join(VERIF, "harness", "translate_select.py"), os.path.join(COQ, "Gen", "SelectGen.v")], 60, env=IMPL_ENV)
    if rc != 0:
        raise BuildError("translate_select failed (the selection code left the translated fragment):\n" + out)


def make_target(target, timeout=1500):
    """Build one .vo (and everything it depends on).  Returns (ok, log)."""
    if not os.path.exists(os.path.join(COQ, "Makefile")) or \
            os.path.getmtime(os.path.join(COQ, "Makefile")) < os.path.getmtime(os.path.join(COQ, "_CoqProject")):
        rc, out = sh(["coq_makefile", "-f", "_CoqProject", "-o", "Makefile"], 60, cwd=COQ)
        if rc != 0:
            raise BuildError("coq_makefile failed:\n" + out)
    rc, out = sh(["timeout", str(timeout), "make", "-j%d" % NPROC, target], timeout + 30, cwd=COQ)
    return rc == 0, out


def build_binary():
    """Extraction + OCaml build; returns path of the model binary."""
    os.makedirs(OCAML, exist_ok=True)
    ok, out = make_target("Extract/Extract.vo")
    if not ok:
        raise BuildError("model does not compile:\n" + out[-3000:])
    ml = os.path.join(OCAML, "pelmodel.ml")
    exe = os.path.join(OCAML, "pelmodel")
    drv_src = os.path.join(VERIF, "ocaml", "driver.ml")
    if (not os.path.exists(exe) or os.path.getmtime(exe) < os.path.getmtime(ml)
            or os.path.getmtime(exe) < os.path.getmtime(drv_src)):
        mli = os.path.join(OCAML, "pelmodel.mli")
        if os.path.exists(mli):
            os.remove(mli)
        with open(drv_src) as f, open(os.path.join(OCAML, "driver.ml"), "w") as g:
            g.write(f.read())
        rc, out = sh(["ocamlfind", "ocamlopt", "-w", "-a", "-package", "str", "pelmodel.ml", "driver.ml", "-o", "pelmodel"],
                     600, cwd=OCAML)
        if rc != 0:
            raise BuildError("ocaml build failed:\n" + out[-3000:])
    return exe


# property theorems kept in a second file of the same property
EXTRA_PROPS = {"C18": ["C18m"]}


def check_props(pid):
    """Compile Props/<pid>.v (and its dependencies).  Returns dict(ok, theorems, axioms, log)."""
    src = os.path.join(COQ, "Props", pid + ".v")
    text = open(src).read()
    theorems = re.findall(r"^\s*(?:Theorem|Lemma|Corollary|Example)\s+(\w+)", text, re.M)
    # every property theorem must be followed by its own Print Assumptions (Examples are non-vacuity checks)
    stated = re.findall(r"^\s*(?:Theorem|Lemma|Corollary)\s+(\w+)", text, re.M)
    printed = re.findall(r"^\s*Print Assumptions\s+(\w+)\s*\.", text, re.M)
    missing_print = [t for t in stated if t not in printed]
    ok, out = make_target("Props/%s.vo" % pid)
    axioms = []
    if ok:
        # re-run the single file to capture Print Assumptions output (make only shows it when it recompiles)
        rc, out2 = sh(["timeout", "600", "coqc", "-Q", ".", "PV", "Props/%s.v" % pid], 700, cwd=COQ)
        ok = rc == 0
        out = out + out2
        closed = out2.count("Closed under the global context")
        # anything printed by Print Assumptions that is not "Closed..." is an axiom listing
        blocks = re.split(r"\n(?=Closed under|Axioms:)", out2)
        for b in blocks:
            if b.startswith("Axioms:"):
                axioms.append(" ".join(b.split()))
        if missing_print:
            ok = False
            out += "\nFile \"./Props/%s.v\", line 0\nError: no Print Assumptions for %s\n\n" % (pid, ", ".join(missing_print))
        if closed < len(stated):
            ok = False
            out += "\nFile \"./Props/%s.v\", line 0\nError: %d theorems but only %d 'Closed under the global context'\n\n" % (pid, len(stated), closed)
        info = dict(ok=ok, theorems=theorems, closed=closed, axioms=axioms, log=out)
    else:
        info = dict(ok=False, theorems=theorems, closed=0, axioms=[], log=out)
    m = re.search(r'File "\./([^"]+)", line (\d+).*?\nError:(.*?)(?:\n\n|\Z)', out, re.S)
    info["error"] = ("%s:%s: %s" % (m.group(1), m.group(2), " ".join(m.group(3).split())[:400])) if m else None
    return info


class Model:
    """Line-oriented access to the extracted model."""

    def __init__(self, exe):
        def big_stack():
            # extracted list functions are not tail-recursive: 64 KB payloads need more than the default 8 MB stack
            import resource
            soft, hard = resource.getrlimit(resource.RLIMIT_STACK)
            try:
                resource.setrlimit(resource.RLIMIT_STACK, (hard, hard))
            except (ValueError, OSError):
                pass
        self.p = subprocess.Popen([exe], stdin=subprocess.PIPE, stdout=subprocess.PIPE, text=True, bufsize=1 << 20,
                                  preexec_fn=big_stack)
        self.calls = 0

    @staticmethod
    def hx(b):
        if isinstance(b, int):
            b = b.to_bytes(max(1, (b.bit_length() + 7) // 8), "big")
        if isinstance(b, str):
            b = b.encode("utf-8", "surrogatepass")
        return b.hex() if len(b) else "-"

    def raw(self, cmd, *args):
        self.p.stdin.write(cmd + " " + " ".join(self.hx(a) for a in args) + "\n")
        self.p.stdin.flush()
        self.calls += 1
        line = self.p.stdout.readline()
        if not line:
            raise RuntimeError("model binary died on %s" % cmd)
        return line.rstrip("\n")

    def call(self, cmd, *args):
        return json.loads(self.raw(cmd, *args), object_pairs_hook=lambda p: ("obj", [list(x) for x in p]))

    def batch(self, requests):
        """requests: list of (cmd, args...) -> list of parsed answers (pipelined)."""
        for r in requests:
            self.p.stdin.write(r[0] + " " + " ".join(self.hx(a) for a in r[1:]) + "\n")
        self.p.stdin.flush()
        out = []
        for _ in requests:
            line = self.p.stdout.readline()
            if not line:
                raise RuntimeError("model binary died")
            out.append(json.loads(line, object_pairs_hook=lambda p: ("obj", [list(x) for x in p])))
        self.calls += len(requests)
        return out

    def close(self):
        try:
            self.p.stdin.close()
            self.p.wait(timeout=10)
        except Exception:
            self.p.kill()


def canon(x):
    """Canonical form of an implementation value: ordered, duplicate-preserving, same shape as Model.call."""
    from collections import OrderedDict
    if isinstance(x, (dict, OrderedDict)):
        return ("obj", [[k, canon(v)] for k, v in x.items()])
    if isinstance(x, (list, tuple)):
        return [canon(v) for v in x]
    if isinstance(x, (bytes, bytearray, memoryview)):
        return list(bytes(x))
    return x


def canon_model(x):
    if isinstance(x, tuple) and x and x[0] == "obj":
        return ("obj", [[k, canon_model(v)] for k, v in x[1]])
    if isinstance(x, list):
        return [canon_model(v) for v in x]
    return x


# ----------------------------------------------------------------------------------------------
# known findings, verdict, evidence


def load_known():
    opens, fixed = [], []
    p = os.path.join(VERIF, "known_findings.txt")
    if os.path.exists(p):
        for line in open(p):
            line = line.strip()
            if not line or line.startswith("#"):
                continue
            m = re.match(r"open: property=(\S+) key=(\S+) (.*)", line)
            if m:
                opens.append(dict(property=m.group(1), key=m.group(2), what=m.group(3)))
            m = re.match(r"fixed: property=(\S+) (\S+) (.*)", line)
            if m:
                fixed.append(dict(property=m.group(1), commit=m.group(2), what=m.group(3)))
    return opens, fixed


def write_replay(pid, name, data):
    os.makedirs(REPLAYS, exist_ok=True)
    blob = json.dumps(data, indent=1, sort_keys=True, default=str)
    h = hashlib.sha1(blob.encode()).hexdigest()[:10]
    path = os.path.join(REPLAYS, "%s_%s_%s.json" % (pid, name, h))
    with open(path, "w") as f:
        f.write(blob)
    return path


class Run:
    """Collects what one check run did."""

    def __init__(self, pid, tier, seed):
        self.pid, self.tier, self.seed = pid, tier, seed
        self.rng = random.Random((seed << 8) ^ int(pid[1:]))
        self.evaluations = 0
        self.nontrivial = set()
        self.samples = []
        self.distribution = {}
        self.violations = []       # dicts: key, what, replay(dict), no_input(bool)
        self.unsupported = 0
        self.disagreements_checked = 0
        self.notes = []
        self.rule = ""
        self.exhaustive = False
        self.extra = {}
        self.t0 = time.time()

    def count(self, k, n=1):
        self.distribution[k] = self.distribution.get(k, 0) + n

    def nontriv(self, obj):
        self.nontrivial.add(hashlib.sha1(repr(obj).encode()).digest()[:8])

    def sample(self, obj, limit=6):
        if len(self.samples) < limit:
            self.samples.append(obj)

    def violation(self, key, what, replay, no_input=False):
        self.violation_counts = getattr(self, "violation_counts", {})
        n = self.violation_counts.get(key, 0)
        self.violation_counts[key] = n + 1
        if n < 2 and len(self.violations) < 200:
            self.violations.append(dict(key=key, what=what, replay=replay, no_input=no_input))


def finish(run, proof):
    """Print KNOWN-FINDING / VIOLATION lines, write evidence, return exit code."""
    opens, _fixed = load_known()
    known_keys = {o["key"]: o for o in opens if o["property"] == run.pid}
    reported, known_hit = [], {}
    for v in run.violations:
        if v["key"] in known_keys and not v["no_input"]:
            known_hit[v["key"]] = known_keys[v["key"]]
        else:
            reported.append(v)
    for k, o in known_hit.items():
        print("KNOWN-FINDING: property=%s %s" % (run.pid, o["what"]))
    seen = set()
    rc = 0
    for v in reported:
        if v["key"] in seen:
            continue
        seen.add(v["key"])
        data = dict(property=run.pid, key=v["key"], what=v["what"], seed=run.seed, tier=run.tier)
        data.update(v["replay"])
        path = write_replay(run.pid, re.sub(r"[^A-Za-z0-9]+", "_", v["key"])[:40], data)
        data["cmd"] = "./check %s --replay %s" % (run.pid, path)
        print("VIOLATION property=%s replay=%s%s" % (run.pid, path, " no-failing-input-found" if v["no_input"] else ""))
        rc = 1
    ev = dict(
        # a run whose proof obligations do not all check is not a proof-level run: what it covered is its exploration
        property_id=run.pid, tier=run.tier, seed=run.seed, level="proof" if proof["ok"] else "exploration",
        coverage=dict(
            **({} if proof["ok"] else dict(explanation="a proof obligation of this property no longer checks against the current tree (see proof_error); "
                                                       "the run reports the violation and records only what its search explored")),
            obligations=len(proof["theorems"]),
            discharged=len(proof["theorems"]) if proof["ok"] else 0,
            theorems=proof["theorems"],
            checker_cmd="make -C coq Props/%s.vo && coqc -Q coq PV coq/Props/%s.v  (Print Assumptions under every theorem)" % (run.pid, run.pid),
            axioms=proof["axioms"] if proof["axioms"] else ["none: %d x 'Closed under the global context'" % proof["closed"]],
            trusted_base=TRUSTED_BASE,
            evaluations=run.evaluations,
            distinct_nontrivial=len(run.nontrivial),
            rule=run.rule,
            samples=run.samples,
            distribution=run.distribution,
            unsupported=run.unsupported,
            disagreements_checked=run.disagreements_checked,
            exhaustive=run.exhaustive,
            known_findings_hit=sorted(known_hit),
            proof_error=proof.get("error"),
            notes=run.notes,
            **run.extra),
        assumptions=TRUSTED_BASE,
        wall_s=round(time.time() - run.t0, 2),
        violations=len(seen),
    )
    os.makedirs(os.path.join(VERIF, "evidence"), exist_ok=True)
    with open(os.path.join(VERIF, "evidence", run.pid + ".json"), "w") as f:
        json.dump(ev, f, indent=1, default=str)
    return rc
