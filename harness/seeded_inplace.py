#!/usr/bin/env python3
"""Run the registered quick check of each seeded change against /repo itself:
   git -C /repo apply seeded/<name>/patch.diff ; ./check <property> --tier quick ; git -C /repo checkout -- .
usage: seeded_inplace.py [name ...]      (default: every directory under /verif/seeded)
Records exit status and VIOLATION lines in seeded/<name>/meta.json under "check_on_repo".  /repo must be clean."""
import json
import os
import subprocess
import sys
import time

VERIF = os.path.dirname(os.path.dirname(os.path.abspath(__file__)))


def sh(cmd, **kw):
    p = subprocess.run(cmd, stdout=subprocess.PIPE, stderr=subprocess.STDOUT, text=True, **kw)
    return p.returncode, p.stdout


def main():
    names = sys.argv[1:] or sorted(os.listdir(os.path.join(VERIF, "seeded")))
    rc, out = sh(["git", "-C", "/repo", "status", "--porcelain"])
    if out.strip():
        sys.exit("seeded_inplace: /repo is not clean:\n" + out)
    head = sh(["git", "-C", "/repo", "rev-parse", "--short", "HEAD"])[1].strip()
    env = dict(os.environ, PYTHONDONTWRITEBYTECODE="1")
    env.pop("PYTHONUNBUFFERED", None)
    env.pop("VERIF_REPO_ROOT", None)
    for n in names:
        d = os.path.join(VERIF, "seeded", n)
        meta = json.load(open(os.path.join(d, "meta.json")))
        pid = meta["property"]
        # the evidence file of the property is rewritten by every run: keep the one of the unchanged tree
        ev_path = os.path.join(VERIF, "evidence", pid + ".json")
        ev_keep = open(ev_path).read() if os.path.exists(ev_path) else None
        rc_a, out_a = sh(["git", "-C", "/repo", "apply", os.path.join(d, "patch.diff")])
        try:
            if rc_a != 0:
                res = dict(repo_head=head, applied=False, detail=out_a[-300:])
            else:
                t0 = time.time()
                rc_c, out_c = sh([os.path.join(VERIF, "check"), pid, "--tier", "quick"], cwd=VERIF, env=env, timeout=3000)
                vl = [l.replace(VERIF + "/", "") for l in out_c.splitlines() if l.startswith("VIOLATION")]
                res = dict(repo_head=head, applied=True, command="./check %s --tier quick" % pid, exit=rc_c, wall_s=round(time.time() - t0, 1),
                           violation_lines=vl[:6], detected=rc_c == 1 and bool(vl),
                           with_failing_input=any("no-failing-input-found" not in v for v in vl))
        finally:
            sh(["git", "-C", "/repo", "checkout", "--", "."])
            sh(["git", "-C", "/repo", "clean", "-fdq"])
            if ev_keep is not None:
                with open(ev_path, "w") as f:
                    f.write(ev_keep)
        meta["check_on_repo"] = res
        json.dump(meta, open(os.path.join(d, "meta.json"), "w"), indent=1)
        print(n, json.dumps(res)[:400], flush=True)
    # leave the generated tables in step with the restored tree
    sh([os.path.join(VERIF, "check"), "C13", "--tier", "quick"], cwd=VERIF, env=env)


main()
