"""Running the real peltool command line: in-process (main() with patched argv, ~1 ms) and as a real subprocess."""
import contextlib
import io
import os
import subprocess
import sys

import common

PELTOOL = "modules/pel/peltool/peltool.py"


def run_inproc(argv):
    """returns (rc, stdout, stderr).  rc is the argument of SystemExit (0, 1 or a message -> 1 with the message on stderr)"""
    from pel.peltool import peltool
    import signal
    out, err = io.StringIO(), io.StringIO()
    old = sys.argv
    sys.argv = ["peltool.py"] + list(argv)
    rc = None

    class MainTimeout(BaseException):
        pass

    def on_alarm(signum, frame):
        raise MainTimeout()
    old_handler = signal.signal(signal.SIGALRM, on_alarm)
    signal.setitimer(signal.ITIMER_REAL, 120.0)
    try:
        with contextlib.redirect_stdout(out), contextlib.redirect_stderr(err):
            try:
                peltool.main()
                rc = 0      # main() fell off the end: no action requested
            except SystemExit as e:
                code = e.code
                if code is None:
                    rc = 0
                elif isinstance(code, int):
                    rc = code
                else:
                    err.write(str(code) + "\n")
                    rc = 1
            except Exception:  # noqa: BLE001 - the interpreter would print a traceback and exit with status 1
                import traceback
                err.write(traceback.format_exc())
                rc = 1
            except MainTimeout:
                err.write("peltool did not terminate within 120 s\n")
                rc = "hang"
    finally:
        signal.setitimer(signal.ITIMER_REAL, 0)
        signal.signal(signal.SIGALRM, old_handler)
        sys.argv = old
    return rc, out.getvalue(), err.getvalue()


def run_subproc(argv, optimize=False, stdout=None, timeout=120):
    cmd = [common.PY] + (["-O"] if optimize else []) + [os.path.join(common.ROOT, PELTOOL)] + list(argv)
    p = subprocess.run(cmd, stdout=stdout if stdout is not None else subprocess.PIPE, stderr=subprocess.PIPE,
                       env=common.IMPL_ENV, timeout=timeout)
    return p.returncode, (p.stdout or b"").decode("utf-8", "replace") if stdout is None else "", p.stderr.decode("utf-8", "replace")


SEL_FLAGS = ["-E", "-t", "-s", "-N", "-H", "-O"]          # bit order of the model's selection byte
GROUP_NAMES = {0: "Informational", 1: "Recovered", 2: "Predictive", 4: "Unrecoverable", 5: "Critical", 6: "Diagnostic", 7: "Symptom"}


def sel_argv(bits, sevs):
    a = [f for i, f in enumerate(SEL_FLAGS) if bits >> i & 1]
    if sevs:
        a += ["-S"] + [GROUP_NAMES[g] for g in sevs]
    return a
