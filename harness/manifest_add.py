#!/usr/bin/env python3
"""manifest_add.py Cxx 'level text' 'level note' 'technique'  -- register a check (idempotent)."""
import json, sys
pid, text, note, tech = sys.argv[1:5]
p = '/verif/MANIFEST.json'
m = json.load(open(p))
m['not_applicable'] = [x for x in m.get('not_applicable', []) if x['property_id'] != pid]
m['checks'] = [c for c in m['checks'] if c['property_id'] != pid]
m['checks'].append({
    "property_id": pid, "quick_cmd": "./check %s --tier quick" % pid, "thorough_cmd": "./check %s --tier thorough" % pid,
    "evidence_file": "/verif/evidence/%s.json" % pid, "replay_cmd_template": "./check %s --replay {path}" % pid,
    "engine": "coq-model+correspondence",
    "level_claimed": {"category": "proof", "text": text, "design_ref": "DESIGN.md section 6 " + pid},
    "level_note": note, "technique": tech})
m['checks'].sort(key=lambda c: c['property_id'])
json.dump(m, open(p, 'w'), indent=1)
