#!/venv/bin/python
"""Extract, from the SOURCE TEXT of peltool.main() (Python ast), the dispatch of the command-line modes, on every run:

    ->  coq/Gen/Dispatch.v
        ok_dispatch    : bool
        mode_order     : list (text * list text)     for every top-level  `if args.<opt>: ... sys.exit(0)`  block of main(), in
                                                      source order: the option tested and the repository functions called in the block
        config_flags   : list (text * text)          for every top-level  `if args.<opt>: config.<attr> = ...`  block (no exit):
                                                      option -> Config attribute (the option-to-Config mapping)

Props/C11.v proves mode_order equal to the published order (Spec/PublishedLayouts.v) and that the model's dispatch
(Model/Cli.v) picks the first mode of that order whose option is present.

Fail-closed.  A mode block must be a top-level `if` of main() whose test is exactly `args.<opt>`, without `else`, and whose last
statement is `sys.exit(0)`; a top-level `if args.<opt>` that is neither such a mode block nor a pure Config-setting block, an
`elif` chain over modes, a mode handled in a loop or a nested function, or a call of one of the known mode functions outside
such a block stops the extraction (stub: ok_dispatch = false)."""
import ast
import os
import sys

ROOT = os.environ.get("VERIF_REPO_ROOT", "/repo")
VERIF = os.path.dirname(os.path.dirname(os.path.abspath(__file__)))

MODE_FUNCTIONS = {"parseAndPrintPELFile", "parseAndWriteOutput", "parsePelFromID", "parsePelFromBmcID", "parsePelFromPLID", "parsePelFromSRCID",
                  "listOption", "printPELCount", "extractAllPELsData", "deletePELFromPELId", "deleteAllPELs"}


class Unsupported(Exception):
    pass


def T(s):
    return "[" + ";".join(str(ord(c)) for c in s) + "]"


def args_attr(e):
    if isinstance(e, ast.Attribute) and isinstance(e.value, ast.Name) and e.value.id == "args":
        return e.attr
    return None


def is_exit0(st):
    return (isinstance(st, ast.Expr) and isinstance(st.value, ast.Call) and isinstance(st.value.func, ast.Attribute)
            and isinstance(st.value.func.value, ast.Name) and st.value.func.value.id == "sys" and st.value.func.attr == "exit"
            and len(st.value.args) == 1 and isinstance(st.value.args[0], ast.Constant) and st.value.args[0].value == 0)


def called(node):
    out = []
    for n in ast.walk(node):
        if isinstance(n, ast.Call):
            f = n.func
            name = f.id if isinstance(f, ast.Name) else (ast.unparse(f) if isinstance(f, ast.Attribute) else None)
            if name in MODE_FUNCTIONS or name == "os.remove":
                out.append(name)
    return out


def extract():
    tree = ast.parse(open(os.path.join(ROOT, "modules/pel/peltool/peltool.py")).read())
    mains = [n for n in tree.body if isinstance(n, ast.FunctionDef) and n.name == "main"]
    if len(mains) != 1:
        raise Unsupported("main() not found exactly once")
    modes, flags = [], []
    for st in mains[0].body:
        if isinstance(st, ast.If) and args_attr(st.test) is not None:
            opt = args_attr(st.test)
            if st.orelse:
                raise Unsupported("`if args.%s` has an else / elif branch (line %d)" % (opt, st.lineno))
            if is_exit0(st.body[-1]):
                if any(is_exit0(x) for b in st.body[:-1] for x in ast.walk(b) if isinstance(x, ast.stmt)):
                    raise Unsupported("more than one sys.exit(0) in the block of args.%s" % opt)
                modes.append((opt, called(st)))
                continue
            # a pure option -> Config block
            sets = []
            for b in st.body:
                ok = (isinstance(b, ast.Assign) and len(b.targets) == 1 and isinstance(b.targets[0], ast.Attribute)
                      and isinstance(b.targets[0].value, ast.Name) and b.targets[0].value.id == "config")
                ok2 = (isinstance(b, ast.Expr) and isinstance(b.value, ast.Call) and ast.unparse(b.value.func).startswith("config."))
                if ok:
                    sets.append(b.targets[0].attr)
                elif ok2:
                    sets.append(ast.unparse(b.value.func).split(".")[1])
                else:
                    raise Unsupported("`if args.%s` (line %d) is neither a mode block ending in sys.exit(0) nor a Config-setting block" % (opt, st.lineno))
            if called(st):
                raise Unsupported("a mode function is called in the Config-setting block of args.%s" % opt)
            for a in sets:
                flags.append((opt, a))
            continue
        # any other top-level statement must not run a mode function
        c = [x for x in called(st) if x != "os.remove"]
        if c:
            raise Unsupported("mode function %s called outside an `if args.<opt>: ...; sys.exit(0)` block (line %d)" % (c[0], st.lineno))
    return modes, flags


def main():
    out = sys.argv[1] if len(sys.argv) > 1 else os.path.join(VERIF, "coq", "Gen", "Dispatch.v")
    head = ["(* GENERATED by harness/extract_dispatch.py from the source text of peltool.main().  Do not edit. *)",
            "From Coq Require Import List NArith.", "Import ListNotations.", "Open Scope N_scope.", ""]
    try:
        modes, flags = extract()
        text = "\n".join(head + [
            "Definition ok_dispatch : bool := true.",
            "Definition mode_order : list ((list N) * list (list N)) :=\n  [%s]." % ";\n   ".join(
                "(%s, [%s])" % (T(o), "; ".join(T(f) for f in fs)) for o, fs in modes),
            "Definition config_flags : list ((list N) * (list N)) :=\n  [%s]." % ";\n   ".join("(%s, %s)" % (T(o), T(a)) for o, a in flags),
            ""])
    except Exception as e:  # noqa: BLE001 (fail-closed: whatever goes wrong gives the stub)
        sys.stderr.write("extract_dispatch: %s\n" % e)
        reason = str(e).replace("*)", "* )").replace("(*", "( *")[:300]
        text = "\n".join(head + ["(* STUB: %s *)" % reason, "Definition ok_dispatch : bool := false.",
                                 "Definition mode_order : list ((list N) * list (list N)) := [].",
                                 "Definition config_flags : list ((list N) * (list N)) := [].", ""])
    if os.path.exists(out) and open(out).read() == text:
        print("extract_dispatch: unchanged", out)
        return
    with open(out, "w") as g:
        g.write(text)
    print("extract_dispatch: wrote", out)


main()
