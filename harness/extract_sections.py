#!/venv/bin/python
"""Extract, from the SOURCE TEXT of peltool.py (Python ast), how the optional sections of a PEL are walked and dispatched, on every run:

    ->  coq/Gen/Sections.v
        ok_sections       : bool
        section_dispatch  : list (list N * text)     the if / elif chain of sectionFun in source order: the section ids a branch
                                                      accepts (constants of Gen.Tables, i.e. the imported SectionID enumeration) and the
                                                      class its generate function constructs and renders
        section_default   : text                     the class of the final else
        section_loop      : list text                the loop of parsePEL over the optional sections: its range and its statements
                                                      (`ast.unparse` normal form)

Props/C01.v proves them equal to the published tables (Spec/PublishedSections.v) and that the model's parse_body is the reader of the
class this table gives, for every section id.

Fail-closed: a branch whose test is not an `or` of `sectionID == SectionID.<name>.value`, whose body is not one call of a generate
function, or a generate function that is not `v = <Class>(stream, ...); out[getSectionName(sectionID)] = v.toJSON(...); return True, v`
stops the extraction (stub: ok_sections = false)."""
import ast
import os
import sys

ROOT = os.environ.get("VERIF_REPO_ROOT", "/repo")
VERIF = os.path.dirname(os.path.dirname(os.path.abspath(__file__)))


class Unsupported(Exception):
    pass


def T(s):
    return "[" + ";".join(str(ord(c)) for c in s) + "]"


def ids_of(test):
    parts = test.values if isinstance(test, ast.BoolOp) and isinstance(test.op, ast.Or) else [test]
    out = []
    for p in parts:
        if not (isinstance(p, ast.Compare) and len(p.ops) == 1 and isinstance(p.ops[0], ast.Eq) and ast.unparse(p.left) == "sectionID"):
            raise Unsupported("dispatch test outside the fragment: %s" % ast.unparse(p))
        r = p.comparators[0]
        if not (isinstance(r, ast.Attribute) and r.attr == "value" and isinstance(r.value, ast.Attribute)
                and isinstance(r.value.value, ast.Name) and r.value.value.id == "SectionID"):
            raise Unsupported("dispatch test outside the fragment: %s" % ast.unparse(p))
        out.append("SectionID_" + r.value.attr)
    return out


def class_of_generate(funcs, name):
    f = funcs.get(name)
    if f is None:
        raise Unsupported("generate function %s not found" % name)
    body = [b for b in f.body if not (isinstance(b, ast.Expr) and isinstance(b.value, ast.Constant))]
    if len(body) != 3:
        raise Unsupported("%s is not construct / render / return" % name)
    a, b, c = body
    if not (isinstance(a, ast.Assign) and len(a.targets) == 1 and isinstance(a.targets[0], ast.Name) and isinstance(a.value, ast.Call)
            and isinstance(a.value.func, ast.Name) and a.value.args and ast.unparse(a.value.args[0]) == "stream"):
        raise Unsupported("%s does not start with v = <Class>(stream, ...)" % name)
    v, cls = a.targets[0].id, a.value.func.id
    if not (isinstance(b, ast.Assign) and ast.unparse(b.targets[0]) == "out[getSectionName(sectionID)]" and isinstance(b.value, ast.Call)
            and ast.unparse(b.value.func) == v + ".toJSON"):
        raise Unsupported("%s does not store v.toJSON(...) under the section name" % name)
    if ast.unparse(c) != "return (True, %s)" % v:
        raise Unsupported("%s does not return (True, v)" % name)
    return cls


def extract():
    tree = ast.parse(open(os.path.join(ROOT, "modules/pel/peltool/peltool.py")).read())
    funcs = {n.name: n for n in tree.body if isinstance(n, ast.FunctionDef)}
    sf = funcs.get("sectionFun")
    if sf is None:
        raise Unsupported("sectionFun not found")
    body = [b for b in sf.body if not (isinstance(b, ast.Expr) and isinstance(b.value, ast.Constant))]
    if len(body) != 1 or not isinstance(body[0], ast.If):
        raise Unsupported("sectionFun is not one if / elif chain")
    rows, cur, default = [], body[0], None
    while True:
        if len(cur.body) != 1 or not (isinstance(cur.body[0], ast.Expr) and isinstance(cur.body[0].value, ast.Call)
                                      and isinstance(cur.body[0].value.func, ast.Name)):
            raise Unsupported("a dispatch branch is not one call")
        rows.append((ids_of(cur.test), class_of_generate(funcs, cur.body[0].value.func.id)))
        if len(cur.orelse) == 1 and isinstance(cur.orelse[0], ast.If):
            cur = cur.orelse[0]
            continue
        if len(cur.orelse) != 1 or not (isinstance(cur.orelse[0], ast.Expr) and isinstance(cur.orelse[0].value, ast.Call)
                                        and isinstance(cur.orelse[0].value.func, ast.Name)):
            raise Unsupported("the final else is not one call")
        default = class_of_generate(funcs, cur.orelse[0].value.func.id)
        break
    pp = funcs.get("parsePEL")
    if pp is None:
        raise Unsupported("parsePEL not found")
    loops = [b for b in pp.body if isinstance(b, (ast.For, ast.While))]
    if len(loops) != 1 or not isinstance(loops[0], ast.For) or loops[0].orelse:
        raise Unsupported("parsePEL does not have exactly one for loop")
    lp = loops[0]
    loop = ["for %s in %s" % (ast.unparse(lp.target), ast.unparse(lp.iter))] + [ast.unparse(b) for b in lp.body]
    return rows, default, loop


def main():
    out = sys.argv[1] if len(sys.argv) > 1 else os.path.join(VERIF, "coq", "Gen", "Sections.v")
    head = ["(* GENERATED by harness/extract_sections.py from the source text of peltool.py.  Do not edit. *)",
            "From Coq Require Import List NArith.", "From PV Require Import Gen.Tables.", "Import ListNotations.", "Open Scope N_scope.", ""]
    try:
        rows, default, loop = extract()
        text = "\n".join(head + [
            "Definition ok_sections : bool := true.",
            "Definition section_dispatch : list (list N * list N) :=\n  [%s]." % ";\n   ".join(
                "([%s], %s)" % ("; ".join(ids), T(cls)) for ids, cls in rows),
            "Definition section_default : list N := %s." % T(default),
            "Definition section_loop : list (list N) :=\n  [%s]." % ";\n   ".join(T(x) for x in loop), ""])
    except Exception as e:  # noqa: BLE001 (fail-closed: whatever goes wrong gives the stub)
        sys.stderr.write("extract_sections: %s\n" % e)
        text = "\n".join(head + ["(* STUB: %s *)" % str(e).replace("*)", "* )").replace("(*", "( *")[:300],
                                 "Definition ok_sections : bool := false.",
                                 "Definition section_dispatch : list (list N * list N) := [].",
                                 "Definition section_default : list N := [].",
                                 "Definition section_loop : list (list N) := [].", ""])
    if os.path.exists(out) and open(out).read() == text:
        print("extract_sections: unchanged", out)
        return
    with open(out, "w") as g:
        g.write(text)
    print("extract_sections: wrote", out)


main()
