#!/venv/bin/python
"""Extract, from the SOURCE TEXT of /repo (Python ast), the read sequence and the display table of the fixed-layout PEL
sections, on every run:

    peltool.parseHeader                      the 8-byte section header
    private_header.getTimestamp              the 8-byte BCD time stamp
    PrivateHeader.toJSON, UserHeader.toJSON, ExtendedUserHeader.toJSON, FailingMTMS.toJSON

    ->  coq/Gen/Layouts.v
        rd_<name> : list (text * text * nat * text)      (attribute or variable, kind, width, wrapper) in read order
                    kind = "int" (get_int) | "mem" (get_mem) | "ts" (getTimestamp) | "var" (width given by an attribute) |
                           "if" / "else" / "endif" (reads under a condition; the attribute column holds the test)
        sh_<name> : list (text * text)                    (display key, expression text) in assignment order

Props/C01.v and Props/C02.v prove that these equal the frozen tables of Spec/PublishedLayouts.v, and Proofs/LayoutFacts.v that
the model's readers (Model/Parse.v) are the generic reader over those tables.  So a change of a width, of the order of two
reads, of the signedness / reading primitive, or of what a key displays breaks a proof obligation.

Fail-closed: every use of the stream must be one of  <stream>.get_int(<const>) , <stream>.get_mem(<const | self.attr>) ,
getTimestamp(<stream>) , directly in an assignment (possibly wrapped: bytes.decode(..), "..".format(..), .hex()), at top level
or under an `if`; reads in loops, other stream attributes or methods (data, index, struct.unpack ...) stop the extraction and a
stub is written that breaks the agreement theorems of C01 / C02 only."""
import ast
import os
import sys

ROOT = os.environ.get("VERIF_REPO_ROOT", "/repo")
VERIF = os.path.dirname(os.path.dirname(os.path.abspath(__file__)))

TARGETS = [
    ("parseHeader", "modules/pel/peltool/peltool.py", None, "parseHeader"),
    ("getTimestamp", "modules/pel/peltool/private_header.py", None, "getTimestamp"),
    ("PrivateHeader", "modules/pel/peltool/private_header.py", "PrivateHeader", "toJSON"),
    ("UserHeader", "modules/pel/peltool/user_header.py", "UserHeader", "toJSON"),
    ("ExtendedUserHeader", "modules/pel/peltool/extend_user_header.py", "ExtendedUserHeader", "toJSON"),
    ("FailingMTMS", "modules/pel/peltool/failing_mtms.py", "FailingMTMS", "toJSON"),
    ("ImpactedPartition", "modules/pel/peltool/imp_partition.py", "ImpactedPartition", "toJSON"),
    ("UserData", "modules/pel/peltool/user_data.py", "UserData", "__init__"),
    ("ExtUserData", "modules/pel/peltool/ext_user_data.py", "ExtUserData", "__init__"),
    ("Default", "modules/pel/peltool/default.py", "Default", "__init__"),
    ("SRC", "modules/pel/peltool/src.py", "SRC", "toJSON"),
    ("FRUIdentity", "modules/pel/peltool/src.py", "FRUIdentity", "__init__"),
    ("PCEIdentity", "modules/pel/peltool/src.py", "PCEIdentity", "__init__"),
]


class Unsupported(Exception):
    pass


def T(s):
    return "[" + ";".join(str(ord(c)) for c in s) + "]"


def is_stream(e):
    return (isinstance(e, ast.Name) and e.id == "stream") or \
           (isinstance(e, ast.Attribute) and e.attr == "stream" and isinstance(e.value, ast.Name) and e.value.id == "self")


def read_call(e):
    """(kind, width, widthattr) if e is one read of the stream, else None"""
    if isinstance(e, ast.Call) and isinstance(e.func, ast.Attribute) and is_stream(e.func.value) and e.func.attr in ("get_int", "get_mem"):
        if len(e.args) != 1 or e.keywords:
            raise Unsupported("unexpected arguments of %s at line %d" % (e.func.attr, e.lineno))
        a = e.args[0]
        kind = "int" if e.func.attr == "get_int" else "mem"
        if isinstance(a, ast.Constant) and isinstance(a.value, int) and not isinstance(a.value, bool) and 0 < a.value <= 65535:
            return (kind, a.value, "")
        if kind == "mem" and not uses_stream(a) and not any(isinstance(n, ast.Call) for n in ast.walk(a)):
            return ("var", 0, resolve_width(a))
        raise Unsupported("width of a read is neither a constant nor a simple expression, line %d" % e.lineno)
    if isinstance(e, ast.Call) and isinstance(e.func, ast.Name) and e.func.id == "getTimestamp":
        if len(e.args) != 1 or not is_stream(e.args[0]) or e.keywords:
            raise Unsupported("unexpected arguments of getTimestamp at line %d" % e.lineno)
        return ("ts", 8, "")
    return None


LOCALS = {}          # name / self.attr -> expression text of its last plain assignment in the function being walked


def resolve_width(a):
    """the width expression with local names replaced by what was assigned to them (sectionLen - 8 for dataLength ...)"""
    class R(ast.NodeTransformer):
        def visit_Name(self, n):
            return ast.parse("(" + LOCALS[n.id] + ")", mode="eval").body if n.id in LOCALS else n

        def visit_Attribute(self, n):
            key = ast.unparse(n)
            return ast.parse("(" + LOCALS[key] + ")", mode="eval").body if key in LOCALS else n
    import copy
    return ast.unparse(R().visit(copy.deepcopy(a)))


def uses_stream(node):
    return any(is_stream(n) for n in ast.walk(node))


def wrapper_text(value, call):
    """the assigned expression with the read replaced by the place holder _"""
    class R(ast.NodeTransformer):
        def visit_Call(self, n):
            if n is call:
                return ast.Name("_", ast.Load())
            return self.generic_visit(n)
    import copy
    # the transformer works on identity: transform a shallow structure by hand
    v = R().visit(value) if value is not call else ast.Name("_", ast.Load())
    return ast.unparse(v)


def reads_of_assign(st):
    """items for one assignment statement"""
    calls = [n for n in ast.walk(st.value) if read_call(n) is not None]
    if not calls:
        if uses_stream(st.value):
            raise Unsupported("the stream is used outside the read primitives at line %d" % st.lineno)
        return []
    if len(calls) != 1:
        raise Unsupported("more than one read in one statement at line %d" % st.lineno)
    if len(st.targets) != 1:
        raise Unsupported("multiple assignment targets at line %d" % st.lineno)
    t = st.targets[0]
    if isinstance(t, ast.Attribute) and isinstance(t.value, ast.Name) and t.value.id == "self":
        name = t.attr
    elif isinstance(t, ast.Name):
        name = t.id
    else:
        raise Unsupported("unexpected assignment target at line %d" % st.lineno)
    kind, width, wattr = read_call(calls[0])
    import copy
    text = wrapper_text(copy.deepcopy(st.value), None) if False else None
    # wrapper: unparse with the read call replaced by "_"
    src = ast.unparse(st.value)
    text = src.replace(ast.unparse(calls[0]), "_")
    if kind == "var":
        text = text + " width=" + wattr
    return [(name, kind, width, text)]


def block(stmts, reads, shows):
    for st in stmts:
        if isinstance(st, ast.Expr) and isinstance(st.value, ast.Constant) and isinstance(st.value.value, str):
            continue
        if isinstance(st, ast.Assign):
            tgt = st.targets[0] if len(st.targets) == 1 else None
            if (isinstance(tgt, ast.Subscript) and isinstance(tgt.value, ast.Name) and tgt.value.id == "out"
                    and isinstance(tgt.slice, ast.Constant) and isinstance(tgt.slice.value, str)):
                if uses_stream(st.value):
                    raise Unsupported("a display expression reads the stream at line %d" % st.lineno)
                shows.append((tgt.slice.value, ast.unparse(st.value)))
                continue
            if isinstance(st.value, ast.Name) and st.value.id == "stream" and ast.unparse(st.targets[0]) == "self.stream":
                continue          # the constructor keeps the stream
            got = reads_of_assign(st)
            reads.extend(got)
            if not got and len(st.targets) == 1 and not any(isinstance(n, ast.Call) for n in ast.walk(st.value)):
                LOCALS[ast.unparse(st.targets[0])] = ast.unparse(st.value)
            continue
        if isinstance(st, ast.For) and uses_stream(st):
            # for _ in range(<count>): <one statement with one read>
            it = st.iter
            if not (isinstance(it, ast.Call) and isinstance(it.func, ast.Name) and it.func.id == "range" and len(it.args) == 1
                    and not uses_stream(it.args[0]) and not st.orelse and len(st.body) == 1):
                raise Unsupported("a loop that reads the stream is outside the fragment at line %d" % st.lineno)
            body = st.body[0]
            calls = [n for n in ast.walk(body) if read_call(n) is not None]
            if len(calls) != 1:
                raise Unsupported("a loop body with other than one read at line %d" % st.lineno)
            kind, width, wattr = read_call(calls[0])
            reads.append((ast.unparse(body).replace(ast.unparse(calls[0]), "_"), "loop:" + kind, width, "count=" + ast.unparse(it.args[0])))
            continue
        if isinstance(st, ast.If):
            inner_then, inner_else = [], []
            sh_before = len(shows)
            block(st.body, inner_then, shows)
            block(st.orelse, inner_else, shows)
            if inner_then or inner_else:
                if len(shows) != sh_before:
                    raise Unsupported("reads and display assignments under one condition at line %d" % st.lineno)
                if uses_stream(st.test):
                    raise Unsupported("a condition reads the stream at line %d" % st.lineno)
                reads.append((ast.unparse(st.test), "if", 0, ""))
                reads.extend(inner_then)
                reads.append(("", "else", 0, ""))
                reads.extend(inner_else)
                reads.append(("", "endif", 0, ""))
            continue
        if isinstance(st, ast.Return):
            if st.value is not None and uses_stream(st.value):
                raise Unsupported("a return expression reads the stream at line %d" % st.lineno)
            continue
        if uses_stream(st):
            raise Unsupported("the stream is used in a statement outside the fragment at line %d: %s" % (st.lineno, type(st).__name__))
        # statements that do not touch the stream (building lists for display, ...) are not part of the layout


TABLES = [
    # (label, file, class, function, dict names): every  <dict>["key"] = <expr>  of the function, in source order, with the conditions it is under
    ("Summary", "modules/pel/peltool/peltool.py", None, "parsePELSummary", ("summary",)),
]


def table_of(f, names):
    out = []

    def walk(stmts, conds):
        for st in stmts:
            if isinstance(st, ast.Assign) and len(st.targets) == 1:
                t = st.targets[0]
                if isinstance(t, ast.Subscript) and isinstance(t.value, ast.Name) and t.value.id in names and isinstance(t.slice, ast.Constant):
                    out.append((str(t.slice.value), (" and ".join(conds) + " => " if conds else "") + ast.unparse(st.value)))
            elif isinstance(st, ast.If):
                walk(st.body, conds + [ast.unparse(st.test)])
                walk(st.orelse, conds + ["not (" + ast.unparse(st.test) + ")"])
            elif isinstance(st, (ast.For, ast.While, ast.With, ast.Try)):
                walk(st.body, conds)
                for h in getattr(st, "handlers", []):
                    walk(h.body, conds + ["except"])
                walk(getattr(st, "orelse", []), conds)
    walk(f.body, [])
    return out


def find(tree, cls, name):
    scope = tree.body
    if cls:
        cs = [n for n in tree.body if isinstance(n, ast.ClassDef) and n.name == cls]
        if len(cs) != 1:
            raise Unsupported("class %s not found exactly once" % cls)
        scope = cs[0].body
    fs = [n for n in scope if isinstance(n, ast.FunctionDef) and n.name == name]
    if len(fs) != 1:
        raise Unsupported("function %s not found exactly once" % name)
    return fs[0]


def main():
    out = sys.argv[1] if len(sys.argv) > 1 else os.path.join(VERIF, "coq", "Gen", "Layouts.v")
    head = ["(* GENERATED by harness/extract_layouts.py from the source text of /repo.  Do not edit. *)",
            "From Coq Require Import List NArith.", "Import ListNotations.", "Open Scope N_scope.", ""]
    defs = []
    for label, path, cls, fn in TARGETS:
        try:
            tree = ast.parse(open(os.path.join(ROOT, path)).read())
            f = find(tree, cls, fn)
            reads, shows = [], []
            LOCALS.clear()
            block(f.body, reads, shows)
            defs.append("Definition ok_%s : bool := true." % label)
            defs.append("Definition rd_%s : list ((list N) * (list N) * nat * (list N)) :=\n  [%s]." % (
                label, ";\n   ".join("(%s, %s, %d%%nat, %s)" % (T(a), T(k), w, T(x)) for a, k, w, x in reads)))
            defs.append("Definition sh_%s : list ((list N) * (list N)) :=\n  [%s]." % (
                label, ";\n   ".join("(%s, %s)" % (T(k), T(e)) for k, e in shows)))
        except Exception as e:  # noqa: BLE001 (fail-closed: whatever goes wrong gives the stub)
            # this function left the fragment: a stub for it alone (the agreement theorem that names it fails)
            sys.stderr.write("extract_layouts: %s: %s\n" % (label, e))
            reason = str(e).replace("*)", "* )").replace("(*", "( *")[:300]
            defs.append("(* STUB: %s could not be extracted: %s *)" % (label, reason))
            defs.append("Definition ok_%s : bool := false." % label)
            defs.append("Definition rd_%s : list ((list N) * (list N) * nat * (list N)) := []." % label)
            defs.append("Definition sh_%s : list ((list N) * (list N)) := []." % label)
    for label, path, cls, fn, names in TABLES:
        try:
            tree = ast.parse(open(os.path.join(ROOT, path)).read())
            tb = table_of(find(tree, cls, fn), names)
            defs.append("Definition ok_%s : bool := true." % label)
            defs.append("Definition sh_%s : list ((list N) * (list N)) :=\n  [%s]." % (label, ";\n   ".join("(%s, %s)" % (T(k), T(e)) for k, e in tb)))
        except Exception as e:  # noqa: BLE001 (fail-closed: whatever goes wrong gives the stub)
            sys.stderr.write("extract_layouts: %s: %s\n" % (label, e))
            defs.append("Definition ok_%s : bool := false." % label)
            defs.append("Definition sh_%s : list ((list N) * (list N)) := []." % label)
    text = "\n".join(head + defs) + "\n"
    if os.path.exists(out) and open(out).read() == text:
        print("extract_layouts: unchanged", out)
        return
    with open(out, "w") as g:
        g.write(text)
    print("extract_layouts: wrote", out)


main()
