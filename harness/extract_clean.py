#!/venv/bin/python
"""Extract, from the SOURCE TEXT of /repo (Python ast), the effect skeleton of the two --clean paths, on every run:

    peltool.parseAndWriteOutput          (--json [--clean])
    peltool.parseAndPrintPELFile         (--file: what is printed, what it returns)
    the `if args.file:` block of main()  (--file [--clean])

    ->  coq/Gen/CleanGen.v :  sk_json, sk_print_file, sk_main_file : Clean.skel   and  ok_clean : bool

The skeleton keeps, in source order and with their nesting, exactly the statements that matter for "the input is removed only
after the output is complete": conditions on the decode result / the clean option / the hex option / the value returned by
parseAndPrintPELFile, `with open(<out>, "w")` blocks, writes, prints, flushes, removals, returns, try / except.  Every call that
can touch a file or a stream must be one of the known forms; any other (os.unlink, Path.write_text, os.open, rename, truncate,
a print to an unknown stream ...) becomes an SUnknown node, which no published skeleton contains.

Props/C12.v proves the extracted skeletons equal to the published ones (Spec/PublishedLayouts.v) and Proofs/CleanFacts.v that the
model's programs (Model/Clean.v json_prog / file_prog) are what those skeletons do along every path."""
import ast
import os
import sys

ROOT = os.environ.get("VERIF_REPO_ROOT", "/repo")
VERIF = os.path.dirname(os.path.dirname(os.path.abspath(__file__)))

EFFECT_ATTRS = {"remove", "unlink", "rename", "replace", "rmtree", "rmdir", "truncate", "write", "writelines", "flush", "close", "write_text",
                "write_bytes", "fdopen", "ftruncate", "removedirs", "move", "copy", "copyfile", "dup2", "print"}


def T(s):
    return "[" + ";".join(str(ord(c)) for c in s) + "]"


def src(n):
    return ast.unparse(n)


def mentions(node, *names):
    text = src(node)
    return any(n in text for n in names)


def call_node(c):
    """skeleton node for one call expression, or None if it cannot touch a file or stream"""
    f = c.func
    text = src(f)
    if text == "os.remove":
        return "SRemove"
    if text == "sys.stdout.flush":
        return "SFlush"
    if text == "print":
        kw = {k.arg: src(k.value) for k in c.keywords}
        if kw.get("file") == "sys.stderr":
            return "SStderr"
        if "file" not in kw:
            return "SPrint"
        return "(SUnknown %s)" % T(src(c)[:60])
    if text == "printPELInHexFormat":
        return "SPrintHex"
    if text in ("output.writelines", "output.write"):
        return "SWrite"
    if text == "parseAndPrintPELFile":
        return "SCallPrintFile"
    if text == "openPELFile":
        return "SOpenIn"
    if text in ("fd.read", "parsePEL", "parsePELSummary", "generatePH", "generateUH", "considerPEL", "DataStream", "os.path.join", "os.path.basename",
                "len", "sys.exit", "getFileList", "OrderedDict", "str", "json.dumps", "prettyPrint", "os.walk", "os.path.splitext",
                "extractAndSummarizePEL", "processId", "os.path.isfile", "os.path.isdir", "open"):
        return None if text != "open" else _open_node(c)
    name = f.attr if isinstance(f, ast.Attribute) else (f.id if isinstance(f, ast.Name) else "")
    if name in EFFECT_ATTRS or text.startswith(("os.", "shutil.", "pathlib.", "sys.stdout", "sys.stderr")):
        return "(SUnknown %s)" % T(src(c)[:60])
    return None


def _open_node(c):
    mode = src(c.args[1]) if len(c.args) > 1 else "'r'"
    if mode in ("'rb'", "'r'"):
        return "SOpenRaw" if mode == "'rb'" else None      # a PEL opened without the helper / the exclusion list opened for reading
    return "(SUnknown %s)" % T(src(c)[:60])


def calls_in(node):
    out = []
    for n in ast.walk(node):
        if isinstance(n, ast.Call):
            k = call_node(n)
            if k:
                out.append(k)
    return out


def block(stmts):
    out = []
    for st in stmts:
        if isinstance(st, ast.Expr) and isinstance(st.value, ast.Constant):
            continue
        if isinstance(st, ast.With):
            item = st.items[0]
            ce = item.context_expr
            if len(st.items) == 1 and isinstance(ce, ast.Call) and src(ce.func) == "open" and len(ce.args) == 2 and src(ce.args[1]) == "'w'" \
                    and src(item.optional_vars) == "output":
                out.append("(SWithOut %s)" % seq(block(st.body)))
            elif len(st.items) == 1 and src(ce) == "fd":
                out.extend(block(st.body))            # the input file, already open for reading: transparent
            elif len(st.items) == 1 and isinstance(ce, ast.Call) and src(ce.func) == "open" and len(ce.args) == 2 and src(ce.args[1]) in ("'rb'", "'r'"):
                if src(ce.args[1]) == "'rb'":
                    out.append("SOpenRaw")            # a PEL opened for reading without the helper
                out.extend(block(st.body))
            else:
                out.append("(SUnknown %s)" % T(src(st.items[0].context_expr)[:60]))
                out.extend(block(st.body))
            continue
        if isinstance(st, ast.If):
            t = st.test
            then, els = seq(block(st.body)), seq(block(st.orelse))
            pre = calls_in(t)
            out.extend(pre)
            if mentions(t, "fd is None"):
                if then != "(SSeq [])" or els != "(SSeq [])":
                    out.append("(SIfOther %s %s %s)" % (T(src(t)), then, els))
            elif mentions(t, "json_string"):
                out.append("(SIfDecoded %s %s)" % (then, els))
            elif mentions(t, "printed") and mentions(t, "clean"):
                out.append("(SIfCleanAndPrinted %s %s)" % (then, els))
            elif mentions(t, "delete_after_parsing", "clean"):
                out.append("(SIfClean %s %s)" % (then, els))
            elif src(t) == "not config.hex":
                out.append("(SIfHex %s %s)" % (els, then))
            elif src(t) == "config.hex":
                out.append("(SIfHex %s %s)" % (then, els))
            else:
                if then != "(SSeq [])" or els != "(SSeq [])":
                    out.append("(SIfOther %s %s %s)" % (T(src(t)), then, els))
            continue
        if isinstance(st, ast.Try):
            if st.finalbody or st.orelse or len(st.handlers) != 1:
                out.append("(SUnknown %s)" % T("try with finally/else"))
            h = st.handlers[0]
            out.append("(STry %s %s %s)" % (T(src(h.type) if h.type else ""), seq(block(st.body)), seq(block(h.body))))
            continue
        if isinstance(st, ast.Return):
            out.extend(calls_in(st))
            v = src(st.value) if st.value is not None else "None"
            out.append("(SReturn %s)" % {"True": "true", "False": "false"}.get(v, "false") if v in ("True", "False", "None") else "(SReturnV %s)" % T(v[:60]))
            continue
        if isinstance(st, (ast.For, ast.While)):
            inner = block(st.body)
            if inner:
                out.append("(SLoop %s)" % seq(inner))
            continue
        if isinstance(st, ast.Continue):
            out.append("SContinue")
            continue
        if isinstance(st, ast.Break):
            out.append("SBreak")
            continue
        out.extend(calls_in(st))
    return out


def seq(items):
    return "(SSeq [%s])" % "; ".join(items)


def find_fn(tree, name):
    fs = [n for n in tree.body if isinstance(n, ast.FunctionDef) and n.name == name]
    if len(fs) != 1:
        raise ValueError("function %s not found exactly once" % name)
    return fs[0]


def main():
    out = sys.argv[1] if len(sys.argv) > 1 else os.path.join(VERIF, "coq", "Gen", "CleanGen.v")
    head = ["(* GENERATED by harness/extract_clean.py from the source text of peltool.py.  Do not edit. *)",
            "From Coq Require Import List NArith Bool.", "From PV Require Import Base.Bytes Model.Clean.", "Import ListNotations.", "Open Scope N_scope.", ""]
    try:
        tree = ast.parse(open(os.path.join(ROOT, "modules/pel/peltool/peltool.py")).read())
        js = seq(block(find_fn(tree, "parseAndWriteOutput").body))
        pf = seq(block(find_fn(tree, "parseAndPrintPELFile").body))
        m = find_fn(tree, "main")
        blocks = [st for st in m.body if isinstance(st, ast.If) and src(st.test) == "args.file"]
        if len(blocks) != 1:
            raise ValueError("`if args.file:` not found exactly once at the top level of main()")
        mf = seq(block(blocks[0].body))
        dirs = []
        for fn in ("openPELFile", "extractAllPELsData", "printPELCount", "extractAndSummarizePEL", "parsePelFromPLID", "parsePelFromSRCID", "parsePelFromBmcID",
                   "deleteAllPELs", "deletePELFromPELId", "parsePelFromID"):
            dirs.append("Definition sk_%s : skel :=\n  %s." % (fn, seq(block(find_fn(tree, fn).body))))
        text = "\n".join(head + ["Definition ok_clean : bool := true.",
                                 "Definition sk_json : skel :=\n  %s." % js,
                                 "Definition sk_print_file : skel :=\n  %s." % pf,
                                 "Definition sk_main_file : skel :=\n  %s." % mf] + dirs + [""])
    except Exception as e:  # noqa: BLE001 (fail-closed: whatever goes wrong gives the stub)
        sys.stderr.write("extract_clean: %s\n" % e)
        reason = str(e).replace("*)", "* )").replace("(*", "( *")[:300]
        text = "\n".join(head + ["(* STUB: %s *)" % reason, "Definition ok_clean : bool := false.",
                                 "Definition sk_json : skel := SSeq [].", "Definition sk_print_file : skel := SSeq [].",
                                 "Definition sk_main_file : skel := SSeq []."] +
                         ["Definition sk_%s : skel := SSeq []." % fn for fn in ("openPELFile", "extractAllPELsData", "printPELCount", "extractAndSummarizePEL",
                                                                                  "parsePelFromPLID", "parsePelFromSRCID", "parsePelFromBmcID",
                                                                                  "deleteAllPELs", "deletePELFromPELId", "parsePelFromID")] + [""])
    if os.path.exists(out) and open(out).read() == text:
        print("extract_clean: unchanged", out)
        return
    with open(out, "w") as g:
        g.write(text)
    print("extract_clean: wrote", out)


main()
