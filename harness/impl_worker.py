"""Long-lived implementation worker: one JSON request per line on stdin, one JSON answer per line.
Run as  python [-O] impl_worker.py <repo_root>  so that interpreter switches (assertions off) are exercised at volume."""
import contextlib
import io
import json
import os
import sys

root = sys.argv[1]
sys.path.insert(0, os.path.join(root, "modules"))
sys.dont_write_bytecode = True
import warnings  # noqa: E402
warnings.simplefilter("ignore")


def decode(data, plugins):
    from pel.peltool import peltool
    from pel.peltool.config import Config
    from pel.datastream import DataStream
    cfg = Config()
    cfg.allow_plugins = plugins
    cfg.every_pel = True
    err, out = io.StringIO(), io.StringIO()
    try:
        with contextlib.redirect_stderr(err), contextlib.redirect_stdout(out):
            eid, js = peltool.parsePEL(DataStream(data, byte_order="big", is_signed=False), cfg, False)
    except BaseException as e:  # noqa: BLE001
        if isinstance(e, KeyboardInterrupt):
            raise
        return dict(kind="reject", exc=type(e).__name__)
    if js == "":
        e = err.getvalue()
        return dict(kind="badph" if "Private Header" in e else "baduh" if "User Header" in e else "filtered")
    return dict(kind="ok", eid=eid, sha=__import__("hashlib").sha1(js.encode()).hexdigest(), text=js)


def main():
    for line in sys.stdin:
        req = json.loads(line)
        if req["op"] == "decode":
            ans = decode(bytes.fromhex(req["hex"]), req.get("plugins", True))
        elif req["op"] == "decode_plain":
            from pel.peltool import peltool
            peltool.prettyPrint = lambda s, desiredSpace=34: s
            ans = decode(bytes.fromhex(req["hex"]), req.get("plugins", True))
        elif req["op"] == "decode_fx":
            sys.path.insert(0, os.path.dirname(os.path.abspath(__file__)))
            import fixtures as fxm
            from pel.peltool import peltool
            peltool.prettyPrint = lambda s, desiredSpace=34: s
            with fxm.Fixtures([tuple(f) for f in req["fixtures"]]):
                ans = decode(bytes.fromhex(req["hex"]), req.get("plugins", True))
        elif req["op"] == "flags":
            ans = dict(optimize=sys.flags.optimize, debug=__debug__)
        else:
            ans = dict(error="unknown op")
        sys.stdout.write(json.dumps(ans) + "\n")
        sys.stdout.flush()


main()
