(* Driver for the extracted model: reads "cmd hexarg hexarg ..." lines, prints one answer line.
   "-" stands for an empty argument.  All interpretation happens in the extracted Gallina [pelmodel_entry]. *)
open Pelmodel

let rec pos_of_int n = if n = 1 then XH else if n land 1 = 1 then XI (pos_of_int (n lsr 1)) else XO (pos_of_int (n lsr 1))
let n_of_int n = if n = 0 then N0 else Npos (pos_of_int n)
let rec int_of_pos = function XH -> 1 | XO p -> 2 * int_of_pos p | XI p -> 2 * int_of_pos p + 1
let int_of_n = function N0 -> 0 | Npos p -> int_of_pos p

let hexval c = match c with
  | '0'..'9' -> Char.code c - 48 | 'a'..'f' -> Char.code c - 87 | 'A'..'F' -> Char.code c - 55
  | _ -> failwith "bad hex"

let bytes_of_hex s =
  if s = "-" then [] else begin
    let n = String.length s / 2 in
    let rec go i acc = if i < 0 then acc else go (i - 1) (n_of_int (hexval s.[2*i] * 16 + hexval s.[2*i+1]) :: acc) in
    go (n - 1) [] end

let text_of_string s =
  let rec go i acc = if i < 0 then acc else go (i - 1) (n_of_int (Char.code s.[i]) :: acc) in
  go (String.length s - 1) []

let () =
  let buf = Buffer.create 65536 in
  try while true do
    let line = input_line stdin in
    (match String.split_on_char ' ' line with
     | [] | [""] -> print_newline ()
     | cmd :: args ->
        let out = pelmodel_entry (text_of_string cmd) (List.map bytes_of_hex (List.filter (fun w -> w <> "") args)) in
        Buffer.clear buf;
        List.iter (fun n -> Buffer.add_char buf (Char.chr (int_of_n n land 255))) out;
        print_string (Buffer.contents buf); print_newline ());
    flush stdout
  done with End_of_file -> ()
