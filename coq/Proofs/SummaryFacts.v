From Coq Require Import List NArith ZArith Bool Arith Lia.
From PV Require Import Base.Bytes Base.Lit Base.Json Base.Utf8 Base.Reader Base.PelTypes
                       Model.Parse Model.Render Model.Pel Model.Select Model.Cli Model.CliPel Spec.Encode Gen.Tables
                       Proofs.BytesFacts Proofs.ReaderFacts Proofs.ParseFacts Proofs.SrcFacts Proofs.PelFacts
                       Proofs.ExactFacts Proofs.ExactParse Proofs.CliFacts.
Import ListNotations.
Open Scope N_scope.

Definition renderable (e : env) (c : config) (p : pel_t) : Prop :=
  forall s, In s (p_secs p) -> render_section e c [ph_creator (p_ph p)] s <> None.

Lemma creator_decodes p n : wf_ph p n -> utf8_decode [ph_creator p] = Some [ph_creator p].
Proof.
  intros (_ & _ & _ & _ & Hcr & _). cbn [utf8_decode].
  assert ((ph_creator p <? 128) = true) as -> by (apply N.ltb_lt; exact Hcr). reflexivity.
Qed.

Lemma decode_headers_wf e p t : wf_pel p ->
  exists phj, render_ph e (p_ph p) = Some ([ph_creator (p_ph p)], phj) /\
  decode_headers e (encode p ++ t) =
    HOk (p_ph p) [ph_creator (p_ph p)] phj (p_uh p) (render_uh e [ph_creator (p_ph p)] (p_uh p)) (flat_map enc_section (p_secs p) ++ t).
Proof.
  intros (Wph & Wuh & Ws).
  pose proof Wph as (Hh & Hl & _). pose proof Wuh as (Hh2 & Hl2 & _).
  pose proof (creator_decodes _ _ Wph) as Hdec.
  unfold render_ph. rewrite Hdec. eexists. split; [reflexivity|].
  unfold decode_headers, encode, enc_ph, enc_uh. rewrite <- !app_assoc.
  rewrite parse_header_enc by (assumption || reflexivity).
  destruct ids_agree as (-> & -> & _). change (negb (ID_PH =? ID_PH)) with false. cbv iota.
  rewrite parse_ph_body_enc with (n := length (p_secs p)) by assumption.
  unfold render_ph. rewrite Hdec.
  rewrite parse_header_enc by (assumption || reflexivity).
  change (negb (ID_UH =? ID_UH)) with false. cbv iota.
  rewrite parse_uh_body_enc by assumption. reflexivity.
Qed.

(* the reference code is always among the displayed SRC fields *)
Lemma error_details_form e ws a ed : error_details e ws a = Some ed -> ed = [] \/ exists j, ed = [(L "Error Details", j)].
Proof.
  unfold error_details. destruct (reg_find _ _ _) as [p|]; [|intros H; inversion H; left; reflexivity].
  destruct (build_message ws p) as [[|c m]|]; try discriminate; [intros H; inversion H; left; reflexivity|].
  destruct (hexword_descs ws (r_words p) []) as [ds|]; [|discriminate]. intros H. inversion H. right. eexists. reflexivity.
Qed.

Lemma render_src_has_refcode e c h cr s o : render_src e c h cr s = Some o ->
  exists r, obj_get o (L "Reference Code") = Some (JStr r).
Proof.
  unfold render_src. destruct (utf8_decode (s_ascii s)) as [ascii|]; [|discriminate]. cbv zeta.
  destruct (if text_eqb (firstn 2 ascii) SRCType_bmcError || text_eqb (firstn 2 ascii) SRCType_powerError || text_eqb (firstn 2 ascii) SRCType_hostbootError
            then error_details e (s_words s) ascii else Some []) as [ed|] eqn:Eed; [|discriminate].
  assert (Hed: ed = [] \/ exists j, ed = [(L "Error Details", j)]).
  { destruct (_ || _ || _); [eapply error_details_form; exact Eed|inversion Eed; left; reflexivity]. }
  set (co := match s_callouts s with None => Some [] | Some cs => _ end).
  destruct co as [col|]; [|discriminate].
  assert (G: forall tail, exists r, obj_get
     ((base_fields e h cr (L "Created by") ++
       [(L "SRC Version", js (L "0x" ++ hex2L (s_version s)));
        (L "SRC Format", js (x0 2 (N.land (nth 0 (s_words s) 0) 255)));
        (L "Virtual Progress SRC", tf (has (s_flags s) HeaderFlags_virtualProgressSRC));
        (L "I5/OS Service Event Bit", tf (has (s_flags s) HeaderFlags_i5OSServiceEventBit));
        (L "Hypervisor Dump Initiated", tf (has (s_flags s) HeaderFlags_hypDumpInit))] ++
       (if text_eqb (firstn 2 ascii) SRCType_bmcError || text_eqb (firstn 2 ascii) SRCType_powerError
        then [(L "Backplane CCIN", js (hexU 4 (N.shiftr (nth 1 (s_words s) 0) 16)));
              (L "Terminate FW Error", tf (has (nth 3 (s_words s) 0) ErrorStatusFlags_terminateFwErr))] else []) ++
       (if text_eqb (firstn 2 ascii) SRCType_bmcError || text_eqb (firstn 2 ascii) SRCType_powerError || text_eqb (firstn 2 ascii) SRCType_hostbootError
        then [(L "Deconfigured", tf (has (nth 3 (s_words s) 0) ErrorStatusFlags_deconfigured));
              (L "Guarded", tf (has (nth 3 (s_words s) 0) ErrorStatusFlags_guarded))] else []) ++
       ed ++
       [(L "Valid Word Count", js (x0 2 (s_wcount s))); (L "Reference Code", js (strip_ws ascii))] ++
       numbered_words 2 (src_hexwords s)) ++ tail) (L "Reference Code") = Some (JStr r)).
  { intros tail. exists (strip_ws ascii). unfold base_fields.
    destruct Hed as [->|(j & ->)];
    destruct (text_eqb (firstn 2 ascii) SRCType_bmcError || text_eqb (firstn 2 ascii) SRCType_powerError);
    destruct (_ || text_eqb (firstn 2 ascii) SRCType_hostbootError); vm_compute obj_get; reflexivity. }
  destruct (allow_plugins c).
  - destruct (src_details e cr ascii (src_hexwords s)) as [dl|]; [|discriminate].
    intros H. inversion H; subst. apply (G (col ++ dl)).
  - intros H. inversion H; subst. apply (G col).
Qed.

Lemma render_section_refcode e c cr s n o : wf_section s -> sec_id s = ID_PS -> render_section e c cr s = Some (n, o) ->
  exists r, obj_get o (L "Reference Code") = Some (JStr r).
Proof.
  intros (_ & _ & _ & _ & _ & _ & Hb) Hid H. unfold render_section in H.
  destruct (sec_body s) as [x|x|x|x|d|c0 r1 r2 d|d] eqn:Eb.
  - destruct (render_src e c (sec_hdr s) cr x) as [o'|] eqn:Er; [|discriminate]. cbn [option_map] in H. inversion H; subst.
    eapply render_src_has_refcode. exact Er.
  - destruct Hb as [Hx _]. rewrite Hid in Hx. discriminate.
  - destruct Hb as [Hx _]. rewrite Hid in Hx. discriminate.
  - destruct Hb as [Hx _]. rewrite Hid in Hx. discriminate.
  - destruct Hb as [Hx _]. rewrite Hid in Hx. discriminate.
  - destruct Hb as [Hx _]. rewrite Hid in Hx. discriminate.
  - destruct Hb as [Hx _]. exfalso. apply Hx. rewrite Hid. left. reflexivity.
Qed.

(* the summary walk succeeds on every run of well-formed, displayable sections *)
Lemma summary_src_wf e c cr : forall secs rest, Forall wf_section secs ->
  (forall s, In s secs -> render_section e c cr s <> None) ->
  exists r, summary_src e c cr (length secs) (flat_map enc_section secs ++ rest) = Some (Some r).
Proof.
  induction secs as [|s t IH]; intros rest W Hr; [exists None; reflexivity|].
  inversion W as [|? ? Ws Wt]; subst. cbn [length summary_src flat_map].
  rewrite <- app_assoc, parse_section_exact by assumption.
  destruct (render_section e c cr s) as [[n o]|] eqn:Er; [|exfalso; apply (Hr s); [left; reflexivity|assumption]].
  destruct ids_agree as (_ & _ & -> & _).
  destruct (sec_id s =? ID_PS) eqn:E.
  - apply N.eqb_eq in E. destruct (render_section_refcode e c cr s n o Ws E Er) as (r & ->). exists (Some r). reflexivity.
  - apply IH; [assumption|]. intros s' Hs'. apply Hr. right. exact Hs'.
Qed.

(* for a well-formed, displayable PEL the three partial decoders accept it exactly when the selection options do *)
Theorem wf_decoders_agree e c s p t : wf_pel p -> renderable e c p ->
  let d := decoders_of e c s in
  is_got (d_count d (encode p ++ t)) = consider s (p_uh p) /\
  is_got (d_summary d (encode p ++ t)) = consider s (p_uh p) /\
  is_got (d_full d (encode p ++ t)) = consider s (p_uh p).
Proof.
  intros W R. cbn zeta. unfold decoders_of. cbn [d_count d_summary d_full].
  destruct (decode_headers_wf e p t W) as (phj & Hph & Hh).
  pose proof W as (Wph & Wuh & Ws). pose proof Wph as (_ & _ & _ & _ & _ & _ & _ & Hcnt & _).
  split; [|split].
  - unfold decode_count. rewrite Hh. destruct (consider s (p_uh p)); reflexivity.
  - unfold decode_summary. rewrite Hh. destruct (consider s (p_uh p)); cbn [negb]; [|reflexivity].
    replace (N.to_nat (ph_count (p_ph p)) - 2)%nat with (length (p_secs p)) by (rewrite Hcnt; lia).
    destruct (summary_src_wf e c [ph_creator (p_ph p)] (p_secs p) t Ws R) as (r & ->). reflexivity.
  - unfold decode_full. destruct (consider s (p_uh p)) eqn:Ec.
    + destruct (decode_wf e c (consider s) p t W Ec) as (cr & phj' & secs & _ & _ & ->); [|reflexivity].
      intros cr Hcr s0 Hs0. rewrite (creator_decodes _ _ Wph) in Hcr. inversion Hcr; subst. apply R. exact Hs0.
    + unfold decode. unfold decode_headers in Hh.
      destruct (parse_header (encode p ++ t)) as [[[[id len] h] rest]|]; [|discriminate].
      destruct (negb (id =? SectionID_privateHeader)); [discriminate|].
      destruct (parse_ph_body len h rest) as [[ph rest2]|]; [|discriminate].
      destruct (render_ph e ph) as [[cr phj2]|]; [|discriminate].
      destruct (parse_header rest2) as [[[[id2 len2] h2] rest3]|]; [|discriminate].
      destruct (negb (id2 =? SectionID_userHeader)); [discriminate|].
      destruct (parse_uh_body len2 h2 rest3) as [[uh rest4]|]; [|discriminate].
      inversion Hh; subst. rewrite Ec. reflexivity.
Qed.

(* C08: in a directory of well-formed PELs the three modes select the same files *)
Theorem wf_directory_agrees e c s content names :
  (forall n, In n names -> exists p t, wf_pel p /\ renderable e c p /\ content n = encode p ++ t) ->
  agree (decoders_of e c s) content names.
Proof.
  intros H n Hn. destruct (H n Hn) as (p & t & W & R & ->).
  destruct (wf_decoders_agree e c s p t W R) as (H1 & H2 & H3). rewrite H1, H2, H3. split; reflexivity.
Qed.

(* C08: a --list entry takes its fields from the same decoded headers as the full document *)
Theorem summary_fields_source e c cs data eid sm :
  decode_summary e c cs data = PGot (eid, sm) ->
  exists ph cr phj uh uhj rest src,
    decode_headers e data = HOk ph cr phj uh uhj rest /\
    eid = L "0x" ++ hexU 8 (ph_eid ph) /\
    sm = JObj ((match src with Some r => [(L "SRC", JStr r)] | None => [] end) ++
               [(L "PLID", jfield phj (L "Platform Log Id")); (L "CreatorID", jfield phj (L "Creator Subsystem"));
                (L "Subsystem", jfield uhj (L "Subsystem")); (L "Commit Time", jfield phj (L "Committed at"));
                (L "Sev", jfield uhj (L "Event Severity")); (L "CompID", jfield phj (L "Created by"))]) /\
    summary_src e c cr (N.to_nat (ph_count ph) - 2) rest = Some (Some src).
Proof.
  unfold decode_summary. destruct (decode_headers e data) as [| | |ph cr phj uh uhj rest] eqn:Eh; try discriminate.
  destruct (negb (cs uh)); [discriminate|].
  destruct (summary_src e c cr (N.to_nat (ph_count ph) - 2) rest) as [[src|]|] eqn:Es; try discriminate.
  intros H. inversion H; subst. eexists _, _, _, _, _, _, _. repeat split; try reflexivity; eassumption.
Qed.

Theorem full_fields_source e c cs data eid doc :
  decode_full e c cs data = PGot (eid, JObj doc) ->
  exists ph cr phj uh uhj rest secs,
    decode_headers e data = HOk ph cr phj uh uhj rest /\ eid = hexU 8 (ph_eid ph) /\
    decode_sections e c cr (N.to_nat (ph_count ph) - 2) rest = Some (Some secs) /\
    doc = build_output [(section_name SectionID_privateHeader, JObj phj); (section_name SectionID_userHeader, JObj uhj)] secs.
Proof.
  unfold decode_full, decode, decode_headers.
  destruct (parse_header data) as [[[[id len] h] rest]|]; [|discriminate].
  destruct (negb (id =? SectionID_privateHeader)) eqn:E1; [discriminate|].
  destruct (parse_ph_body len h rest) as [[ph rest2]|]; [|discriminate].
  destruct (render_ph e ph) as [[cr phj2]|]; [|discriminate].
  destruct (parse_header rest2) as [[[[id2 len2] h2] rest3]|]; [|discriminate].
  destruct (negb (id2 =? SectionID_userHeader)) eqn:E2; [discriminate|].
  destruct (parse_uh_body len2 h2 rest3) as [[uh rest4]|]; [|discriminate].
  destruct (negb (cs uh)); [discriminate|].
  destruct (decode_sections e c cr (N.to_nat (ph_count ph) - 2) rest4) as [[secs|]|] eqn:Es; try discriminate.
  intros H. inversion H; subst.
  apply negb_false_iff, N.eqb_eq in E1, E2. subst.
  eexists _, _, _, _, _, _, _. repeat split; try reflexivity. exact Es.
Qed.

(* ... and the SRC it shows is the reference code of the first Primary SRC section the full decode displays *)
Theorem summary_src_in_sections e c cr : forall n data r secs,
  summary_src e c cr n data = Some (Some (Some r)) -> decode_sections e c cr n data = Some (Some secs) ->
  exists pre o post, secs = pre ++ (section_name SectionID_primarySRC, o) :: post /\
    obj_get o (L "Reference Code") = Some (JStr r) /\ (length pre < n)%nat.
Proof.
  induction n as [|n IH]; intros data r secs Hs Hd; cbn [summary_src decode_sections] in *; [discriminate|].
  destruct (parse_section data) as [[[s|] rest]|]; try discriminate.
  destruct (render_section e c cr s) as [[nm o]|] eqn:Er; [|discriminate].
  destruct (decode_sections e c cr n rest) as [[t|]|] eqn:Et; try discriminate. inversion Hd; subst.
  destruct (sec_id s =? SectionID_primarySRC) eqn:E.
  - destruct (obj_get o (L "Reference Code")) as [[| | | |rr| |]|] eqn:Eo; try discriminate. inversion Hs; subst.
    apply N.eqb_eq in E. exists [], o, t. split; [|split; [exact Eo|simpl; lia]].
    cbn [app]. f_equal. f_equal. unfold render_section in Er.
    destruct (match sec_body s with BSrc x => _ | _ => _ end); [|discriminate]. cbn [option_map] in Er. inversion Er. rewrite E. reflexivity.
  - destruct (IH rest r t Hs Et) as (pre & o' & post & -> & Ho & Hl).
    exists ((nm, o) :: pre), o', post. split; [reflexivity|]. split; [exact Ho|simpl; lia].
Qed.
