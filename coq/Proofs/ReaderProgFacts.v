(* Running the programs translated from the source text of io_drawer/trace.py (Gen/Readers.v, regenerated every run) is the
   model's header_read / entry_read, for every byte string. *)
From Coq Require Import List NArith ZArith Bool Lia ZifyBool.
From PV Require Import Base.Bytes Base.Lit Model.StreamProg Model.Trace Gen.Readers.
Import ListNotations.
Ltac Zify.zify_post_hook ::= Z.to_euclidean_division_equations.

Lemma has_same n d : Trace.has n d = StreamProg.has n d.
Proof. revert d; induction n as [|n IH]; intros [|b d]; cbn; auto. Qed.

Lemma has_add n p d : StreamProg.has (n + p) d = StreamProg.has n d && StreamProg.has p (skipn n d).
Proof. revert d; induction n as [|n IH]; intros d; cbn; [reflexivity|]. destruct d as [|b d]; cbn; [reflexivity|apply IH]. Qed.

Lemma skipn_add {A} n p (d : list A) : skipn (n + p) d = skipn p (skipn n d).
Proof. revert d; induction n as [|n IH]; intros d; cbn; [reflexivity|]. destruct d as [|b d]; cbn; [now rewrite skipn_nil|apply IH]. Qed.

Definition header_of (s : sst) : header :=
  mkHeader (int_of s (L "self.ver")) (int_of s (L "self.hdr_len")) (int_of s (L "self.time_flg")) (int_of s (L "self.endian_flg"))
           (mem_of s (L "self.comp")) (int_of s (L "self.size")) (int_of s (L "self.times_wrap")) (int_of s (L "self.next_free")).

Definition header_agrees (d : bytes) : Prop :=
  match run prog_trace_header (init d) with
  | RRet true s => header_read d = Some (header_of s, s_rest s) /\ s_idx s = 32%Z
  | RRet false _ => header_read d = None
  | _ => False
  end.

Ltac take_byte d H := destruct d as [|?b d]; [cbn in H; discriminate H|cbn [StreamProg.has] in H].

(* the leading  `if not stream.check_range(k): return False`  *)
Lemma run_guard_false k rest s : (0 < k)%Z -> StreamProg.has (Z.to_nat k) (s_rest s) = false ->
  run (TSeq (TIf (CNoRange (XC k)) (TRet false) TNop) rest) s = RRet false s.
Proof. intros Hk H. cbn [run evc ev]. apply Z.ltb_lt in Hk. rewrite Hk. unfold in_range. rewrite H. reflexivity. Qed.
Lemma run_guard_true k rest s : (0 < k)%Z -> StreamProg.has (Z.to_nat k) (s_rest s) = true ->
  run (TSeq (TIf (CNoRange (XC k)) (TRet false) TNop) rest) s = run rest s.
Proof. intros Hk H. cbn [run evc ev]. apply Z.ltb_lt in Hk. rewrite Hk. unfold in_range. rewrite H. reflexivity. Qed.
Lemma run_seq_fall a b s s' : run a s = RFall s' -> run (TSeq a b) s = run b s'.
Proof. intros H. cbn [run]. rewrite H. reflexivity. Qed.

Ltac step := erewrite run_seq_fall; [| cbv -[be_val Z.of_N filter rstrip_by]; reflexivity ].

Theorem header_prog_correct : forall d, header_agrees d.
Proof.
  intro d. unfold header_agrees, header_read. change HDR_SIZE with 32%nat. rewrite has_same.
  destruct (StreamProg.has 32 d) eqn:H.
  2:{ unfold prog_trace_header. rewrite run_guard_false; [reflexivity|reflexivity|exact H]. }
  unfold prog_trace_header. rewrite run_guard_true; [|reflexivity|exact H].
  do 32 take_byte d H. unfold init.
  repeat step. cbn [run]. split; [|reflexivity].
  unfold header_of, int_of, mem_of, int_at, comp_text.
  cbv -[be_val Z.of_N Z.to_N filter rstrip_by]. rewrite !N2Z.id. reflexivity.
Qed.

(* ---------- TraceEntry.read ---------- *)
Definition entry_of (s : sst) : entry :=
  mkEntry (int_of s (L "self.tbh")) (int_of s (L "self.tbl")) (int_of s (L "self.length")) (int_of s (L "self.tag"))
          (int_of s (L "self.hash_value")) (int_of s (L "self.line")) (mem_of s (L "self.data")).

Definition entry_agrees (d : bytes) : Prop :=
  match run prog_trace_entry (init d) with
  | RRet true s => entry_read d = Some (entry_of s, Z.to_N (s_idx s), s_rest s)
  | RRet false _ => entry_read d = None
  | _ => False
  end.

Fixpoint drop_seq (k : nat) (p : st) : st :=
  match k, p with
  | O, _ => p
  | S k', TSeq _ b => drop_seq k' b
  | S _, _ => TUnknown
  end.

Lemma entry_read_cons a0 a1 a2 a3 a4 a5 a6 a7 a8 a9 a10 a11 a12 a13 a14 a15 d1 :
  entry_read (a0 :: a1 :: a2 :: a3 :: a4 :: a5 :: a6 :: a7 :: a8 :: a9 :: a10 :: a11 :: a12 :: a13 :: a14 :: a15 :: d1) =
  let len := be_val [a4; a5] 0 in
  if (MAX_DATA_LEN <? len)%N then None
  else
    let n := N.to_nat len in
    let p := N.to_nat (pad_size len) in
    if Trace.has (n + p) d1 then
      let d2 := skipn (n + p) d1 in
      if Trace.has 4 d2 then
        let total := (16 + len + pad_size len + 4)%N in
        if (int_at 0 4 d2 =? total)%N
        then Some (mkEntry (be_val [a0; a1] 0) (be_val [a2; a3] 0) len (be_val [a6; a7] 0) (be_val [a8; a9; a10; a11] 0)
                           (be_val [a12; a13; a14; a15] 0) (firstn n d1), total, skipn 4 d2)
        else None
      else None
    else None.
Proof. reflexivity. Qed.

Definition is_false (r : res) : Prop := match r with RRet false _ => True | _ => False end.

Lemma run_seq_eq a b s : run (TSeq a b) s = match run a s with RFall s' => run b s' | r => r end.
Proof. reflexivity. Qed.
Lemma run_if c th el s b : evc c s = Some b -> run (TIf c th el) s = if b then run th s else run el s.
Proof. intros H. cbn [run]. rewrite H. destruct b; reflexivity. Qed.
Lemma run_seq_if_ret c rest s b : evc c s = Some b ->
  run (TSeq (TIf c (TRet false) TNop) rest) s = if b then RRet false s else run rest s.
Proof. intros H. cbn [run]. rewrite H. destruct b; reflexivity. Qed.
Lemma evc_norange e s z : ev e s = Some z -> (0 < z)%Z -> evc (CNoRange e) s = Some (negb (StreamProg.has (Z.to_nat z) (s_rest s))).
Proof. intros H Hz. cbn [evc]. rewrite H. apply Z.ltb_lt in Hz. rewrite Hz. reflexivity. Qed.
Lemma run_int v w s z : ev w s = Some z -> (0 < z)%Z -> StreamProg.has (Z.to_nat z) (s_rest s) = true ->
  run (TInt v w) s = RFall (mkS (skipn (Z.to_nat z) (s_rest s)) (s_idx s + z)
                                ((v, Z.of_N (be_val (firstn (Z.to_nat z) (s_rest s)) 0)) :: s_ints s) (s_mems s)).
Proof. intros H Hz Hh. cbn [run]. rewrite H. apply Z.ltb_lt in Hz. rewrite Hz, Hh. reflexivity. Qed.
Lemma run_mem v w s z : ev w s = Some z -> (0 < z)%Z -> StreamProg.has (Z.to_nat z) (s_rest s) = true ->
  run (TMem v w) s = RFall (mkS (skipn (Z.to_nat z) (s_rest s)) (s_idx s + z) (s_ints s)
                                ((v, firstn (Z.to_nat z) (s_rest s)) :: s_mems s)).
Proof. intros H Hz Hh. cbn [run]. rewrite H. apply Z.ltb_lt in Hz. rewrite Hz, Hh. reflexivity. Qed.
Lemma run_skip w s z : ev w s = Some z -> (0 < z)%Z -> StreamProg.has (Z.to_nat z) (s_rest s) = true ->
  run (TSkip w) s = RFall (mkS (skipn (Z.to_nat z) (s_rest s)) (s_idx s + z) (s_ints s) (s_mems s)).
Proof. intros H Hz Hh. cbn [run]. rewrite H. apply Z.ltb_lt in Hz. rewrite Hz, Hh. reflexivity. Qed.

Ltac ev_now := cbv [ev evc geti getm text_eqb N.eqb Pos.eqb andb in_range s_rest s_idx s_ints s_mems L
                    Ascii.N_of_ascii Ascii.N_of_digits N.add N.mul Pos.add Pos.mul Pos.succ].

(* the last statements: check_range(4), entry_size = get_int(4), entry_size != stream.index - start_index, return True *)
Lemma final_correct d2 i ints mems :
  geti ints (L "start_index") = Some 0%Z ->
  let r := run (drop_seq 10 prog_trace_entry) (mkS d2 i ints mems) in
  let E := Z.of_N (be_val (firstn 4 d2) 0) in
  (StreamProg.has 4 d2 = false -> is_false r) /\
  (StreamProg.has 4 d2 = true -> E <> (i + 4)%Z -> is_false r) /\
  (StreamProg.has 4 d2 = true -> E = (i + 4)%Z ->
   r = RRet true (mkS (skipn 4 d2) (i + 4) ((L "entry_size", E) :: ints) mems)).
Proof.
  intros Hst r E. subst r. cbv [drop_seq prog_trace_entry].
  erewrite run_seq_if_ret by (apply evc_norange with (z := 4%Z); [reflexivity|reflexivity]).
  change (Z.to_nat 4) with 4%nat. cbn [s_rest].
  destruct (StreamProg.has 4 d2) eqn:H4; cbn [negb].
  2:{ split; [intros _; exact I|split; intros Hc; discriminate Hc]. }
  rewrite run_seq_eq. erewrite run_int with (z := 4%Z); [|reflexivity|reflexivity|exact H4].
  change (Z.to_nat 4) with 4%nat. cbn [s_rest s_idx s_ints s_mems]. fold E.
  erewrite run_seq_if_ret with (b := negb (E =? i + 4 - 0)%Z).
  2:{ let n := eval cbv in (L "start_index") in change (L "start_index") with n in Hst.
      cbn [evc ev s_ints s_idx geti text_eqb N.eqb Pos.eqb andb]. rewrite Hst. reflexivity. }
  replace (i + 4 - 0)%Z with (i + 4)%Z by lia.
  split; [intros Hc; discriminate Hc|]. split.
  - intros _ Hne. apply Z.eqb_neq in Hne. rewrite Hne. exact I.
  - intros _ He. apply Z.eqb_eq in He. rewrite He. reflexivity.
Qed.

Definition tail_state (d1 : bytes) (tbh tbl len tag hash line : N) : sst :=
  mkS d1 16 [(L "self.line", Z.of_N line); (L "self.hash_value", Z.of_N hash); (L "self.tag", Z.of_N tag);
             (L "self.length", Z.of_N len); (L "self.tbl", Z.of_N tbl); (L "self.tbh", Z.of_N tbh); (L "start_index", 0%Z)] [].

Definition model_tail (d1 : bytes) (tbh tbl len tag hash line : N) : option (entry * N * bytes) :=
  if (MAX_DATA_LEN <? len)%N then None
  else
    let n := N.to_nat len in
    let p := N.to_nat (pad_size len) in
    if Trace.has (n + p) d1 then
      let d2 := skipn (n + p) d1 in
      if Trace.has 4 d2 then
        let total := (16 + len + pad_size len + 4)%N in
        if (int_at 0 4 d2 =? total)%N
        then Some (mkEntry tbh tbl len tag hash line (firstn n d1), total, skipn 4 d2)
        else None
      else None
    else None.

Definition tail_agrees (r : res) (m : option (entry * N * bytes)) : Prop :=
  match r with
  | RRet true s => m = Some (entry_of s, Z.to_N (s_idx s), s_rest s)
  | RRet false _ => m = None
  | _ => False
  end.

Lemma is_false_agrees r : is_false r -> tail_agrees r None.
Proof. destruct r as [s|[|] s|s|s|]; cbn; intros H; try contradiction; reflexivity. Qed.

Lemma close d2 i ints mems : geti ints (L "start_index") = Some 0%Z -> (0 <= i)%Z ->
  tail_agrees (run (drop_seq 10 prog_trace_entry) (mkS d2 i ints mems))
    (if StreamProg.has 4 d2 then
       if (int_at 0 4 d2 =? Z.to_N (i + 4))%N
       then Some (entry_of (mkS (skipn 4 d2) (i + 4) ((L "entry_size", Z.of_N (be_val (firstn 4 d2) 0)) :: ints) mems),
                  Z.to_N (i + 4), skipn 4 d2)
       else None
     else None).
Proof.
  intros Hst Hi. destruct (final_correct d2 i ints mems Hst) as [F1 [F2 F3]].
  destruct (StreamProg.has 4 d2) eqn:H4.
  2:{ apply is_false_agrees, F1; reflexivity. }
  unfold int_at. cbn [skipn].
  destruct (N.eqb_spec (be_val (firstn 4 d2) 0) (Z.to_N (i + 4))) as [He|Hne].
  - rewrite F3; [|reflexivity|lia]. cbn [tail_agrees s_idx s_rest]. reflexivity.
  - apply is_false_agrees, F2; [reflexivity|lia].
Qed.

Lemma run_empty v s : run (TEmpty v) s = RFall (mkS (s_rest s) (s_idx s) (s_ints s) ((v, []) :: s_mems s)).
Proof. reflexivity. Qed.
Lemma run_nop s : run TNop s = RFall s.
Proof. reflexivity. Qed.
Lemma run_let v e s z : ev e s = Some z -> run (TLet v e) s = RFall (mkS (s_rest s) (s_idx s) ((v, z) :: s_ints s) (s_mems s)).
Proof. intros H. cbn [run]. rewrite H. reflexivity. Qed.
Ltac norm := cbv beta iota; cbn [s_rest s_idx s_ints s_mems].

Ltac simp_entry C :=
  cbv [entry_of int_of mem_of geti getm s_ints s_mems text_eqb N.eqb Pos.eqb andb L
       Ascii.N_of_ascii Ascii.N_of_digits N.add N.mul Pos.add Pos.mul Pos.succ] in C; rewrite ?N2Z.id in C.

Lemma to_nat_of_N n : Z.to_nat (Z.of_N n) = N.to_nat n.
Proof. lia. Qed.
Lemma pad_Z len : (Z.of_N len mod 4 <> 0)%Z -> (4 - Z.of_N len mod 4)%Z = Z.of_N (pad_size len).
Proof. intros H. unfold pad_size. destruct (N.eqb_spec (len mod 4) 0) as [E|E]; lia. Qed.
Lemma pad_zero len : (Z.of_N len mod 4 = 0)%Z -> pad_size len = 0%N.
Proof. intros H. unfold pad_size. destruct (N.eqb_spec (len mod 4) 0) as [E|E]; lia. Qed.

Lemma tail_correct d1 tbh tbl len tag hash line :
  tail_agrees (run (drop_seq 8 prog_trace_entry) (tail_state d1 tbh tbl len tag hash line))
              (model_tail d1 tbh tbl len tag hash line).
Proof.
  unfold tail_state, model_tail. change MAX_DATA_LEN with 1024%N. cbv zeta. repeat rewrite has_same.
  cbv [drop_seq prog_trace_entry].
  erewrite run_seq_if_ret with (b := (1024 <? Z.of_N len)%Z) by reflexivity.
  assert (E0 : (1024 <? len)%N = (1024 <? Z.of_N len)%Z) by lia. rewrite E0.
  destruct (1024 <? Z.of_N len)%Z eqn:E1; [reflexivity|].
  rewrite run_seq_eq. erewrite run_if with (b := (Z.of_N len =? 0)%Z) by reflexivity.
  destruct (Z.of_N len =? 0)%Z eqn:E2.
  - (* length == 0 : no data, no padding *)
    assert (len = 0%N) by lia. subst len. rewrite run_empty. norm. change (pad_size 0) with 0%N. cbn [N.to_nat Nat.add skipn firstn].
    cbn [StreamProg.has].
    match goal with |- tail_agrees (run _ (mkS ?d ?i ?ints ?mems)) _ => pose proof (close d i ints mems eq_refl ltac:(lia)) as C end.
    cbv [drop_seq prog_trace_entry] in C. simp_entry C. exact C.
  - assert (Hpos : (0 < Z.of_N len)%Z) by lia.
    erewrite run_seq_if_ret with (b := negb (StreamProg.has (N.to_nat len) d1))
      by (rewrite <- to_nat_of_N; apply evc_norange with (z := Z.of_N len); [reflexivity|exact Hpos]).
    rewrite has_add.
    destruct (StreamProg.has (N.to_nat len) d1) eqn:Hn; cbn [negb andb]; [|reflexivity].
    rewrite run_seq_eq. erewrite run_mem with (z := Z.of_N len); [|reflexivity|exact Hpos|rewrite to_nat_of_N; exact Hn].
    norm. rewrite to_nat_of_N.
    erewrite run_if with (b := negb (Z.of_N len mod 4 =? 0)%Z) by reflexivity.
    rewrite skipn_add. repeat rewrite has_same.
    destruct (Z.of_N len mod 4 =? 0)%Z eqn:E3; cbn [negb].
    + (* already aligned *)
      apply Z.eqb_eq in E3. rewrite (pad_zero len E3). cbn [N.to_nat skipn StreamProg.has]. rewrite run_nop. norm.
      match goal with |- tail_agrees (run _ (mkS ?d ?i ?ints ?mems)) _ => pose proof (close d i ints mems eq_refl ltac:(lia)) as C end.
      cbv [drop_seq prog_trace_entry] in C. simp_entry C.
      replace (Z.to_N (16 + Z.of_N len + 4)) with (16 + len + 0 + 4)%N in C by lia. exact C.
    + apply Z.eqb_neq in E3. pose proof (pad_Z len E3) as HP.
      rewrite run_seq_eq. erewrite run_let with (z := (4 - Z.of_N len mod 4)%Z) by reflexivity. norm.
      rewrite HP.
      assert (Hpp : (0 < Z.of_N (pad_size len))%Z) by lia.
      erewrite run_seq_if_ret with (b := negb (StreamProg.has (N.to_nat (pad_size len)) (skipn (N.to_nat len) d1)))
        by (rewrite <- (to_nat_of_N (pad_size len)); apply evc_norange with (z := Z.of_N (pad_size len)); [reflexivity|exact Hpp]).
      destruct (StreamProg.has (N.to_nat (pad_size len)) (skipn (N.to_nat len) d1)) eqn:Hp; cbn [negb]; [|reflexivity].
      erewrite run_skip with (z := Z.of_N (pad_size len)); [|reflexivity|exact Hpp|rewrite to_nat_of_N; exact Hp].
      norm. rewrite to_nat_of_N.
      match goal with |- tail_agrees (run _ (mkS ?d ?i ?ints ?mems)) _ => pose proof (close d i ints mems eq_refl ltac:(lia)) as C end.
      cbv [drop_seq prog_trace_entry] in C. simp_entry C.
      replace (Z.to_N (16 + Z.of_N len + Z.of_N (pad_size len) + 4)) with (16 + len + pad_size len + 4)%N in C by lia. exact C.
Qed.

Theorem entry_prog_correct : forall d, entry_agrees d.
Proof.
  intro d. unfold entry_agrees.
  destruct (StreamProg.has 16 d) eqn:H.
  2:{ unfold prog_trace_entry. rewrite run_guard_false; [|reflexivity|exact H].
      unfold entry_read. change FIXED_SIZE with 16%nat. rewrite has_same, H. reflexivity. }
  unfold prog_trace_entry. rewrite run_guard_true; [|reflexivity|exact H].
  do 16 take_byte d H. unfold init.
  do 7 step.
  rewrite entry_read_cons. cbv zeta.
  match goal with |- context [be_val [?x; ?y] 0 :: _] => idtac | _ => idtac end.
  exact (tail_correct d (be_val [b; b0] 0) (be_val [b1; b2] 0) (be_val [b3; b4] 0) (be_val [b5; b6] 0)
                      (be_val [b7; b8; b9; b10] 0) (be_val [b11; b12; b13; b14] 0)).
Qed.

(* The two readers, for every byte string: what the translated source text computes is what the model computes. *)
Theorem readers_agree : ok_readers = true /\ streams_big_unsigned = true /\ (forall d, header_agrees d) /\ (forall d, entry_agrees d).
Proof. split; [reflexivity|]. split; [reflexivity|]. split; [exact header_prog_correct|exact entry_prog_correct]. Qed.

(* ---------- TraceEntry.get_args: up to MAX_ARGS words while four bytes remain ---------- *)
Fixpoint vals (m : list (name * Z)) (k : name) : list Z :=
  match m with
  | [] => []
  | (k', x) :: t => if text_eqb k' k then x :: vals t k else vals t k
  end.
Definition args_key : name := L "args" ++ [46; 48]%N.
Definition args_of (s : sst) : list N := rev (map Z.to_N (vals (s_ints s) args_key)).

Definition push_word (ints : list (name * Z)) (w : N) : list (name * Z) := (args_key, Z.of_N w) :: ints.

Lemma run_append_int lst w s z : ev w s = Some z -> (0 < z)%Z -> StreamProg.has (Z.to_nat z) (s_rest s) = true ->
  run (TAppendInt lst w) s = RFall (mkS (skipn (Z.to_nat z) (s_rest s)) (s_idx s + z)
                                        ((lst ++ [46; 48]%N, Z.of_N (be_val (firstn (Z.to_nat z) (s_rest s)) 0)) :: s_ints s) (s_mems s)).
Proof. intros H Hz Hh. cbn [run]. rewrite H. apply Z.ltb_lt in Hz. rewrite Hz, Hh. reflexivity. Qed.

Lemma args_loop n : forall d i ints mems,
  exists d' i',
  iter_body (run (TIf (CNoRange (XC 4)) TBreak (TAppendInt (L "args") (XC 4)))) n (mkS d i ints mems) =
  RFall (mkS d' i' (fold_left push_word (get_words n d) ints) mems).
Proof.
  induction n as [|n IH]; intros d i ints mems.
  - exists d, i. reflexivity.
  - cbn [iter_body get_words]. rewrite has_same.
    erewrite run_if with (b := negb (StreamProg.has 4 d)) by (apply evc_norange with (z := 4%Z); reflexivity).
    destruct (StreamProg.has 4 d) eqn:H4; cbn [negb].
    + erewrite run_append_int with (z := 4%Z); [|reflexivity|reflexivity|exact H4].
      change (Z.to_nat 4) with 4%nat. cbn [s_rest s_idx s_ints s_mems]. unfold int_at. change (skipn 0 d) with d.
      destruct (IH (skipn 4 d) (i + 4)%Z ((L "args" ++ [46; 48]%N, Z.of_N (be_val (firstn 4 d) 0)) :: ints) mems) as [d' [i' E]].
      exists d', i'. rewrite E. reflexivity.
    + exists d, i. reflexivity.
Qed.

Lemma vals_push ws : forall ints, vals (fold_left push_word ws ints) args_key = rev (map Z.of_N ws) ++ vals ints args_key.
Proof.
  induction ws as [|w ws IH]; intros ints; [reflexivity|].
  cbn [fold_left map rev]. rewrite IH. unfold push_word at 1. cbn [vals].
  change (text_eqb args_key args_key) with true. cbv beta iota. rewrite <- app_assoc. reflexivity.
Qed.

Lemma run_repeat e body s z : ev e s = Some z -> run (TRepeat e body) s = iter_body (run body) (Z.to_nat z) s.
Proof. intros H. cbn [run]. rewrite H. reflexivity. Qed.

Theorem args_prog_correct : forall data,
  match run prog_trace_args (init data) with
  | RFall s => args_of s = get_words MAX_ARGS data
  | _ => False
  end.
Proof.
  intro data. unfold prog_trace_args, init. erewrite run_repeat with (z := 5%Z) by reflexivity.
  change (Z.to_nat 5) with 5%nat. change MAX_ARGS with 5%nat.
  destruct (args_loop 5 data 0%Z [] []) as [d' [i' E]].
  change (L "args") with [97; 114; 103; 115]%N in E. rewrite E.
  unfold args_of. cbn [s_ints]. rewrite vals_push. cbn [vals]. rewrite app_nil_r, map_rev, rev_involutive, map_map.
  erewrite map_ext; [apply map_id|]. intros w. apply N2Z.id.
Qed.

(* ---------- TraceBuffer.read: the loop over the entries runs while stream.index < header.size ---------- *)
Lemma tracebuf_guard size idx d mems :
  evc guard_tracebuf (mkS d (Z.of_N idx) [(L "self.header.size", Z.of_N size)] mems) = Some (idx <? size)%N.
Proof. cbn. f_equal. lia. Qed.
