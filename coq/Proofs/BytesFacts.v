From Coq Require Import List NArith Bool Arith Lia.
From PV Require Import Base.Bytes.
Import ListNotations.
Open Scope N_scope.

Ltac nleb := repeat match goal with
  | |- context[?a <=? ?b] => destruct (N.leb_spec a b)
  | |- context[?a <? ?b] => destruct (N.ltb_spec a b)
  end.

Lemma is_hex_hexdigU n : n < 16 -> is_hex (hexdigU n) = true.
Proof. intros. unfold is_hex, hexdigU. destruct (N.ltb_spec n 10); nleb; simpl; try reflexivity; lia. Qed.
Lemma is_hex_hexdigL n : n < 16 -> is_hex (hexdigL n) = true.
Proof. intros. unfold is_hex, hexdigL. destruct (N.ltb_spec n 10); nleb; simpl; try reflexivity; lia. Qed.
Lemma hexval_hexdigU n : n < 16 -> hexval (hexdigU n) = n.
Proof. intros. unfold hexval, hexdigU. destruct (N.ltb_spec n 10); nleb; lia. Qed.
Lemma hexval_hexdigL n : n < 16 -> hexval (hexdigL n) = n.
Proof. intros. unfold hexval, hexdigL. destruct (N.ltb_spec n 10); nleb; lia. Qed.

Lemma hex_fixed_length dig n v : length (hex_fixed dig n v) = n.
Proof. revert v; induction n; intros; simpl; [reflexivity|]. rewrite app_length, IHn. simpl. lia. Qed.

Lemma hex_digits_fuel_small f v : v < 16 -> hex_digits_fuel f v = 1%nat.
Proof. intros. destruct f; simpl; [reflexivity|]. destruct (N.ltb_spec v 16); [reflexivity|lia]. Qed.

(* hex_digits v <= n  when v < 16^n, n >= 1 *)
Lemma hex_digits_fuel_le : forall f n v, (1 <= n)%nat -> v < 16 ^ N.of_nat n -> (hex_digits_fuel f v <= n)%nat.
Proof.
  induction f; intros n v Hn Hv; simpl; [lia|].
  destruct (N.ltb_spec v 16); [lia|].
  destruct n as [|n]; [lia|]. destruct n as [|n].
  - simpl in Hv. lia.
  - apply le_n_S. apply IHf; [lia|].
    rewrite Nat2N.inj_succ, N.pow_succ_r' in Hv. apply N.div_lt_upper_bound; lia.
Qed.

Lemma hex_digits_le n v : (1 <= n)%nat -> v < 16 ^ N.of_nat n -> (hex_digits v <= n)%nat.
Proof. intros. apply hex_digits_fuel_le; assumption. Qed.

Lemma hex_min_fixed dig n v : (1 <= n)%nat -> v < 16 ^ N.of_nat n -> hex_min dig n v = hex_fixed dig n v.
Proof. intros. unfold hex_min. rewrite Nat.max_l; [reflexivity|]. apply hex_digits_le; assumption. Qed.

Lemma hexU2_byte b : b < 256 -> hexU 2 b = [hexdigU (b / 16); hexdigU (b mod 16)].
Proof.
  intros. unfold hexU. rewrite hex_min_fixed by (simpl; lia). cbn [hex_fixed app].
  assert (b / 16 < 16) by (apply N.div_lt_upper_bound; lia).
  rewrite (N.mod_small (b / 16) 16) by assumption. reflexivity.
Qed.

Lemma hexL2_byte b : b < 256 -> hex_fixed hexdigL 2 b = [hexdigL (b / 16); hexdigL (b mod 16)].
Proof.
  intros. cbn [hex_fixed app].
  assert (b / 16 < 16) by (apply N.div_lt_upper_bound; lia).
  rewrite (N.mod_small (b / 16) 16) by assumption. reflexivity.
Qed.

Lemma hex_fixed_all_hexU n v : Forall (fun c => is_hex c = true) (hex_fixed hexdigU n v).
Proof.
  revert v; induction n; intros; simpl; [constructor|].
  apply Forall_app; split; [apply IHn|]. constructor; [|constructor].
  apply is_hex_hexdigU. apply N.mod_lt. lia.
Qed.

Lemma byte_nibbles b : b < 256 -> (b / 16) * 16 + b mod 16 = b.
Proof. intros. pose proof (N.div_mod b 16). lia. Qed.

(* ---- big-endian ---- *)
Lemma be_bytes_length n v : length (be_bytes n v) = n.
Proof. revert v; induction n; intros; simpl; [reflexivity|]. rewrite app_length, IHn. simpl. lia. Qed.

Lemma be_val_app a b acc : be_val (a ++ b) acc = be_val b (be_val a acc).
Proof. revert acc; induction a; intros; simpl; auto. Qed.

Lemma be_val_be_bytes n v acc : v < 256 ^ N.of_nat n -> be_val (be_bytes n v) acc = acc * 256 ^ N.of_nat n + v.
Proof.
  revert v acc; induction n; intros v acc H.
  - simpl in *. lia.
  - cbn [be_bytes]. rewrite be_val_app.
    rewrite Nat2N.inj_succ, N.pow_succ_r' in *.
    rewrite IHn.
    + cbn [be_val]. pose proof (N.div_mod v 256). nia.
    + apply N.div_lt_upper_bound; lia.
Qed.

Lemma be_bytes_all_bytes n v : Forall (fun b => b < 256) (be_bytes n v).
Proof.
  revert v; induction n; intros; simpl; [constructor|].
  apply Forall_app; split; [apply IHn|]. constructor; [|constructor]. apply N.mod_lt. lia.
Qed.

Lemma be_val_bound l acc n : Forall (fun b => b < 256) l -> length l = n -> acc < 256 ^ 0 + 0 \/ True ->
  be_val l 0 < 256 ^ N.of_nat n.
Proof.
  intros Hl Hn _. subst n.
  assert (G: forall l acc k, Forall (fun b => b < 256) l -> acc < 256 ^ k -> be_val l acc < 256 ^ (k + N.of_nat (length l))).
  { clear. induction l as [|b t IH]; intros acc k Hf Ha; simpl length.
    - simpl. rewrite N.add_0_r. exact Ha.
    - inversion Hf; subst. cbn [be_val]. rewrite Nat2N.inj_succ.
      replace (k + N.succ (N.of_nat (length t))) with ((k + 1) + N.of_nat (length t)) by lia.
      apply IH; [assumption|]. rewrite N.pow_add_r. simpl (256 ^ 1). nia. }
  specialize (G l 0 0 Hl). simpl in G. apply G. lia.
Qed.

Lemma frev_rev {A} (l : list A) : frev l = rev l.
Proof. unfold frev. symmetry. apply rev_alt. Qed.
Lemma rstrip_by_rev p s : rstrip_by p s = rev (lstrip_by p (rev s)).
Proof. unfold rstrip_by. rewrite !frev_rev. reflexivity. Qed.
