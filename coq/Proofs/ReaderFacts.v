From Coq Require Import List NArith Bool Arith Lia.
From PV Require Import Base.Bytes Base.Reader Proofs.BytesFacts.
Import ListNotations.
Open Scope N_scope.

Lemma get_mem_app n xs rest : length xs = n -> n <> O -> get_mem n (xs ++ rest) = Some (xs, rest).
Proof.
  intros H Hn. unfold get_mem. destruct n; [congruence|].
  rewrite app_length, H.
  replace (Nat.leb (S n) (S n + length rest)) with true by (symmetry; apply Nat.leb_le; lia).
  rewrite <- H. rewrite firstn_app, firstn_all, Nat.sub_diag. simpl. rewrite app_nil_r.
  rewrite skipn_app, skipn_all, Nat.sub_diag. reflexivity.
Qed.

Lemma get_int_be n v rest : n <> O -> v < 256 ^ N.of_nat n -> get_int n (be_bytes n v ++ rest) = Some (v, rest).
Proof.
  intros. unfold get_int, bind. rewrite get_mem_app by (auto using be_bytes_length).
  unfold ret. rewrite be_val_be_bytes by auto. f_equal.
Qed.

Lemma get_memN_app n xs rest : N.of_nat (length xs) = n -> n <> 0 -> get_memN n (xs ++ rest) = Some (xs, rest).
Proof. intros H Hn. unfold get_memN. apply get_mem_app; lia. Qed.

(* bind unfolding helpers *)
Lemma bind_some {A B} (r : reader A) (f : A -> reader B) s a s' : r s = Some (a, s') -> bind r f s = f a s'.
Proof. intros H. unfold bind. rewrite H. reflexivity. Qed.

Lemma read_n_app {A} (r : reader A) (enc : A -> bytes) :
  (forall a rest, r (enc a ++ rest) = Some (a, rest)) ->
  forall l rest, read_n (length l) r (flat_map enc l ++ rest) = Some (l, rest).
Proof.
  intros Hr. induction l as [|a t IH]; intros rest; [reflexivity|].
  cbn [length read_n flat_map]. rewrite <- app_assoc. unfold bind at 1. rewrite Hr.
  unfold bind at 1. rewrite IH. reflexivity.
Qed.

(* the same with a per-element side condition *)
Lemma read_n_app_P {A} (P : A -> Prop) (r : reader A) (enc : A -> bytes) :
  (forall a rest, P a -> r (enc a ++ rest) = Some (a, rest)) ->
  forall l rest, Forall P l -> read_n (length l) r (flat_map enc l ++ rest) = Some (l, rest).
Proof.
  intros Hr. induction l as [|a t IH]; intros rest Hf; [reflexivity|]. inversion Hf; subst.
  cbn [length read_n flat_map]. rewrite <- app_assoc. unfold bind at 1. rewrite Hr by assumption.
  unfold bind at 1. rewrite IH by assumption. reflexivity.
Qed.

Lemma pow256_1 : 256 ^ N.of_nat 1 = 256. Proof. reflexivity. Qed.
Lemma pow256_2 : 256 ^ N.of_nat 2 = 65536. Proof. reflexivity. Qed.
Lemma pow256_4 : 256 ^ N.of_nat 4 = 4294967296. Proof. reflexivity. Qed.
Lemma pow256_8 : 256 ^ N.of_nat 8 = 18446744073709551616. Proof. reflexivity. Qed.

Lemma get_int1 v rest : v < 256 -> get_int 1 (be_bytes 1 v ++ rest) = Some (v, rest).
Proof. intros. apply get_int_be; [discriminate|rewrite pow256_1; assumption]. Qed.
Lemma get_int2 v rest : v < 65536 -> get_int 2 (be_bytes 2 v ++ rest) = Some (v, rest).
Proof. intros. apply get_int_be; [discriminate|rewrite pow256_2; assumption]. Qed.
Lemma get_int4 v rest : v < 4294967296 -> get_int 4 (be_bytes 4 v ++ rest) = Some (v, rest).
Proof. intros. apply get_int_be; [discriminate|rewrite pow256_4; assumption]. Qed.
Lemma get_int8 v rest : v < 18446744073709551616 -> get_int 8 (be_bytes 8 v ++ rest) = Some (v, rest).
Proof. intros. apply get_int_be; [discriminate|rewrite pow256_8; assumption]. Qed.
