From Coq Require Import List NArith ZArith Bool Arith Lia.
From PV Require Import Base.Bytes Base.Lit Base.Json Base.TextOrder Model.Cli Proofs.BytesFacts Proofs.CliFacts.
Import ListNotations.
Open Scope N_scope.

(* ---- hex strings ---- *)
Lemma hexdigU_inj a b : a < 16 -> b < 16 -> hexdigU a = hexdigU b -> a = b.
Proof. intros Ha Hb H. rewrite <- (hexval_hexdigU a Ha), <- (hexval_hexdigU b Hb), H. reflexivity. Qed.

Lemma hex_fixed_inj : forall n v w, v < 16 ^ N.of_nat n -> w < 16 ^ N.of_nat n ->
  hex_fixed hexdigU n v = hex_fixed hexdigU n w -> v = w.
Proof.
  induction n as [|n IH]; intros v w Hv Hw H.
  - simpl in *. lia.
  - cbn [hex_fixed] in H. rewrite Nat2N.inj_succ, N.pow_succ_r' in Hv, Hw.
    apply app_inj_tail in H. destruct H as [H1 H2].
    assert (v / 16 = w / 16) by (apply IH; [apply N.div_lt_upper_bound; lia|apply N.div_lt_upper_bound; lia|exact H1]).
    assert (v mod 16 = w mod 16) by (apply hexdigU_inj; [apply N.mod_lt; lia|apply N.mod_lt; lia|exact H2]).
    rewrite (N.div_mod v 16), (N.div_mod w 16) by lia. congruence.
Qed.

Definition is_upper_hex (c : N) : bool := ((48 <=? c) && (c <=? 57)) || ((65 <=? c) && (c <=? 70)).
Lemma hexdigU_upper n : n < 16 -> is_upper_hex (hexdigU n) = true.
Proof. intros. unfold is_upper_hex, hexdigU. destruct (N.ltb_spec n 10); nleb; simpl; try reflexivity; lia. Qed.
Lemma hex_fixed_upper n v : forallb is_upper_hex (hex_fixed hexdigU n v) = true.
Proof.
  revert v; induction n as [|n IH]; intros v; [reflexivity|]. cbn [hex_fixed]. rewrite forallb_app, IH. cbn [forallb].
  rewrite hexdigU_upper by (apply N.mod_lt; lia). reflexivity.
Qed.

Lemma prefixb_refl s : prefixb s s = true.
Proof. induction s; simpl; [reflexivity|]. rewrite N.eqb_refl. assumption. Qed.
Lemma prefixb_same_length : forall a b, length a = length b -> prefixb a b = true -> a = b.
Proof.
  induction a as [|x a IH]; destruct b as [|y b]; simpl; intros Hl H; try discriminate; [reflexivity|].
  apply andb_prop in H. destruct H as [H1 H2]. apply N.eqb_eq in H1. f_equal; auto.
Qed.
Lemma prefixb_length : forall a b, prefixb a b = true -> (length a <= length b)%nat.
Proof. induction a as [|x a IH]; destruct b as [|y b]; simpl; intros H; try discriminate; try lia. apply andb_prop in H. destruct H. apply IH in H0. lia. Qed.

(* an 8-digit upper-case hex string occurs in "0x" ++ 8 digits only at offset 2 *)
Theorem plid_match_exact v w : v < 2 ^ 32 -> w < 2 ^ 32 ->
  substrb (hex_fixed hexdigU 8 v) (L "0x" ++ hex_fixed hexdigU 8 w) = (v =? w).
Proof.
  intros Hv Hw.
  pose proof (hex_fixed_length hexdigU 8 v) as Lv. pose proof (hex_fixed_length hexdigU 8 w) as Lw.
  pose proof (hex_fixed_upper 8 v) as Uv.
  remember (hex_fixed hexdigU 8 v) as a. remember (hex_fixed hexdigU 8 w) as b.
  do 9 (destruct a as [|? a]; try discriminate). do 9 (destruct b as [|? b]; try discriminate).
  cbn [forallb] in Uv. repeat (apply andb_prop in Uv; destruct Uv as [? Uv]).
  change (L "0x") with [48; 120]. cbn [app].
  assert (X1: is_upper_hex 120 = false) by reflexivity.
  (* offset 0 needs a[1] = 'x', offset 1 needs a[0] = 'x': impossible for hex digits *)
  assert (Hn0: (n0 =? 120) = false). { apply N.eqb_neq. intros ->. congruence. }
  assert (Hn: (n =? 120) = false). { apply N.eqb_neq. intros ->. congruence. }
  cbn [substrb prefixb]. rewrite Hn0, Hn. rewrite !andb_false_r. cbn [orb andb].
  destruct (v =? w) eqn:E.
  - apply N.eqb_eq in E. subst w. rewrite <- Heqb in Heqa. inversion Heqa; subst. rewrite !N.eqb_refl. reflexivity.
  - apply N.eqb_neq in E.
    match goal with |- ?X = false => destruct X eqn:EX; [|reflexivity] end. exfalso. apply E.
    apply (hex_fixed_inj 8); [exact Hv|exact Hw|]. rewrite <- Heqa, <- Heqb.
    repeat (apply orb_prop in EX; destruct EX as [EX|EX]);
      try (repeat (apply andb_prop in EX; destruct EX as [? EX]);
           repeat match goal with H : (_ =? _) = true |- _ => apply N.eqb_eq in H end; subst; reflexivity);
      try discriminate.
Qed.

(* the id may be given with or without 0x / 0X and in either letter case *)
Lemma upper_hex_fixed_U n v : map upper_c (hex_fixed hexdigU n v) = hex_fixed hexdigU n v.
Proof.
  pose proof (hex_fixed_upper n v) as H. induction (hex_fixed hexdigU n v) as [|c t IH]; [reflexivity|].
  cbn [forallb] in H. apply andb_prop in H. destruct H as [Hc Ht]. cbn [map]. rewrite IH by assumption. f_equal.
  unfold upper_c, is_upper_hex in *. destruct ((97 <=? c) && (c <=? 122)) eqn:E; [|reflexivity].
  apply andb_prop in E. destruct E as [E1 E2]. apply N.leb_le in E1.
  apply orb_prop in Hc. destruct Hc as [Hc|Hc]; apply andb_prop in Hc; destruct Hc as [_ Hc]; apply N.leb_le in Hc; lia.
Qed.

Lemma upper_lower_digit n : n < 16 -> upper_c (hexdigL n) = hexdigU n.
Proof.
  intros. unfold upper_c, hexdigL, hexdigU. destruct (N.ltb_spec n 10).
  - destruct (N.leb_spec 97 (48 + n)); [lia|]. reflexivity.
  - destruct (N.leb_spec 97 (87 + n)); [|lia]. destruct (N.leb_spec (87 + n) 122); [|lia]. cbn [andb]. lia.
Qed.
Lemma upper_hex_fixed_L n v : map upper_c (hex_fixed hexdigL n v) = hex_fixed hexdigU n v.
Proof.
  revert v; induction n as [|n IH]; intros v; [reflexivity|]. cbn [hex_fixed]. rewrite map_app, IH. cbn [map].
  rewrite upper_lower_digit by (apply N.mod_lt; lia). reflexivity.
Qed.

Definition plid_spellings (v : N) : list text :=
  [hex_fixed hexdigU 8 v; hex_fixed hexdigL 8 v; L "0x" ++ hex_fixed hexdigU 8 v; L "0x" ++ hex_fixed hexdigL 8 v;
   L "0X" ++ hex_fixed hexdigU 8 v; L "0X" ++ hex_fixed hexdigL 8 v].

Lemma no_0X s : forallb is_upper_hex s = true -> prefixb (L "0X") s = false.
Proof.
  change (L "0X") with [48; 88]. destruct s as [|a [|b t]]; cbn [prefixb forallb]; intros H; try reflexivity.
  - rewrite andb_false_r. reflexivity.
  - apply andb_prop in H. destruct H as [_ H]. apply andb_prop in H. destruct H as [H _].
    destruct (88 =? b) eqn:X; [|rewrite andb_false_r; reflexivity]. apply N.eqb_eq in X. subst b. discriminate.
Qed.

Theorem process_id_spellings v s : In s (plid_spellings v) -> process_id s = Some (hex_fixed hexdigU 8 v).
Proof.
  unfold plid_spellings. intros H. unfold process_id.
  assert (P0: prefixb (L "0X") (hex_fixed hexdigU 8 v) = false) by (apply no_0X, hex_fixed_upper).
  repeat (destruct H as [<-|H]); [..|contradiction]; rewrite ?map_app, ?upper_hex_fixed_U, ?upper_hex_fixed_L.
  - rewrite P0, hex_fixed_length. reflexivity.
  - rewrite P0, hex_fixed_length. reflexivity.
  - change (map upper_c (L "0x")) with (L "0X"). change (prefixb (L "0X") (L "0X" ++ hex_fixed hexdigU 8 v)) with true. cbv iota.
    change (skipn 2 (L "0X" ++ hex_fixed hexdigU 8 v)) with (hex_fixed hexdigU 8 v). rewrite hex_fixed_length. reflexivity.
  - change (map upper_c (L "0x")) with (L "0X"). change (prefixb (L "0X") (L "0X" ++ hex_fixed hexdigU 8 v)) with true. cbv iota.
    change (skipn 2 (L "0X" ++ hex_fixed hexdigU 8 v)) with (hex_fixed hexdigU 8 v). rewrite hex_fixed_length. reflexivity.
  - change (map upper_c (L "0X")) with (L "0X"). change (prefixb (L "0X") (L "0X" ++ hex_fixed hexdigU 8 v)) with true. cbv iota.
    change (skipn 2 (L "0X" ++ hex_fixed hexdigU 8 v)) with (hex_fixed hexdigU 8 v). rewrite hex_fixed_length. reflexivity.
  - change (map upper_c (L "0X")) with (L "0X"). change (prefixb (L "0X") (L "0X" ++ hex_fixed hexdigU 8 v)) with true. cbv iota.
    change (skipn 2 (L "0X" ++ hex_fixed hexdigU 8 v)) with (hex_fixed hexdigU 8 v). rewrite hex_fixed_length. reflexivity.
Qed.

(* --plid lists exactly the decodable files whose 32-bit platform log id equals X, in presentation order *)
Theorem plid_lists_exactly d c content names x plid_of :
  x < 2 ^ 32 ->
  (forall n eid s, d_summary d (content n) = Got (eid, s) ->
     eid <> [] /\ plid_of n < 2 ^ 32 /\ summary_field s (L "PLID") = L "0x" ++ hex_fixed hexdigU 8 (plid_of n)) ->
  plid_names d c (hex_fixed hexdigU 8 x) content names =
  filter (fun n => is_got (d_summary d (content n)) && (plid_of n =? x)) (file_list (c_ext c) (c_rev c) names).
Proof.
  intros Hx Hs. unfold plid_names. apply filter_ext. intros n.
  destruct (d_summary d (content n)) as [| |[eid s]] eqn:E; try reflexivity.
  destruct (Hs n eid s E) as (He & Hp & ->). cbn [is_got andb].
  rewrite plid_match_exact by assumption. rewrite (N.eqb_sym x).
  destruct eid; [congruence|]. reflexivity.
Qed.

(* --id / --delete: the file acted on is the first, in directory order, whose name contains the id *)
Theorem first_containing_spec pid walk n : first_containing pid walk = Some n ->
  In n walk /\ substrb pid n = true /\
  exists pre post, walk = pre ++ n :: post /\ forall m, In m pre -> substrb pid m = false.
Proof.
  unfold first_containing. induction walk as [|x t IH]; cbn [List.find]; [discriminate|].
  destruct (substrb pid x) eqn:E.
  - intros H. inversion H; subst. split; [left; reflexivity|]. split; [exact E|]. exists [], t. split; [reflexivity|]. intros m [].
  - intros H. destruct (IH H) as (Hin & Hs & pre & post & -> & Hpre). split; [right; exact Hin|]. split; [exact Hs|].
    exists (x :: pre), post. split; [reflexivity|]. intros m [<-|Hm]; [exact E|apply Hpre; exact Hm].
Qed.
Theorem first_containing_none pid walk : first_containing pid walk = None -> forall n, In n walk -> substrb pid n = false.
Proof. unfold first_containing. intros H n Hn. eapply find_none in H; eassumption. Qed.

(* --bmc-id: when some file carries the id and decodes, one such file is displayed; otherwise "PEL not found" *)
Theorem bmcid_found d obmc hexm id content walk :
  (exists n, In n walk /\ bmc_match d obmc id content n = true) ->
  exists n, In n walk /\ bmc_match d obmc id content n = true /\
    mode_bmcid d obmc hexm id content walk =
      match d_full d (content n) with Got (_, j) => if hexm then OutHex [content n] else OutAll [j] | _ => OutAll [] end.
Proof.
  intros (n0 & Hin & Hm). unfold mode_bmcid.
  destruct (List.find (bmc_match d obmc id content) walk) as [n|] eqn:E.
  - apply find_some in E. exists n. tauto.
  - eapply find_none in E; [|exact Hin]. congruence.
Qed.
Theorem bmcid_not_found d obmc hexm id content walk :
  (forall n, In n walk -> bmc_match d obmc id content n = false) -> mode_bmcid d obmc hexm id content walk = not_found.
Proof.
  intros H. unfold mode_bmcid. destruct (List.find (bmc_match d obmc id content) walk) as [n|] eqn:E; [|reflexivity].
  apply find_some in E. destruct E as [Hin Hm]. rewrite (H n Hin) in Hm. discriminate.
Qed.
