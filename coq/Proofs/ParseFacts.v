From Coq Require Import List NArith Bool Arith Lia.
From PV Require Import Base.Bytes Base.Reader Base.PelTypes Model.Parse Spec.Encode Gen.Tables Proofs.BytesFacts Proofs.ReaderFacts.
Import ListNotations.
Open Scope N_scope.

Ltac side := first [assumption | discriminate | reflexivity | lia | (unfold lt8, lt16, lt32, lt64 in *; lia)].

(* one read against the matching piece of the encoding *)
Ltac rw1 :=
  first
  [ rewrite get_int1 by side
  | rewrite get_int2 by side
  | rewrite get_int4 by side
  | rewrite get_int8 by side
  | rewrite get_mem_app by side ].
Ltac rd1 := unfold bind at 1; first [rw1 | (unfold bind at 1; rw1)]; cbv beta iota.
Ltac rd := repeat rd1.

Lemma parse_header_enc id len h rest : id < 65536 -> len < 65536 -> wf_hdr h ->
  parse_header (enc_header id len h ++ rest) = Some ((id, len, h), rest).
Proof.
  intros Hi Hl (H1 & H2 & H3). unfold parse_header, enc_header, be. rewrite <- !app_assoc.
  rd. unfold ret. destruct h; reflexivity.
Qed.

Lemma get_timestamp_enc t rest : field 8 t -> get_timestamp (t ++ rest) = Some (t, rest).
Proof.
  intros (Hl & _). do 9 (destruct t as [|? t]; try discriminate).
  unfold get_timestamp. cbn [app].
  change (n :: n0 :: n1 :: n2 :: n3 :: n4 :: n5 :: n6 :: rest) with
    ([n; n0] ++ [n1] ++ [n2] ++ [n3] ++ [n4] ++ [n5] ++ [n6] ++ rest).
  rd. reflexivity.
Qed.

Lemma parse_ph_body_enc p n rest : wf_ph p n ->
  parse_ph_body (ph_len p) (ph_hdr p)
    (ph_create p ++ ph_commit p ++ be 1 (ph_creator p) ++ be 1 (ph_res0 p) ++ be 1 (ph_res1 p) ++ be 1 (ph_count p) ++
     be 4 (ph_obmc p) ++ be 8 (ph_cver p) ++ be 4 (ph_plid p) ++ be 4 (ph_eid p) ++ rest) = Some (p, rest).
Proof.
  intros (Hh & Hl & Hc & Hm & Hcr & H0 & H1 & Hcnt & Hn & Ho & Hv & Hp & He).
  unfold parse_ph_body, be.
  unfold bind at 1. rewrite get_timestamp_enc by assumption.
  unfold bind at 1. rewrite get_timestamp_enc by assumption.
  assert (ph_count p < 256) by (rewrite Hcnt; lia).
  rd. unfold ret. destruct p; reflexivity.
Qed.

Lemma parse_uh_body_enc u rest : wf_uh u ->
  parse_uh_body (uh_len u) (uh_hdr u)
    (be 1 (uh_subsys u) ++ be 1 (uh_scope u) ++ be 1 (uh_sev u) ++ be 1 (uh_etype u) ++ be 4 (uh_res4 u) ++
     be 1 (uh_domain u) ++ be 1 (uh_vector u) ++ be 2 (uh_flags u) ++ be 4 (uh_states u) ++ rest) = Some (u, rest).
Proof.
  intros (Hh & Hl & H1 & H2 & H3 & H4 & H5 & H6 & H7 & H8 & H9).
  unfold parse_uh_body, be. rd. unfold ret. destruct u; reflexivity.
Qed.

Lemma len_nil {A} (l : list A) : length l = 0%nat -> l = [].
Proof. destruct l; [reflexivity|discriminate]. Qed.

Lemma parse_eh_enc e rest : wf_eh e -> parse_eh (enc_eh e ++ rest) = Some (e, rest).
Proof.
  intros ((L1 & _) & (L2 & _) & (L3 & _) & (L4 & _) & Hr & Ht & H1 & H2 & H3 & Hs & (L5 & _)).
  unfold parse_eh, enc_eh, be. rewrite <- !app_assoc.
  rd. unfold bind at 1. rewrite get_timestamp_enc by assumption. rd.
  destruct (e_symlen e =? 0) eqn:E.
  - apply N.eqb_eq in E. rewrite E in L5. apply len_nil in L5. rewrite L5. cbn [app].
    unfold bind, ret. destruct e; cbn in *. subst. reflexivity.
  - apply N.eqb_neq in E. unfold bind at 1. rewrite get_memN_app by lia. unfold ret. destruct e; reflexivity.
Qed.

Lemma parse_mt_enc t rest : wf_mt t -> parse_mt (enc_mt t ++ rest) = Some (t, rest).
Proof.
  intros ((L1 & _) & (L2 & _)). unfold parse_mt, enc_mt. rewrite <- !app_assoc. rd. unfold ret. destruct t; reflexivity.
Qed.

Lemma parse_lp_enc l rest : wf_lp l -> parse_lp (enc_lp l ++ rest) = Some (l, rest).
Proof.
  intros (H1 & H2 & H3 & H4 & (L5 & _) & L6 & F6 & Hp).
  unfold parse_lp, enc_lp, be. rewrite <- !app_assoc. rd.
  assert (Hname: (if l_namelen l =? 0 then ret [] else get_memN (l_namelen l))
                   (l_name l ++ flat_map (be_bytes 2) (l_targets l) ++ match l_pad l with Some x => be_bytes 2 x | None => [] end ++ rest)
                 = Some (l_name l, flat_map (be_bytes 2) (l_targets l) ++ match l_pad l with Some x => be_bytes 2 x | None => [] end ++ rest)).
  { destruct (l_namelen l =? 0) eqn:E.
    - apply N.eqb_eq in E. rewrite E in L5. apply len_nil in L5. rewrite L5. reflexivity.
    - apply N.eqb_neq in E. apply get_memN_app; lia. }
  unfold bind at 1. rewrite Hname. cbv beta iota.
  unfold bind at 1. rewrite <- L6.
  rewrite (read_n_app_P lt16 (get_int 2) (be_bytes 2)) by (auto; intros; apply get_int2; assumption).
  cbv beta iota.
  destruct (l_pad l) as [x|] eqn:Ep.
  - destruct Hp as [Ho Hx]. rewrite Ho. cbv beta iota. rd. unfold bind, ret. destruct l; cbn [PelTypes.l_pad] in *. subst. reflexivity.
  - rewrite Hp. cbv beta iota. cbn [app]. unfold bind, ret. destruct l; cbn [PelTypes.l_pad] in *. subst. reflexivity.
Qed.
