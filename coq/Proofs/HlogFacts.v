(* C16: the hlog model equals the specification-side description. *)
From Coq Require Import List NArith Bool Arith Lia.
From PV Require Import Base.Bytes Base.Lit Model.Hexdump Model.Hlog Spec.IoDrawer
                       Proofs.BytesFacts Proofs.HexdumpFacts Proofs.HexdumpRoundtrip.
Import ListNotations.
Open Scope N_scope.

(* ---- the accumulator fold and the positional sum agree ---- *)
Lemma be_val_acc l : forall acc, be_val l acc = acc * 256 ^ N.of_nat (length l) + be_value l.
Proof.
  induction l as [|b t IH]; intros acc; simpl length.
  - simpl. lia.
  - cbn [be_val be_value]. rewrite IH. rewrite Nat2N.inj_succ, N.pow_succ_r'. lia.
Qed.

Lemma be_val_value l : be_val l 0 = be_value l.
Proof. rewrite be_val_acc. lia. Qed.

Lemma pow256_16 n : 256 ^ N.of_nat n = 16 ^ N.of_nat (2 * n).
Proof.
  rewrite Nat2N.inj_mul. change (N.of_nat 2) with 2. rewrite N.pow_mul_r. reflexivity.
Qed.

Lemma Forall_firstn {A} (P : A -> Prop) n : forall l, Forall P l -> Forall P (firstn n l).
Proof. induction n; intros [|x t] H; simpl; try constructor; inversion H; subst; auto. Qed.
Lemma Forall_skipn {A} (P : A -> Prop) n : forall l, Forall P l -> Forall P (skipn n l).
Proof. induction n; intros [|x t] H; simpl; try constructor; auto; inversion H; subst; auto. Qed.

Lemma skipn_add {A} (a b : nat) : forall l : list A, skipn a (skipn b l) = skipn (b + a) l.
Proof. induction b; intros l; simpl; [reflexivity|]. destruct l; [destruct a; reflexivity|apply IHb]. Qed.

(* the value of a field that fits is shown with exactly 2*size digits *)
Lemma field_hex size l : (1 <= size)%nat -> Forall (fun b => b < 256) l -> length l = size ->
  hexU (2 * size) (be_value l) = hex_fixed hexdigU (2 * size) (be_value l).
Proof.
  intros Hs Hl Hn. apply hex_min_fixed; [lia|].
  rewrite <- pow256_16, <- be_val_value. apply (be_val_bound l 0 size Hl Hn). right. exact I.
Qed.

Lemma nonzero_lines_cons x l :
  nonzero_lines (x :: l) = (if negb (snd x =? 0) then [field_line x] else []) ++ nonzero_lines l.
Proof. unfold nonzero_lines. cbn [filter]. destruct (negb (snd x =? 0)); reflexivity. Qed.

(* ---- the stream loop against absolute offsets ---- *)
Lemma hlog_loop_spec : forall (fields : list hfield) (d0 : bytes) (off : nat),
  Forall (fun f : hfield => (1 <= snd f)%nat) fields -> Forall (fun b => b < 256) d0 ->
  hlog_loop fields (skipn off d0) =
  Some (nonzero_lines
          (map (fun p : placed => let '((name, w), o) := p in (name, w, be_value (slice d0 o w)))
               (take_while (fits (length d0)) (combine fields (field_offsets (map snd fields) off))))).
Proof.
  induction fields as [|[name size] t IH]; intros d0 off Hf Hd.
  - reflexivity.
  - inversion Hf as [|? ? Hs Ht]; subst. simpl in Hs.
    cbn [hlog_loop map snd field_offsets combine take_while fits].
    destruct (Nat.eqb_spec size 0) as [E|_]; [lia|].
    rewrite skipn_length.
    destruct (Nat.leb_spec size (length d0 - off)) as [Hfit|Hno];
      destruct (Nat.leb_spec (off + size) (length d0)) as [Hfit'|Hno']; try lia.
    + rewrite skipn_add. rewrite (IH d0 (off + size)%nat Ht Hd).
      f_equal. cbn [map]. rewrite nonzero_lines_cons. cbn [snd]. f_equal.
      fold (slice d0 off size).
      assert (Hlen : length (slice d0 off size) = size).
      { unfold slice. rewrite firstn_length, skipn_length. lia. }
      assert (Hb : Forall (fun b => b < 256) (slice d0 off size)).
      { unfold slice. apply Forall_firstn, Forall_skipn. exact Hd. }
      rewrite be_val_value.
      destruct (be_value (slice d0 off size) =? 0); cbn [negb]; [reflexivity|].
      unfold field_line. rewrite (field_hex size _ Hs Hb Hlen). reflexivity.
    + reflexivity.
Qed.

Definition hlog_heading1 : list text := [L "Hex Dump"; L "--------"].
Definition hlog_heading2 : list text := [ [] ; L "Non-Zero Field Values"; L "---------------------"].

Theorem parse_hlog_spec (fields : list hfield) (d : bytes) :
  Forall (fun f : hfield => (1 <= snd f)%nat) fields -> Forall (fun b => b < 256) d ->
  parse_hlog fields d =
  Some (hlog_heading1 ++ hexdump d ++ hlog_heading2 ++ nonzero_lines (take_fitting fields d)).
Proof.
  intros Hf Hd. unfold parse_hlog.
  pose proof (hlog_loop_spec fields d 0%nat Hf Hd) as H. simpl skipn in H. rewrite H.
  reflexivity.
Qed.

(* a declared width of 0 that is reached makes check_range's assertion fail: the model says so *)
Lemma hlog_zero_width name t d : parse_hlog ((name, 0%nat) :: t) d = None.
Proof. reflexivity. Qed.

(* the dump part of the output parses back to exactly the record *)
Theorem parse_hlog_dump_lossless (fields : list hfield) (d : bytes) out :
  Forall (fun b => b < 256) d -> N.of_nat (length d) + 16 <= 2 ^ 32 ->
  parse_hlog fields d = Some out ->
  exists dump rest, out = hlog_heading1 ++ dump ++ hlog_heading2 ++ rest /\
                    length dump = Nat.div (length d + 15) 16 /\ parse default_fmt dump = d.
Proof.
  intros Hd Hlen H. unfold parse_hlog in H. destruct (hlog_loop fields d) as [ls|]; [|discriminate].
  inversion H; subst. exists (hexdump d), ls. split; [reflexivity|]. split.
  - rewrite (hexdump_line_count 16 4 d (hexdump d)) by reflexivity.
    replace (length d + 16 - 1)%nat with (length d + 15)%nat by lia. reflexivity.
  - apply hexdump_roundtrip; assumption.
Qed.

(* ---- what take_fitting means, stated without take_while: the first k fields, k maximal ---- *)
Fixpoint sum_widths (fields : list (text * nat)) : nat :=
  match fields with [] => 0%nat | f :: t => (snd f + sum_widths t)%nat end.

Lemma take_while_place : forall (fields : list (text * nat)) (len off : nat),
  exists k, (k <= length fields)%nat /\
    take_while (fits len) (combine fields (field_offsets (map snd fields) off))
      = combine (firstn k fields) (field_offsets (map snd (firstn k fields)) off) /\
    (off <= len -> off + sum_widths (firstn k fields) <= len)%nat /\
    (k < length fields -> len < off + sum_widths (firstn (S k) fields))%nat.
Proof.
  induction fields as [|[name w] t IH]; intros len off.
  - exists 0%nat. simpl. repeat split; lia.
  - cbn [map snd field_offsets combine take_while fits].
    destruct (Nat.leb_spec (off + w) len) as [Hfit|Hno].
    + destruct (IH len (off + w)%nat) as (k & Hk & Heq & Hsum & Hnext).
      exists (S k). cbn [firstn map snd field_offsets combine length sum_widths]. rewrite Heq.
      repeat split; try lia.
      intros Hlt. assert (k < length t)%nat by lia. specialize (Hnext H).
      cbn [firstn sum_widths snd] in *. lia.
    + exists 0%nat. cbn [firstn map field_offsets combine length sum_widths snd]. repeat split; try lia.
Qed.

Theorem take_fitting_prefix (fields : list (text * nat)) (d : bytes) :
  exists k, (k <= length fields)%nat /\
    map (fun f => fst (fst f)) (take_fitting fields d) = map fst (firstn k fields) /\
    map (fun f => snd (fst f)) (take_fitting fields d) = map snd (firstn k fields) /\
    (sum_widths (firstn k fields) <= length d)%nat /\
    (k < length fields -> length d < sum_widths (firstn (S k) fields))%nat.
Proof.
  destruct (take_while_place fields (length d) 0) as (k & Hk & Heq & Hsum & Hnext).
  exists k. unfold take_fitting, place. rewrite Heq. rewrite !map_map.
  assert (G : forall (l : list (text * nat)) off,
             map (fun x : placed => fst (fst (let '(name, w, o) := x in (name, w, be_value (slice d o w)))))
                 (combine l (field_offsets (map snd l) off)) = map fst l /\
             map (fun x : placed => snd (fst (let '(name, w, o) := x in (name, w, be_value (slice d o w)))))
                 (combine l (field_offsets (map snd l) off)) = map snd l).
  { induction l as [|[n w] l IHl]; intros off; [split; reflexivity|].
    cbn [map snd fst field_offsets combine]. destruct (IHl (off + w)%nat) as [A B]. rewrite A, B. split; reflexivity. }
  destruct (G (firstn k fields) 0%nat) as [A B]. repeat split; try assumption; try lia.
Qed.
