From Coq Require Import List NArith Bool Arith Lia Sorting.Sorted Sorting.Permutation.
From PV Require Import Base.Bytes Base.TextOrder.
Import ListNotations.
Open Scope N_scope.

Lemma text_ltb_irrefl a : text_ltb a a = false.
Proof. induction a as [|x a IH]; [reflexivity|]. cbn [text_ltb]. rewrite N.ltb_irrefl. exact IH. Qed.

Lemma text_ltb_trans : forall a b c, text_ltb a b = true -> text_ltb b c = true -> text_ltb a c = true.
Proof.
  induction a as [|x a IH]; intros [|y b] [|z c] H1 H2; cbn [text_ltb] in *; try discriminate; try reflexivity.
  destruct (N.ltb_spec x y), (N.ltb_spec y x), (N.ltb_spec y z), (N.ltb_spec z y), (N.ltb_spec x z), (N.ltb_spec z x);
    try discriminate; try reflexivity; try lia.
  assert (x = y) by lia. assert (y = z) by lia. subst. eapply IH; eassumption.
Qed.

Lemma text_ltb_total : forall a b, text_ltb a b = true \/ a = b \/ text_ltb b a = true.
Proof.
  induction a as [|x a IH]; intros [|y b]; cbn [text_ltb]; auto.
  destruct (N.ltb_spec x y); [auto|]. destruct (N.ltb_spec y x); [auto|].
  assert (x = y) by lia. subst. destruct (IH b) as [H1|[->|H1]]; auto.
Qed.

Lemma text_ltb_asym a b : text_ltb a b = true -> text_ltb b a = false.
Proof.
  intros H. destruct (text_ltb b a) eqn:E; [|reflexivity].
  pose proof (text_ltb_trans _ _ _ H E) as C. rewrite text_ltb_irrefl in C. discriminate.
Qed.

Definition lt (a b : text) : Prop := text_ltb a b = true.
Definition le (a b : text) : Prop := text_leb a b = true.

Lemma le_total a b : le a b \/ le b a.
Proof.
  unfold le, text_leb. destruct (text_ltb_total a b) as [H|[->|H]].
  - left. rewrite (text_ltb_asym _ _ H). reflexivity.
  - left. rewrite text_ltb_irrefl. reflexivity.
  - right. rewrite (text_ltb_asym _ _ H). reflexivity.
Qed.

Lemma le_trans a b c : le a b -> le b c -> le a c.
Proof.
  unfold le, text_leb. intros H1 H2. apply negb_true_iff in H1, H2. apply negb_true_iff.
  destruct (text_ltb c a) eqn:E; [|reflexivity].
  destruct (text_ltb_total b c) as [H|[->|H]]; [|congruence|congruence].
  pose proof (text_ltb_trans _ _ _ H E). congruence.
Qed.

Lemma le_antisym a b : le a b -> le b a -> a = b.
Proof.
  unfold le, text_leb. intros H1 H2. apply negb_true_iff in H1, H2.
  destruct (text_ltb_total a b) as [H|[->|H]]; congruence.
Qed.

Lemma insert_perm x l : Permutation (x :: l) (insert x l).
Proof.
  induction l as [|y t IH]; cbn [insert]; [reflexivity|]. destruct (text_leb x y); [reflexivity|].
  rewrite perm_swap. constructor. exact IH.
Qed.

Lemma sort_perm l : Permutation l (sort l).
Proof. induction l as [|x t IH]; cbn [sort fold_right]; [constructor|]. rewrite <- insert_perm. constructor. exact IH. Qed.

Lemma insert_sorted x l : StronglySorted le l -> StronglySorted le (insert x l).
Proof.
  induction 1 as [|y t Ht IH Hy]; cbn [insert]; [repeat constructor|].
  destruct (text_leb x y) eqn:E.
  - constructor; [constructor; assumption|]. constructor; [exact E|].
    eapply Forall_impl; [|exact Hy]. intros z Hz. eapply le_trans; [exact E|exact Hz].
  - constructor; [exact IH|]. 
    assert (Hyx: le y x). { destruct (le_total x y) as [H|H]; [unfold le in H; congruence|exact H]. }
    rewrite <- (insert_perm x t). constructor; assumption.
Qed.

Theorem sort_sorted l : StronglySorted le (sort l).
Proof. induction l as [|x t IH]; cbn [sort fold_right]; [constructor|]. apply insert_sorted. exact IH. Qed.

(* a sorted list is determined by its elements *)
Lemma sorted_perm_eq : forall l1 l2, StronglySorted le l1 -> StronglySorted le l2 -> Permutation l1 l2 -> l1 = l2.
Proof.
  induction l1 as [|x t IH]; intros l2 S1 S2 P.
  - apply Permutation_nil in P. subst. reflexivity.
  - destruct l2 as [|y u]; [apply Permutation_sym, Permutation_nil in P; discriminate|].
    inversion S1 as [|? ? St Hx]; subst. inversion S2 as [|? ? Su Hy]; subst.
    assert (x = y).
    { assert (In x (y :: u)) by (eapply Permutation_in; [exact P|left; reflexivity]).
      assert (In y (x :: t)) by (eapply Permutation_in; [apply Permutation_sym; exact P|left; reflexivity]).
      destruct H as [->|Hxu]; [reflexivity|]. destruct H0 as [->|Hyt]; [reflexivity|].
      rewrite Forall_forall in Hx, Hy. apply le_antisym; auto. }
    subst y. f_equal. apply IH; auto. eapply Permutation_cons_inv. exact P.
Qed.

(* sorting commutes with filtering *)
Lemma filter_sorted p l : StronglySorted le l -> StronglySorted le (filter p l).
Proof.
  induction 1 as [|y t Ht IH Hy]; cbn [filter]; [constructor|]. destruct (p y); [|exact IH].
  constructor; [exact IH|]. rewrite Forall_forall in *. intros z Hz. apply filter_In in Hz. apply Hy. tauto.
Qed.

Lemma filter_perm {A} (p : A -> bool) l1 l2 : Permutation l1 l2 -> Permutation (filter p l1) (filter p l2).
Proof.
  induction 1 as [|x l l' H IH|x y l|l l' l'' H1 IH1 H2 IH2]; cbn [filter].
  - constructor.
  - destruct (p x); [constructor|]; exact IH.
  - destruct (p x), (p y); try reflexivity. apply perm_swap.
  - eapply perm_trans; eassumption.
Qed.

Theorem sort_filter p l : sort (filter p l) = filter p (sort l).
Proof.
  apply sorted_perm_eq; [apply sort_sorted|apply filter_sorted; apply sort_sorted|].
  rewrite <- (sort_perm (filter p l)). apply filter_perm. apply sort_perm.
Qed.

Theorem sort_perm_eq l1 l2 : Permutation l1 l2 -> sort l1 = sort l2.
Proof. intros P. apply sorted_perm_eq; try apply sort_sorted. rewrite <- (sort_perm l1), <- (sort_perm l2). exact P. Qed.
