(* Truncation: a reader that consumes exactly the block u (for every continuation) and fails on every strict
   prefix of u.  Compositional over bind; this is how "reads never go past the end" is proved for C05. *)
From Coq Require Import List NArith Bool Arith Lia.
From PV Require Import Base.Bytes Base.Reader Proofs.BytesFacts Proofs.ReaderFacts.
Import ListNotations.
Open Scope N_scope.

Definition strict_prefix (q u : bytes) : Prop := exists t, t <> [] /\ u = q ++ t.

Definition exact_on {A} (r : reader A) (u : bytes) (a : A) : Prop :=
  (forall t, r (u ++ t) = Some (a, t)) /\ (forall q, strict_prefix q u -> r q = None).

Lemma exact_ret {A} (a : A) : exact_on (ret a) [] a.
Proof.
  split; [reflexivity|]. intros q (t & Ht & E). destruct q; simpl in E; [subst; congruence|discriminate].
Qed.

Lemma exact_bind {A B} (r : reader A) (f : A -> reader B) u1 u2 a b :
  exact_on r u1 a -> exact_on (f a) u2 b -> exact_on (bind r f) (u1 ++ u2) b.
Proof.
  intros [S1 P1] [S2 P2]. split.
  - intros t. unfold bind. rewrite <- app_assoc, S1. apply S2.
  - intros q (t & Ht & Eq). unfold bind.
    apply app_eq_app in Eq. destruct Eq as (k & [[E3 E4]|[E3 E4]]).
    + (* u1 = q ++ k *)
      destruct k as [|k0 k].
      * rewrite app_nil_r in E3. subst q. simpl in E4. subst t.
        rewrite <- (app_nil_r u1) at 1. rewrite S1. apply P2. exists u2. split; auto.
      * rewrite P1; [reflexivity|]. exists (k0 :: k). split; [discriminate|auto].
    + (* q = u1 ++ k, u2 = k ++ t *)
      subst q. rewrite S1. apply P2. exists t. split; auto.
Qed.

Lemma exact_bind_ret {A B} (r : reader A) (g : A -> B) u a :
  exact_on r u a -> exact_on (bind r (fun x => ret (g x))) u (g a).
Proof. intros H. rewrite <- (app_nil_r u). eapply exact_bind; [exact H|apply exact_ret]. Qed.

Lemma exact_get_mem n xs : length xs = n -> n <> O -> exact_on (get_mem n) xs xs.
Proof.
  intros H Hn. split.
  - intros t. apply get_mem_app; assumption.
  - intros q (t & Ht & Eq). unfold get_mem. destruct n; [congruence|].
    assert (length q < S n)%nat. { rewrite <- H, Eq, app_length. destruct t; [congruence|simpl; lia]. }
    replace (Nat.leb (S n) (length q)) with false by (symmetry; apply Nat.leb_gt; lia). reflexivity.
Qed.

Lemma exact_get_memN n xs : N.of_nat (length xs) = n -> n <> 0 -> exact_on (get_memN n) xs xs.
Proof. intros H Hn. unfold get_memN. apply exact_get_mem; lia. Qed.

Lemma exact_get_int n v : n <> O -> v < 256 ^ N.of_nat n -> exact_on (get_int n) (be_bytes n v) v.
Proof.
  intros Hn Hv. unfold get_int.
  rewrite <- (app_nil_r (be_bytes n v)).
  apply (exact_bind (get_mem n) (fun b => ret (be_val b 0)) (be_bytes n v) [] (be_bytes n v) v).
  - apply exact_get_mem; [apply be_bytes_length|assumption].
  - rewrite be_val_be_bytes by assumption. replace (0 * 256 ^ N.of_nat n + v) with v by lia. apply exact_ret.
Qed.

Lemma exact_ext {A} (r r' : reader A) u a : (forall s, r s = r' s) -> exact_on r u a -> exact_on r' u a.
Proof. intros E [S P]. split; intros; rewrite <- E; auto. Qed.

Lemma exact_read_n {A} (P : A -> Prop) (r : reader A) (enc : A -> bytes) :
  (forall a, P a -> exact_on r (enc a) a) ->
  forall l, Forall P l -> exact_on (read_n (length l) r) (flat_map enc l) l.
Proof.
  intros Hr. induction l as [|a t IH]; intros Hf; [apply exact_ret|]. inversion Hf; subst.
  cbn [length read_n flat_map].
  apply exact_bind with (a := a); [apply Hr; assumption|].
  rewrite <- (app_nil_r (flat_map enc t)).
  apply exact_bind with (a := t); [apply IH; assumption|apply exact_ret].
Qed.

(* a strict prefix of u ++ v is a strict prefix of u, or u followed by a strict prefix of v *)
Lemma strict_prefix_app q u v : strict_prefix q (u ++ v) ->
  strict_prefix q u \/ (exists k, q = u ++ k /\ strict_prefix k v).
Proof.
  intros (t & Ht & E). symmetry in E. apply app_eq_app in E. destruct E as (k & [[E1 E2]|[E1 E2]]).
  - right. exists k. split; [assumption|]. exists t. split; auto.
  - destruct k as [|k0 k].
    + right. exists []. rewrite app_nil_r in E1. simpl in E2. subst. split; [rewrite app_nil_r; reflexivity|].
      exists v. split; [assumption|reflexivity].
    + left. exists (k0 :: k). split; [discriminate|auto].
Qed.

Lemma strict_prefix_nil_r q : ~ strict_prefix q [].
Proof. intros (t & Ht & E). destruct q; simpl in E; [subst; congruence|discriminate]. Qed.
