From Coq Require Import List NArith ZArith Bool Arith Lia.
From PV Require Import Base.Bytes Base.Lit Base.Json Base.Utf8 Base.PelTypes
                       Model.Hexdump Model.Parse Model.Render Spec.Encode Spec.DocOf Gen.Tables Spec.PublishedTables
                       Proofs.BytesFacts.
Import ListNotations.
Open Scope N_scope.

(* ---- the tables the code ships are the published ones ---- *)
Lemma tables_agree_headers :
  Gen.Tables.creatorIDs = PublishedTables.creatorIDs /\
  Gen.Tables.subsystemValues = PublishedTables.subsystemValues /\
  Gen.Tables.eventScopeValues = PublishedTables.eventScopeValues /\
  Gen.Tables.eventTypeValues = PublishedTables.eventTypeValues /\
  Gen.Tables.severityValues = PublishedTables.severityValues /\
  Gen.Tables.actionFlagsValues = PublishedTables.actionFlagsValues /\
  Gen.Tables.transmissionStates = PublishedTables.transmissionStates.
Proof. repeat split; vm_compute; reflexivity. Qed.

Lemma tables_agree_sections : Gen.Tables.sectionNames = PublishedTables.sectionNames.
Proof. vm_compute; reflexivity. Qed.

Lemma tables_agree_src :
  Gen.Tables.failingComponentType = PublishedTables.failingComponentType /\
  Gen.Tables.calloutPriorityValues = PublishedTables.calloutPriorityValues /\
  Gen.Tables.SRCType_bmcError = L "BD" /\ Gen.Tables.SRCType_powerError = L "11" /\ Gen.Tables.SRCType_hostbootError = L "BC" /\
  HeaderFlags_virtualProgressSRC = 128 /\ HeaderFlags_i5OSServiceEventBit = 16 /\ HeaderFlags_hypDumpInit = 4 /\
  ErrorStatusFlags_terminateFwErr = 536870912 /\ ErrorStatusFlags_deconfigured = 33554432 /\ ErrorStatusFlags_guarded = 16777216.
Proof. repeat split; vm_compute; reflexivity. Qed.

Lemma lookup_n_assoc tbl k : lookup_n tbl k = assoc_n tbl k.
Proof. induction tbl as [|[k' v] t IH]; simpl; [reflexivity|]. rewrite IH. reflexivity. Qed.
Lemma lookup_t_assoc {V} (tbl : list (text * V)) k : lookup_t tbl k = assoc_t tbl k.
Proof. induction tbl as [|[k' v] t IH]; simpl; [reflexivity|]. rewrite IH. reflexivity. Qed.

Lemma get_n_coded tbl k d : js (get_n tbl k d) = coded tbl k d.
Proof. unfold get_n, coded, js, str. rewrite lookup_n_assoc. reflexivity. Qed.

(* ---- text and number notations ---- *)
Lemma utf8_decode_ascii b : Forall (fun x => x < 128) b -> utf8_decode b = Some b.
Proof.
  induction 1 as [|x t Hx Ht IH]; [reflexivity|]. cbn [utf8_decode].
  assert ((x <? 128) = true) as -> by (apply N.ltb_lt; exact Hx). rewrite IH. reflexivity.
Qed.

Lemma x0_fixed w v : (1 <= w)%nat -> v < 16 ^ N.of_nat w -> js (x0 w v) = hex0x w v.
Proof. intros. unfold x0, hex0x, js, str, hexU. rewrite hex_min_fixed by assumption. reflexivity. Qed.

Lemma hex2L_bcd2 b : b < 256 -> hex2L b = bcd2 b.
Proof. intros. unfold hex2L, bcd2. apply hexL2_byte. assumption. Qed.

Lemma timestamp_bcd t : field 8 t -> js (timestamp t) = bcd_time t.
Proof.
  intros (Hl & Hf). do 9 (destruct t as [|? t]; try discriminate).
  repeat match goal with H : Forall _ (_ :: _) |- _ => inversion H; clear H; subst end.
  unfold timestamp, bcd_time, nth_b. cbn [nth]. rewrite !hex2L_bcd2 by assumption. reflexivity.
Qed.

Lemma land255 v : N.land v 255 = v mod 256.
Proof. change 255 with (N.ones 8). rewrite N.land_ones. reflexivity. Qed.
Lemma shiftr8 v : N.shiftr v 8 = v / 256.
Proof. rewrite N.shiftr_div_pow2. reflexivity. Qed.
Lemma shiftr16 v : N.shiftr v 16 = v / 65536.
Proof. rewrite N.shiftr_div_pow2. reflexivity. Qed.
Lemma hi_byte v : N.shiftr (N.land v 65280) 8 = (v / 256) mod 256.
Proof.
  change 65280 with (N.shiftl 255 8). rewrite N.shiftr_land, N.shiftr_shiftl_l by lia. simpl (8 - 8).
  rewrite N.shiftl_0_r, land255, shiftr8. reflexivity.
Qed.

(* ---- component display ---- *)
Definition se_of (e : env) : spec_env :=
  {| se_comp_name := comp_name e;
     se_error_details := fun ws a => match error_details e ws a with Some l => l | None => [] end |}.

Lemma display_comp_spec e comp c : comp < 65536 ->
  js (display_comp e comp [c]) = component (se_of e) c comp.
Proof.
  intros Hc. unfold display_comp, component, creator_name, creator_subsystem, js, str, se_of. cbn [se_comp_name].
  destruct tables_agree_headers as (-> & _). rewrite lookup_t_assoc.
  assert (Hx: hexU 4 comp = hex_fixed hexdigU 4 comp) by (apply hex_min_fixed; [lia|exact Hc]).
  rewrite !land255, !shiftr8, Hx.
  assert (comp / 256 < 256) by (apply N.div_lt_upper_bound; lia).
  rewrite (N.mod_small (comp / 256) 256) by assumption.
  destruct (assoc_t PublishedTables.creatorIDs [c]) as [n|]; [|reflexivity].
  destruct (text_eqb n (L "PHYP")); reflexivity.
Qed.

Lemma base_fields_spec e h c key : wf_hdr h ->
  base_fields e h [c] key = common (se_of e) c h key.
Proof.
  intros (_ & _ & Hc). unfold base_fields, common. rewrite display_comp_spec by exact Hc. reflexivity.
Qed.

(* ---- C02: the five header-type sections ---- *)
Theorem render_ph_spec e p n : wf_ph p n ->
  render_ph e p = Some ([ph_creator p], doc_ph (se_of e) p).
Proof.
  intros (Hh & Hl & Hc & Hm & Hcr & H0 & H1 & Hcnt & Hn & Ho & Hv & Hp & He).
  unfold render_ph. cbn [utf8_decode]. assert ((ph_creator p <? 128) = true) as -> by (apply N.ltb_lt; exact Hcr).
  cbn [option_map]. f_equal. f_equal. unfold doc_ph.
  rewrite base_fields_spec by assumption. f_equal.
  rewrite !timestamp_bcd by assumption.
  rewrite (x0_fixed 8 (ph_plid p)), (x0_fixed 8 (ph_eid p)) by (try lia; assumption).
  unfold creator_name, creator_subsystem. destruct tables_agree_headers as (-> & _). rewrite lookup_t_assoc.
  reflexivity.
Qed.

Lemma action_flags_spec flags : action_flags flags = flags_on flags.
Proof.
  unfold action_flags, flags_on. destruct tables_agree_headers as (_ & _ & _ & _ & _ & -> & _).
  f_equal. apply filter_ext. intros [k v]. cbn [fst]. rewrite N.land_comm. reflexivity.
Qed.

Theorem render_uh_spec e c u : wf_uh u -> render_uh e [c] u = doc_uh (se_of e) c u.
Proof.
  intros (Hh & _). unfold render_uh, doc_uh. rewrite base_fields_spec by assumption. f_equal.
  rewrite !get_n_coded, action_flags_spec, land255, hi_byte.
  destruct tables_agree_headers as (_ & -> & -> & -> & -> & _ & ->). reflexivity.
Qed.

Ltac ascii_dec := repeat match goal with
  | H : ascii_field _ ?b |- context[utf8_decode ?b] => rewrite (utf8_decode_ascii b (proj2 H))
  end.

Theorem render_eh_spec e h c x : wf_hdr h -> wf_eh x -> render_eh e h [c] x = Some (doc_eh (se_of e) c h x).
Proof.
  intros Hh (A1 & A2 & A3 & A4 & Hr & Ht & _ & _ & _ & Hs & A5).
  unfold render_eh, doc_eh. ascii_dec. rewrite base_fields_spec by assumption.
  rewrite timestamp_bcd by assumption. reflexivity.
Qed.

Theorem render_mt_spec e h c x : wf_hdr h -> wf_mt x -> render_mt e h [c] x = Some (doc_mt (se_of e) c h x).
Proof.
  intros Hh (A1 & A2). unfold render_mt, doc_mt. ascii_dec. rewrite base_fields_spec by assumption. reflexivity.
Qed.

Theorem render_lp_spec e h c x : wf_hdr h -> wf_lp x -> render_lp e h [c] x = Some (doc_lp (se_of e) c h x).
Proof.
  intros Hh (H1 & H2 & H3 & H4 & A5 & L6 & F6 & Hp).
  unfold render_lp, doc_lp. ascii_dec. rewrite base_fields_spec by assumption.
  rewrite (x0_fixed 4 (l_part x)), (x0_fixed 2 (l_namelen x)), (x0_fixed 2 (l_count x)), (x0_fixed 8 (l_logid x)) by (try lia; assumption).
  f_equal. f_equal. f_equal.
  destruct (l_count x =? 0) eqn:E.
  - apply N.eqb_eq in E. rewrite E in L6. destruct (l_targets x); [reflexivity|discriminate].
  - apply N.eqb_neq in E. destruct (l_targets x) as [|t ts] eqn:Et; [simpl in L6; lia|].
    unfold jstrs. rewrite map_map. f_equal. f_equal. f_equal.
    rewrite <- Et in *. clear Et L6. induction F6 as [|a l Ha Hl IH]; [reflexivity|]. cbn [map].
    f_equal; [|exact IH].
    unfold x0, hex0x, str, hexU. rewrite hex_min_fixed by (try lia; exact Ha). reflexivity.
Qed.
