(* The model's dispatch (Model/Cli.v) tests the modes in the published order (Spec/PublishedLayouts.mode_order, proved equal to
   the order extracted from the source text of main() in Props/C11.v): the first option present decides, nothing after it runs. *)
From Coq Require Import List NArith Bool Arith.
From PV Require Import Base.Bytes Base.Lit Model.Cli Spec.PublishedLayouts.
Import ListNotations.
Open Scope N_scope.

Inductive mode_tag := MFile | MJson | MId | MBmcId | MPlid | MSrc | MSrcExclude | MList | MCount | MAll | MDelete | MDeleteAll.

Definition tag_table : list (text * mode_tag) :=
  [(L "file", MFile); (L "json", MJson); (L "pelID", MId); (L "bmcID", MBmcId); (L "plID", MPlid); (L "src", MSrc);
   (L "src_exclude_file", MSrcExclude); (L "list", MList); (L "show_pel_count", MCount); (L "all", MAll);
   (L "IDToDelete", MDelete); (L "deleteAll", MDeleteAll)].
Definition tag_of (opt : text) : option mode_tag :=
  match List.find (fun p => text_eqb (fst p) opt) tag_table with Some p => Some (snd p) | None => None end.

(* is the option given (argparse: a flag that is set, or a non-empty argument)?  and what it then does *)
Definition chosen (a : args_t) (m : mode_tag) : option action :=
  match m with
  | MFile => option_map (fun f => AFile f (a_clean a)) (nonempty_opt (a_file a))
  | MJson => if a_json a then Some (AJson (a_clean a)) else None
  | MId => option_map AId (nonempty_opt (a_id a))
  | MBmcId => option_map ABmcId (nonempty_opt (a_bmcid a))
  | MPlid => option_map APlid (nonempty_opt (a_plid a))
  | MSrc => option_map ASrc (nonempty_opt (a_src a))
  | MSrcExclude => option_map ASrcExclude (nonempty_opt (a_src_exclude a))
  | MList => if a_list a then Some AList else None
  | MCount => if a_count a then Some ACount else None
  | MAll => if a_all a then Some AAll else None
  | MDelete => option_map ADelete (nonempty_opt (a_delete a))
  | MDeleteAll => if a_delete_all a then Some ADeleteAll else None
  end.

Fixpoint first_chosen (a : args_t) (order : list mode_tag) : action :=
  match order with
  | [] => ANone
  | m :: t => match chosen a m with Some act => act | None => first_chosen a t end
  end.

Definition published_tags : list (option mode_tag) := map (fun p => tag_of (fst p)) mode_order.

Lemma published_tags_value :
  published_tags = map Some [MFile; MJson; MId; MBmcId; MPlid; MSrc; MSrcExclude; MList; MCount; MAll; MDelete; MDeleteAll].
Proof. vm_compute. reflexivity. Qed.

Theorem dispatch_follows_order a :
  dispatch a = first_chosen a [MFile; MJson; MId; MBmcId; MPlid; MSrc; MSrcExclude; MList; MCount; MAll; MDelete; MDeleteAll].
Proof.
  unfold dispatch. cbn [first_chosen chosen].
  destruct (nonempty_opt (a_file a)); cbn [option_map]; [reflexivity|].
  destruct (a_json a); [reflexivity|].
  destruct (nonempty_opt (a_id a)); cbn [option_map]; [reflexivity|].
  destruct (nonempty_opt (a_bmcid a)); cbn [option_map]; [reflexivity|].
  destruct (nonempty_opt (a_plid a)); cbn [option_map]; [reflexivity|].
  destruct (nonempty_opt (a_src a)); cbn [option_map]; [reflexivity|].
  destruct (nonempty_opt (a_src_exclude a)); cbn [option_map]; [reflexivity|].
  destruct (a_list a); [reflexivity|]. destruct (a_count a); [reflexivity|]. destruct (a_all a); [reflexivity|].
  destruct (nonempty_opt (a_delete a)); cbn [option_map]; [reflexivity|].
  destruct (a_delete_all a); reflexivity.
Qed.

(* a delete action is only ever chosen when no mode ranked before it is present *)
Theorem delete_only_when_alone a i : dispatch a = ADelete i \/ dispatch a = ADeleteAll ->
  nonempty_opt (a_file a) = None /\ a_json a = false /\ nonempty_opt (a_id a) = None /\ nonempty_opt (a_bmcid a) = None /\
  nonempty_opt (a_plid a) = None /\ nonempty_opt (a_src a) = None /\ nonempty_opt (a_src_exclude a) = None /\
  a_list a = false /\ a_count a = false /\ a_all a = false.
Proof.
  unfold dispatch.
  destruct (nonempty_opt (a_file a)); [intros [H|H]; discriminate|].
  destruct (a_json a); [intros [H|H]; discriminate|].
  destruct (nonempty_opt (a_id a)); [intros [H|H]; discriminate|].
  destruct (nonempty_opt (a_bmcid a)); [intros [H|H]; discriminate|].
  destruct (nonempty_opt (a_plid a)); [intros [H|H]; discriminate|].
  destruct (nonempty_opt (a_src a)); [intros [H|H]; discriminate|].
  destruct (nonempty_opt (a_src_exclude a)); [intros [H|H]; discriminate|].
  destruct (a_list a); [intros [H|H]; discriminate|]. destruct (a_count a); [intros [H|H]; discriminate|].
  destruct (a_all a); [intros [H|H]; discriminate|]. intros _. repeat split; reflexivity.
Qed.
