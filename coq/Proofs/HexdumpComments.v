(* Dump lines are never comment lines: for every permitted layout and every offset a line of [hexdump_gen] begins with a
   hexadecimal digit, so the comment filter keeps the whole dump, and a default-format dump still parses to the original
   bytes with comment and blank lines put anywhere between its lines (the two clauses of C13 joined). *)
From Coq Require Import List NArith Bool Arith Lia.
From PV Require Import Base.Bytes Base.Lit Model.Hexdump Spec.DumpFormats Proofs.BytesFacts Proofs.HexdumpFacts
                       Proofs.HexdumpRoundtrip.
Import ListNotations.
Open Scope N_scope.

Lemma hex_not_nl c : is_hex c = true -> is_nl c = false.
Proof.
  intros H. unfold is_nl. destruct (N.eqb_spec c nl) as [->|]; [|reflexivity].
  vm_compute in H. discriminate H.
Qed.

Lemma hexU_head w v : (1 <= w)%nat -> exists c r, hexU w v = c :: r /\ is_hex c = true.
Proof.
  intros Hw. unfold hexU, hex_min.
  pose proof (hex_fixed_all_hexU (Nat.max w (hex_digits v)) v) as HF.
  destruct (Nat.max w (hex_digits v)) as [|k] eqn:E; [lia|].
  destruct (hex_fixed hexdigU (S k) v) as [|c r] eqn:E2.
  - exfalso. cbn [hex_fixed] in E2. apply app_eq_nil in E2. destruct E2 as [_ E2]. discriminate E2.
  - exists c, r. split; [reflexivity|]. inversion HF; assumption.
Qed.

Lemma starts_hex_not_comment c r : is_hex c = true -> is_comment_line (c :: r) = false.
Proof.
  intros H. unfold is_comment_line.
  destruct (rstrip_keep is_nl [] c r (hex_not_nl c H)) as (r' & E). cbn [app] in E. rewrite E, H. reflexivity.
Qed.

Lemma dump_line_not_comment bpl bpc off l : is_comment_line (dump_line bpl bpc off l) = false.
Proof.
  unfold dump_line. destruct (hexU_head 8 off) as (c & r & -> & H); [lia|].
  cbn [app]. apply starts_hex_not_comment. exact H.
Qed.

Lemma dump_lines_not_comment bpl bpc : forall ls off,
  Forall (fun t => is_comment_line t = false) (dump_lines bpl bpc off ls).
Proof.
  induction ls as [|l t IH]; intros off; cbn [dump_lines]; constructor; [apply dump_line_not_comment|apply IH].
Qed.

Theorem hexdump_gen_no_comment_lines bpl bpc d ls : hexdump_gen bpl bpc d = Some ls ->
  filter (fun t => negb (is_comment_line t)) ls = ls.
Proof.
  unfold hexdump_gen. destruct (_ && _)%bool; [|discriminate]. intros [= <-].
  pose proof (dump_lines_not_comment bpl bpc (chunk bpl d) 0) as HF.
  induction HF as [|t r Ht _ IH]; [reflexivity|]. cbn [filter]. rewrite Ht. cbn [negb]. f_equal. exact IH.
Qed.

Lemma hexdump_is_gen d : hexdump_gen 16 4 d = Some (hexdump d).
Proof. reflexivity. Qed.

(* comment and blank lines anywhere between the lines of a default-format dump: still exactly the original bytes *)
Theorem hexdump_roundtrip_among_comments d ls :
  Forall (fun b => b < 256) d -> N.of_nat (length d) + 16 <= 2 ^ 32 ->
  filter (fun t => negb (is_comment_line t)) ls = hexdump d ->
  parse default_fmt ls = d.
Proof.
  intros Hd Hn Hf. rewrite (parse_ignores_comments default_fmt ls).
  - rewrite Hf. apply hexdump_roundtrip; assumption.
  - let f := eval vm_compute in default_fmt in change default_fmt with f.
    eexists; eexists; split; [reflexivity|]. first [left; reflexivity | right; reflexivity].
Qed.

(* the hypothesis is met by the dump itself and by the dump with a comment line before every line of it *)
Fixpoint interleave (c : text) (ls : list text) : list text :=
  match ls with [] => [c] | t :: r => c :: t :: interleave c r end.

Theorem interleave_filters_back c ls : is_comment_line c = true ->
  Forall (fun t => is_comment_line t = false) ls ->
  filter (fun t => negb (is_comment_line t)) (interleave c ls) = ls.
Proof.
  intros Hc HF. induction HF as [|t r Ht _ IH]; cbn [interleave filter]; rewrite Hc; cbn [negb]; [reflexivity|].
  rewrite Ht. cbn [negb]. f_equal. exact IH.
Qed.

Theorem hexdump_roundtrip_interleaved c d : is_comment_line c = true ->
  Forall (fun b => b < 256) d -> N.of_nat (length d) + 16 <= 2 ^ 32 ->
  parse default_fmt (interleave c (hexdump d)) = d.
Proof.
  intros Hc Hd Hn. apply hexdump_roundtrip_among_comments; [assumption|assumption|].
  apply interleave_filters_back; [assumption|]. apply dump_lines_not_comment.
Qed.
