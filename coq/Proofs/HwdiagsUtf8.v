(* Strict UTF-8: decoding an encoding gives the text back; NUL padding is stripped exactly (used by C20_ffdc). *)
From Coq Require Import List NArith ZArith Bool Arith Lia ZifyBool ZifyNat.
From PV Require Import Base.Bytes Base.Lit Base.Json Base.Utf8 Proofs.BytesFacts.
Import ListNotations.
Ltac Zify.zify_post_hook ::= Z.to_euclidean_division_equations.
Open Scope N_scope.

Ltac split_ifs :=
  repeat match goal with
  | |- context[if ?c then _ else _] => let E := fresh "E" in destruct c eqn:E; try lia
  end.

Lemma Some_inj {A} (a b : A) : Some a = Some b -> a = b.
Proof. congruence. Qed.

Lemma utf8_cp_roundtrip c bs rest : utf8_encode_cp c = Some bs ->
  utf8_decode (bs ++ rest) = option_map (cons c) (utf8_decode rest).
Proof.
  unfold utf8_encode_cp, inr.
  destruct (c <? 128) eqn:E1.
  { intros H; apply Some_inj in H; subst bs. cbn [app utf8_decode]. rewrite E1. reflexivity. }
  destruct (c <? 2048) eqn:E2.
  { intros H; apply Some_inj in H; subst bs. remember (192 + c / 64) as b0. remember (128 + c mod 64) as b1.
    cbn [app utf8_decode]. unfold inr, is_cont. split_ifs.
    all: f_equal; f_equal; lia. }
  destruct (c <? 65536) eqn:E3.
  { destruct ((55296 <=? c) && (c <=? 57343)) eqn:E4; [discriminate|].
    intros H; apply Some_inj in H; subst bs. remember (224 + c / 4096) as b0. remember (128 + (c / 64) mod 64) as b1. remember (128 + c mod 64) as b2.
    cbn [app utf8_decode]. unfold inr, is_cont.
    destruct (b0 =? 224) eqn:F1; destruct (b0 =? 237) eqn:F2; try lia; split_ifs.
    all: f_equal; f_equal; lia. }
  destruct (c <? 1114112) eqn:E4; [|discriminate].
  intros H; apply Some_inj in H; subst bs. remember (240 + c / 262144) as b0. remember (128 + (c / 4096) mod 64) as b1.
  remember (128 + (c / 64) mod 64) as b2. remember (128 + c mod 64) as b3.
  cbn [app utf8_decode]. unfold inr, is_cont.
  destruct (b0 =? 240) eqn:F1; destruct (b0 =? 244) eqn:F2; try lia; split_ifs.
  all: f_equal; f_equal; lia.
Qed.

Lemma utf8_roundtrip : forall t b, utf8_encode t = Some b -> utf8_decode b = Some t.
Proof.
  induction t as [|c t IH]; intros b H; simpl in H.
  - apply Some_inj in H. subst b. reflexivity.
  - destruct (utf8_encode_cp c) as [a|] eqn:Ec; [|discriminate].
    destruct (utf8_encode t) as [b'|] eqn:Et; [|discriminate].
    apply Some_inj in H. subst b. rewrite (utf8_cp_roundtrip c a b' Ec), (IH b' eq_refl). reflexivity.
Qed.

(* does the list end with a zero? *)
Fixpoint ends_nul (l : list N) : bool :=
  match l with
  | [] => false
  | x :: t => match t with [] => x =? 0 | _ => ends_nul t end
  end.

Lemma ends_nul_app a b : b <> [] -> ends_nul (a ++ b) = ends_nul b.
Proof.
  intros Hb. induction a as [|x a IH]; [reflexivity|].
  change ((x :: a) ++ b) with (x :: (a ++ b)). cbn [ends_nul].
  destruct (a ++ b) eqn:E; [|exact IH].
  apply app_eq_nil in E. destruct E. contradiction.
Qed.

Lemma utf8_cp_nonempty c bs : utf8_encode_cp c = Some bs -> bs <> [].
Proof. unfold utf8_encode_cp. split_ifs; intros H; try discriminate; apply Some_inj in H; subst; discriminate. Qed.

Lemma utf8_cp_ends_nul c bs : utf8_encode_cp c = Some bs -> ends_nul bs = (c =? 0).
Proof.
  unfold utf8_encode_cp, inr.
  destruct (c <? 128) eqn:E1; [intros H; apply Some_inj in H; subst; reflexivity|].
  destruct (c <? 2048) eqn:E2; [intros H; apply Some_inj in H; subst; cbn [ends_nul]; lia|].
  destruct (c <? 65536) eqn:E3.
  { destruct ((55296 <=? c) && (c <=? 57343)); [discriminate|]. intros H; apply Some_inj in H; subst; cbn [ends_nul]; lia. }
  destruct (c <? 1114112); [|discriminate]. intros H; apply Some_inj in H; subst; cbn [ends_nul]; lia.
Qed.

Lemma utf8_encode_nonempty c t b : utf8_encode (c :: t) = Some b -> b <> [].
Proof.
  simpl. destruct (utf8_encode_cp c) as [a|] eqn:Ec; [|discriminate]. destruct (utf8_encode t); [|discriminate].
  intros H. apply Some_inj in H. subst b. apply utf8_cp_nonempty in Ec. destruct a; [contradiction|discriminate].
Qed.

Lemma utf8_encode_ends_nul : forall t b, utf8_encode t = Some b -> ends_nul b = ends_nul t.
Proof.
  induction t as [|c t IH]; intros b H.
  - simpl in H. apply Some_inj in H. subst b. reflexivity.
  - pose proof H as H0. simpl in H. destruct (utf8_encode_cp c) as [a|] eqn:Ec; [|discriminate].
    destruct (utf8_encode t) as [b'|] eqn:Et; [|discriminate]. apply Some_inj in H. subst b.
    destruct t as [|c' t'].
    + simpl in Et. apply Some_inj in Et. subst b'. rewrite app_nil_r. cbn [ends_nul]. apply utf8_cp_ends_nul. assumption.
    + rewrite ends_nul_app by (apply (utf8_encode_nonempty c' t'); assumption).
      rewrite (IH b' eq_refl). reflexivity.
Qed.

Lemma lstrip_repeat_nul k l : lstrip_by is_nul (repeat 0 k ++ l) = lstrip_by is_nul l.
Proof. induction k; [reflexivity|]. simpl. exact IHk. Qed.

Lemma rev_repeat {A} (x : A) k : rev (repeat x k) = repeat x k.
Proof. induction k; [reflexivity|]. simpl. rewrite IHk. clear IHk. induction k; [reflexivity|]. simpl. rewrite IHk. reflexivity. Qed.

Lemma lstrip_rev_no_nul : forall b, ends_nul b = false -> lstrip_by is_nul (rev b) = rev b.
Proof.
  induction b as [|x t IH]; intros H; [reflexivity|].
  cbn [ends_nul] in H. destruct t as [|y t'].
  - simpl. unfold is_nul. rewrite H. reflexivity.
  - specialize (IH H). change (rev (x :: y :: t')) with (rev (y :: t') ++ [x]).
    destruct (rev (y :: t')) as [|z r] eqn:E.
    + apply (f_equal (@length N)) in E. rewrite rev_length in E. discriminate.
    + cbn [app lstrip_by] in *. destruct (is_nul z); [|reflexivity].
      exfalso. apply (f_equal (@length N)) in IH. cbn [length] in IH.
      assert (G : forall l, (length (lstrip_by is_nul l) <= length l)%nat).
      { induction l as [|q l IHl]; simpl; [lia|]. destruct (is_nul q); simpl; lia. }
      specialize (G r). lia.
Qed.

Theorem rstrip_nul_padding b k : ends_nul b = false -> rstrip_nul (b ++ repeat 0 k) = b.
Proof.
  intros H. unfold rstrip_nul. rewrite rstrip_by_rev. rewrite rev_app_distr, rev_repeat, lstrip_repeat_nul.
  rewrite lstrip_rev_no_nul by assumption. apply rev_involutive.
Qed.
