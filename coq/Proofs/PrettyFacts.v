From Coq Require Import List NArith Lia Bool Arith.
From PV Require Import Base.Bytes Base.Lit Model.Pretty Proofs.BytesFacts.
Import ListNotations.
Open Scope N_scope.

Lemma run_app s a b : run s (a ++ b) = match run s a with Some s' => run s' b | None => None end.
Proof. revert s; induction a; intros; simpl; auto. destruct (step s a); auto. Qed.

(* lexing the scanned body from InStr: either dies, or ends in Out having pushed one string token *)
Lemma run_body : forall l body rest acc ts, scan_body l = Some (body, rest) ->
  exists r, run (InStr acc, ts) (body ++ [q]) = r /\
    (r = None \/ exists s, r = Some (Out, TStr s :: ts)) /\ l = body ++ q :: rest.
Proof.
  fix IH 1. intros l body rest acc ts H. destruct l as [|c t]; [discriminate|]. cbn [scan_body] in H.
  destruct (c =? q) eqn:Eq.
  - inversion H; subst. apply N.eqb_eq in Eq; subst. eexists; split; [reflexivity|]. split; [|reflexivity].
    right. simpl. eexists. reflexivity.
  - destruct (c =? bs) eqn:Eb.
    + destruct t as [|d t']; [discriminate|]. destruct (scan_body t') as [[b r]|] eqn:E; [|discriminate]. inversion H; subst.
      destruct (c <? 32) eqn:L0. { apply N.eqb_eq in Eb. subst. discriminate. }
      simpl app. cbn [run step]. rewrite Eq, Eb.
      destruct (d <? 32) eqn:Ld.
      * eexists; split; [reflexivity|]. cbn [run step]. rewrite Ld. split; [left; reflexivity|].
        destruct (IH t' b rest acc ts E) as (_ & _ & _ & ->). reflexivity.
      * destruct (IH t' b rest (d :: bs :: acc) ts E) as (r' & Hr & Hd & ->). eexists; split; [reflexivity|]. split; [|reflexivity].
        cbn [run step]. rewrite Ld. apply N.eqb_eq in Eb. subst c. rewrite Hr. exact Hd.
    + destruct (scan_body t) as [[b r]|] eqn:E; [|discriminate]. inversion H; subst.
      simpl app. cbn [run step]. rewrite Eq, Eb.
      destruct (c <? 32) eqn:Lc.
      * eexists; split; [reflexivity|]. split; [left; reflexivity|]. destruct (IH t b rest acc ts E) as (_ & _ & _ & ->). reflexivity.
      * destruct (IH t b rest (c :: acc) ts E) as (r' & Hr & Hd & ->). eexists; split; [reflexivity|]. split; [|reflexivity].
        rewrite Hr. exact Hd.
Qed.

Lemma skip_sp_spec l : forall a b, skip_sp l = (a, b) -> l = a ++ b /\ Forall (fun c => c = spc) a.
Proof.
  induction l as [|c t IH]; intros a b H; simpl in H. { inversion H; auto. }
  destruct (c =? spc) eqn:E.
  - destruct (skip_sp t) as [a' b'] eqn:E'. inversion H; subst. destruct (IH _ _ eq_refl) as [-> F].
    apply N.eqb_eq in E. subst. split; [reflexivity|constructor; auto].
  - inversion H; subst. auto.
Qed.

Lemma run_spaces ts a : Forall (fun c => c = spc) a -> run (Out, ts) a = Some (Out, ts).
Proof. induction 1; simpl; auto. subst. simpl. auto. Qed.

(* one line: the inserted spaces fall right after the colon token, where the lexer skips whitespace *)
Theorem pp_line_run w line ts : run (Out, ts) (pp_line w line) = run (Out, ts) line.
Proof.
  unfold pp_line. destruct (skip_sp line) as [ind r] eqn:Es. destruct r as [|c r1]; [reflexivity|].
  destruct (c =? q) eqn:Eq; [|reflexivity]. destruct (scan_body r1) as [[body [|c2 tail]]|] eqn:Eb; try reflexivity.
  destruct (c2 =? colon) eqn:Ec; [|reflexivity]. destruct (has_brace line); [reflexivity|].
  apply skip_sp_spec in Es. destruct Es as [-> Fs]. apply N.eqb_eq in Eq, Ec. subst c c2.
  generalize (w - (length ind + 1 + length body))%nat as k. intros k.
  destruct (run_body r1 body (colon :: tail) [] ts Eb) as (r & Hr & Hd & ->).
  rewrite !run_app, run_spaces by auto.
  assert (E1: q :: body ++ q :: colon :: repeat spc k ++ tail = [q] ++ (body ++ [q]) ++ colon :: repeat spc k ++ tail)
    by (simpl; rewrite <- app_assoc; reflexivity).
  assert (E2: q :: body ++ q :: colon :: tail = [q] ++ (body ++ [q]) ++ colon :: tail)
    by (simpl; rewrite <- app_assoc; reflexivity).
  rewrite E1, E2.
  rewrite !run_app. cbn [run step]. change (is_ws q) with false. change (q =? q) with true. cbn iota.
  rewrite 2 (run_app _ (body ++ [q])), Hr.
  destruct Hd as [->|(s & ->)]; [reflexivity|].
  cbn [run step]. change (is_ws colon) with false. change (colon =? q) with false. change (is_punct colon) with true. cbn iota.
  rewrite run_app, run_spaces; [reflexivity|]. apply Forall_forall. intros x Hx. apply repeat_spec in Hx. exact Hx.
Qed.

(* a newline ends an atom, is skipped outside tokens and kills the lexer inside a string: afterwards the mode is Out *)
Lemma step_nl_out s s' : step s nl = Some s' -> fst s' = Out.
Proof.
  destruct s as [[|acc|acc|acc] ts]; cbn [step]; change (is_ws nl) with true; change (nl =? q) with false; change (nl =? bs) with false;
    change (nl <? 32) with true; cbv iota; intros H; inversion H; reflexivity.
Qed.

Lemma run_lines w : forall lines ts,
  run (Out, ts) (join [nl] (map (pp_line w) lines)) = run (Out, ts) (join [nl] lines).
Proof.
  induction lines as [|l rest IH]; intros ts; [reflexivity|].
  destruct rest as [|l2 rest].
  - cbn [map join]. apply pp_line_run.
  - cbn [map join] in *. rewrite !run_app, pp_line_run.
    destruct (run (Out, ts) l) as [s1|]; [|reflexivity].
    cbn [app run]. destruct (step s1 nl) as [[m ts2]|] eqn:Es; [|reflexivity].
    apply step_nl_out in Es. cbn [fst] in Es. subst m. apply IH.
Qed.

Lemma split_on_nonempty u cur : split_on nl u cur <> [].
Proof. revert cur; induction u as [|c t IH]; intros cur; cbn [split_on]; [discriminate|]. destruct (c =? nl); [discriminate|apply IH]. Qed.

Lemma join_split_on : forall u cur, join [nl] (split_on nl u cur) = rev cur ++ u.
Proof.
  induction u as [|c t IH]; intros cur; cbn [split_on].
  - cbn [join]. rewrite app_nil_r. reflexivity.
  - destruct (c =? nl) eqn:E.
    + apply N.eqb_eq in E. subst c. specialize (IH []).
      destruct (split_on nl t []) as [|x xs] eqn:Ex; [exfalso; exact (split_on_nonempty t [] Ex)|].
      cbn [join]. cbn [join] in IH. rewrite IH. reflexivity.
    + rewrite IH. cbn [rev]. rewrite <- app_assoc. reflexivity.
Qed.

Lemma join_split s : join [nl] (split nl s) = s.
Proof. unfold split. apply (join_split_on s []). Qed.

(* C06: alignment never changes the token sequence - for EVERY text and every width *)
Theorem pretty_print_run w s ts : run (Out, ts) (pretty_print w s) = run (Out, ts) s.
Proof. unfold pretty_print. rewrite run_lines, join_split. reflexivity. Qed.

Theorem pretty_print_tokens w s : tokens (pretty_print w s) = tokens s.
Proof. unfold tokens. rewrite pretty_print_run. reflexivity. Qed.

(* ---- framing of the --all-pels output:  "[" newline, documents separated by "," newline, newline "]" ---- *)
Definition all_output (docs : list text) : text :=
  [91; nl] ++ join [44; nl] docs ++ (match docs with [] => [] | _ => [nl] end) ++ [93; nl].

(* the lexer never looks at tokens already produced *)
Lemma step_frame m ts c base : step (m, ts ++ base) c =
  match step (m, ts) c with Some (m', ts') => Some (m', ts' ++ base) | None => None end.
Proof.
  destruct m as [|acc|acc|acc]; cbn [step];
    repeat match goal with |- context[if ?b then _ else _] => destruct b end; reflexivity.
Qed.
Lemma run_frame : forall l m ts base, run (m, ts ++ base) l =
  match run (m, ts) l with Some (m', ts') => Some (m', ts' ++ base) | None => None end.
Proof.
  induction l as [|c t IH]; intros m ts base; cbn [run]; [reflexivity|].
  rewrite step_frame. destruct (step (m, ts) c) as [[m' ts']|]; [apply IH|reflexivity].
Qed.

Definition complete (d : text) (td : list tok) : Prop := run (Out, []) d = Some (Out, rev td).

Lemma run_complete d td ts : complete d td -> run (Out, ts) d = Some (Out, rev td ++ ts).
Proof. intros H. pose proof (run_frame d Out [] ts) as F. cbn [app] in F. rewrite F, H. reflexivity. Qed.

Fixpoint sep_tokens (l : list (list tok)) : list tok :=
  match l with [] => [] | [x] => x | x :: t => x ++ TP 44 :: sep_tokens t end.

Lemma join_cons2 (sep d d2 : text) rest : join sep (d :: d2 :: rest) = d ++ sep ++ join sep (d2 :: rest).
Proof. reflexivity. Qed.
Lemma run_comma_nl ts : run (Out, ts) [44; nl] = Some (Out, TP 44 :: ts).
Proof. reflexivity. Qed.
Lemma sep_tokens_cons2 a b l : sep_tokens (a :: b :: l) = a ++ TP 44 :: sep_tokens (b :: l).
Proof. reflexivity. Qed.

Lemma run_docs : forall docs tds ts, Forall2 complete docs tds -> docs <> [] ->
  run (Out, ts) (join [44; nl] docs) = Some (Out, rev (sep_tokens tds) ++ ts).
Proof.
  induction docs as [|d rest IH]; intros tds ts H Hn; [congruence|].
  inversion H as [|? td ? trest Hd Hrest]; subst.
  destruct rest as [|d2 rest].
  - inversion Hrest; subst. cbn [join sep_tokens]. apply run_complete. assumption.
  - inversion Hrest as [|? td2 ? trest2 Hd2 Hrest2]; subst.
    rewrite join_cons2, run_app, (run_complete d td ts Hd), run_app, run_comma_nl.
    rewrite (IH (td2 :: trest2) (TP 44 :: rev td ++ ts) Hrest ltac:(discriminate)).
    rewrite sep_tokens_cons2. f_equal. f_equal.
    rewrite rev_app_distr. cbn [rev]. rewrite <- !app_assoc. reflexivity.
Qed.

Lemma run_open ts : run (Out, ts) [91; nl] = Some (Out, TP 91 :: ts).
Proof. reflexivity. Qed.
Lemma run_close ts : run (Out, ts) [93; nl] = Some (Out, TP 93 :: ts).
Proof. reflexivity. Qed.
Lemma run_nl ts : run (Out, ts) [nl] = Some (Out, ts).
Proof. reflexivity. Qed.

Theorem all_output_tokens docs tds : Forall2 complete docs tds ->
  tokens (all_output docs) = Some ([TP 91] ++ sep_tokens tds ++ [TP 93]).
Proof.
  intros H. unfold tokens, all_output. rewrite run_app, run_open.
  destruct docs as [|d rest].
  - inversion H; subst. cbn [join app]. rewrite run_close. reflexivity.
  - rewrite run_app, (run_docs (d :: rest) tds [TP 91] H ltac:(discriminate)), run_app, run_nl, run_close.
    rewrite frev_rev. cbn [rev]. rewrite rev_app_distr, rev_involutive. cbn [rev app]. rewrite <- ?app_assoc. reflexivity.
Qed.
