From Coq Require Import List NArith ZArith Bool Arith Lia.
From PV Require Import Base.Bytes Base.Lit Base.Json Base.Utf8 Base.PelTypes
                       Model.Hexdump Model.Parse Model.Render Spec.Encode Spec.DocOf Gen.Tables Spec.PublishedTables
                       Proofs.BytesFacts Proofs.RenderFacts.
Import ListNotations.
Open Scope N_scope.

(* what the specification is told about the parser modules of an environment *)
Definition sp_of (e : env) : spec_plugins :=
  {| sp_proc_desc := fun creator proc =>
       match co_import e (co_module creator) with
       | IFound f => match f proc with PRetJ j => Some j | _ => None end
       | _ => None
       end;
     sp_src_details := fun creator refcode words =>
       match src_import e (src_module creator) with
       | IFound f => match f refcode words with PRetJ JNull => None | PRetJ j => Some j | _ => None end
       | _ => None
       end;
     sp_ud := fun creator comp sub ver d =>
       match ud_import e (ud_module creator comp) with
       | IFound f => match f sub ver d with PRetJ (JObj l) => Some l | PRetJ j => Some [(L "Data", j)] | _ => None end
       | _ => None
       end |}.

(* parser modules whose answers are structured values (json.dumps of something) or failures, never free text *)
Definition structured (e : env) : Prop :=
  (forall m f a, co_import e m = IFound f -> forall t, f a <> PRetT t) /\
  (forall m f a b, src_import e m = IFound f -> (forall t, f a b <> PRetT t) /\ f a b <> PNonStr).

Lemma last_the_fru l : subs_shape l -> last_fru l = the_fru l.
Proof. destruct l as [|[f1|p1|m1] [|[f2|p2|m2] [|[f3|p3|m3] [|? ?]]]]; cbn; intros; try contradiction; reflexivity. Qed.
Lemma last_the_pce l : subs_shape l -> last_pce l = the_pce l.
Proof. destruct l as [|[f1|p1|m1] [|[f2|p2|m2] [|[f3|p3|m3] [|? ?]]]]; cbn; intros; try contradiction; reflexivity. Qed.
Lemma last_the_mru l : subs_shape l -> last_mru l = the_mru l.
Proof. destruct l as [|[f1|p1|m1] [|[f2|p2|m2] [|[f3|p3|m3] [|? ?]]]]; cbn; intros; try contradiction; reflexivity. Qed.

Lemma the_fru_in l f : the_fru l = Some f -> In (SubFru f) l.
Proof. destruct l as [|[x|x|x] t]; cbn; intros H; try discriminate. inversion H; subst. left; reflexivity. Qed.
Lemma the_pce_in l p : the_pce l = Some p -> In (SubPce p) l.
Proof.
  destruct l as [|[x|x|x] [|[y|y|y] t]]; cbn; intros H; try discriminate; inversion H; subst;
    first [left; reflexivity | right; left; reflexivity].
Qed.
Lemma the_mru_in l m : the_mru l = Some m -> In (SubMru m) l.
Proof.
  destruct l as [|[x|x|x] [|[y|y|y] [|[z|z|z] t]]]; cbn; intros H; try discriminate; inversion H; subst;
    first [left; reflexivity | right; left; reflexivity | right; right; left; reflexivity].
Qed.

Lemma nonempty_match {A} (l : text) (k : text -> list A) :
  (if Nat.ltb 0 (length l) then k l else []) = match l with [] => [] | n :: t => k (n :: t) end.
Proof. destruct l; reflexivity. Qed.

Lemma mru_ids_spec m : wf_mru m ->
  mru_ids m = join (L ",") (map (fun pi => hex_fixed hexdigU 8 (snd pi)) (m_list m)).
Proof.
  intros (_ & _ & _ & _ & Hf & _). unfold mru_ids. f_equal.
  induction Hf as [|a l [_ Ha] Hl IH]; [reflexivity|]. cbn [map]. f_equal; [|exact IH].
  unfold hexU. apply hex_min_fixed; [lia|exact Ha].
Qed.

Lemma proc_desc_spec e creator proc : structured e ->
  proc_desc e creator proc = match sp_proc_desc (sp_of e) creator proc with Some d => [(L "Description", d)] | None => [] end.
Proof.
  intros [Hs _]. unfold proc_desc, sp_of. cbn [sp_proc_desc].
  destruct (co_import e (co_module creator)) as [|msg|f] eqn:Ei; try reflexivity.
  destruct (f proc) eqn:Ef; try reflexivity. exfalso. apply (Hs _ _ proc Ei t). exact Ef.
Qed.

Theorem render_callout_spec e c creator co : structured e -> wf_callout co ->
  option_map JObj (render_callout e c creator co) = Some (doc_callout (sp_of e) (allow_plugins c) creator co).
Proof.
  intros Hst (H1 & H2 & Hl & Ha & Ws & Sh & Hs & H8).
  unfold render_callout, doc_callout. rewrite (utf8_decode_ascii _ Ha).
  rewrite last_the_fru, last_the_pce, last_the_mru by assumption.
  assert (Hfru: forall f, the_fru (c_subs co) = Some f -> wf_fru f).
  { intros f Hf. apply the_fru_in in Hf. rewrite Forall_forall in Ws. exact (Ws _ Hf). }
  assert (Hpce: forall p, the_pce (c_subs co) = Some p -> wf_pce p).
  { intros p Hp. apply the_pce_in in Hp. rewrite Forall_forall in Ws. exact (Ws _ Hp). }
  assert (Hmru: forall m, the_mru (c_subs co) = Some m -> wf_mru m).
  { intros m Hm. apply the_mru_in in Hm. rewrite Forall_forall in Ws. exact (Ws _ Hm). }
  destruct tables_agree_src as (-> & -> & _).
  destruct (the_fru (c_subs co)) as [f|] eqn:Ef.
  - destruct (Hfru f eq_refl) as (_ & _ & (_ & A1) & (_ & A2) & (_ & A3)).
    rewrite (utf8_decode_ascii _ A1), (utf8_decode_ascii _ A2), (utf8_decode_ascii _ A3).
    rewrite !get_n_coded. rewrite (nonempty_match (strip_nul (c_loc co)) (fun loc => [(L "Location Code", js loc)])).
    rewrite proc_desc_spec by assumption.
    destruct (the_pce (c_subs co)) as [p|] eqn:Ep.
    + destruct (Hpce p eq_refl) as (_ & _ & (_ & B1) & (_ & B2) & _ & B3 & _).
      rewrite (utf8_decode_ascii _ B1), (utf8_decode_ascii _ B2), (utf8_decode_ascii _ B3).
      rewrite (nonempty_match (strip_nul (p_mtm p)) (fun mt => [(L "PCE MTMS", js (mt ++ L "_" ++ strip_nul (p_sn p)))])).
      rewrite (nonempty_match (strip_nul (p_name p)) (fun nm => [(L "PCE Name", js nm)])).
      destruct (the_mru (c_subs co)) as [m|] eqn:Em; [rewrite (mru_ids_spec m (Hmru m eq_refl))|]; reflexivity.
    + destruct (the_mru (c_subs co)) as [m|] eqn:Em; [rewrite (mru_ids_spec m (Hmru m eq_refl))|]; reflexivity.
  - destruct (the_pce (c_subs co)) as [p|] eqn:Ep.
    + destruct (Hpce p eq_refl) as (_ & _ & (_ & B1) & (_ & B2) & _ & B3 & _).
      rewrite (utf8_decode_ascii _ B1), (utf8_decode_ascii _ B2), (utf8_decode_ascii _ B3).
      rewrite (nonempty_match (strip_nul (p_mtm p)) (fun mt => [(L "PCE MTMS", js (mt ++ L "_" ++ strip_nul (p_sn p)))])).
      rewrite (nonempty_match (strip_nul (p_name p)) (fun nm => [(L "PCE Name", js nm)])).
      destruct (the_mru (c_subs co)) as [m|] eqn:Em; [rewrite (mru_ids_spec m (Hmru m eq_refl))|]; reflexivity.
    + destruct (the_mru (c_subs co)) as [m|] eqn:Em; [rewrite (mru_ids_spec m (Hmru m eq_refl))|]; reflexivity.
Qed.

Lemma sub_decodes_wf s : wf_sub s -> sub_decodes s = true.
Proof.
  destruct s as [f|p|m]; cbn [wf_sub sub_decodes].
  - intros (_ & _ & (_ & A1) & (_ & A2) & (_ & A3)).
    rewrite (utf8_decode_ascii _ A1), (utf8_decode_ascii _ A2), (utf8_decode_ascii _ A3). reflexivity.
  - intros (_ & _ & (_ & B1) & (_ & B2) & _ & B3 & _).
    rewrite (utf8_decode_ascii _ B1), (utf8_decode_ascii _ B2), (utf8_decode_ascii _ B3). reflexivity.
  - reflexivity.
Qed.

Theorem render_callouts_spec e c creator cs : structured e -> wf_callouts cs ->
  render_callouts e c creator cs =
    Some [(L "Callout Count", num (N.of_nat (length (cs_list cs))));
          (L "Callouts", JArr (map (doc_callout (sp_of e) (allow_plugins c) creator) (cs_list cs)))].
Proof.
  intros Hst (_ & _ & _ & Wl & _). unfold render_callouts.
  assert (forallb (fun co => forallb sub_decodes (c_subs co)) (cs_list cs) = true) as ->.
  { apply forallb_forall. intros co Hin. apply forallb_forall. intros s Hs.
    rewrite Forall_forall in Wl. destruct (Wl co Hin) as (_ & _ & _ & _ & Ws & _).
    rewrite Forall_forall in Ws. apply sub_decodes_wf. exact (Ws s Hs). }
  assert (exists l, all_some (map (render_callout e c creator) (cs_list cs)) = Some l /\
                    map JObj l = map (doc_callout (sp_of e) (allow_plugins c) creator) (cs_list cs)) as (l & -> & <-).
  { induction Wl as [|co t Wc Wt IH]; [exists []; split; reflexivity|].
    destruct IH as (l & Hl & Hm). pose proof (render_callout_spec e c creator co Hst Wc) as Hc.
    destruct (render_callout e c creator co) as [r|] eqn:Er; [|discriminate]. cbn [option_map] in Hc. inversion Hc as [Hc'].
    exists (r :: l). cbn [map all_some]. rewrite Er, Hl. split; [reflexivity|]. cbn [map]. rewrite Hc', Hm. reflexivity. }
  reflexivity.
Qed.

Lemma numbered_words_spec ws : forall i, Forall lt32 ws ->
  numbered_words i (map (fun w => hexU 8 w) ws) = hex_words i ws.
Proof.
  induction ws as [|w t IH]; intros i Hf; [reflexivity|]. inversion Hf; subst. cbn [map numbered_words hex_words].
  rewrite IH by assumption. unfold js, str, hexU. rewrite hex_min_fixed by (try lia; assumption). reflexivity.
Qed.

Lemma Forall_firstn {A} (P : A -> Prop) n l : Forall P l -> Forall P (firstn n l).
Proof. revert l; induction n; intros l H; [constructor|]. destruct l; [constructor|]. inversion H; subst. constructor; auto. Qed.

Lemma map_hexU8 ws : Forall lt32 ws -> map (fun w => hexU 8 w) ws = map (hex_fixed hexdigU 8) ws.
Proof. induction 1; [reflexivity|]. cbn [map]. f_equal; [|assumption]. unfold hexU. apply hex_min_fixed; [lia|assumption]. Qed.

Lemma src_details_spec e creator ascii ws : structured e ->
  src_details e creator ascii ws =
    Some (match sp_src_details (sp_of e) creator ascii (pad8 ws) with Some d => [(L "SRC Details", d)] | None => [] end).
Proof.
  intros [_ Hs]. unfold src_details, sp_of. cbn [sp_src_details].
  destruct (src_import e (src_module creator)) as [|msg|f] eqn:Ei; try reflexivity.
  destruct (Hs _ f ascii (pad8 ws) Ei) as [Ht Hn].
  destruct (f ascii (pad8 ws)) as [j| | | | | |] eqn:Ef; try reflexivity.
  - destruct j; reflexivity.
  - exfalso. exact (Ht t eq_refl).
  - exfalso. exact (Hn eq_refl).
Qed.

Lemma nth_word_bound ws i : Forall lt32 ws -> nth i ws 0 < 4294967296.
Proof.
  intros H. destruct (nth_in_or_default i ws 0) as [Hin | ->]; [|lia].
  rewrite Forall_forall in H. exact (H _ Hin).
Qed.

(* C03: the SRC section shows exactly what the specification says *)
Theorem render_src_spec e c h creator s : structured e -> wf_hdr h -> wf_src s ->
  error_details e (s_words s) (s_ascii s) <> None ->        (* the registry entry for this SRC, if any, is well-formed: the C03 registry theorems *)
  render_src e c h [creator] s = Some (doc_src (se_of e) (sp_of e) (allow_plugins c) creator h s).
Proof.
  intros Hst Hh (H1 & H2 & H3 & Hw & H5 & H6 & Lw & Fw & (La & Aa) & Hc) Hed.
  unfold render_src, doc_src. rewrite (utf8_decode_ascii _ Aa).
  cbn [se_of se_error_details]. cbv zeta.
  destruct (error_details e (s_words s) (s_ascii s)) as [ed|] eqn:Eed; [|congruence]. clear Hed.
  assert (Hedm: (if text_eqb (firstn 2 (s_ascii s)) Gen.Tables.SRCType_bmcError || text_eqb (firstn 2 (s_ascii s)) Gen.Tables.SRCType_powerError || text_eqb (firstn 2 (s_ascii s)) Gen.Tables.SRCType_hostbootError
                 then Some ed else Some []) =
                Some (if text_eqb (firstn 2 (s_ascii s)) (L "BD") || text_eqb (firstn 2 (s_ascii s)) (L "11") || text_eqb (firstn 2 (s_ascii s)) (L "BC") then ed else []))
    by (destruct (_ || _ || _); reflexivity).
  rewrite Hedm. clear Hedm.
  rewrite base_fields_spec by assumption.
  unfold src_hexwords. rewrite numbered_words_spec by (apply Forall_firstn; assumption).
  rewrite (x0_fixed 2 (N.land (nth 0 (s_words s) 0) 255)) by (try lia; rewrite land255; apply N.mod_lt; lia).
  rewrite (x0_fixed 2 (s_wcount s)) by (try lia; simpl; lia).
  rewrite land255, shiftr16.
  assert (Hcc: hexU 4 (nth 1 (s_words s) 0 / 65536) = hex_fixed hexdigU 4 (nth 1 (s_words s) 0 / 65536)).
  { unfold hexU. apply hex_min_fixed; [lia|]. apply N.div_lt_upper_bound; [lia|]. pose proof (nth_word_bound (s_words s) 1 Fw). simpl. lia. }
  rewrite Hcc. rewrite (hex2L_bcd2 (s_version s)) by exact H1.
  assert (Hco: match s_callouts s with
               | Some cs => option_map (fun l => [(L "Callout Section", JObj l)]) (render_callouts e c [creator] cs)
               | None => Some []
               end = Some match s_callouts s with
                          | None => []
                          | Some cs => [(L "Callout Section",
                              JObj [(L "Callout Count", num (N.of_nat (length (cs_list cs))));
                                    (L "Callouts", JArr (map (doc_callout (sp_of e) (allow_plugins c) [creator]) (cs_list cs)))])]
                          end).
  { destruct (s_callouts s) as [cs|]; [|reflexivity]. destruct Hc as [_ Wc].
    rewrite render_callouts_spec by assumption. reflexivity. }
  rewrite Hco. clear Hco.
  destruct (allow_plugins c).
  - rewrite src_details_spec by assumption. unfold pad8. rewrite map_hexU8 by (apply Forall_firstn; assumption).
    rewrite map_length. unfold js, str, tf, truefalse, has, bit.
    change Gen.Tables.SRCType_bmcError with (L "BD"). change Gen.Tables.SRCType_powerError with (L "11").
    change Gen.Tables.SRCType_hostbootError with (L "BC").
    destruct (text_eqb (firstn 2 (s_ascii s)) (L "BD")), (text_eqb (firstn 2 (s_ascii s)) (L "11")), (text_eqb (firstn 2 (s_ascii s)) (L "BC"));
      cbn [orb]; rewrite <- ?app_assoc; reflexivity.
  - unfold js, str, tf, truefalse, has, bit.
    change Gen.Tables.SRCType_bmcError with (L "BD"). change Gen.Tables.SRCType_powerError with (L "11").
    change Gen.Tables.SRCType_hostbootError with (L "BC").
    destruct (text_eqb (firstn 2 (s_ascii s)) (L "BD")), (text_eqb (firstn 2 (s_ascii s)) (L "11")), (text_eqb (firstn 2 (s_ascii s)) (L "BC"));
      cbn [orb]; rewrite <- ?app_assoc, ?app_nil_r; reflexivity.
Qed.
