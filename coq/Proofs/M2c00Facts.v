(* Lemmas about the model of the I/O-drawer user-data plugin (Model/M2c00.v), for Props/C18m.v. *)
From Coq Require Import List NArith Bool Arith Lia.
From PV Require Import Base.Bytes Base.Lit Base.Json Model.Hexdump Model.Hlog Model.Ilog Model.Trace Model.M2c00
                       Spec.IoDrawer Gen.Tables Proofs.HexdumpRoundtrip Proofs.TraceFacts Proofs.HlogFacts.
From PV Require Gen.IoTables.
Import ListNotations.
Open Scope N_scope.

Lemma m2_consts_agree :
  m2c00_SUB_TYPE_HLOG = 72 /\ m2c00_SUB_TYPE_ILOG = 73 /\ m2c00_SUB_TYPE_TRACE = 84.
Proof. repeat split; reflexivity. Qed.

(* the drawer types of the working tree: versions, and that Gen/IoTables.v lists the same drawer types in the same
   order as io_drawer.drawer_type.DRAWER_TYPES (Gen/Tables.v) *)
Lemma shipped_versions :
  map dr_version shipped_drawers = [1; 2] /\
  map dr_version shipped_drawers = map (fun d => snd (snd (snd d))) Gen.Tables.DRAWER_TYPES /\
  map (fun d => fst d) Gen.Tables.DRAWER_TYPES = [L "mex"; L "nimitz"].
Proof. repeat split; reflexivity. Qed.

Lemma shipped_get_drawer :
  (exists t, get_drawer shipped_drawers 1 = Some t /\ dr_hlog t = Gen.IoTables.mex_hlog /\
             dr_pte t = Gen.IoTables.mex_pte /\ dr_strings t = map to_tstring Gen.IoTables.mex_strings) /\
  (exists t, get_drawer shipped_drawers 2 = Some t /\ dr_hlog t = Gen.IoTables.nimitz_hlog /\
             dr_pte t = Gen.IoTables.nimitz_pte /\ dr_strings t = map to_tstring Gen.IoTables.nimitz_strings) /\
  (forall ver, ver <> 1 -> ver <> 2 -> get_drawer shipped_drawers ver = None).
Proof.
  split; [|split].
  - eexists. repeat split; reflexivity.
  - eexists. repeat split; reflexivity.
  - intros ver H1 H2. unfold get_drawer, shipped_drawers, Gen.IoTables.io_drawers. cbn [map List.find drawer_of dr_version fst].
    change Gen.IoTables.mex_version with 1. change Gen.IoTables.nimitz_version with 2.
    destruct (N.eqb_spec 1 ver); [congruence|]. destruct (N.eqb_spec 2 ver); [congruence|]. reflexivity.
Qed.

(* every shipped history-log field is 1 or 2 bytes wide, every shipped PTE pattern is inside the modelled pattern language *)
Lemma shipped_tables_in_scope :
  Forall (fun t => Forall (fun f : hfield => (1 <= snd f <= 2)%nat) (dr_hlog t) /\ table_supported (dr_pte t) = true)
         shipped_drawers.
Proof.
  assert (H: forallb (fun t => forallb (fun f : hfield => Nat.leb 1 (snd f) && Nat.leb (snd f) 2) (dr_hlog t)
                               && table_supported (dr_pte t)) shipped_drawers = true) by (vm_compute; reflexivity).
  rewrite forallb_forall in H. apply Forall_forall. intros t Ht. specialize (H t Ht).
  apply andb_true_iff in H. destruct H as [H1 H2]. split; [|exact H2].
  rewrite forallb_forall in H1. apply Forall_forall. intros f Hf. specialize (H1 f Hf).
  apply andb_true_iff in H1. destruct H1 as [A B]. apply Nat.leb_le in A, B. lia.
Qed.

(* ---------- always a JSON object ---------- *)
Theorem m2_object drawers sub ver d :
  m2c00 drawers sub ver d = M2Unsupported \/ exists l, m2c00 drawers sub ver d = M2Ok (JObj l).
Proof. unfold m2c00. destruct (choose drawers sub ver d); [right|right|left]; eauto. Qed.

(* ---------- routing ---------- *)
Lemma choose_hlog drawers ver d : choose drawers 72 ver d = parse_hlog_ud drawers ver d.
Proof. reflexivity. Qed.
Lemma choose_ilog drawers ver d : choose drawers 73 ver d = parse_ilog_ud drawers ver d.
Proof. reflexivity. Qed.
Lemma choose_trace drawers ver d : choose drawers 84 ver d = parse_trace_ud drawers ver d.
Proof. reflexivity. Qed.
Lemma choose_other drawers sub ver d : sub <> 72 -> sub <> 73 -> sub <> 84 -> choose drawers sub ver d = parse_unsupported_ud d.
Proof.
  intros H1 H2 H3. unfold choose. change m2c00_SUB_TYPE_TRACE with 84. change m2c00_SUB_TYPE_ILOG with 73.
  change m2c00_SUB_TYPE_HLOG with 72.
  destruct (N.eqb_spec sub 84); [congruence|]. destruct (N.eqb_spec sub 73); [congruence|].
  destruct (N.eqb_spec sub 72); [congruence|]. reflexivity.
Qed.

Lemma with_drawer_found drawers ver key d f t : d <> [] -> get_drawer drawers ver = Some t ->
  with_drawer drawers ver key d f = f t.
Proof. intros Hd Hg. unfold with_drawer. rewrite Hg. destruct d; [congruence|reflexivity]. Qed.
Lemma with_drawer_missing drawers ver key d f : d <> [] -> get_drawer drawers ver = None ->
  with_drawer drawers ver key d f = InRaise (bad_version_msg ver).
Proof. intros Hd Hg. unfold with_drawer. rewrite Hg. destruct d; [congruence|reflexivity]. Qed.

Theorem m2_routing drawers ver d t : d <> [] -> get_drawer drawers ver = Some t ->
  m2c00 drawers 72 ver d =
    match parse_hlog (dr_hlog t) d with
    | Some ls => M2Ok (JObj [(L "History Log", jstrs ls)])
    | None => M2Ok (JObj [(L "Error", JStr (L "Unable to format data: must provide a positive, non-zero integer"));
                          (L "Data", jstrs (hexdump d))])
    end /\
  m2c00 drawers 73 ver d =
    match parse_ilog (dr_pte t) d with
    | IOk ls => M2Ok (JObj [(L "ILOG", jstrs ls)])
    | _ => M2Unsupported
    end /\
  m2c00 drawers 84 ver d =
    if trace_supported (dr_strings t) d then M2Ok (JObj [(L "Trace", jstrs (parse_trace (dr_strings t) d))])
    else M2Unsupported.
Proof.
  intros Hd Hg. unfold m2c00. rewrite choose_hlog, choose_ilog, choose_trace.
  unfold parse_hlog_ud, parse_ilog_ud, parse_trace_ud. rewrite !(with_drawer_found _ _ _ _ _ t Hd Hg).
  split; [|split].
  - destruct (parse_hlog _ _); reflexivity.
  - destruct (parse_ilog _ _); reflexivity.
  - rewrite trace_fast_eq. cbn [fst snd]. destruct (trace_supported _ _); reflexivity.
Qed.

(* a field table whose widths are all at least 1 never trips the assertion: the history log is always shown (C16) *)
Theorem m2_hlog_shown drawers ver d t : d <> [] -> get_drawer drawers ver = Some t ->
  Forall (fun f : hfield => (1 <= snd f)%nat) (dr_hlog t) -> Forall (fun b => b < 256) d ->
  m2c00 drawers 72 ver d =
    M2Ok (JObj [(L "History Log",
                 jstrs ([L "Hex Dump"; L "--------"] ++ hexdump d
                        ++ [ [] ; L "Non-Zero Field Values"; L "---------------------"]
                        ++ nonzero_lines (take_fitting (dr_hlog t) d)))]).
Proof.
  intros Hd Hg Hf Hb. rewrite (proj1 (m2_routing drawers ver d t Hd Hg)).
  rewrite (parse_hlog_spec (dr_hlog t) d Hf Hb). reflexivity.
Qed.

Theorem m2_empty drawers sub ver :
  m2c00 drawers sub ver [] =
    M2Ok (JObj [((if sub =? 84 then L "Trace" else if sub =? 73 then L "ILOG" else if sub =? 72 then L "History Log"
                  else L "Data"), JArr [])]).
Proof.
  unfold m2c00, choose. change m2c00_SUB_TYPE_TRACE with 84. change m2c00_SUB_TYPE_ILOG with 73.
  change m2c00_SUB_TYPE_HLOG with 72.
  destruct (sub =? 84); [reflexivity|]. destruct (sub =? 73); [reflexivity|]. destruct (sub =? 72); reflexivity.
Qed.

Theorem m2_other drawers sub ver d : sub <> 72 -> sub <> 73 -> sub <> 84 ->
  m2c00 drawers sub ver d = M2Ok (JObj [(L "Data", jstrs (hexdump d))]).
Proof.
  intros H1 H2 H3. unfold m2c00. rewrite (choose_other drawers sub ver d H1 H2 H3). unfold parse_unsupported_ud.
  destruct d; reflexivity.
Qed.

Theorem m2_bad_version drawers sub ver d : sub = 72 \/ sub = 73 \/ sub = 84 -> d <> [] -> get_drawer drawers ver = None ->
  m2c00 drawers sub ver d =
    M2Ok (JObj [(L "Error", JStr (L "Unable to format data: Unexpected user data section version: " ++ dec ver));
                (L "Data", jstrs (hexdump d))]) /\
  (Forall (fun b => b < 256) d -> N.of_nat (length d) + 16 <= 2 ^ 32 -> parse default_fmt (hexdump d) = d).
Proof.
  intros Hs Hd Hg. split.
  - unfold m2c00. destruct Hs as [-> | [-> | ->]].
    + rewrite choose_hlog. unfold parse_hlog_ud. rewrite (with_drawer_missing _ _ _ _ _ Hd Hg). reflexivity.
    + rewrite choose_ilog. unfold parse_ilog_ud. rewrite (with_drawer_missing _ _ _ _ _ Hd Hg). reflexivity.
    + rewrite choose_trace. unfold parse_trace_ud. rewrite (with_drawer_missing _ _ _ _ _ Hd Hg). reflexivity.
  - apply hexdump_roundtrip.
Qed.

(* the same for the shipped tables: versions other than 1 and 2 are the bad ones *)
Theorem m2_shipped_bad_version sub ver d : sub = 72 \/ sub = 73 \/ sub = 84 -> d <> [] -> ver <> 1 -> ver <> 2 ->
  m2c00_shipped sub ver d =
    M2Ok (JObj [(L "Error", JStr (L "Unable to format data: Unexpected user data section version: " ++ dec ver));
                (L "Data", jstrs (hexdump d))]).
Proof.
  intros Hs Hd H1 H2. apply m2_bad_version; try assumption. apply shipped_get_drawer; assumption.
Qed.

(* non-vacuity, on the shipped tables (the two ILOG entries and the binary trace entry of the repository's tests) *)
Lemma m2_example :
  m2c00_shipped 73 1 [138;223; 15;25; 1;0;0;222;   141;71; 16;36; 1;4;0;0] =
    M2Ok (JObj [(L "ILOG", jstrs [L "hh:mm:ss seq  pppppppp description";
                                  L "-------- ---- -------- ------------------------------------";
                                  L " 9:52:31 0F19 010000DE Begin power on, node type = 0xDE";
                                  L "10:02:47 1024 01040000 Power on complete"])]) /\
  m2c00_shipped 72 2 [0; 7] =
    M2Ok (JObj [(L "History Log", jstrs [L "Hex Dump"; L "--------";
                                         L "00000000     0007                                       ..              "; [];
                                         L "Non-Zero Field Values"; L "---------------------";
                                         L "hl_net_block_crc_failures: 0x07"])]) /\
  m2c00_shipped 84 3 [1] =
    M2Ok (JObj [(L "Error", JStr (L "Unable to format data: Unexpected user data section version: 3"));
                (L "Data", jstrs [L "00000000     01                                         .               "])]) /\
  m2c00_shipped 1 9 [65; 66] =
    M2Ok (JObj [(L "Data", jstrs [L "00000000     4142                                       AB              "])]).
Proof. vm_compute. repeat split; reflexivity. Qed.
