From Coq Require Import List NArith ZArith Bool Arith Lia Sorting.Sorted Sorting.Permutation.
From PV Require Import Base.Bytes Base.Lit Base.Json Base.TextOrder Model.Cli Proofs.BytesFacts Proofs.TextOrderFacts.
Import ListNotations.
Open Scope N_scope.

Lemma filter_rev {A} (p : A -> bool) l : filter p (rev l) = rev (filter p l).
Proof.
  induction l as [|x t IH]; [reflexivity|]. cbn [rev filter]. rewrite filter_app, IH. cbn [filter].
  destruct (p x); [reflexivity|rewrite app_nil_r; reflexivity].
Qed.

Section Modes.
  Variable d : decoders.
  Variable content : text -> bytes.

  (* the three partial decoders accept the same files (true for directories of well-formed PELs: see C08_wellformed) *)
  Definition agree (names : list text) : Prop :=
    forall n, In n names ->
      is_got (d_count d (content n)) = is_got (d_summary d (content n)) /\
      is_got (d_summary d (content n)) = is_got (d_full d (content n)).

  Lemma file_list_incl ext r names n : In n (file_list ext r names) -> In n names.
  Proof.
    unfold file_list. intros H. destruct r; [apply in_rev in H|];
      (eapply Permutation_in in H; [|apply Permutation_sym, sort_perm]); apply filter_In in H; tauto.
  Qed.

  Theorem list_all_same c names : agree names -> list_names d c content names = all_names d c content names.
  Proof.
    intros Ha. unfold list_names, all_names. apply filter_ext_in. intros n Hn.
    apply file_list_incl in Hn. destruct (Ha n Hn) as [_ H]. exact H.
  Qed.

  Theorem count_list_same c names : agree names -> c_rev c = false ->
    count_names d c content names = list_names d c content names.
  Proof.
    intros Ha Hr. unfold count_names, list_names. rewrite Hr. apply filter_ext_in. intros n Hn.
    apply file_list_incl in Hn. destruct (Ha n Hn) as [H _]. exact H.
  Qed.

  (* --reverse presents exactly the reverse sequence *)
  Theorem reverse_is_rev ext hexm names :
    all_names d {| c_ext := ext; c_rev := true; c_hex := hexm |} content names =
    rev (all_names d {| c_ext := ext; c_rev := false; c_hex := hexm |} content names) /\
    list_names d {| c_ext := ext; c_rev := true; c_hex := hexm |} content names =
    rev (list_names d {| c_ext := ext; c_rev := false; c_hex := hexm |} content names).
  Proof. unfold all_names, list_names, file_list. cbn [c_ext c_rev]. rewrite !filter_rev. split; reflexivity. Qed.

  (* the number reported by --show-pel-count is the number of --list entries and of --all-pels documents *)
  Theorem count_is_length c names : agree names ->
    mode_count d c content names = OutCount (length (all_names d c content names)) /\
    length (list_names d c content names) = length (all_names d c content names).
  Proof.
    intros Ha. rewrite (list_all_same c names Ha). split; [|reflexivity]. unfold mode_count. f_equal.
    unfold count_names, all_names, file_list.
    assert (E: forall l, (forall n, In n l -> In n names) ->
               filter (fun n => is_got (d_count d (content n))) l = filter (fun n => is_got (d_full d (content n))) l).
    { intros l Hl. apply filter_ext_in. intros n Hn. destruct (Ha n (Hl n Hn)) as [H1 H2]. congruence. }
    destruct (c_rev c).
    - rewrite filter_rev, rev_length. f_equal. apply E. intros n Hn. eapply (file_list_incl (c_ext c) false). exact Hn.
    - f_equal. apply E. intros n Hn. eapply (file_list_incl (c_ext c) false). exact Hn.
  Qed.

  (* ascending file-name order *)
  Theorem ascending ext hexm names :
    StronglySorted le (all_names d {| c_ext := ext; c_rev := false; c_hex := hexm |} content names) /\
    StronglySorted le (list_names d {| c_ext := ext; c_rev := false; c_hex := hexm |} content names).
  Proof. unfold all_names, list_names, file_list. cbn [c_ext c_rev]. split; apply filter_sorted; apply sort_sorted. Qed.

  (* --extension restricts every mode to the files with that extension *)
  Lemma filter_true {A} (l : list A) : filter (fun _ => true) l = l.
  Proof. induction l as [|x t IH]; [reflexivity|]. cbn [filter]. rewrite IH. reflexivity. Qed.

  Theorem extension_restricts e r names : file_list (Some e) r names = file_list None r (filter (ext_ok (Some e)) names).
  Proof.
    unfold file_list. replace (filter (ext_ok None) (filter (ext_ok (Some e)) names)) with (filter (ext_ok (Some e)) names); [reflexivity|].
    symmetry. apply filter_true.
  Qed.
  Lemma text_eqb_true a b : text_eqb a b = true -> a = b.
  Proof.
    revert b; induction a as [|x a IH]; destruct b as [|y b]; simpl; intros H; try discriminate; [reflexivity|].
    apply andb_prop in H. destruct H as [H1 H2]. apply N.eqb_eq in H1. f_equal; auto.
  Qed.

  Theorem extension_only e r names n : In n (file_list (Some e) r names) -> e <> [] -> splitext_ext n = e.
  Proof.
    intros H He.
    assert (H0: In n (filter (ext_ok (Some e)) names)).
    { unfold file_list in H. destruct r; [apply in_rev in H|];
        (eapply Permutation_in; [apply Permutation_sym, sort_perm|exact H]). }
    apply filter_In in H0. destruct H0 as [_ H0]. cbn [ext_ok] in H0. destruct e as [|x e]; [congruence|].
    apply text_eqb_true in H0. symmetry. exact H0.
  Qed.

  (* ---- C09: files the mode cannot decode are invisible ---- *)
  Theorem junk_invisible (p : text -> bool) ext r names good junk :
    Permutation names (good ++ junk) -> (forall j, In j junk -> p j = false) ->
    filter p (file_list ext r names) = filter p (file_list ext r good).
  Proof.
    intros P Hj. unfold file_list.
    assert (E: filter p (sort (filter (ext_ok ext) names)) = filter p (sort (filter (ext_ok ext) good))).
    { rewrite <- !sort_filter. apply sort_perm_eq.
      eapply perm_trans; [apply filter_perm, filter_perm; exact P|]. rewrite !filter_app.
      assert (filter p (filter (ext_ok ext) junk) = []) as ->; [|rewrite app_nil_r; reflexivity].
      clear P. induction junk as [|x t IH]; [reflexivity|]. cbn [filter]. destruct (ext_ok ext x); cbn [filter].
      - rewrite (Hj x (or_introl eq_refl)). apply IH. intros j Hin. apply Hj. right. exact Hin.
      - apply IH. intros j Hin. apply Hj. right. exact Hin. }
    destruct r; [rewrite !filter_rev, E|rewrite E]; reflexivity.
  Qed.
End Modes.

(* stdout of the three modes is a function of the selected names only *)
Theorem junk_invisible_modes d content c names good junk :
  Permutation names (good ++ junk) ->
  (forall j, In j junk -> is_got (d_count d (content j)) = false /\ is_got (d_summary d (content j)) = false /\ is_got (d_full d (content j)) = false) ->
  mode_count d c content names = mode_count d c content good /\
  mode_list d c content names = mode_list d c content good /\
  mode_all d c content names = mode_all d c content good.
Proof.
  intros P Hj. unfold mode_count, mode_list, mode_all, count_names, list_names, all_names.
  rewrite (junk_invisible (fun n => is_got (d_count d (content n))) (c_ext c) false names good junk P) by (intros j H; apply Hj; exact H).
  rewrite (junk_invisible (fun n => is_got (d_summary d (content n))) (c_ext c) (c_rev c) names good junk P) by (intros j H; apply Hj; exact H).
  rewrite (junk_invisible (fun n => is_got (d_full d (content n))) (c_ext c) (c_rev c) names good junk P) by (intros j H; apply Hj; exact H).
  repeat split; reflexivity.
Qed.

(* entries that cannot be opened are invisible too, together with any other junk *)
Theorem unreadable_invisible_modes d oc c names good junk :
  Permutation names (good ++ junk) ->
  (forall j, In j junk -> oc j = None \/
     (is_got (d_count d (content_of oc j)) = false /\ is_got (d_summary d (content_of oc j)) = false /\ is_got (d_full d (content_of oc j)) = false)) ->
  mode_count_o d c oc names = mode_count_o d c oc good /\
  mode_list_o d c oc names = mode_list_o d c oc good /\
  mode_all_o d c oc names = mode_all_o d c oc good.
Proof.
  intros P Hj. unfold mode_count_o, mode_list_o, mode_all_o.
  apply (junk_invisible_modes d (content_of oc) c (filter (readable oc) names) (filter (readable oc) good) (filter (readable oc) junk)).
  - rewrite <- filter_app. apply filter_perm. exact P.
  - intros j Hin. apply filter_In in Hin. destruct Hin as [Hin Hr]. destruct (Hj j Hin) as [Hn|H]; [|exact H].
    unfold readable in Hr. rewrite Hn in Hr. discriminate.
Qed.

(* a directory holding, besides its PELs, only entries that cannot be opened: the output is that of the PELs alone *)
Corollary only_unreadable_added d oc c good gone : (forall j, In j gone -> oc j = None) ->
  mode_count_o d c oc (good ++ gone) = mode_count_o d c oc good /\
  mode_list_o d c oc (good ++ gone) = mode_list_o d c oc good /\
  mode_all_o d c oc (good ++ gone) = mode_all_o d c oc good.
Proof. intros H. apply unreadable_invisible_modes with (junk := gone); [apply Permutation_refl|]. intros j Hj. left. apply H. exact Hj. Qed.

(* ---- C11: effects ---- *)
Theorem delete_removes_at_most_one i walk regular json_ok ext :
  effects (ADelete i) walk regular json_ok ext = [] \/
  exists pid n, process_id i = Some pid /\ In n walk /\ substrb pid n = true /\ effects (ADelete i) walk regular json_ok ext = [Remove n].
Proof.
  unfold effects. destruct (process_id i) as [pid|]; [|left; reflexivity].
  unfold first_containing. destruct (List.find (substrb pid) walk) as [n|] eqn:E; [|left; reflexivity].
  right. apply find_some in E. exists pid, n. tauto.
Qed.

Theorem delete_all_removes_regular walk regular json_ok ext :
  effects ADeleteAll walk regular json_ok ext = map Remove (filter regular walk).
Proof. reflexivity. Qed.

Definition read_only (a : action) : bool :=
  match a with
  | AId _ | ABmcId _ | APlid _ | ASrc _ | ASrcExclude _ | AList | ACount | AAll | ANone | AFile _ false => true
  | _ => false
  end.
Theorem read_only_no_effect a walk regular json_ok ext : read_only a = true -> effects a walk regular json_ok ext = [].
Proof. destruct a as [p [|]|[|]| | | | | | | | | | |]; cbn; intros H; try discriminate; reflexivity. Qed.

Theorem json_creates_only_named clean walk regular json_ok ext e :
  In e (effects (AJson clean) walk regular json_ok ext) ->
  exists n eid, In n walk /\ json_ok n = Some eid /\
    (e = Create (n ++ L "." ++ eid ++ L ".json") \/ (clean = true /\ e = Remove n)).
Proof.
  unfold effects. intros H. apply in_flat_map in H. destruct H as (n & Hn & He). apply filter_In in Hn. destruct Hn as [Hn _].
  destruct (json_ok n) as [eid|] eqn:Ej; [|contradiction]. exists n, eid. split; [assumption|]. split; [exact Ej|].
  destruct He as [<-|He]; [left; reflexivity|]. destruct clean; [|contradiction]. destruct He as [<-|[]]. right. split; reflexivity.
Qed.
