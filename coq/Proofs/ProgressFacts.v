(* Termination: the two fuelled loops of the SRC decoder never run out of fuel, on any input. *)
From Coq Require Import List NArith ZArith Bool Arith Lia.
From PV Require Import Base.Bytes Base.Lit Base.Json Base.Reader Base.PelTypes Model.Parse Model.Render Model.Pel.
Import ListNotations.
Open Scope N_scope.

Lemma get_mem_len n s a s' : get_mem n s = Some (a, s') -> (length s' + n = length s)%nat /\ n <> 0%nat.
Proof.
  unfold get_mem. destruct n; [discriminate|]. destruct (Nat.leb (S n) (length s)) eqn:E; [|discriminate].
  apply Nat.leb_le in E. intros H. assert (Es: s' = skipn (S n) s) by congruence. rewrite Es, skipn_length. split; [lia|discriminate].
Qed.

Lemma get_int_len n s a s' : get_int n s = Some (a, s') -> (length s' + n = length s)%nat /\ n <> 0%nat.
Proof.
  unfold get_int, bind. destruct (get_mem n s) as [[b s1]|] eqn:E; [|discriminate].
  intros H. inversion H; subst. eapply get_mem_len; eassumption.
Qed.

(* a reader that consumes at least k bytes when it succeeds *)
Definition consumes {A} (k : nat) (r : reader A) : Prop := forall s a s', r s = Some (a, s') -> (length s' + k <= length s)%nat.

Lemma consumes_bind {A B} k1 k2 (r : reader A) (f : A -> reader B) :
  consumes k1 r -> (forall a, consumes k2 (f a)) -> consumes (k1 + k2) (bind r f).
Proof.
  intros H1 H2 s b s' H. unfold bind in H. destruct (r s) as [[a s1]|] eqn:E; [|discriminate].
  specialize (H1 _ _ _ E). specialize (H2 a _ _ _ H). lia.
Qed.
Lemma consumes_get_int n : consumes n (get_int n).
Proof. intros s a s' H. apply get_int_len in H. lia. Qed.
Lemma consumes_0 {A} (r : reader A) : (forall s a s', r s = Some (a, s') -> (length s' <= length s)%nat) -> consumes 0 r.
Proof. intros H s a s' E. specialize (H _ _ _ E). lia. Qed.
Lemma consumes_weaken {A} k k' (r : reader A) : (k' <= k)%nat -> consumes k r -> consumes k' r.
Proof. intros Hk H s a s' E. specialize (H _ _ _ E). lia. Qed.

Lemma get_mem_le n s a s' : get_mem n s = Some (a, s') -> (length s' <= length s)%nat.
Proof. intros H. apply get_mem_len in H. lia. Qed.
Lemma opt_mem_le c n s a s' : opt_mem c n s = Some (a, s') -> (length s' <= length s)%nat.
Proof. unfold opt_mem. destruct c; [apply get_mem_le|]. unfold ret. intros H; inversion H; lia. Qed.
Lemma read_n_le {A} (r : reader A) : (forall s a s', r s = Some (a, s') -> (length s' <= length s)%nat) ->
  forall n s a s', read_n n r s = Some (a, s') -> (length s' <= length s)%nat.
Proof.
  intros Hr. induction n as [|n IH]; intros s a s' H; cbn [read_n] in H.
  - unfold ret in H. inversion H; lia.
  - unfold bind in H. destruct (r s) as [[x s1]|] eqn:E1; [|discriminate].
    destruct (read_n n r s1) as [[y s2]|] eqn:E2; [|discriminate]. unfold ret in H. inversion H; subst.
    specialize (Hr _ _ _ E1). specialize (IH _ _ _ E2). lia.
Qed.

(* each substructure reader consumes at least its 4-byte header *)
Lemma fru_consumes : consumes 4 parse_fru.
Proof.
  intros s a s' H. unfold parse_fru, bind in H.
  destruct (get_int 2 s) as [[x1 s1]|] eqn:E1; [|discriminate]. destruct (get_int 1 s1) as [[x2 s2]|] eqn:E2; [|discriminate].
  destruct (get_int 1 s2) as [[x3 s3]|] eqn:E3; [|discriminate].
  destruct (opt_mem _ 8 s3) as [[x4 s4]|] eqn:E4; [|discriminate]. destruct (opt_mem _ 4 s4) as [[x5 s5]|] eqn:E5; [|discriminate].
  destruct (opt_mem _ 12 s5) as [[x6 s6]|] eqn:E6; [|discriminate]. unfold ret in H. inversion H; subst.
  apply get_int_len in E1, E2, E3. apply opt_mem_le in E4, E5, E6. lia.
Qed.
Lemma pce_consumes : consumes 4 parse_pce.
Proof.
  intros s a s' H. unfold parse_pce, bind in H.
  destruct (get_int 2 s) as [[x1 s1]|] eqn:E1; [|discriminate]. destruct (get_int 1 s1) as [[x2 s2]|] eqn:E2; [|discriminate].
  destruct (get_int 1 s2) as [[x3 s3]|] eqn:E3; [|discriminate].
  destruct (get_mem 8 s3) as [[x4 s4]|] eqn:E4; [|discriminate]. destruct (get_mem 12 s4) as [[x5 s5]|] eqn:E5; [|discriminate].
  destruct (x2 <? 24); [discriminate|]. unfold get_memN in H.
  destruct (get_mem _ s5) as [[x6 s6]|] eqn:E6; [|discriminate]. unfold ret in H. inversion H; subst.
  apply get_int_len in E1, E2, E3. apply get_mem_le in E4, E5, E6. lia.
Qed.
Lemma mru_consumes : consumes 4 parse_mru.
Proof.
  intros s a s' H. unfold parse_mru, bind in H.
  destruct (get_int 2 s) as [[x1 s1]|] eqn:E1; [|discriminate]. destruct (get_int 1 s1) as [[x2 s2]|] eqn:E2; [|discriminate].
  destruct (get_int 1 s2) as [[x3 s3]|] eqn:E3; [|discriminate]. destruct (get_int 4 s3) as [[x4 s4]|] eqn:E4; [|discriminate].
  destruct (read_n _ _ s4) as [[x5 s5]|] eqn:E5; [|discriminate]. unfold ret in H. inversion H; subst.
  apply get_int_len in E1, E2, E3, E4.
  apply read_n_le in E5; [lia|]. intros t a t' Ht. unfold bind in Ht.
  destruct (get_int 4 t) as [[y1 t1]|] eqn:F1; [|discriminate]. destruct (get_int 4 t1) as [[y2 t2]|] eqn:F2; [|discriminate].
  unfold ret in Ht. inversion Ht; subst. apply get_int_len in F1, F2. lia.
Qed.

Theorem parse_subs_progress : forall fuel size cur acc s s',
  (length s < fuel)%nat -> parse_subs fuel size cur acc s <> Some (None, s').
Proof.
  induction fuel as [|fuel IH]; intros size cur acc s s' Hf; [lia|].
  cbn [parse_subs]. destruct (cur <? size); [|unfold ret; discriminate].
  unfold bind at 1. unfold peek2 at 1. cbv beta iota.
  destruct (_ =? 18756).
  - unfold bind. destruct (parse_fru s) as [[x s1]|] eqn:E; [|discriminate]. apply fru_consumes in E. apply IH. lia.
  - destruct (_ =? 20549).
    + unfold bind. destruct (parse_pce s) as [[x s1]|] eqn:E; [|discriminate]. apply pce_consumes in E. apply IH. lia.
    + destruct (_ =? 19794).
      * unfold bind. destruct (parse_mru s) as [[x s1]|] eqn:E; [|discriminate]. apply mru_consumes in E. apply IH. lia.
      * unfold ret. discriminate.
Qed.

Lemma parse_callout_progress s s' : parse_callout s <> Some (None, s').
Proof.
  unfold parse_callout, bind. destruct (callout_head s) as [[[[[sz fl] pr] loc] s1]|]; [|discriminate].
  unfold remaining. destruct (parse_subs (S (length s1)) sz (4 + N.of_nat (length loc)) [] s1) as [[[ss|] s2]|] eqn:E.
  - unfold ret. discriminate.
  - exfalso. eapply parse_subs_progress; [|exact E]. lia.
  - discriminate.
Qed.

Lemma callout_flat_ge4 c : 4 <= callout_flat c.
Proof. unfold callout_flat. lia. Qed.

Theorem parse_callout_list_progress : forall fuel wlen4 cur acc s s',
  wlen4 + 4 <= cur + 4 * N.of_nat fuel -> (1 <= fuel)%nat ->
  parse_callout_list fuel wlen4 cur acc s <> Some (None, s').
Proof.
  induction fuel as [|fuel IH]; intros wlen4 cur acc s s' Hinv Hf; [lia|].
  cbn [parse_callout_list]. destruct (cur <? wlen4) eqn:E; [|unfold ret; discriminate].
  apply N.ltb_lt in E. unfold bind. destruct (parse_callout s) as [[[c|] s1]|] eqn:Ec; [| |discriminate].
  - pose proof (callout_flat_ge4 c). apply IH; lia.
  - exfalso. exact (parse_callout_progress _ _ Ec).
Qed.

Lemma parse_callouts_progress s s' : parse_callouts s <> Some (None, s').
Proof.
  unfold parse_callouts, bind.
  destruct (get_int 1 s) as [[a s1]|]; [|discriminate]. destruct (get_int 1 s1) as [[b s2]|]; [|discriminate].
  destruct (get_int 2 s2) as [[wl s3]|]; [|discriminate].
  destruct (parse_callout_list _ _ _ _ s3) as [[[l|] s4]|] eqn:E; [unfold ret; discriminate| |discriminate].
  exfalso. eapply parse_callout_list_progress; [| |exact E]; lia.
Qed.

Lemma parse_src_progress s s' : parse_src s <> Some (None, s').
Proof.
  unfold parse_src, bind.
  repeat match goal with |- context[match ?r s with _ => _ end] => idtac end.
  destruct (get_int 1 s) as [[a s1]|]; [|discriminate]. destruct (get_int 1 s1) as [[b s2]|]; [|discriminate].
  destruct (get_int 1 s2) as [[c s3]|]; [|discriminate]. destruct (get_int 1 s3) as [[d s4]|]; [|discriminate].
  destruct (get_int 2 s4) as [[e s5]|]; [|discriminate]. destruct (get_int 2 s5) as [[f s6]|]; [|discriminate].
  destruct (read_n 8 (get_int 4) s6) as [[g s7]|]; [|discriminate]. destruct (get_mem 32 s7) as [[h s8]|]; [|discriminate].
  destruct (9 <? d); [discriminate|]. destruct (has b _).
  - destruct (parse_callouts s8) as [[[cs|] s9]|] eqn:E; [unfold ret; discriminate| |discriminate].
    exfalso. exact (parse_callouts_progress _ _ E).
  - unfold ret. discriminate.
Qed.

Lemma parse_section_progress s s' : parse_section s <> Some (None, s').
Proof.
  unfold parse_section, bind. destruct (parse_header s) as [[[[id len] h] s1]|]; [|discriminate].
  unfold parse_body, bind.
  destruct ((id =? _) || (id =? _)).
  { destruct (parse_src s1) as [[[x|] s2]|] eqn:E; [unfold ret; cbn; discriminate| |discriminate].
    exfalso. exact (parse_src_progress _ _ E). }
  destruct (id =? _). { destruct (parse_eh s1) as [[x s2]|]; [unfold ret; cbn; discriminate|discriminate]. }
  destruct (id =? _). { destruct (parse_mt s1) as [[x s2]|]; [unfold ret; cbn; discriminate|discriminate]. }
  destruct (id =? _).
  { destruct (get_int 1 s1) as [[a s2]|]; [|discriminate]. destruct (get_int 1 s2) as [[b s3]|]; [|discriminate].
    destruct (get_int 2 s3) as [[c s4]|]; [|discriminate]. destruct (get_memN _ s4) as [[d s5]|]; [unfold ret; cbn; discriminate|discriminate]. }
  destruct (id =? _). { destruct (get_memN _ s1) as [[d s5]|]; [unfold ret; cbn; discriminate|discriminate]. }
  destruct (id =? _). { destruct (parse_lp s1) as [[x s2]|]; [unfold ret; cbn; discriminate|discriminate]. }
  destruct (get_memN _ s1) as [[d s5]|]; [unfold ret; cbn; discriminate|discriminate].
Qed.

Lemma decode_sections_progress e c creator : forall n s, decode_sections e c creator n s <> None.
Proof.
  induction n as [|n IH]; intros s; cbn [decode_sections]; [discriminate|].
  destruct (parse_section s) as [[[x|] s1]|] eqn:E; [| |discriminate].
  - destruct (render_section e c creator x); [|discriminate].
    destruct (decode_sections e c creator n s1) as [[t|]|] eqn:E2; [discriminate|discriminate|].
    exfalso. exact (IH _ E2).
  - exfalso. exact (parse_section_progress _ _ E).
Qed.

(* C05: decoding terminates with a document or an ordinary failure on EVERY byte string *)
Theorem decode_never_out_of_fuel e c consider s : decode e c consider s <> OutOfFuel.
Proof.
  unfold decode. destruct (parse_header s) as [[[[id len] h] s1]|]; [|discriminate].
  destruct (negb _); [discriminate|]. destruct (parse_ph_body len h s1) as [[ph s2]|]; [|discriminate].
  destruct (render_ph e ph) as [[cr phj]|]; [|discriminate].
  destruct (parse_header s2) as [[[[id2 len2] h2] s3]|]; [|discriminate].
  destruct (negb _); [discriminate|]. destruct (parse_uh_body len2 h2 s3) as [[uh s4]|]; [|discriminate].
  destruct (negb _); [discriminate|].
  destruct (decode_sections e c cr _ s4) as [[secs|]|] eqn:E; [discriminate|discriminate|].
  exfalso. exact (decode_sections_progress _ _ _ _ _ E).
Qed.
