From Coq Require Import List Bool.
From PV Require Import Model.Clean.
Import ListNotations.

(* every fault schedule: case analysis on the values the trace depends on *)
Theorem json_clean_safe f d clean : removed_in f (json_trace f d clean) = true ->
  d = DOk /\ clean = true /\ json_complete f (json_trace f d clean) = true.
Proof.
  unfold removed_in, json_complete, done_ok, json_trace.
  destruct d, clean; try (cbn; discriminate);
    destruct (f OpenOut) eqn:E1; try (cbn; rewrite ?E1; cbn; discriminate);
    destruct (f Write) eqn:E2; try (cbn; rewrite ?E1, ?E2; cbn; discriminate);
    cbn [exec]; destruct (f Close) eqn:E3; try (cbn; rewrite ?E1, ?E2, ?E3; cbn; discriminate);
    cbn [exec]; destruct (f RemoveIn) eqn:E4; cbn; rewrite ?E1, ?E2, ?E3, ?E4; cbn; try discriminate; auto.
Qed.

Theorem file_clean_safe f d clean : removed_in f (file_trace f d clean) = true ->
  d = DOk /\ clean = true /\ file_complete f (file_trace f d clean) = true.
Proof.
  unfold removed_in, file_complete, done_ok, file_trace, file_prog.
  destruct d, clean; cbn [app exec]; try (cbn; discriminate);
    destruct (f Print) eqn:E1; cbn [exec]; rewrite ?E1; try (cbn; discriminate);
    destruct (f Flush) eqn:E2; cbn [exec]; rewrite ?E2; try (cbn; discriminate);
    destruct (f RemoveIn) eqn:E4; cbn [exec]; rewrite ?E4; cbn; try discriminate; auto.
Qed.

(* conversely, with no fault a decoded PEL IS removed (the option is not a no-op) *)
Theorem clean_removes_on_success :
  removed_in (fun _ => false) (json_trace (fun _ => false) DOk true) = true /\
  removed_in (fun _ => false) (file_trace (fun _ => false) DOk true) = true.
Proof. split; reflexivity. Qed.

(* the previous order violates the property: witnesses *)
Theorem old_json_refuted : exists f, removed_in f (old_json_trace f DOk true) = true /\ json_complete f (old_json_trace f DOk true) = false.
Proof. exists (fun s => step_eqb s Close). split; reflexivity. Qed.
Theorem old_file_refuted : exists f d, d <> DOk /\ removed_in f (old_file_trace f d true) = true.
Proof. exists (fun _ => false), DReject. split; [discriminate|reflexivity]. Qed.
