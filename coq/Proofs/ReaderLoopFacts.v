(* The loop bodies of parse_ilog_data and parse_hlog_data, translated from the source text (Gen/Readers.v, regenerated every
   run), are one unrolling of the model's loops (Model/Ilog.v ilog_loop, Model/Hlog.v hlog_loop), for every input. *)
From Coq Require Import List NArith ZArith Bool Lia ZifyBool.
From PV Require Import Base.Bytes Base.Lit Base.PyFmt Model.StreamProg Model.Ilog Model.Hlog Gen.Readers Gen.Tables Proofs.ReaderProgFacts.
Import ListNotations.

Lemma has_leb n d : StreamProg.has n d = Nat.leb n (length d).
Proof. revert d; induction n as [|n IH]; intros [|b d]; cbn; auto. Qed.

Definition ilog_step (f : nat) (tbl : list pte_entry) (d : bytes) : ilog_res :=
  match ev guard_ilog_body (init d) with
  | Some g =>
      if in_range g (init d) then
        match run prog_ilog_body (init d) with
        | RCont s => ilog_loop f tbl (s_rest s)
        | RFall s => match entry_line tbl (int_of s (L "timestamp")) (int_of s (L "seq_num")) (int_of s (L "pte")) with
                     | DOk l => icons l (ilog_loop f tbl (s_rest s))
                     | DUnsupported => IUnsupported
                     end
        | _ => IAssert
        end
      else IOk []
  | None => IAssert
  end.

Theorem ilog_body_correct : forall f tbl d, ilog_loop (S f) tbl d = ilog_step f tbl d.
Proof.
  intros f tbl d. unfold ilog_step. cbn [ilog_loop]. change (N.to_nat ilog_ILOG_ENTRY_SIZE) with 8%nat.
  change (ev guard_ilog_body (init d)) with (Some 8%Z). unfold in_range. change (Z.to_nat 8) with 8%nat. cbn [s_rest init].
  rewrite <- has_leb.
  destruct (StreamProg.has 8 d) eqn:H; [|reflexivity].
  do 8 take_byte d H.
  unfold prog_ilog_body, init. do 3 step.
  change (get_int 2 (b :: b0 :: b1 :: b2 :: b3 :: b4 :: b5 :: b6 :: d)) with (Some (be_val [b; b0] 0, b1 :: b2 :: b3 :: b4 :: b5 :: b6 :: d)).
  cbv beta iota.
  change (get_int 2 (b1 :: b2 :: b3 :: b4 :: b5 :: b6 :: d)) with (Some (be_val [b1; b2] 0, b3 :: b4 :: b5 :: b6 :: d)).
  cbv beta iota.
  change (get_int 4 (b3 :: b4 :: b5 :: b6 :: d)) with (Some (be_val [b3; b4; b5; b6] 0, d)).
  cbv beta iota.
  generalize (be_val [b; b0] 0) (be_val [b1; b2] 0) (be_val [b3; b4; b5; b6] 0). intros ts seq pte.
  rewrite run_seq_eq.
  erewrite run_if with (b := (ts =? 0)%N && ((seq =? 0)%N && (pte =? 0)%N)).
  2:{ cbn [evc ev geti s_ints text_eqb N.eqb Pos.eqb andb].
      replace (Z.of_N ts =? 0)%Z with (ts =? 0)%N by lia.
      replace (Z.of_N seq =? 0)%Z with (seq =? 0)%N by lia.
      replace (Z.of_N pte =? 0)%Z with (pte =? 0)%N by lia.
      destruct (ts =? 0)%N, (seq =? 0)%N, (pte =? 0)%N; reflexivity. }
  rewrite <- andb_assoc.
  destruct ((ts =? 0)%N && ((seq =? 0)%N && (pte =? 0)%N)); cbn [run]; [reflexivity|].
  cbv [int_of geti s_ints s_mems s_idx s_rest forget names_var text_eqb N.eqb Pos.eqb andb L Ascii.N_of_ascii Ascii.N_of_digits N.add N.mul Pos.add Pos.mul Pos.succ].
  rewrite !N2Z.id. reflexivity.
Qed.

Definition hlog_state (size : nat) (d : bytes) : sst := mkS d 0 [(L "field.size", Z.of_nat size)] [].

Definition hlog_step (name : text) (size : nat) (t : list hfield) (d : bytes) : option (list text) :=
  match run prog_hlog_body (hlog_state size d) with
  | RBrk _ => Some []
  | RFall s =>
      let v := int_of s (L "value") in
      match hlog_loop t (s_rest s) with
      | Some rest => Some ((if (v =? 0)%N then [] else [name ++ L ": 0x" ++ hexU (2 * size) v]) ++ rest)
      | None => None
      end
  | _ => None
  end.

Theorem hlog_body_correct : forall name size t d, hlog_loop ((name, size) :: t) d = hlog_step name size t d.
Proof.
  intros name size t d. unfold hlog_step, hlog_state. cbn [hlog_loop]. unfold prog_hlog_body.
  destruct (Nat.eqb_spec size 0) as [E|E].
  - subst size. reflexivity.
  - assert (Hpos : (0 < Z.of_nat size)%Z) by lia.
    erewrite run_seq_eq. erewrite run_if with (b := negb (StreamProg.has size d)).
    2:{ pose proof (evc_norange (XV (L "field.size")) (mkS d 0 [(L "field.size", Z.of_nat size)] []) (Z.of_nat size) eq_refl Hpos) as EV.
        rewrite Nat2Z.id in EV. exact EV. }
    rewrite <- has_leb.
    destruct (StreamProg.has size d) eqn:H; cbn [negb]; [|reflexivity].
    rewrite run_nop. cbv beta iota. rewrite run_seq_eq.
    erewrite run_int with (z := Z.of_nat size); [|reflexivity|exact Hpos|rewrite Nat2Z.id; exact H].
    cbv beta iota. cbn [s_rest s_idx s_ints s_mems]. rewrite Nat2Z.id.
    (* the display of a non-zero value does not touch the stream: both branches of `if value != 0` fall through *)
    match goal with |- context [run (TIf ?c TPure TNop) ?s] =>
      assert (Hfall : run (TIf c TPure TNop) s = RFall s)
        by (cbn [run]; destruct (evc c s) as [[|]|] eqn:Hc; [reflexivity|reflexivity|exfalso; cbn in Hc; discriminate Hc]);
      rewrite Hfall; clear Hfall end.
    cbv [int_of geti s_ints s_rest text_eqb N.eqb Pos.eqb andb L Ascii.N_of_ascii Ascii.N_of_digits N.add N.mul Pos.add Pos.mul Pos.succ].
    rewrite N2Z.id. reflexivity.
Qed.
