From Coq Require Import List NArith Bool Arith Lia.
From PV Require Import Base.Bytes Base.Reader Base.PelTypes Model.Parse Spec.Encode Gen.Tables
                       Proofs.BytesFacts Proofs.ReaderFacts Proofs.ParseFacts Proofs.SrcFacts Proofs.ExactFacts.
Import ListNotations.
Open Scope N_scope.

Ltac sidec := first [assumption | discriminate | reflexivity | lia | (unfold lt8, lt16, lt32, lt64 in *; lia)
                     | (rewrite ?pow256_1, ?pow256_2, ?pow256_4, ?pow256_8; unfold lt8, lt16, lt32, lt64 in *; lia)].

(* atomic readers *)
Ltac exa :=
  first
  [ apply exact_get_int; sidec
  | apply exact_get_mem; sidec
  | apply exact_get_memN; sidec
  | apply exact_ret ].

(* one bind against  piece ++ rest *)
Ltac exb := eapply exact_bind; [exa | cbv beta iota].
Ltac exbs := repeat exb.

Lemma exact_timestamp t : field 8 t -> exact_on get_timestamp t t.
Proof.
  intros (Hl & _). do 9 (destruct t as [|? t]; try discriminate).
  unfold get_timestamp.
  change [n; n0; n1; n2; n3; n4; n5; n6] with ([n; n0] ++ [n1] ++ [n2] ++ [n3] ++ [n4] ++ [n5] ++ [n6] ++ []).
  exbs. apply exact_ret.
Qed.

Lemma exact_header id len h : id < 65536 -> len < 65536 -> wf_hdr h ->
  exact_on parse_header (enc_header id len h) (id, len, h).
Proof.
  intros Hi Hl (H1 & H2 & H3). unfold parse_header, enc_header, be.
  rewrite <- (app_nil_r (be_bytes 2 (h_comp h))). rewrite <- ?app_assoc.
  exbs. destruct h; apply exact_ret.
Qed.

Definition ph_body_bytes (p : ph_t) : bytes :=
  ph_create p ++ ph_commit p ++ be 1 (ph_creator p) ++ be 1 (ph_res0 p) ++ be 1 (ph_res1 p) ++ be 1 (ph_count p) ++
  be 4 (ph_obmc p) ++ be 8 (ph_cver p) ++ be 4 (ph_plid p) ++ be 4 (ph_eid p).
Definition uh_body_bytes (u : uh_t) : bytes :=
  be 1 (uh_subsys u) ++ be 1 (uh_scope u) ++ be 1 (uh_sev u) ++ be 1 (uh_etype u) ++ be 4 (uh_res4 u) ++
  be 1 (uh_domain u) ++ be 1 (uh_vector u) ++ be 2 (uh_flags u) ++ be 4 (uh_states u).

Lemma exact_ph_body p n : wf_ph p n -> exact_on (parse_ph_body (ph_len p) (ph_hdr p)) (ph_body_bytes p) p.
Proof.
  intros (Hh & Hl & Hc & Hm & Hcr & H0 & H1 & Hcnt & Hn & Ho & Hv & Hp & He).
  assert (ph_count p < 256) by (rewrite Hcnt; lia).
  unfold parse_ph_body, ph_body_bytes, be.
  rewrite <- (app_nil_r (be_bytes 4 (ph_eid p))). rewrite <- ?app_assoc.
  eapply exact_bind; [apply exact_timestamp; assumption|cbv beta].
  eapply exact_bind; [apply exact_timestamp; assumption|cbv beta].
  exbs. destruct p; apply exact_ret.
Qed.

Lemma exact_uh_body u : wf_uh u -> exact_on (parse_uh_body (uh_len u) (uh_hdr u)) (uh_body_bytes u) u.
Proof.
  intros (Hh & Hl & H1 & H2 & H3 & H4 & H5 & H6 & H7 & H8 & H9).
  unfold parse_uh_body, uh_body_bytes, be.
  rewrite <- (app_nil_r (be_bytes 4 (uh_states u))). rewrite <- ?app_assoc.
  exbs. destruct u; apply exact_ret.
Qed.

Lemma exact_opt_len (cond : bool) (n : N) xs : N.of_nat (length xs) = n -> (n = 0 <-> cond = true) ->
  exact_on (if cond then ret [] else get_memN n) xs xs.
Proof.
  intros Hl Hc. destruct cond.
  - assert (n = 0) by (apply Hc; reflexivity). subst n. destruct xs; [apply exact_ret|simpl in H; lia].
  - apply exact_get_memN; [assumption|]. intros E. apply Hc in E. discriminate.
Qed.

Lemma exact_eh e : wf_eh e -> exact_on parse_eh (enc_eh e) e.
Proof.
  intros ((L1 & _) & (L2 & _) & (L3 & _) & (L4 & _) & Hr & Ht & H1 & H2 & H3 & Hs & (L5 & _)).
  unfold parse_eh, enc_eh, be. rewrite <- (app_nil_r (e_sym e)). rewrite <- ?app_assoc.
  exbs. eapply exact_bind; [apply exact_timestamp; assumption|cbv beta]. exbs.
  eapply exact_bind; [apply exact_opt_len; [lia|split; [intros ->; reflexivity|intros E; apply N.eqb_eq in E; exact E]]|cbv beta].
  destruct e; apply exact_ret.
Qed.

Lemma exact_mt t : wf_mt t -> exact_on parse_mt (enc_mt t) t.
Proof.
  intros ((L1 & _) & (L2 & _)). unfold parse_mt, enc_mt. rewrite <- (app_nil_r (t_sn t)).
  exbs. destruct t; apply exact_ret.
Qed.

Lemma exact_lp l : wf_lp l -> exact_on parse_lp (enc_lp l) l.
Proof.
  intros (H1 & H2 & H3 & H4 & (L5 & _) & L6 & F6 & Hp).
  unfold parse_lp, enc_lp, be.
  rewrite <- (app_nil_r (match l_pad l with Some x => be_bytes 2 x | None => [] end)). rewrite <- ?app_assoc.
  exbs.
  eapply exact_bind; [apply exact_opt_len; [lia|split; [intros ->; reflexivity|intros E; apply N.eqb_eq in E; exact E]]|cbv beta].
  eapply exact_bind.
  { rewrite <- L6. apply (exact_read_n lt16 (get_int 2) (be_bytes 2)); [|assumption]. intros a Ha. apply exact_get_int; sidec. }
  cbv beta.
  destruct (l_pad l) as [x|] eqn:Ep.
  - destruct Hp as [Ho Hx]. rewrite Ho.
    eapply exact_bind.
    { rewrite <- (app_nil_r (be_bytes 2 x)). eapply exact_bind; [apply exact_get_int; sidec|cbv beta; apply exact_ret]. }
    cbv beta. destruct l; cbn [PelTypes.l_pad] in *. subst. apply exact_ret.
  - rewrite Hp. rewrite <- (app_nil_r []). eapply exact_bind; [apply exact_ret|]. cbv beta.
    destruct l; cbn [PelTypes.l_pad] in *. subst. apply exact_ret.
Qed.
