From Coq Require Import List NArith ZArith Bool Arith Lia ZifyBool ZifyNat.
From PV Require Import Base.Bytes Base.Lit Model.Hexdump Proofs.BytesFacts.
Import ListNotations.
Ltac Zify.zify_post_hook ::= Z.to_euclidean_division_equations.
Open Scope N_scope.

(* ------------------------------------------------------------------ *)
(* chunk                                                               *)

Lemma chunk_fuel_concat : forall fuel n l, (1 <= n)%nat -> (length l <= fuel)%nat ->
  concat (chunk_fuel fuel n l) = l.
Proof.
  induction fuel as [|f IH]; intros n l Hn Hl.
  - destruct l; [reflexivity|simpl in Hl; lia].
  - destruct l as [|b t]; [reflexivity|].
    cbn [chunk_fuel concat]. rewrite IH; [apply firstn_skipn|assumption|].
    rewrite skipn_length. simpl length in *. lia.
Qed.

Lemma chunk_concat n l : (1 <= n)%nat -> concat (chunk n l) = l.
Proof. intros. apply chunk_fuel_concat; [assumption|lia]. Qed.

Lemma chunk_fuel_length : forall fuel n l, (1 <= n)%nat -> (length l <= fuel)%nat ->
  length (chunk_fuel fuel n l) = Nat.div (length l + n - 1) n.
Proof.
  induction fuel as [|f IH]; intros n l Hn Hl.
  - destruct l; [|simpl in Hl; lia]. simpl. symmetry. apply Nat.div_small. lia.
  - destruct l as [|b t].
    + simpl. symmetry. apply Nat.div_small. lia.
    + cbn [chunk_fuel length]. rewrite IH; [|assumption|rewrite skipn_length; simpl length in *; lia].
      rewrite skipn_length. simpl length.
      destruct (Nat.le_gt_cases n (S (length t))) as [H|H].
      * replace (S (length t) + n - 1)%nat with ((S (length t) - n + n - 1) + 1 * n)%nat by lia.
        rewrite Nat.div_add by lia. lia.
      * replace (S (length t) - n)%nat with 0%nat by lia.
        rewrite (Nat.div_small (0 + n - 1) n) by lia.
        simpl. apply (Nat.div_unique _ n 1%nat (S (length t) - 1)%nat); lia.
Qed.

Lemma chunk_fuel_blocks : forall fuel n l, (1 <= n)%nat -> (length l <= fuel)%nat ->
  Forall (fun b => (1 <= length b <= n)%nat) (chunk_fuel fuel n l).
Proof.
  induction fuel as [|f IH]; intros n l Hn Hl; [constructor|].
  destruct l as [|b t]; [constructor|]. cbn [chunk_fuel]. constructor.
  - rewrite firstn_length. simpl length. lia.
  - apply IH; [assumption|]. rewrite skipn_length. simpl length in *. lia.
Qed.

Lemma dump_lines_length bpl bpc : forall ls off, length (dump_lines bpl bpc off ls) = length ls.
Proof. induction ls; intros; simpl; [reflexivity|]. rewrite IHls. reflexivity. Qed.

Theorem hexdump_line_count bpl bpc d ls : hexdump_gen bpl bpc d = Some ls ->
  length ls = Nat.div (length d + bpl - 1) bpl.
Proof.
  unfold hexdump_gen. destruct (_ && _ && _ && _)%bool eqn:E; [|discriminate].
  intros H; inversion H; subst; clear H.
  rewrite dump_lines_length. unfold chunk. apply chunk_fuel_length; lia.
Qed.

(* ------------------------------------------------------------------ *)
(* widths                                                              *)

Lemma ljust_length w f s : length (ljust w f s) = Nat.max w (length s).
Proof. unfold ljust. rewrite app_length, repeat_length. lia. Qed.

Lemma hexU2_length b : b < 256 -> length (hexU 2 b) = 2%nat.
Proof. intros. rewrite hexU2_byte by assumption. reflexivity. Qed.

Lemma raw_col_length bpc : (1 <= bpc)%nat -> forall l j, (1 <= j)%nat -> Forall (fun b => b < 256) l ->
  (length (raw_col bpc j l) = 2 * length l + 2 * (Nat.div (j + length l - 1) bpc - Nat.div (j - 1) bpc))%nat.
Proof.
  intros Hb. induction l as [|b t IH]; intros j Hj Hf.
  - simpl. replace (j + 0 - 1)%nat with (j - 1)%nat by lia. lia.
  - inversion Hf; subst. cbn [raw_col]. rewrite !app_length, hexU2_length by assumption.
    rewrite IH by (auto; lia). simpl length.
    replace (S j - 1)%nat with j by lia.
    replace (S j + length t - 1)%nat with (j + S (length t) - 1)%nat by lia.
    assert (Nat.div (j - 1) bpc <= Nat.div j bpc)%nat by (apply Nat.div_le_mono; lia).
    assert (Nat.div j bpc <= Nat.div (j + S (length t) - 1) bpc)%nat by (apply Nat.div_le_mono; lia).
    destruct (Nat.eqb j 0) eqn:E0; [apply Nat.eqb_eq in E0; lia|]. cbn [negb andb].
    destruct (Nat.eqb (Nat.modulo j bpc) 0) eqn:Em.
    + apply Nat.eqb_eq in Em. simpl length.
      assert (Nat.div j bpc = S (Nat.div (j - 1) bpc)) by nia. lia.
    + apply Nat.eqb_neq in Em. simpl length.
      assert (Nat.div j bpc = Nat.div (j - 1) bpc) by nia. lia.
Qed.

Lemma raw_col0_length bpc l : (1 <= bpc)%nat -> l <> [] -> Forall (fun b => b < 256) l ->
  (length (raw_col bpc 0 l) = 2 * length l + 2 * Nat.div (length l - 1) bpc)%nat.
Proof.
  intros Hb Hl Hf. destruct l as [|b t]; [congruence|]. inversion Hf; subst.
  cbn [raw_col Nat.eqb negb andb app]. rewrite app_length, hexU2_length by assumption.
  rewrite raw_col_length by (auto; lia). simpl length.
  replace (1 - 1)%nat with 0%nat by lia. rewrite Nat.div_0_l by lia.
  replace (1 + length t - 1)%nat with (length t) by lia. replace (S (length t) - 1)%nat with (length t) by lia.
  generalize (Nat.div (length t) bpc). intros q. lia.
Qed.

Lemma raw_col_fits bpl bpc l : (1 <= bpc)%nat -> (1 <= length l <= bpl)%nat -> Forall (fun b => b < 256) l ->
  (length (raw_col bpc 0 l) <= char_per_line bpl bpc)%nat.
Proof.
  intros Hb Hl Hf. rewrite raw_col0_length; auto; [|destruct l; simpl in *; [lia|congruence]].
  unfold char_per_line, num_chunks.
  assert (Nat.div (length l - 1) bpc <= Nat.div (bpl - 1) bpc)%nat by (apply Nat.div_le_mono; lia).
  replace (bpl + bpc - 1)%nat with ((bpl - 1) + 1 * bpc)%nat by lia. rewrite Nat.div_add by lia. lia.
Qed.

Definition line_width (bpl bpc : nat) : nat := (8 + 5 + char_per_line bpl bpc + 5 + bpl)%nat.

Lemma hexU8_off off : off < 2 ^ 32 -> hexU 8 off = hex_fixed hexdigU 8 off.
Proof. intros. unfold hexU. apply hex_min_fixed; [lia|]. change (16 ^ N.of_nat 8) with (2 ^ 32). assumption. Qed.

Lemma dump_line_length bpl bpc off l : (1 <= bpc)%nat -> (1 <= length l <= bpl)%nat -> Forall (fun b => b < 256) l ->
  off < 2 ^ 32 -> length (dump_line bpl bpc off l) = line_width bpl bpc.
Proof.
  intros Hb Hl Hf Ho. unfold dump_line, line_width.
  rewrite !app_length, !repeat_length, !ljust_length, hexU8_off, hex_fixed_length by assumption.
  unfold text_col. rewrite map_length.
  pose proof (raw_col_fits bpl bpc l Hb Hl Hf). lia.
Qed.

Lemma dump_line_offset bpl bpc off l : off < 2 ^ 32 ->
  firstn 8 (dump_line bpl bpc off l) = hex_fixed hexdigU 8 off.
Proof.
  intros. unfold dump_line. rewrite hexU8_off by assumption.
  rewrite firstn_app, hex_fixed_length, Nat.sub_diag. simpl firstn at 2. rewrite app_nil_r.
  rewrite <- (hex_fixed_length hexdigU 8 off) at 1. apply firstn_all.
Qed.

(* every line of a dump of < 4 GiB of bytes has the same width and starts with its 8-digit offset *)
Lemma dump_lines_width bpl bpc : (1 <= bpc)%nat -> forall ls off,
  Forall (fun l => (1 <= length l <= bpl)%nat /\ Forall (fun b => b < 256) l) ls ->
  off + N.of_nat bpl * N.of_nat (length ls) <= 2 ^ 32 ->
  Forall (fun t => length t = line_width bpl bpc) (dump_lines bpl bpc off ls).
Proof.
  intros Hb. induction ls as [|l t IH]; intros off Hf Ho; [constructor|].
  inversion Hf as [|? ? [H1 H2] Hf']; subst. cbn [dump_lines]. simpl length in Ho.
  assert (1 <= N.of_nat bpl) by lia.
  constructor.
  - apply dump_line_length; auto. nia.
  - apply IH; [assumption|]. nia.
Qed.

Fixpoint offsets_ok (bpl : nat) (off : N) (ls : list text) : Prop :=
  match ls with
  | [] => True
  | t :: r => firstn 8 t = hex_fixed hexdigU 8 off /\ offsets_ok bpl (off + N.of_nat bpl) r
  end.

Lemma dump_lines_offsets bpl bpc : forall ls off,
  off + N.of_nat bpl * N.of_nat (length ls) <= 2 ^ 32 -> (1 <= bpl)%nat ->
  offsets_ok bpl off (dump_lines bpl bpc off ls).
Proof.
  induction ls as [|l t IH]; intros off Ho Hb; [exact I|]. cbn [dump_lines offsets_ok]. simpl length in Ho. split.
  - apply dump_line_offset. nia.
  - apply IH; [nia|assumption].
Qed.

Lemma concat_length_blocks (n : nat) : forall (ls : list bytes), Forall (fun b => (1 <= length b <= n)%nat) ls ->
  (length ls <= length (concat ls))%nat.
Proof. induction 1; simpl; [lia|]. rewrite app_length. lia. Qed.

Lemma Forall_concat {A} (P : A -> Prop) : forall ls, Forall P (concat ls) -> Forall (Forall P) ls.
Proof. induction ls; simpl; intros H; [constructor|]. apply Forall_app in H. destruct H. constructor; auto. Qed.

Theorem hexdump_equal_width bpl bpc d ls : hexdump_gen bpl bpc d = Some ls ->
  Forall (fun b => b < 256) d -> N.of_nat (length d) + N.of_nat bpl <= 2 ^ 32 ->
  Forall (fun t => length t = line_width bpl bpc) ls /\ offsets_ok bpl 0 ls.
Proof.
  unfold hexdump_gen. destruct (_ && _ && _ && _)%bool eqn:E; [|discriminate].
  intros H Hd Hlen; inversion H; subst; clear H.
  assert (Hb: (1 <= bpl)%nat) by lia. assert (Hc: (1 <= bpc)%nat) by lia.
  pose proof (chunk_fuel_blocks (length d) bpl d Hb (le_n _)) as Hblk. fold (chunk bpl d) in Hblk.
  pose proof (chunk_concat bpl d Hb) as Hcc.
  assert (Hn: (length (chunk bpl d) <= length d)%nat).
  { rewrite <- Hcc at 2. apply (concat_length_blocks bpl). assumption. }
  assert (Hlen': 0 + N.of_nat bpl * N.of_nat (length (chunk bpl d)) <= 2 ^ 32).
  { unfold chunk in *. rewrite chunk_fuel_length by lia.
    assert (Nat.div (length d + bpl - 1) bpl * bpl <= length d + bpl - 1)%nat by (rewrite Nat.mul_comm; apply Nat.mul_div_le; lia).
    nia. }
  split.
  - apply dump_lines_width; auto.
    rewrite <- Hcc in Hd. apply Forall_concat in Hd.
    clear - Hblk Hd. induction Hblk; inversion Hd; subst; constructor; auto.
  - apply dump_lines_offsets; auto.
Qed.

(* ------------------------------------------------------------------ *)
(* parse: segment lemmas in cons form                                   *)

Definition good_dig (dig : N -> N) : Prop := forall n, n < 16 -> is_hex (dig n) = true /\ hexval (dig n) = n.
Lemma good_digU : good_dig hexdigU.
Proof. intros n H. split; [apply is_hex_hexdigU|apply hexval_hexdigU]; assumption. Qed.
Lemma good_digL : good_dig hexdigL.
Proof. intros n H. split; [apply is_hex_hexdigL|apply hexval_hexdigL]; assumption. Qed.

Lemma pl_A_cons ft lt c hi : is_hex c = true -> pl (cA :: ft) (c :: lt) hi = pl ft lt hi.
Proof. intros H. cbn [pl]. rewrite N.eqb_refl, H. reflexivity. Qed.
Lemma pl_A_stop ft lt c hi : is_hex c = false -> pl (cA :: ft) (c :: lt) hi = [].
Proof. intros H. cbn [pl]. rewrite N.eqb_refl, H. reflexivity. Qed.
Lemma pl_A_dig dig ft lt x hi : good_dig dig -> pl (cA :: ft) (dig (x mod 16) :: lt) hi = pl ft lt hi.
Proof. intros G. apply pl_A_cons. apply G. apply N.mod_lt. lia. Qed.
Lemma pl_lit_cons f ft lt hi : (f =? cA) = false -> (f =? cD) = false -> (f =? cC) = false ->
  pl (f :: ft) (f :: lt) hi = pl ft lt hi.
Proof. intros H1 H2 H3. cbn [pl]. rewrite H1, H2, H3, N.eqb_refl. reflexivity. Qed.
Lemma pl_DD_cons dig ft lt b : good_dig dig -> b < 256 ->
  pl (cD :: cD :: ft) (dig (b / 16) :: dig (b mod 16) :: lt) None = b :: pl ft lt None.
Proof.
  intros G Hb. assert (b / 16 < 16) by (apply N.div_lt_upper_bound; lia).
  assert (b mod 16 < 16) by (apply N.mod_lt; lia).
  destruct (G (b / 16)) as [A1 A2]; [assumption|]. destruct (G (b mod 16)) as [B1 B2]; [assumption|].
  cbn [pl]. change (cD =? cA) with false. rewrite N.eqb_refl. cbn iota. rewrite A1, B1, A2, B2.
  f_equal. apply byte_nibbles. assumption.
Qed.
Lemma pl_D_stop ft lt c hi : is_hex c = false -> pl (cD :: ft) (c :: lt) hi = [].
Proof. intros H. cbn [pl]. change (cD =? cA) with false. rewrite N.eqb_refl. cbn iota. rewrite H. reflexivity. Qed.
Lemma pl_C_cons ft lt c hi : pl (cC :: ft) (c :: lt) hi = pl ft lt hi.
Proof. reflexivity. Qed.
Lemma pl_nil_l fmt hi : pl fmt [] hi = [].
Proof. destruct fmt; reflexivity. Qed.

Ltac pl_step dig G :=
  first
  [ rewrite (pl_A_dig dig) by exact G
  | rewrite (pl_DD_cons dig) by (first [exact G | assumption])
  | rewrite pl_lit_cons by reflexivity
  | rewrite pl_C_cons
  | rewrite pl_D_stop by reflexivity
  | rewrite pl_nil_l ].

(* rstrip of '\n' leaves a line that does not end in '\n' alone *)
Lemma lstrip_by_head p c s : p c = false -> lstrip_by p (c :: s) = c :: s.
Proof. intros H. simpl. rewrite H. reflexivity. Qed.
Lemma rstrip_by_last p s c : p c = false -> rstrip_by p (s ++ [c]) = s ++ [c].
Proof. intros H. rewrite rstrip_by_rev. rewrite rev_app_distr. change (rev [c]) with [c]. cbn [app]. rewrite lstrip_by_head by assumption.
  change (c :: rev s) with ([c] ++ rev s). rewrite rev_app_distr, rev_involutive. reflexivity. Qed.

Lemma printable_not_nl b : is_nl (printable b) = false.
Proof. unfold printable, is_nl. destruct ((32 <=? b) && (b <? 127)) eqn:E; [|reflexivity].
  apply andb_prop in E. destruct E as [E1 E2]. apply N.leb_le in E1. apply N.eqb_neq. unfold nl. lia. Qed.

Lemma text_col_pad_last w l : (1 <= w)%nat -> exists s c, ljust w sp (text_col l) = s ++ [c] /\ is_nl c = false.
Proof.
  intros Hw. unfold ljust.
  destruct (w - length (text_col l))%nat as [|k] eqn:E.
  - simpl repeat. rewrite app_nil_r. destruct (exists_last (l:=text_col l)) as (s & c & Hs).
    + unfold text_col. destruct l; [simpl in E; lia|discriminate].
    + exists s, c. split; [assumption|]. unfold text_col in Hs.
      assert (In c (map printable l)) by (rewrite Hs; apply in_or_app; right; left; reflexivity).
      apply in_map_iff in H. destruct H as (b & <- & _). apply printable_not_nl.
  - exists (text_col l ++ repeat sp k), sp. split; [|reflexivity].
    rewrite <- app_assoc. f_equal. change [sp] with (repeat sp 1). rewrite <- repeat_app. f_equal. lia.
Qed.

Lemma dump_line_rstrip bpl bpc off l : (1 <= bpl)%nat ->
  rstrip_by is_nl (dump_line bpl bpc off l) = dump_line bpl bpc off l.
Proof.
  intros Hb. unfold dump_line. destruct (text_col_pad_last bpl l Hb) as (s & c & -> & Hc).
  rewrite !app_assoc. apply rstrip_by_last. assumption.
Qed.

Lemma hexdump_gen_domain bpl bpc d :
  (exists ls, hexdump_gen bpl bpc d = Some ls) <-> (1 <= bpl <= 256 /\ 1 <= bpc <= 256)%nat.
Proof.
  unfold hexdump_gen. split.
  - intros (ls & H). destruct (_ && _ && _ && _)%bool eqn:E; [|discriminate]. lia.
  - intros H. assert ((Nat.leb 1 bpl && Nat.leb bpl 256 && Nat.leb 1 bpc && Nat.leb bpc 256)%bool = true) as -> by lia.
    eexists. reflexivity.
Qed.
