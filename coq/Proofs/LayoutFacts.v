(* The model's readers of the fixed-layout sections (Model/Parse.v) are the generic reader over the published read sequences
   (Spec/PublishedLayouts.v), which Props/C01.v and C02.v prove equal to the sequences extracted from the source text of /repo
   on every run (Gen/Layouts.v): each field is read with the width, in the order, and with the primitive the source uses. *)
From Coq Require Import List NArith Bool Arith.
From PV Require Import Base.Bytes Base.Lit Base.Reader Base.PelTypes Model.Parse Spec.PublishedLayouts.
Import ListNotations.
Open Scope N_scope.

Definition item := ((list N) * (list N) * nat * (list N))%type.
Definition kind_of (i : item) : text := match i with (_, k, _, _) => k end.
Definition width_of (i : item) : nat := match i with (_, _, w, _) => w end.

(* one raw field per read: get_mem of the width; a time stamp is the read sequence of getTimestamp *)
Fixpoint read_raw (l : list item) : reader (list bytes) :=
  match l with
  | [] => ret []
  | i :: t => b <- get_mem (width_of i) ;; r <- read_raw t ;; ret (b :: r)
  end.
Definition is_ts (k : text) : bool := match k with [116; 115] => true | _ => false end.      (* "ts" *)
Definition read_field (i : item) : reader bytes :=
  if is_ts (kind_of i) then (fs <- read_raw rd_getTimestamp ;; ret (concat fs)) else get_mem (width_of i).
Fixpoint read_fields (l : list item) : reader (list bytes) :=
  match l with
  | [] => ret []
  | i :: t => b <- read_field i ;; r <- read_fields t ;; ret (b :: r)
  end.

Definition num (b : bytes) : N := be_val b 0.

Ltac run_reads :=
  repeat match goal with
         | |- context [get_mem ?n ?s] => destruct (get_mem n s) as [[? ?]|]; cbn [bind ret]; [|reflexivity]
         end; try reflexivity.

Theorem timestamp_layout s :
  get_timestamp s = match read_raw rd_getTimestamp s with Some (fs, rest) => Some (concat fs, rest) | None => None end.
Proof.
  unfold get_timestamp, rd_getTimestamp. cbn [read_raw width_of]. unfold bind, ret.
  repeat match goal with |- context [get_mem ?n ?x] => destruct (get_mem n x) as [[? ?]|]; [|reflexivity] end.
  cbn [concat]. rewrite app_nil_r. reflexivity.
Qed.

Theorem header_layout s :
  parse_header s = match read_fields rd_parseHeader s with
                   | Some ([i; l; v; t; c], rest) => Some ((num i, num l, {| h_ver := num v; h_sub := num t; h_comp := num c |}), rest)
                   | _ => None
                   end.
Proof.
  unfold parse_header, rd_parseHeader. cbn [read_fields read_field kind_of width_of is_ts]. unfold get_int, bind, ret, num.
  repeat match goal with |- context [get_mem ?n ?x] => destruct (get_mem n x) as [[? ?]|]; [|reflexivity] end.
  reflexivity.
Qed.

Ltac all_reads :=
  repeat match goal with |- context [get_mem ?n ?x] => destruct (get_mem n x) as [[? ?]|]; [|reflexivity] end.

Theorem private_header_layout len h s :
  parse_ph_body len h s =
  match read_fields rd_PrivateHeader s with
  | Some ([cr; cm; c; r0; r1; n; ob; cv; pl; ei], rest) =>
      Some ({| ph_hdr := h; ph_len := len; ph_create := cr; ph_commit := cm; ph_creator := num c; ph_res0 := num r0; ph_res1 := num r1;
               ph_count := num n; ph_obmc := num ob; ph_cver := num cv; ph_plid := num pl; ph_eid := num ei |}, rest)
  | _ => None
  end.
Proof.
  unfold parse_ph_body, get_timestamp, rd_PrivateHeader.
  cbn [read_fields read_field kind_of width_of is_ts]. unfold rd_getTimestamp. cbn [read_raw width_of]. unfold get_int, bind, ret, num.
  all_reads. cbn [concat]. rewrite ?app_nil_r. reflexivity.
Qed.

Theorem user_header_layout len h s :
  parse_uh_body len h s =
  match read_fields rd_UserHeader s with
  | Some ([a; b; c; d; r; e; f; g; st], rest) =>
      Some ({| uh_hdr := h; uh_len := len; uh_subsys := num a; uh_scope := num b; uh_sev := num c; uh_etype := num d; uh_res4 := num r;
               uh_domain := num e; uh_vector := num f; uh_flags := num g; uh_states := num st |}, rest)
  | _ => None
  end.
Proof.
  unfold parse_uh_body, rd_UserHeader. cbn [read_fields read_field kind_of width_of is_ts]. unfold get_int, bind, ret, num.
  all_reads. reflexivity.
Qed.

Theorem failing_mtms_layout s :
  parse_mt s = match read_fields rd_FailingMTMS s with
               | Some ([a; b], rest) => Some ({| t_mtm := a; t_sn := b |}, rest)
               | _ => None
               end.
Proof.
  unfold parse_mt, rd_FailingMTMS. cbn [read_fields read_field kind_of width_of is_ts]. unfold bind, ret.
  all_reads. reflexivity.
Qed.

(* the fixed part of the Extended User Header: ten reads, then the symptom id of the size just read (if not 0) *)
Definition fixed_prefix (l : list item) : list item := firstn 10 l.
Theorem ext_user_header_layout s :
  parse_eh s =
  match read_fields (fixed_prefix rd_ExtendedUserHeader) s with
  | Some ([a; b; c; d; r; t; r1; r2; r3; sl], rest) =>
      match (if num sl =? 0 then ret [] else get_memN (num sl)) rest with
      | Some (sym, rest') =>
          Some ({| e_mtm := a; e_sn := b; e_fw := c; e_subfw := d; e_res4 := num r; e_reftime := t; e_r1 := num r1; e_r2 := num r2;
                   e_r3 := num r3; e_symlen := num sl; e_sym := sym |}, rest')
      | None => None
      end
  | _ => None
  end.
Proof.
  unfold parse_eh, get_timestamp, rd_ExtendedUserHeader, fixed_prefix.
  cbn [firstn read_fields read_field kind_of width_of is_ts]. unfold rd_getTimestamp. cbn [read_raw width_of]. unfold get_int, bind, ret, num.
  all_reads. cbn [concat]. rewrite ?app_nil_r.
  match goal with |- context [if ?c then _ else _] => destruct c end; [reflexivity|].
  match goal with |- context [get_memN ?n ?x] => destruct (get_memN n x) as [[? ?]|] end; reflexivity.
Qed.
