From Coq Require Import List NArith Bool Arith Lia.
From PV Require Import Base.Bytes Base.Reader Base.PelTypes Model.Parse Spec.Encode Gen.Tables
                       Proofs.BytesFacts Proofs.ReaderFacts Proofs.ParseFacts.
Import ListNotations.
Open Scope N_scope.

(* the flag constants the code uses are the ones the format defines *)
Lemma flags_agree : Flags_pnSupplied = 8 /\ Flags_ccinSupplied = 4 /\ Flags_maintProcSupplied = 2 /\ Flags_snSupplied = 1
  /\ HeaderFlags_additionalSections = 1.
Proof. repeat split; reflexivity. Qed.

Lemma has_flag fl m : has fl m = flag fl m.
Proof. reflexivity. Qed.

Lemma opt_mem_app (c : bool) n xs rest : length xs = (if c then n else 0%nat) -> n <> 0%nat ->
  opt_mem c n (xs ++ rest) = Some (xs, rest).
Proof.
  intros H Hn. unfold opt_mem. destruct c.
  - apply get_mem_app; assumption.
  - apply len_nil in H. subst. reflexivity.
Qed.

Lemma parse_fru_enc f rest : wf_fru f -> parse_fru (enc_fru f ++ rest) = Some (f, rest).
Proof.
  intros (H1 & H2 & (L1 & _) & (L2 & _) & (L3 & _)).
  unfold parse_fru, enc_fru, be. rewrite <- !app_assoc. rd.
  destruct flags_agree as (-> & -> & -> & -> & _). rewrite !has_flag.
  unfold bind at 1. rewrite opt_mem_app by (assumption || discriminate). cbv beta iota.
  unfold bind at 1. rewrite opt_mem_app by (assumption || discriminate). cbv beta iota.
  unfold bind at 1. rewrite opt_mem_app by (assumption || discriminate). cbv beta iota.
  unfold ret. destruct f; reflexivity.
Qed.

Lemma parse_pce_enc p rest : wf_pce p -> parse_pce (enc_pce p ++ rest) = Some (p, rest).
Proof.
  intros (H1 & H2 & (L1 & _) & (L2 & _) & Ln & _ & Hs).
  unfold parse_pce, enc_pce, be. rewrite <- !app_assoc. rd.
  assert ((p_size p <? 24) = false) as -> by (apply N.ltb_ge; lia).
  unfold bind at 1. rewrite get_memN_app by lia. unfold ret. destruct p; reflexivity.
Qed.

Lemma parse_mru_enc m rest : wf_mru m -> parse_mru (enc_mru m ++ rest) = Some (m, rest).
Proof.
  intros (H1 & H2 & H3 & Hl & Hf & Hs).
  unfold parse_mru, enc_mru, be. rewrite <- !app_assoc. rd.
  unfold bind at 1. rewrite <- Hl.
  rewrite (read_n_app_P (fun pi => lt32 (fst pi) /\ lt32 (snd pi))
             (p <- get_int 4 ;; i <- get_int 4 ;; ret (p, i))
             (fun pi => be_bytes 4 (fst pi) ++ be_bytes 4 (snd pi))); [| |assumption].
  - unfold ret. destruct m; reflexivity.
  - intros [a b] r [Ha Hb]. cbn [fst snd] in *. rewrite <- app_assoc. rd. reflexivity.
Qed.

Lemma peek_fru f rest : peek2 (enc_fru f ++ rest) = Some (18756, enc_fru f ++ rest).
Proof. reflexivity. Qed.
Lemma peek_pce p rest : peek2 (enc_pce p ++ rest) = Some (20549, enc_pce p ++ rest).
Proof. reflexivity. Qed.
Lemma peek_mru m rest : peek2 (enc_mru m ++ rest) = Some (19794, enc_mru m ++ rest).
Proof. reflexivity. Qed.

Lemma sub_size_flat s : sub_size s = sub_flat s.
Proof. destruct s; reflexivity. Qed.

Lemma sub_size_pos s : wf_sub s -> 4 <= sub_size s.
Proof.
  destruct s as [f|p|m]; cbn [wf_sub sub_size].
  - intros _. lia.
  - intros (_ & _ & _ & _ & _ & _ & ->). lia.
  - intros (_ & _ & _ & _ & _ & ->). lia.
Qed.

Theorem parse_subs_exact : forall ss fuel size cur acc rest,
  Forall wf_sub ss -> (length ss < fuel)%nat -> size = cur + subs_size ss ->
  parse_subs fuel size cur acc (flat_map enc_sub ss ++ rest) = Some (Some (rev acc ++ ss), rest).
Proof.
  induction ss as [|s ss IH]; intros fuel size cur acc rest W Lf E.
  - destruct fuel; [simpl in Lf; lia|]. cbn [parse_subs flat_map app]. cbn in E. subst.
    rewrite N.add_0_r, N.ltb_irrefl. unfold ret. rewrite app_nil_r. reflexivity.
  - destruct fuel; [simpl in Lf; lia|]. inversion W as [|? ? Ws Wss]; subst.
    pose proof (sub_size_pos s Ws) as Hp.
    cbn [parse_subs flat_map]. unfold subs_size. cbn [fold_right]. fold (subs_size ss).
    assert (cur <? cur + (sub_size s + subs_size ss) = true) as -> by (apply N.ltb_lt; lia).
    rewrite <- app_assoc.
    destruct s as [f|p|m]; cbn [enc_sub].
    + unfold bind at 1. rewrite peek_fru. cbv beta iota. change (18756 =? 18756) with true. cbv iota.
      unfold bind at 1. rewrite parse_fru_enc by exact Ws. cbv beta iota.
      rewrite IH; [|assumption|simpl in Lf; lia|cbn [sub_size]; unfold fru_flat; lia].
      cbn [rev]. rewrite <- app_assoc. reflexivity.
    + unfold bind at 1. rewrite peek_pce. cbv beta iota. change (20549 =? 18756) with false. change (20549 =? 20549) with true. cbv iota.
      unfold bind at 1. rewrite parse_pce_enc by exact Ws. cbv beta iota.
      rewrite IH; [|assumption|simpl in Lf; lia|cbn [sub_size]; lia].
      cbn [rev]. rewrite <- app_assoc. reflexivity.
    + unfold bind at 1. rewrite peek_mru. cbv beta iota. change (19794 =? 18756) with false. change (19794 =? 20549) with false.
      change (19794 =? 19794) with true. cbv iota.
      unfold bind at 1. rewrite parse_mru_enc by exact Ws. cbv beta iota.
      rewrite IH; [|assumption|simpl in Lf; lia|cbn [sub_size]; lia].
      cbn [rev]. rewrite <- app_assoc. reflexivity.
Qed.

(* under the canonical shape, the decoder's flattened size (last of each kind) is the encoded size *)
Lemma callout_flat_size c : wf_callout c -> callout_flat c = c_size c.
Proof.
  intros (_ & _ & _ & _ & Ws & Sh & -> & _). unfold callout_flat.
  destruct (c_subs c) as [|[f1|p1|m1] [|[f2|p2|m2] [|[f3|p3|m3] [|? ?]]]]; cbn in Sh; try contradiction;
    cbn [last_fru last_pce last_mru fold_left subs_size fold_right sub_size]; unfold fru_flat; lia.
Qed.

Lemma subs_len_le3 l : subs_shape l -> (length l <= 3)%nat.
Proof.
  destruct l as [|[f1|p1|m1] [|[f2|p2|m2] [|[f3|p3|m3] [|? ?]]]]; cbn; intros; try contradiction; lia.
Qed.

Lemma sub_min_len s : (4 <= length (enc_sub s))%nat.
Proof. destruct s; unfold enc_sub, enc_fru, enc_pce, enc_mru, be; rewrite !app_length, !be_bytes_length; lia. Qed.
Lemma subs_len l : (4 * length l <= length (flat_map enc_sub l))%nat.
Proof. induction l as [|s l IH]; simpl; [lia|]. rewrite app_length. pose proof (sub_min_len s). lia. Qed.

Definition callout_head_bytes (c : callout_t) : bytes :=
  be 1 (c_size c) ++ be 1 (c_flags c) ++ be 1 (c_prio c) ++ be 1 (N.of_nat (length (c_loc c))) ++ c_loc c.

Lemma callout_head_enc c rest : wf_callout c ->
  callout_head (callout_head_bytes c ++ rest) = Some ((c_size c, c_flags c, c_prio c, c_loc c), rest).
Proof.
  intros W. pose proof W as (H1 & H2 & Hl & Ha & Ws & Sh & Hs & H8).
  unfold callout_head, callout_head_bytes, be. rewrite <- !app_assoc.
  assert (N.of_nat (length (c_loc c)) < 256) by lia.
  rd.
  assert (Hloc: (if 0 <? N.of_nat (length (c_loc c)) then get_memN (N.of_nat (length (c_loc c))) else ret [])
                  (c_loc c ++ rest) = Some (c_loc c, rest)).
  { destruct (0 <? N.of_nat (length (c_loc c))) eqn:E.
    - apply N.ltb_lt in E. apply get_memN_app; lia.
    - apply N.ltb_ge in E. assert (length (c_loc c) = 0%nat) by lia. apply len_nil in H0. rewrite H0. reflexivity. }
  unfold bind at 1. rewrite Hloc. reflexivity.
Qed.

Lemma enc_callout_split c : enc_callout c = callout_head_bytes c ++ flat_map enc_sub (c_subs c).
Proof. unfold enc_callout, callout_head_bytes. rewrite <- !app_assoc. reflexivity. Qed.

Lemma parse_callout_enc c rest : wf_callout c ->
  parse_callout (enc_callout c ++ rest) = Some (Some c, rest).
Proof.
  intros W. pose proof W as (H1 & H2 & Hl & Ha & Ws & Sh & Hs & H8).
  rewrite enc_callout_split, <- app_assoc. unfold parse_callout.
  unfold bind at 1. rewrite callout_head_enc by assumption. cbv beta iota.
  unfold bind at 1. unfold remaining at 1. cbv beta iota.
  unfold bind at 1. rewrite parse_subs_exact; [|assumption|rewrite app_length; pose proof (subs_len (c_subs c)); lia|lia].
  cbv beta iota. unfold ret. cbn [rev app]. destruct c; reflexivity.
Qed.

Theorem parse_callout_list_exact : forall l fuel wlen4 cur acc rest,
  Forall wf_callout l -> (length l + 4 <= fuel)%nat -> wlen4 = cur + callouts_size l ->
  parse_callout_list fuel wlen4 cur acc (flat_map enc_callout l ++ rest) = Some (Some (rev acc ++ l), rest).
Proof.
  induction l as [|c l IH]; intros fuel wlen4 cur acc rest W Lf E.
  - destruct fuel; [lia|]. cbn [parse_callout_list flat_map app]. cbn in E. subst.
    rewrite N.add_0_r, N.ltb_irrefl. unfold ret. rewrite app_nil_r. reflexivity.
  - destruct fuel; [simpl in Lf; lia|]. inversion W as [|? ? Wc Wl]; subst.
    assert (4 <= c_size c) by (destruct Wc as (_ & _ & _ & _ & _ & _ & -> & _); lia).
    cbn [parse_callout_list flat_map]. unfold callouts_size. cbn [fold_right]. fold (callouts_size l). unfold callout_size.
    assert (cur <? cur + (c_size c + callouts_size l) = true) as -> by (apply N.ltb_lt; lia).
    rewrite <- app_assoc. unfold bind at 1. rewrite parse_callout_enc by assumption. cbv beta iota.
    rewrite callout_flat_size by assumption.
    rewrite IH; [|assumption|simpl in Lf; lia|lia].
    cbn [rev]. rewrite <- app_assoc. reflexivity.
Qed.

Lemma callout_min_len c : wf_callout c -> (4 <= length (enc_callout c))%nat.
Proof. intros _. unfold enc_callout, be. rewrite !app_length, !be_bytes_length. lia. Qed.

Lemma callouts_len l : Forall wf_callout l -> (4 * length l <= length (flat_map enc_callout l))%nat.
Proof.
  induction 1 as [|c l Wc Wl IH]; simpl; [lia|]. rewrite app_length. pose proof (callout_min_len c Wc). lia.
Qed.

Lemma parse_callouts_enc cs rest : wf_callouts cs -> parse_callouts (enc_callouts cs ++ rest) = Some (Some cs, rest).
Proof.
  intros (H1 & H2 & H3 & Wl & Hw).
  unfold parse_callouts, enc_callouts, be. rewrite <- !app_assoc. rd.
  unfold bind at 1. rewrite parse_callout_list_exact; [|assumption| |lia].
  - cbv beta iota. unfold ret. cbn [rev app]. destruct cs; reflexivity.
  - assert (4 * N.of_nat (length (cs_list cs)) <= callouts_size (cs_list cs)).
    { clear - Wl. induction Wl as [|c l Wc Wl IH]; [simpl; lia|]. unfold callouts_size in *. cbn [fold_right length].
      unfold callout_size at 1. destruct Wc as (_ & _ & _ & _ & _ & _ & -> & _). lia. }
    lia.
Qed.

Lemma read_words ws rest : length ws = 8%nat -> Forall lt32 ws ->
  read_n 8 (get_int 4) (flat_map (be_bytes 4) ws ++ rest) = Some (ws, rest).
Proof.
  intros H F. rewrite <- H. apply (read_n_app_P lt32 (get_int 4) (be_bytes 4)); [|assumption].
  intros. apply get_int4. assumption.
Qed.

Lemma parse_src_enc s rest : wf_src s -> parse_src (enc_src s ++ rest) = Some (Some s, rest).
Proof.
  intros (H1 & H2 & H3 & Hw & H5 & H6 & Lw & Fw & (La & _) & Hc).
  unfold parse_src, enc_src, be. rewrite <- !app_assoc.
  assert (s_wcount s < 256) by lia.
  rd.
  unfold bind at 1. rewrite read_words by assumption.
  cbv beta iota. rd.
  assert ((9 <? s_wcount s) = false) as -> by (apply N.ltb_ge; lia).
  destruct flags_agree as (_ & _ & _ & _ & ->). rewrite has_flag.
  destruct (s_callouts s) as [cs|] eqn:Ec.
  - destruct Hc as [Hf Wc]. rewrite Hf.
    unfold bind at 1. rewrite parse_callouts_enc by assumption. cbv beta iota.
    unfold ret. destruct s; cbn in *. subst. reflexivity.
  - rewrite Hc. cbn [app]. unfold ret. destruct s; cbn in *. subst. reflexivity.
Qed.
