(* ImpactedPartition.toJSON (imp_partition.py), translated from the source text (Gen/Readers.v, regenerated every run), is the model's
   parse_lp (Model/Parse.v), for every byte string. *)
From Coq Require Import List NArith ZArith Bool Lia ZifyBool.
From PV Require Import Base.Bytes Base.Lit Base.Reader Base.PelTypes Model.StreamProg Model.Parse Gen.Readers Gen.Tables
                       Proofs.ReaderProgFacts Proofs.ReaderSrcFacts.
Import ListNotations.
Ltac Zify.zify_post_hook ::= Z.to_euclidean_division_equations.

(* ---------- ImpactedPartition.toJSON ---------- *)
Definition tlps : name := Eval cbv in (L "self.targetLPs").
Definition tkey : name := Eval cbv in (tlps ++ [46; 48]%N).
Definition targets_of (s : sst) : list N := rev (map Z.to_N (values_of (s_ints s) tkey)).

Definition lp_of (s : sst) : lp_t :=
  {| l_part := int_of s (L "self.primaryPartID"); l_namelen := int_of s (L "self.lpNameLength");
     l_count := int_of s (L "self.targetLPcount"); l_logid := int_of s (L "self.logicalPartLogID");
     l_name := mem_of s (L "self.lpName"); l_targets := targets_of s;
     l_pad := if N.odd (int_of s (L "self.targetLPcount")) then Some (int_of s (L "_")) else None |}.

Definition lp_agrees (d : bytes) : Prop :=
  match run prog_lp (init d) with
  | RFall s => parse_lp d = Some (lp_of s, s_rest s)
  | RErr => parse_lp d = None
  | _ => False
  end.

Definition push_target (ints : list (name * Z)) (w : N) : list (name * Z) := (tkey, Z.of_N w) :: ints.

Lemma get_int2_has d : get_int 2 d = if StreamProg.has 2 d then Some (be_val (firstn 2 d) 0, skipn 2 d) else None.
Proof. cbv [get_int bind ret]. rewrite (get_mem_has 1 d). destruct (StreamProg.has 2 d); reflexivity. Qed.

Lemma targets_loop n : forall d i ints mems,
  iter_body (run (TAppendInt tlps (XC 2))) n (mkS d i ints mems) =
  match read_n n (get_int 2) d with
  | Some (l, rest) => RFall (mkS rest (i + 2 * Z.of_nat n) (fold_left push_target l ints) mems)
  | None => RErr
  end.
Proof.
  induction n as [|n IH]; intros d i ints mems.
  - cbn [iter_body read_n ret]. replace (i + 2 * Z.of_nat 0)%Z with i by lia. reflexivity.
  - cbn [iter_body read_n]. unfold bind at 1. rewrite get_int2_has.
    destruct (StreamProg.has 2 d) eqn:H2.
    + erewrite run_append_int with (z := 2%Z); [|reflexivity|reflexivity|exact H2].
      change (Z.to_nat 2) with 2%nat. cbn [s_rest s_idx s_ints s_mems]. rewrite IH. unfold bind.
      destruct (read_n n (get_int 2) (skipn 2 d)) as [[l rest]|]; [|reflexivity].
      cbn [ret fold_left]. unfold push_target at 2. change (tlps ++ [46; 48]%N) with tkey. do 2 f_equal. lia.
    + cbn [run ev]. change (0 <? 2)%Z with true. cbn [andb s_rest]. change (Z.to_nat 2) with 2%nat. rewrite H2. reflexivity.
Qed.

Lemma geti_targets l k : text_eqb tkey k = false -> forall ints, geti (fold_left push_target l ints) k = geti ints k.
Proof.
  intros H. induction l as [|w l IH]; intros ints; [reflexivity|].
  cbn [fold_left]. rewrite IH. unfold push_target. cbn [geti]. rewrite H. reflexivity.
Qed.
Lemma values_targets l : forall ints, values_of (fold_left push_target l ints) tkey = rev (map Z.of_N l) ++ values_of ints tkey.
Proof.
  induction l as [|w l IH]; intros ints; [reflexivity|].
  cbn [fold_left map rev]. rewrite IH. unfold push_target at 1. cbn [values_of].
  change (text_eqb tkey tkey) with true. cbv beta iota. rewrite <- app_assoc. reflexivity.
Qed.
Lemma forget_targets v l : names_var v tkey = false -> forall ints,
  forget v (fold_left push_target l ints) = fold_left push_target l (forget v ints).
Proof.
  intros H. induction l as [|w l IH]; intros ints; [reflexivity|].
  cbn [fold_left]. rewrite IH. unfold push_target at 2. cbn [forget]. rewrite H. reflexivity.
Qed.

Lemma odd_mod cnt : negb (Z.of_N cnt mod 2 =? 0)%Z = N.odd cnt.
Proof.
  destruct (N.odd cnt) eqn:E.
  - apply N.odd_spec in E. destruct E as [m ->]. lia.
  - rewrite <- N.negb_even in E. apply negb_false_iff, N.even_spec in E. destruct E as [m ->]. lia.
Qed.

Lemma parse_lp_cons a0 a1 a2 a3 a4 a5 a6 a7 d1 :
  parse_lp (a0 :: a1 :: a2 :: a3 :: a4 :: a5 :: a6 :: a7 :: d1) =
  let nl := be_val [a2] 0 in let cnt := be_val [a3] 0 in
  match (if (nl =? 0)%N then Some ([], d1) else get_memN nl d1) with
  | Some (nm, d2) =>
      match read_n (N.to_nat cnt) (get_int 2) d2 with
      | Some (ts, d3) =>
          match (if N.odd cnt then match get_int 2 d3 with Some (x, d4) => Some (Some x, d4) | None => None end else Some (None, d3)) with
          | Some (pad, d4) =>
              Some ({| l_part := be_val [a0; a1] 0; l_namelen := nl; l_count := cnt; l_logid := be_val [a4; a5; a6; a7] 0;
                       l_name := nm; l_targets := ts; l_pad := pad |}, d4)
          | None => None
          end
      | None => None
      end
  | None => None
  end.
Proof.
  cbv zeta. unfold parse_lp. cbv -[be_val N.eqb N.odd get_memN read_n N.to_nat].
  destruct (be_val [a2] 0 =? 0)%N.
  - match goal with |- context [read_n ?n ?r ?d] => destruct (read_n n r d) as [[ts d3]|] end; [|reflexivity].
    destruct (N.odd (be_val [a3] 0)); [|reflexivity].
    match goal with |- context [match ?g with Some _ => _ | None => _ end] =>
      match g with context [d3] => destruct g as [[x d4]|] end end; reflexivity.
  - destruct (get_memN (be_val [a2] 0) d1) as [[nm d2]|]; [|reflexivity].
    match goal with |- context [read_n ?n ?r ?d] => destruct (read_n n r d) as [[ts d3]|] end; [|reflexivity].
    destruct (N.odd (be_val [a3] 0)); [|reflexivity].
    match goal with |- context [match ?g with Some _ => _ | None => _ end] =>
      match g with context [d3] => destruct g as [[x d4]|] end end; reflexivity.
Qed.

(* if cnt: for _ in range(cnt): append   is   cnt iterations, also when cnt is 0 *)
Lemma run_guarded_repeat c body s cnt : geti (s_ints s) c = Some (Z.of_N cnt) ->
  run (TIf (CTruthy (XV c)) (TRepeat (XV c) body) TNop) s = iter_body (run body) (N.to_nat cnt) s.
Proof.
  intros H. erewrite run_if with (b := negb (Z.of_N cnt =? 0)%Z) by (cbn [evc ev]; rewrite H; reflexivity).
  destruct (Z.of_N cnt =? 0)%Z eqn:E; cbn [negb].
  - assert (cnt = 0%N) by lia. subst cnt. reflexivity.
  - erewrite run_repeat with (z := Z.of_N cnt) by (cbn [ev]; exact H). rewrite to_nat_of_N. reflexivity.
Qed.

Definition lp_ints (nl cnt part lid : N) : list (name * Z) :=
  [(L "self.logicalPartLogID", Z.of_N lid); (L "self.targetLPcount", Z.of_N cnt); (L "self.lpNameLength", Z.of_N nl);
   (L "self.primaryPartID", Z.of_N part)].

Definition lp_model_tail (nm d2 : bytes) (nl cnt part lid : N) : option (lp_t * bytes) :=
  match read_n (N.to_nat cnt) (get_int 2) d2 with
  | Some (ts, d3) =>
      match (if N.odd cnt then match get_int 2 d3 with Some (x, d4) => Some (Some x, d4) | None => None end else Some (None, d3)) with
      | Some (pad, d4) =>
          Some ({| l_part := part; l_namelen := nl; l_count := cnt; l_logid := lid; l_name := nm; l_targets := ts; l_pad := pad |}, d4)
      | None => None
      end
  | None => None
  end.

Definition lp_tail_agrees (r : res) (m : option (lp_t * bytes)) : Prop :=
  match r with
  | RFall s => m = Some (lp_of s, s_rest s)
  | RErr => m = None
  | _ => False
  end.

Lemma lp_tail d2 i mems nl cnt part lid :
  lp_tail_agrees (run (drop_seq 5 prog_lp) (mkS d2 i (lp_ints nl cnt part lid) mems))
                 (lp_model_tail (mem_of (mkS d2 i (lp_ints nl cnt part lid) mems) (L "self.lpName")) d2 nl cnt part lid).
Proof.
  unfold lp_model_tail. cbv [drop_seq prog_lp].
  rewrite run_seq_eq. rewrite (run_guarded_repeat _ _ _ cnt) by reflexivity.
  let v := eval cbv in tlps in change v with tlps.
  rewrite targets_loop.
  destruct (read_n (N.to_nat cnt) (get_int 2) d2) as [[ts d3]|]; [|reflexivity].
  cbv beta iota. rewrite run_seq_eq.
  erewrite run_if with (b := N.odd cnt).
  2:{ cbn [evc ev s_ints]. rewrite geti_targets by reflexivity. cbn [lp_ints geti text_eqb N.eqb Pos.eqb andb L
        Ascii.N_of_ascii Ascii.N_of_digits N.add N.mul Pos.add Pos.mul Pos.succ]. change (2 =? 0)%Z with false. cbv beta iota.
      rewrite odd_mod. reflexivity. }
  (* the display statements: stream-free; what they forget (out, lp) was never bound *)
  assert (DISP : forall E dd ii,
            (forall k, names_var k (L "_") = false -> forget k E = E) ->
            geti (E ++ fold_left push_target ts (lp_ints nl cnt part lid)) (L "self.targetLPcount") = Some (Z.of_N cnt) ->
            run (drop_seq 7 prog_lp) (mkS dd ii (E ++ fold_left push_target ts (lp_ints nl cnt part lid)) mems) =
            RFall (mkS dd ii (E ++ fold_left push_target ts (lp_ints nl cnt part lid)) (forget (L "lp") (forget (L "out") mems)))
            \/ run (drop_seq 7 prog_lp) (mkS dd ii (E ++ fold_left push_target ts (lp_ints nl cnt part lid)) mems) =
            RFall (mkS dd ii (E ++ fold_left push_target ts (lp_ints nl cnt part lid)) (forget (L "out") mems))).
  { intros E dd ii HE Hc. cbv [drop_seq prog_lp].
    assert (FO : forall k, names_var k (L "_") = false -> names_var k tkey = false -> forget k (lp_ints nl cnt part lid) = lp_ints nl cnt part lid ->
                 forget k (E ++ fold_left push_target ts (lp_ints nl cnt part lid)) = E ++ fold_left push_target ts (lp_ints nl cnt part lid)).
    { intros k K1 K2 K3. assert (A : forall (X Y : list (name * Z)), forget k (X ++ Y) = forget k X ++ forget k Y).
      { induction X as [|[kk x] X IHX]; intros Y; [reflexivity|]. cbn [app forget]. destruct (names_var k kk); rewrite IHX; reflexivity. }
      rewrite A, (HE k K1), (forget_targets k ts K2), K3. reflexivity. }
    rewrite run_seq_eq, run_forget_pure. cbv beta iota. cbn [s_rest s_idx s_ints s_mems].
    let o := eval cbv in (L "out") in change o with (L "out").
    rewrite (FO (L "out")) by reflexivity.
    do 8 (rewrite run_seq_eq, run_pure; cbv beta iota).
    rewrite run_seq_eq.
    erewrite run_if with (b := negb (Z.of_N cnt =? 0)%Z).
    2:{ cbn [evc ev s_ints]. let c := eval cbv in (L "self.targetLPcount") in change c with (L "self.targetLPcount"). rewrite Hc. reflexivity. }
    destruct (negb (Z.of_N cnt =? 0)%Z).
    - left. rewrite run_forget_pure. cbv beta iota. cbn [s_rest s_idx s_ints s_mems run].
      let o := eval cbv in (L "lp") in change o with (L "lp").
      rewrite (FO (L "lp")) by reflexivity. reflexivity.
    - right. rewrite run_nop. reflexivity. }
  assert (GM : forall k mm, names_var k (L "self.lpName") = false -> getm (forget k mm) (L "self.lpName") = getm mm (L "self.lpName")).
  { intros k mm Hk. induction mm as [|[kk x] mm IHm]; [reflexivity|]. cbn [forget]. destruct (names_var k kk) eqn:Ek.
    - cbn [getm]. destruct (text_eqb kk (L "self.lpName")) eqn:Et; [|exact IHm].
      exfalso. assert (kk = L "self.lpName").
      { clear - Et. revert Et. generalize (L "self.lpName"). induction kk as [|c kk IHk]; intros [|c2 l2] H; cbn in H; try discriminate; [reflexivity|].
        apply andb_prop in H. destruct H as [H1 H2]. apply N.eqb_eq in H1. subst. f_equal. apply IHk. exact H2. }
      subst kk. rewrite Hk in Ek. discriminate Ek.
    - cbn [getm]. rewrite IHm. reflexivity. }
  assert (TS : map Z.to_N (map Z.of_N ts) = ts).
  { rewrite map_map. erewrite map_ext; [apply map_id|]. intros w. apply N2Z.id. }
  Ltac fin_state :=
    unfold lp_of, int_of, mem_of, targets_of; cbn [s_ints s_mems s_rest app];
    cbn [geti values_of text_eqb N.eqb Pos.eqb andb L tkey tlps Ascii.N_of_ascii Ascii.N_of_digits N.add N.mul Pos.add Pos.mul Pos.succ];
    repeat match goal with |- context [geti (fold_left push_target ?l ?m) ?k] => rewrite (geti_targets l k) by reflexivity end;
    repeat match goal with |- context [values_of (fold_left push_target ?l ?m) ?k] => change k with tkey; rewrite (values_targets l) end;
    cbv [lp_ints geti values_of text_eqb N.eqb Pos.eqb andb L tkey tlps Ascii.N_of_ascii Ascii.N_of_digits N.add N.mul Pos.add Pos.mul Pos.succ];
    rewrite ?app_nil_r, ?N2Z.id, ?map_rev, ?rev_involutive;
    (let n := eval cbv in (L "self.lpName") in change n with (L "self.lpName"));
    (let n := eval cbv in (L "lp") in change n with (L "lp")); (let n := eval cbv in (L "out") in change n with (L "out")).
  destruct (N.odd cnt) eqn:Ho.
  - (* an odd count: two pad bytes *)
    rewrite get_int2_has.
    destruct (StreamProg.has 2 d3) eqn:H2.
    + erewrite run_int with (z := 2%Z); [|reflexivity|reflexivity|exact H2].
      change (Z.to_nat 2) with 2%nat. cbv beta iota. cbn [s_rest s_idx s_ints s_mems].
      set (x := be_val (firstn 2 d3) 0).
      destruct (DISP [([95]%N, Z.of_N x)] (skipn 2 d3) (i + 2 * Z.of_nat (N.to_nat cnt) + 2)%Z) as [R|R].
      * intros k Hk. cbn [forget]. change [95]%N with (L "_"). rewrite Hk. reflexivity.
      * cbn [app geti]. change (text_eqb [95]%N (L "self.targetLPcount")) with false. cbv beta iota.
        rewrite geti_targets by reflexivity. reflexivity.
      * cbn [app] in R. match type of R with _ = ?rhs => match goal with |- lp_tail_agrees ?r _ => replace r with rhs by (symmetry; exact R) end end. unfold lp_tail_agrees.
        cbn [s_rest]. f_equal. f_equal.
        fin_state. rewrite !GM by reflexivity. rewrite TS, ?Ho. reflexivity.
      * cbn [app] in R. match type of R with _ = ?rhs => match goal with |- lp_tail_agrees ?r _ => replace r with rhs by (symmetry; exact R) end end. unfold lp_tail_agrees.
        cbn [s_rest]. f_equal. f_equal.
        fin_state. rewrite !GM by reflexivity. rewrite TS, ?Ho. reflexivity.
    + cbn [run ev]. change (0 <? 2)%Z with true. cbn [andb s_rest]. change (Z.to_nat 2) with 2%nat. rewrite H2. reflexivity.
  - rewrite run_nop. cbv beta iota.
    destruct (DISP [] d3 (i + 2 * Z.of_nat (N.to_nat cnt))%Z) as [R|R].
    * intros k Hk. reflexivity.
    * cbn [app]. rewrite geti_targets by reflexivity. reflexivity.
    * cbn [app] in R. match type of R with _ = ?rhs => match goal with |- lp_tail_agrees ?r _ => replace r with rhs by (symmetry; exact R) end end. unfold lp_tail_agrees.
      cbn [s_rest]. f_equal. f_equal.
      fin_state. rewrite !GM by reflexivity. rewrite TS, ?Ho. reflexivity.
    * cbn [app] in R. match type of R with _ = ?rhs => match goal with |- lp_tail_agrees ?r _ => replace r with rhs by (symmetry; exact R) end end. unfold lp_tail_agrees.
      cbn [s_rest]. f_equal. f_equal.
      fin_state. rewrite !GM by reflexivity. rewrite TS, ?Ho. reflexivity.
Qed.

Theorem lp_prog_correct : forall d, lp_agrees d.
Proof.
  intro d. unfold lp_agrees.
  do 8 (destruct d as [|?a d]; [cbv -[be_val Z.of_N]; reflexivity|]).
  rewrite parse_lp_cons. cbv zeta. unfold prog_lp, init.
  do 4 step.
  generalize (be_val [a1] 0) (be_val [a2] 0) (be_val [a; a0] 0) (be_val [a3; a4; a5; a6] 0). intros nl cnt part lid.
  (* the partition name *)
  rewrite run_seq_eq. erewrite run_if with (b := negb (Z.of_N nl =? 0)%Z) by reflexivity.
  replace (nl =? 0)%N with (Z.of_N nl =? 0)%Z by lia.
  destruct (Z.of_N nl =? 0)%Z eqn:En; cbn [negb].
  - (* no name *)
    rewrite run_nop. norm. assert (nl = 0%N) by lia. subst nl.
    pose proof (lp_tail d 8%Z [] 0%N cnt part lid) as T. unfold lp_model_tail in T. unfold lp_tail_agrees in T.
    cbv [drop_seq prog_lp lp_ints] in T.
    change (mem_of _ (L "self.lpName")) with (@nil N) in T.
    exact T.
  - assert (Hpos : (0 < Z.of_N nl)%Z) by lia.
    rewrite get_memN_has. destruct (N.eqb_spec nl 0) as [E0|E0]; [lia|].
    destruct (StreamProg.has (N.to_nat nl) d) eqn:Hh.
    + erewrite run_mem with (z := Z.of_N nl); [|reflexivity|exact Hpos|rewrite to_nat_of_N; exact Hh].
      norm. rewrite to_nat_of_N.
      pose proof (lp_tail (skipn (N.to_nat nl) d) (8 + Z.of_N nl)%Z [(L "self.lpName", firstn (N.to_nat nl) d)] nl cnt part lid) as T.
      unfold lp_model_tail in T. unfold lp_tail_agrees in T. cbv [drop_seq prog_lp lp_ints] in T.
      change (mem_of _ (L "self.lpName")) with (firstn (N.to_nat nl) d) in T.
      exact T.
    + cbn [run ev geti s_ints s_rest text_eqb N.eqb Pos.eqb andb]. rewrite to_nat_of_N, Hh.
      destruct (0 <? Z.of_N nl)%Z; reflexivity.
Qed.

(* ---------- the length-driven consumers: UserData / ExtUserData / Default constructors ---------- *)
(* the constructor's further parameters, bound to the section-header fields (the creator id is a one-character string in the
   code; the programs only copy it, so any number stands for it) *)
Definition param_state (d : bytes) (id len ver sub comp cr : N) : sst :=
  mkS d 0 [(L "sectionID", Z.of_N id); (L "sectionLen", Z.of_N len); (L "versionID", Z.of_N ver); (L "subType", Z.of_N sub);
           (L "componentID", Z.of_N comp); (L "creatorID", Z.of_N cr)] [].

Definition payload_agrees (r : res) (m : option (bytes * bytes)) : Prop :=
  match r with
  | RFall s => m = Some (mem_of s (L "self.data"), s_rest s)
  | RErr => m = None
  | _ => False
  end.

Lemma mem_tail v w s (len k : N) : ev w s = Some (Z.of_N len - Z.of_N k)%Z ->
  match run (TMem v w) s with
  | RFall s' => get_memN (len - k) (s_rest s) = Some (firstn (N.to_nat (len - k)) (s_rest s), skipn (N.to_nat (len - k)) (s_rest s)) /\
                s' = mkS (skipn (N.to_nat (len - k)) (s_rest s)) (s_idx s + (Z.of_N len - Z.of_N k)) (s_ints s)
                         ((v, firstn (N.to_nat (len - k)) (s_rest s)) :: s_mems s)
  | RErr => get_memN (len - k) (s_rest s) = None
  | _ => False
  end.
Proof.
  intros H. cbn [run]. rewrite H. rewrite get_memN_has.
  destruct (0 <? Z.of_N len - Z.of_N k)%Z eqn:E; cbn [andb].
  - assert (Hn : Z.to_nat (Z.of_N len - Z.of_N k) = N.to_nat (len - k)) by lia. rewrite Hn.
    destruct (N.eqb_spec (len - k) 0) as [E0|E0]; [lia|].
    destruct (StreamProg.has (N.to_nat (len - k)) (s_rest s)); [split; reflexivity|reflexivity].
  - destruct (N.eqb_spec (len - k) 0) as [E0|E0]; [reflexivity|lia].
Qed.

Theorem ud_prog_correct : forall d id len ver sub comp cr,
  payload_agrees (run prog_ud (param_state d id len ver sub comp cr)) (get_memN (len - 8) d).
Proof.
  intros. unfold prog_ud, param_state. do 8 step.
  match goal with |- payload_agrees (run (TMem ?v ?w) ?s) _ => pose proof (mem_tail v w s len 8%N eq_refl) as T end.
  cbn [s_rest s_idx s_ints s_mems] in T.
  destruct (run _ _) as [s'|b s'|s'|s'|]; try contradiction.
  - destruct T as [T1 T2]. subst s'. unfold payload_agrees. rewrite T1. reflexivity.
  - exact T.
Qed.

Theorem dflt_prog_correct : forall d id len ver sub comp cr,
  payload_agrees (run prog_dflt (param_state d id len ver sub comp cr)) (get_memN (len - 8) d).
Proof.
  intros. unfold prog_dflt, param_state. do 7 step.
  match goal with |- payload_agrees (run (TMem ?v ?w) ?s) _ => pose proof (mem_tail v w s len 8%N eq_refl) as T end.
  cbn [s_rest s_idx s_ints s_mems] in T.
  destruct (run _ _) as [s'|b s'|s'|s'|]; try contradiction.
  - destruct T as [T1 T2]. subst s'. unfold payload_agrees. rewrite T1. reflexivity.
  - exact T.
Qed.

Definition ed_reader (len : N) : reader (N * N * N * bytes) :=
  c <- get_int 1 ;; r1 <- get_int 1 ;; r2 <- get_int 2 ;; dd <- get_memN (len - 12) ;; ret (c, r1, r2, dd).

Definition ed_agrees (r : res) (m : option (N * N * N * bytes * bytes)) : Prop :=
  match r with
  | RFall s => m = Some ((int_of s (L "self.creatorID"), int_of s (L "self.reserved1B"), int_of s (L "self.reserved2B"),
                          mem_of s (L "self.data")), s_rest s)
  | RErr => m = None
  | _ => False
  end.

Lemma mem_tail' v w s z (len k : N) : ev w s = Some z -> z = (Z.of_N len - Z.of_N k)%Z ->
  match run (TMem v w) s with
  | RFall s' => get_memN (len - k) (s_rest s) = Some (firstn (N.to_nat (len - k)) (s_rest s), skipn (N.to_nat (len - k)) (s_rest s)) /\
                s' = mkS (skipn (N.to_nat (len - k)) (s_rest s)) (s_idx s + z) (s_ints s)
                         ((v, firstn (N.to_nat (len - k)) (s_rest s)) :: s_mems s)
  | RErr => get_memN (len - k) (s_rest s) = None
  | _ => False
  end.
Proof. intros H ->. apply mem_tail. exact H. Qed.

Lemma ed_reader_cons a0 a1 a2 a3 d1 len :
  ed_reader len (a0 :: a1 :: a2 :: a3 :: d1) =
  match get_memN (len - 12) d1 with
  | Some (dd, rest) => Some ((be_val [a0] 0, be_val [a1] 0, be_val [a2; a3] 0, dd), rest)
  | None => None
  end.
Proof. unfold ed_reader. cbv -[be_val get_memN N.sub]. destruct (get_memN (len - 12) d1) as [[dd rest]|]; reflexivity. Qed.

Theorem ed_prog_correct : forall d id len ver sub comp cr,
  ed_agrees (run prog_ed (param_state d id len ver sub comp cr)) (ed_reader len d).
Proof.
  intros. unfold prog_ed, param_state.
  do 4 (destruct d as [|?a d]; [cbv -[be_val Z.of_N Z.sub]; reflexivity|]).
  rewrite ed_reader_cons.
  do 9 step.
  match goal with |- ed_agrees (run (TMem ?v ?w) ?s) _ =>
    pose proof (mem_tail' v w s (Z.of_N len - 4 - 8)%Z len 12%N eq_refl ltac:(lia)) as T end.
  cbn [s_rest s_idx s_ints s_mems] in T.
  destruct (run _ _) as [s'|b s'|s'|s'|]; try contradiction.
  - destruct T as [T1 T2]. subst s'. unfold ed_agrees. rewrite T1.
    cbv [int_of mem_of geti getm s_ints s_mems s_rest text_eqb N.eqb Pos.eqb andb L
         Ascii.N_of_ascii Ascii.N_of_digits N.add N.mul Pos.add Pos.mul Pos.succ]. rewrite !N2Z.id. reflexivity.
  - unfold ed_agrees. rewrite T. reflexivity.
Qed.
