From Coq Require Import List NArith ZArith Bool Arith Lia.
From PV Require Import Base.Bytes Base.Lit Base.Json Base.Utf8 Base.Reader Base.PelTypes
                       Model.Parse Model.Render Model.Pel Spec.Encode Gen.Tables
                       Proofs.BytesFacts Proofs.ReaderFacts Proofs.ParseFacts Proofs.SrcFacts.
Import ListNotations.
Open Scope N_scope.

Lemma ids_agree :
  SectionID_privateHeader = ID_PH /\ SectionID_userHeader = ID_UH /\ SectionID_primarySRC = ID_PS /\
  SectionID_secondarySRC = ID_SS /\ SectionID_extendedUserHeader = ID_EH /\ SectionID_failingMTMS = ID_MT /\
  SectionID_extUserData = ID_ED /\ SectionID_userData = ID_UD /\ SectionID_impactedPart = ID_LP.
Proof. repeat split; reflexivity. Qed.

Ltac ids := destruct ids_agree as (-> & -> & -> & -> & -> & -> & -> & -> & ->).

Lemma parse_body_enc s rest : wf_section s ->
  parse_body (sec_id s) (sec_len s) (enc_body (sec_body s) ++ rest) = Some (Some (sec_body s), rest).
Proof.
  intros (Hh & Hid & Hnp & Hnu & Hlen & Hl16 & Hb). unfold parse_body.
  destruct ids_agree as (_ & _ & -> & -> & -> & -> & -> & -> & ->).
  destruct (sec_body s) as [x|x|x|x|d|c r1 r2 d|d] eqn:Eb; cbn [enc_body] in *.
  - destruct Hb as [[-> | ->] W].
    + change ((ID_PS =? ID_PS) || (ID_PS =? ID_SS)) with true. cbv iota. unfold bind. rewrite parse_src_enc by assumption. reflexivity.
    + change ((ID_SS =? ID_PS) || (ID_SS =? ID_SS)) with true. cbv iota. unfold bind. rewrite parse_src_enc by assumption. reflexivity.
  - destruct Hb as [-> W]. change ((ID_EH =? ID_PS) || (ID_EH =? ID_SS)) with false. change (ID_EH =? ID_EH) with true. cbv iota.
    unfold bind. rewrite parse_eh_enc by assumption. reflexivity.
  - destruct Hb as [-> W]. change ((ID_MT =? ID_PS) || (ID_MT =? ID_SS)) with false. change (ID_MT =? ID_EH) with false.
    change (ID_MT =? ID_MT) with true. cbv iota. unfold bind. rewrite parse_mt_enc by assumption. reflexivity.
  - destruct Hb as [-> W]. change ((ID_LP =? ID_PS) || (ID_LP =? ID_SS)) with false. change (ID_LP =? ID_EH) with false.
    change (ID_LP =? ID_MT) with false. change (ID_LP =? ID_ED) with false. change (ID_LP =? ID_UD) with false.
    change (ID_LP =? ID_LP) with true. cbv iota. unfold bind. rewrite parse_lp_enc by assumption. reflexivity.
  - destruct Hb as [-> [[Hd1 Hd2] _]]. change ((ID_UD =? ID_PS) || (ID_UD =? ID_SS)) with false. change (ID_UD =? ID_EH) with false.
    change (ID_UD =? ID_MT) with false. change (ID_UD =? ID_ED) with false. change (ID_UD =? ID_UD) with true. cbv iota.
    unfold bind. rewrite get_memN_app by lia. reflexivity.
  - destruct Hb as (-> & Hc & Hr1 & Hr2 & [[Hd1 Hd2] _]). change ((ID_ED =? ID_PS) || (ID_ED =? ID_SS)) with false.
    change (ID_ED =? ID_EH) with false. change (ID_ED =? ID_MT) with false. change (ID_ED =? ID_ED) with true. cbv iota.
    unfold be in *. rewrite <- !app_assoc. rd.
    unfold bind. rewrite get_memN_app; [reflexivity| |].
    + rewrite Hlen, !app_length, !be_bytes_length. lia.
    + rewrite Hlen, !app_length, !be_bytes_length. lia.
  - destruct Hb as [Hn [[Hd1 Hd2] _]].
    assert (forall k, In k [ID_PS; ID_SS; ID_EH; ID_MT; ID_LP; ID_UD; ID_ED] -> (sec_id s =? k) = false) as Hk.
    { intros k Hin. apply N.eqb_neq. intros E. apply Hn. rewrite E. exact Hin. }
    rewrite !Hk by (cbn; tauto). cbn [orb]. unfold bind. rewrite get_memN_app by lia. reflexivity.
Qed.

Theorem parse_section_exact s rest : wf_section s -> parse_section (enc_section s ++ rest) = Some (Some s, rest).
Proof.
  intros W. pose proof W as (Hh & Hid & _ & _ & _ & Hl16 & _).
  unfold parse_section, enc_section. rewrite <- app_assoc.
  unfold bind at 1. rewrite parse_header_enc by assumption. cbv beta iota.
  unfold bind at 1. rewrite parse_body_enc by assumption. cbv beta iota.
  unfold ret, option_map. destruct s; reflexivity.
Qed.

(* reading n sections in a row: each is handed exactly its own bytes, whatever follows *)
Theorem decode_sections_exact e c creator : forall secs rest,
  Forall wf_section secs ->
  decode_sections e c creator (length secs) (flat_map enc_section secs ++ rest) =
    Some (all_some (map (render_section e c creator) secs)) \/
  exists pre s, (exists post, secs = pre ++ s :: post) /\ render_section e c creator s = None /\
    decode_sections e c creator (length secs) (flat_map enc_section secs ++ rest) = Some None.
Proof.
  induction secs as [|s t IH]; intros rest W.
  - left. reflexivity.
  - inversion W as [|? ? Ws Wt]; subst. cbn [length decode_sections flat_map map all_some].
    rewrite <- app_assoc, parse_section_exact by assumption.
    destruct (render_section e c creator s) as [r|] eqn:Er.
    + destruct (IH rest Wt) as [-> | (pre & s' & (post & ->) & Hn & ->)].
      * left. destruct (all_some _); reflexivity.
      * right. exists (s :: pre), s'. split; [exists post; reflexivity|]. split; [assumption|reflexivity].
    + right. exists [], s. split; [exists t; reflexivity|]. split; [assumption|reflexivity].
Qed.

Lemma all_some_map {A B} (f : A -> option B) l : (forall a, In a l -> f a <> None) ->
  exists r, all_some (map f l) = Some r /\ length r = length l /\ forall i a, nth_error l i = Some a -> option_map Some (f a) = Some (nth_error r i).
Proof.
  induction l as [|a t IH]; intros H.
  - exists []. split; [reflexivity|]. split; [reflexivity|]. intros [|i] a; discriminate.
  - destruct (f a) as [b|] eqn:Ea; [|exfalso; apply (H a); [left; reflexivity|assumption]].
    destruct IH as (r & Hr & Hl & Hn); [intros x Hx; apply H; right; assumption|].
    exists (b :: r). cbn [map all_some]. rewrite Ea, Hr. split; [reflexivity|]. split; [simpl; lia|].
    intros [|i] x Hx; cbn in *.
    + inversion Hx; subst. rewrite Ea. reflexivity.
    + apply Hn. assumption.
Qed.

(* whole PEL: the decoder consumes Private Header, User Header and every optional section, in order *)
Theorem decode_wf e c consider p trailing :
  wf_pel p -> consider (p_uh p) = true ->
  (forall creator, utf8_decode [ph_creator (p_ph p)] = Some creator ->
     forall s, In s (p_secs p) -> render_section e c creator s <> None) ->
  exists creator phj secs,
    render_ph e (p_ph p) = Some (creator, phj) /\
    all_some (map (render_section e c creator) (p_secs p)) = Some secs /\
    decode e c consider (encode p ++ trailing) =
      OkDoc (hexU 8 (ph_eid (p_ph p)))
            (build_output [(section_name ID_PH, JObj phj); (section_name ID_UH, JObj (render_uh e creator (p_uh p)))] secs).
Proof.
  intros (Wph & Wuh & Ws) Hc Hr.
  pose proof Wph as (Hh & Hl & _ & _ & Hcr & _ & _ & Hcnt & Hn & _).
  pose proof Wuh as (Hh2 & Hl2 & _).
  assert (Hdec: utf8_decode [ph_creator (p_ph p)] = Some [ph_creator (p_ph p)]).
  { cbn [utf8_decode]. assert ((ph_creator (p_ph p) <? 128) = true) as -> by (apply N.ltb_lt; exact Hcr). reflexivity. }
  specialize (Hr _ Hdec).
  destruct (all_some_map (render_section e c [ph_creator (p_ph p)]) (p_secs p) Hr) as (secs & Hsecs & _ & _).
  unfold render_ph. rewrite Hdec.
  eexists _, _, secs. split; [reflexivity|]. split; [exact Hsecs|].
  unfold decode, encode, enc_ph, enc_uh. rewrite <- !app_assoc.
  rewrite parse_header_enc by (assumption || reflexivity).
  destruct ids_agree as (-> & -> & _). change (negb (ID_PH =? ID_PH)) with false. cbv iota.
  rewrite parse_ph_body_enc with (n := length (p_secs p)) by assumption.
  unfold render_ph. rewrite Hdec.
  rewrite parse_header_enc by (assumption || reflexivity).
  change (negb (ID_UH =? ID_UH)) with false. cbv iota.
  rewrite parse_uh_body_enc by assumption.
  rewrite Hc. cbn [negb].
  replace (N.to_nat (ph_count (p_ph p)) - 2)%nat with (length (p_secs p)) by (rewrite Hcnt; lia).
  destruct (decode_sections_exact e c [ph_creator (p_ph p)] (p_secs p) trailing Ws) as [-> | (pre & s & (post & Hs) & Hn' & _)].
  - rewrite Hsecs. reflexivity.
  - exfalso. apply (Hr s); [rewrite Hs; apply in_or_app; right; left; reflexivity|assumption].
Qed.
