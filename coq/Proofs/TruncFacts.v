From Coq Require Import List NArith ZArith Bool Arith Lia.
From PV Require Import Base.Bytes Base.Lit Base.Json Base.Utf8 Base.Reader Base.PelTypes
                       Model.Parse Model.Render Model.Pel Spec.Encode Gen.Tables
                       Proofs.BytesFacts Proofs.ReaderFacts Proofs.ParseFacts Proofs.SrcFacts Proofs.PelFacts
                       Proofs.ExactFacts Proofs.ExactParse Proofs.ExactSrc.
Import ListNotations.
Open Scope N_scope.

Lemma exact_body s : wf_section s -> exact_on (parse_body (sec_id s) (sec_len s)) (enc_body (sec_body s)) (Some (sec_body s)).
Proof.
  intros W. split; [intros t; apply parse_body_enc; assumption|].
  destruct W as (Hh & Hid & Hnp & Hnu & Hlen & Hl16 & Hb). intros q Hq. unfold parse_body.
  destruct ids_agree as (_ & _ & -> & -> & -> & -> & -> & -> & ->).
  destruct (sec_body s) as [x|x|x|x|d|c r1 r2 d|d] eqn:Eb; cbn [enc_body] in *.
  - destruct Hb as [[-> | ->] W].
    + change ((ID_PS =? ID_PS) || (ID_PS =? ID_SS)) with true. cbv iota. unfold bind. rewrite (proj2 (exact_src x W) q Hq). reflexivity.
    + change ((ID_SS =? ID_PS) || (ID_SS =? ID_SS)) with true. cbv iota. unfold bind. rewrite (proj2 (exact_src x W) q Hq). reflexivity.
  - destruct Hb as [-> W]. change ((ID_EH =? ID_PS) || (ID_EH =? ID_SS)) with false. change (ID_EH =? ID_EH) with true. cbv iota.
    unfold bind. rewrite (proj2 (exact_eh x W) q Hq). reflexivity.
  - destruct Hb as [-> W]. change ((ID_MT =? ID_PS) || (ID_MT =? ID_SS)) with false. change (ID_MT =? ID_EH) with false.
    change (ID_MT =? ID_MT) with true. cbv iota. unfold bind. rewrite (proj2 (exact_mt x W) q Hq). reflexivity.
  - destruct Hb as [-> W]. change ((ID_LP =? ID_PS) || (ID_LP =? ID_SS)) with false. change (ID_LP =? ID_EH) with false.
    change (ID_LP =? ID_MT) with false. change (ID_LP =? ID_ED) with false. change (ID_LP =? ID_UD) with false.
    change (ID_LP =? ID_LP) with true. cbv iota. unfold bind. rewrite (proj2 (exact_lp x W) q Hq). reflexivity.
  - destruct Hb as [-> [[Hd1 Hd2] _]]. change ((ID_UD =? ID_PS) || (ID_UD =? ID_SS)) with false. change (ID_UD =? ID_EH) with false.
    change (ID_UD =? ID_MT) with false. change (ID_UD =? ID_ED) with false. change (ID_UD =? ID_UD) with true. cbv iota.
    unfold bind. rewrite (proj2 (exact_get_memN (sec_len s - 8) d ltac:(lia) ltac:(lia)) q Hq). reflexivity.
  - destruct Hb as (-> & Hc & Hr1 & Hr2 & [[Hd1 Hd2] _]). change ((ID_ED =? ID_PS) || (ID_ED =? ID_SS)) with false.
    change (ID_ED =? ID_EH) with false. change (ID_ED =? ID_MT) with false. change (ID_ED =? ID_ED) with true. cbv iota.
    assert (Hx: exact_on (c0 <- get_int 1 ;; r3 <- get_int 1 ;; r4 <- get_int 2 ;; d0 <- get_memN (sec_len s - 12) ;; ret (Some (BEd c0 r3 r4 d0)))
                         (be 1 c ++ be 1 r1 ++ be 2 r2 ++ d) (Some (BEd c r1 r2 d))).
    { unfold be in *. exbs. apply (exact_bind_ret _ (fun d0 => Some (BEd c r1 r2 d0))). apply exact_get_memN.
      - rewrite Hlen, !app_length, !be_bytes_length. lia.
      - rewrite Hlen, !app_length, !be_bytes_length. lia. }
    exact (proj2 Hx q Hq).
  - destruct Hb as [Hn [[Hd1 Hd2] _]].
    assert (forall k, In k [ID_PS; ID_SS; ID_EH; ID_MT; ID_LP; ID_UD; ID_ED] -> (sec_id s =? k) = false) as Hk.
    { intros k Hin. apply N.eqb_neq. intros E. apply Hn. rewrite E. exact Hin. }
    rewrite !Hk by (cbn; tauto). cbn [orb]. unfold bind.
    rewrite (proj2 (exact_get_memN (sec_len s - 8) d ltac:(lia) ltac:(lia)) q Hq). reflexivity.
Qed.

Lemma exact_section s : wf_section s -> exact_on parse_section (enc_section s) (Some s).
Proof.
  intros W. split; [intros t; apply parse_section_exact; assumption|].
  pose proof W as (Hh & Hid & _ & _ & _ & Hl16 & _). intros q Hq. unfold parse_section, enc_section in *.
  apply strict_prefix_app in Hq. destruct Hq as [Hq | (k & -> & Hk)].
  - unfold bind. rewrite (proj2 (exact_header _ _ _ Hid Hl16 Hh) q Hq). reflexivity.
  - unfold bind at 1. rewrite (proj1 (exact_header _ _ _ Hid Hl16 Hh) k). cbv beta iota.
    unfold bind. rewrite (proj2 (exact_body s W) k Hk). reflexivity.
Qed.

(* a truncated run of sections is rejected: reading never continues past the end *)
Theorem decode_sections_trunc e c creator : forall secs q, Forall wf_section secs ->
  strict_prefix q (flat_map enc_section secs) ->
  decode_sections e c creator (length secs) q = Some None.
Proof.
  induction secs as [|s t IH]; intros q W Hq; [exfalso; exact (strict_prefix_nil_r _ Hq)|].
  inversion W as [|? ? Ws Wt]; subst. cbn [length decode_sections flat_map] in *.
  apply strict_prefix_app in Hq. destruct Hq as [Hq | (k & -> & Hk)].
  - rewrite (proj2 (exact_section s Ws) q Hq). reflexivity.
  - rewrite (proj1 (exact_section s Ws) k).
    destruct (render_section e c creator s); [|reflexivity]. rewrite (IH k Wt Hk). reflexivity.
Qed.

(* C05: every proper prefix of a well-formed PEL is rejected rather than decoded from missing bytes *)
Theorem decode_prefix_rejected e c consider p q :
  wf_pel p -> consider (p_uh p) = true -> strict_prefix q (encode p) -> decode e c consider q = Reject.
Proof.
  intros (Wph & Wuh & Ws) Hc Hq.
  pose proof Wph as (Hh & Hl & _ & _ & Hcr & _ & _ & Hcnt & Hn & _).
  pose proof Wuh as (Hh2 & Hl2 & _).
  assert (Hdec: utf8_decode [ph_creator (p_ph p)] = Some [ph_creator (p_ph p)]).
  { cbn [utf8_decode]. assert ((ph_creator (p_ph p) <? 128) = true) as -> by (apply N.ltb_lt; exact Hcr). reflexivity. }
  assert (Eenc: encode p = enc_header ID_PH (ph_len (p_ph p)) (ph_hdr (p_ph p)) ++ ph_body_bytes (p_ph p) ++
                           enc_header ID_UH (uh_len (p_uh p)) (uh_hdr (p_uh p)) ++ uh_body_bytes (p_uh p) ++
                           flat_map enc_section (p_secs p)).
  { unfold encode, enc_ph, enc_uh, ph_body_bytes, uh_body_bytes. rewrite <- !app_assoc. reflexivity. }
  rewrite Eenc in Hq. unfold decode.
  destruct ids_agree as (-> & -> & _).
  apply strict_prefix_app in Hq. destruct Hq as [Hq | (k1 & -> & Hq)].
  { rewrite (proj2 (exact_header ID_PH _ _ ltac:(reflexivity) Hl Hh) q Hq). reflexivity. }
  rewrite (proj1 (exact_header ID_PH _ _ ltac:(reflexivity) Hl Hh) k1).
  change (negb (ID_PH =? ID_PH)) with false. cbv iota.
  apply strict_prefix_app in Hq. destruct Hq as [Hq | (k2 & -> & Hq)].
  { rewrite (proj2 (exact_ph_body _ _ Wph) k1 Hq). reflexivity. }
  rewrite (proj1 (exact_ph_body _ _ Wph) k2).
  unfold render_ph. rewrite Hdec.
  apply strict_prefix_app in Hq. destruct Hq as [Hq | (k3 & -> & Hq)].
  { rewrite (proj2 (exact_header ID_UH _ _ ltac:(reflexivity) Hl2 Hh2) k2 Hq). reflexivity. }
  rewrite (proj1 (exact_header ID_UH _ _ ltac:(reflexivity) Hl2 Hh2) k3).
  change (negb (ID_UH =? ID_UH)) with false. cbv iota.
  apply strict_prefix_app in Hq. destruct Hq as [Hq | (k4 & -> & Hq)].
  { rewrite (proj2 (exact_uh_body _ Wuh) k3 Hq). reflexivity. }
  rewrite (proj1 (exact_uh_body _ Wuh) k4).
  rewrite Hc. cbn [negb].
  replace (N.to_nat (ph_count (p_ph p)) - 2)%nat with (length (p_secs p)) by (rewrite Hcnt; lia).
  rewrite (decode_sections_trunc e c _ (p_secs p) k4 Ws Hq). reflexivity.
Qed.
