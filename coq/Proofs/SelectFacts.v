From Coq Require Import List NArith Bool Arith Lia.
From PV Require Import Base.Bytes Base.PelTypes Model.Select Spec.SelectRules Gen.Tables.
Import ListNotations.
Open Scope N_scope.

Lemma select_consts_agree :
  ActionFlagsValues_serviceActionFlag = 32768 /\ ActionFlagsValues_hiddenActionFlag = 16384 /\ ActionFlagsValues_reportFlag = 8192 /\
  SeverityValues_infoSeverity = 0 /\ SeverityValues_critSysTermSeverity = 81.
Proof. repeat split; reflexivity. Qed.

Lemma nz_land_pow2 v n : nz (N.land v (2 ^ n)) = N.testbit v n.
Proof.
  unfold nz. destruct (N.testbit v n) eqn:E.
  - apply negb_true_iff. apply N.eqb_neq. intros H.
    assert (N.testbit (N.land v (2 ^ n)) n = false) by (rewrite H; apply N.bits_0).
    rewrite N.land_spec, E, N.pow2_bits_true in H0. discriminate.
  - apply negb_false_iff. apply N.eqb_eq. apply N.bits_inj. intros k. rewrite N.land_spec, N.bits_0.
    destruct (N.eq_dec k n) as [->|Hk]; [rewrite E; reflexivity|]. rewrite N.pow2_bits_false by congruence. apply andb_false_r.
Qed.

Lemma is_hidden_spec u : is_hidden u = hidden u.
Proof. unfold is_hidden, hidden. change ActionFlagsValues_hiddenActionFlag with (2 ^ 14). apply nz_land_pow2. Qed.

Lemma is_serviceable_spec u : is_serviceable u = serviceable u.
Proof.
  unfold is_serviceable, serviceable. rewrite is_hidden_spec.
  change ActionFlagsValues_reportFlag with (2 ^ 13). change ActionFlagsValues_serviceActionFlag with (2 ^ 15).
  rewrite !nz_land_pow2. change SeverityValues_infoSeverity with 0.
  destruct (uh_sev u =? 0); cbn [negb]; [destruct (N.testbit (uh_flags u) 15); reflexivity|].
  destruct (N.testbit (uh_flags u) 13), (hidden u); reflexivity.
Qed.

Lemma in_group_spec u g : in_group u g = member u g.
Proof. unfold in_group, member. rewrite N.shiftr_div_pow2. reflexivity. Qed.

Lemma sev_matches_spec c u : sev_matches c u = in_groups c u.
Proof. unfold sev_matches, in_groups. induction (sevs c) as [|g t IH]; [reflexivity|]. cbn [existsb]. rewrite in_group_spec, IH. reflexivity. Qed.

Lemma in_groups_nonempty c u : in_groups c u = true -> nonempty (sevs c) = true.
Proof. unfold in_groups. destruct (sevs c); simpl; intros; [discriminate|reflexivity]. Qed.

(* C07: the early-return cascade IS the documented rule set, for every severity byte, flag word and option set *)
Theorem consider_select c u : lookup c = false -> consider c u = select c u.
Proof.
  intros Lk. unfold consider, select, any_class, in_class, default_set, terminating.
  rewrite Lk, !is_hidden_spec, !is_serviceable_spec, !sev_matches_spec. change SeverityValues_critSysTermSeverity with 81.
  pose proof (in_groups_nonempty c u) as HN.
  destruct (every c), (term c), (svc c), (nsvc c), (hid c), (only c); cbn [andb orb negb implb];
  destruct (uh_sev u =? 81); cbn [andb orb negb implb];
  destruct (serviceable u), (hidden u); cbn [andb orb negb implb];
  destruct (in_groups c u); cbn [andb orb negb implb];
  destruct (nonempty (sevs c)); cbn [andb orb negb implb]; try reflexivity;
  try (specialize (HN eq_refl); discriminate).
Qed.

(* an id or SRC look-up given without selection options considers every PEL *)
Theorem lookup_considers_all c u : every c = false -> term c = false -> svc c = false -> nsvc c = false -> hid c = false ->
  only c = false -> sevs c = [] -> lookup c = true -> consider c u = true.
Proof.
  intros H H0 H1 H2 H3 H4 H5 H6. unfold consider, sev_matches. rewrite H, H0, H1, H2, H3, H4, H5, H6. simpl.
  destruct (is_hidden u || negb (is_serviceable u)); reflexivity.
Qed.

(* with no option at all: exactly the serviceable, customer-viewable PELs *)
Theorem default_selection c u : every c = false -> term c = false -> svc c = false -> nsvc c = false -> hid c = false ->
  only c = false -> sevs c = [] -> lookup c = false -> consider c u = default_set u.
Proof.
  intros H H0 H1 H2 H3 H4 H5 H6. rewrite consider_select by assumption. unfold select, in_class, in_groups.
  rewrite H, H0, H1, H2, H3, H4, H5. cbn [negb andb orb existsb]. rewrite !orb_false_r. reflexivity.
Qed.
