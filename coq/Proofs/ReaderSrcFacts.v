(* The substructure constructors of src.py (FRUIdentity.__init__, PCEIdentity.__init__), translated from the source text
   (Gen/Readers.v, regenerated every run), are the model's parse_fru / parse_pce (Model/Parse.v), for every byte string. *)
From Coq Require Import List NArith ZArith Bool Lia ZifyBool.
From PV Require Import Base.Bytes Base.Lit Base.Reader Base.PelTypes Model.StreamProg Model.Parse Gen.Readers Gen.Tables
                       Proofs.ReaderProgFacts.
Import ListNotations.

Lemma has_leb n d : StreamProg.has n d = Nat.leb n (length d).
Proof. revert d; induction n as [|n IH]; intros [|b d]; cbn; auto. Qed.

Lemma get_mem_has n d : get_mem (S n) d = if StreamProg.has (S n) d then Some (firstn (S n) d, skipn (S n) d) else None.
Proof. unfold get_mem. rewrite has_leb. reflexivity. Qed.

Lemma land_of_N a b : Z.land (Z.of_N a) (Z.of_N b) = Z.of_N (N.land a b).
Proof. destruct a, b; reflexivity. Qed.
Lemma truthy_land fl k : negb (Z.land (Z.of_N fl) (Z.of_N k) =? 0)%Z = Parse.has fl k.
Proof. unfold Parse.has. rewrite land_of_N. f_equal. lia. Qed.

Lemma firstn_len_has n (d : bytes) : StreamProg.has n d = true -> length (firstn n d) = n.
Proof. revert d; induction n as [|n IH]; intros [|b d] H; cbn in *; try discriminate; auto. Qed.

Definition fru_of (s : sst) : fru_t :=
  {| f_size := int_of s (L "self.size"); f_flags := int_of s (L "self.flags"); f_pn := mem_of s (L "self.pnOrProcedureID");
     f_ccin := mem_of s (L "self.ccin"); f_sn := mem_of s (L "self.sn") |}.

Definition fru_agrees (d : bytes) : Prop :=
  match run prog_fru (init d) with
  | RFall s => parse_fru d = Some (fru_of s, s_rest s) /\
               geti (s_ints s) (L "self.flattenedSize") = Some (Z.of_N (fru_flat (fru_of s)))
  | RErr => parse_fru d = None
  | _ => False
  end.

(* one optional field:  if <cond>: self.v = ...get_mem(n)...; self.flattenedSize += n *)
Lemma run_optfield c v n F s b f : evc c s = Some b -> geti (s_ints s) F = Some f -> (0 < n)%Z ->
  run (TIf c (TSeq (TMem v (XC n)) (TLet F (XAdd (XV F) (XC n)))) TNop) s =
  if b then
    if StreamProg.has (Z.to_nat n) (s_rest s)
    then RFall (mkS (skipn (Z.to_nat n) (s_rest s)) (s_idx s + n) ((F, (f + n)%Z) :: s_ints s)
                    ((v, firstn (Z.to_nat n) (s_rest s)) :: s_mems s))
    else RErr
  else RFall s.
Proof.
  intros Hc Hf Hn. erewrite run_if by exact Hc. destruct b; [|reflexivity].
  rewrite run_seq_eq. cbn [run ev]. apply Z.ltb_lt in Hn. rewrite Hn. cbn [andb].
  destruct (StreamProg.has (Z.to_nat n) (s_rest s)); [|reflexivity].
  cbn [s_ints ev]. rewrite Hf. reflexivity.
Qed.

Lemma evc_truthy_flags s F fl k : geti (s_ints s) F = Some (Z.of_N fl) ->
  evc (CTruthy (XAnd (XV F) (XC (Z.of_N k)))) s = Some (Parse.has fl k).
Proof. intros H. cbn [evc ev]. rewrite H. rewrite truthy_land. reflexivity. Qed.
Lemma evc_or a b s x y : evc a s = Some x -> evc b s = Some y -> evc (COr a b) s = Some (x || y).
Proof. intros Ha Hb. cbn [evc]. rewrite Ha. destruct x; [reflexivity|exact Hb]. Qed.

Lemma opt_mem_has c n d : opt_mem c (S n) d =
  if c then (if StreamProg.has (S n) d then Some (firstn (S n) d, skipn (S n) d) else None) else Some ([], d).
Proof. unfold opt_mem. destruct c; [apply get_mem_has|reflexivity]. Qed.

Lemma parse_fru_cons a0 a1 a2 a3 d1 :
  parse_fru (a0 :: a1 :: a2 :: a3 :: d1) =
  let fl := be_val [a3] 0 in
  match opt_mem (Parse.has fl 8 || Parse.has fl 2) 8 d1 with
  | Some (pn, d2) =>
      match opt_mem (Parse.has fl 4) 4 d2 with
      | Some (cc, d3) =>
          match opt_mem (Parse.has fl 1) 12 d3 with
          | Some (sn, d4) => Some ({| f_size := be_val [a2] 0; f_flags := fl; f_pn := pn; f_ccin := cc; f_sn := sn |}, d4)
          | None => None
          end
      | None => None
      end
  | None => None
  end.
Proof. reflexivity. Qed.

Theorem fru_prog_correct : forall d, fru_agrees d.
Proof.
  intro d. unfold fru_agrees.
  destruct d as [|a0 d]; [vm_compute; reflexivity|].
  destruct d as [|a1 d]; [vm_compute; reflexivity|].
  destruct d as [|a2 d]; [cbv -[be_val Z.of_N]; reflexivity|].
  destruct d as [|a3 d]; [cbv -[be_val Z.of_N]; reflexivity|].
  rewrite parse_fru_cons. cbv zeta. unfold prog_fru, init.
  do 7 step.
  generalize (be_val [a3] 0) (be_val [a2] 0) (be_val [a0; a1] 0). intros fl sz ty.
  (* part number / procedure id *)
  rewrite run_seq_eq.
  erewrite run_optfield with (b := Parse.has fl 8 || Parse.has fl 2) (f := 4%Z);
    [|apply evc_or; [apply (evc_truthy_flags _ _ fl 8%N)|apply (evc_truthy_flags _ _ fl 2%N)]; reflexivity|reflexivity|reflexivity].
  rewrite opt_mem_has. change (Z.to_nat 8) with 8%nat. norm.
  destruct (Parse.has fl 8 || Parse.has fl 2); [destruct (StreamProg.has 8 d) eqn:H1; [|reflexivity]|]; cbv beta iota.
  all: rewrite run_seq_eq;
    (erewrite run_optfield with (b := Parse.has fl 4);
     [|apply (evc_truthy_flags _ _ fl 4%N); reflexivity|reflexivity|reflexivity]);
    rewrite opt_mem_has; change (Z.to_nat 4) with 4%nat; norm;
    (destruct (Parse.has fl 4); [match goal with |- context [StreamProg.has 4 ?r] => destruct (StreamProg.has 4 r) eqn:H2; [|reflexivity] end|]);
    cbv beta iota.
  all: (erewrite run_optfield with (b := Parse.has fl 1);
        [|apply (evc_truthy_flags _ _ fl 1%N); reflexivity|reflexivity|reflexivity]);
    rewrite opt_mem_has; change (Z.to_nat 12) with 12%nat; norm;
    (destruct (Parse.has fl 1); [match goal with |- context [StreamProg.has 12 ?r] => destruct (StreamProg.has 12 r) eqn:H3; [|reflexivity] end|]);
    cbv beta iota.
  all: (split;
        [cbv [fru_of int_of mem_of geti getm s_ints s_mems s_rest text_eqb N.eqb Pos.eqb andb L
              Ascii.N_of_ascii Ascii.N_of_digits N.add N.mul Pos.add Pos.mul Pos.succ]; rewrite ?N2Z.id; reflexivity
        |cbv [fru_of fru_flat f_pn f_ccin f_sn int_of mem_of geti getm s_ints s_mems s_rest text_eqb N.eqb Pos.eqb andb L
              Ascii.N_of_ascii Ascii.N_of_digits N.add N.mul Pos.add Pos.mul Pos.succ];
         rewrite ?(firstn_len_has _ _ H1), ?(firstn_len_has _ _ H2), ?(firstn_len_has _ _ H3); reflexivity]).
Qed.

(* ---------- PCEIdentity.__init__ ---------- *)
Definition pce_of (s : sst) : pce_t :=
  {| p_size := int_of s (L "self.flattenedSize"); p_flags := int_of s (L "self.flags"); p_mtm := mem_of s (L "self.machineType");
     p_sn := mem_of s (L "self.serialNumber"); p_name := mem_of s (L "self.pceName") |}.

(* the early `return` (size field below 24: pceName stays unset and rendering the callout raises) and a DataStream assertion are
   both the model's rejection *)
Definition pce_agrees (d : bytes) : Prop :=
  match run prog_pce (init d) with
  | RFall s => parse_pce d = Some (pce_of s, s_rest s) /\
               geti (s_ints s) (L "self.flattenedSize") = Some (Z.of_N (p_size (pce_of s)))
  | RErr => parse_pce d = None
  | RRet false _ => parse_pce d = None
  | _ => False
  end.

Lemma get_memN_has n d : get_memN n d =
  if (n =? 0)%N then None
  else if StreamProg.has (N.to_nat n) d then Some (firstn (N.to_nat n) d, skipn (N.to_nat n) d) else None.
Proof.
  unfold get_memN, get_mem. rewrite has_leb. destruct (N.eqb_spec n 0) as [E|E].
  - subst n. reflexivity.
  - destruct (N.to_nat n) eqn:En; [lia|reflexivity].
Qed.

Lemma parse_pce_cons a0 a1 a2 a3 a4 a5 a6 a7 a8 a9 a10 a11 a12 a13 a14 a15 a16 a17 a18 a19 a20 a21 a22 a23 d1 :
  parse_pce (a0 :: a1 :: a2 :: a3 :: a4 :: a5 :: a6 :: a7 :: a8 :: a9 :: a10 :: a11 :: a12 :: a13 :: a14 :: a15 :: a16 :: a17
             :: a18 :: a19 :: a20 :: a21 :: a22 :: a23 :: d1) =
  let sz := be_val [a2] 0 in
  if (sz <? 24)%N then None
  else match get_memN (sz - 24) d1 with
       | Some (nm, d2) => Some ({| p_size := sz; p_flags := be_val [a3] 0; p_mtm := [a4; a5; a6; a7; a8; a9; a10; a11];
                                   p_sn := [a12; a13; a14; a15; a16; a17; a18; a19; a20; a21; a22; a23]; p_name := nm |}, d2)
       | None => None
       end.
Proof.
  cbv zeta. unfold parse_pce. cbv -[be_val N.ltb N.sub get_memN].
  destruct (be_val [a2] 0 <? 24)%N; reflexivity.
Qed.

Theorem pce_prog_correct : forall d, pce_agrees d.
Proof.
  intro d. unfold pce_agrees.
  do 24 (destruct d as [|?a d]; [cbv -[be_val Z.of_N]; reflexivity|]).
  rewrite parse_pce_cons. cbv zeta. unfold prog_pce, init.
  do 5 step.
  generalize (be_val [a1] 0) (be_val [a2] 0) (be_val [a; a0] 0). intros sz fl ty.
  rewrite run_seq_eq. erewrite run_if with (b := (Z.of_N sz <? 24)%Z) by reflexivity.
  replace (sz <? 24)%N with (Z.of_N sz <? 24)%Z by lia.
  destruct (Z.of_N sz <? 24)%Z eqn:E1.
  - cbn [run]. reflexivity.
  - rewrite run_nop. cbv beta iota. rewrite run_seq_eq.
    erewrite run_let with (z := (Z.of_N sz - 24)%Z) by reflexivity. norm.
    rewrite get_memN_has.
    destruct (N.eqb_spec (sz - 24) 0) as [E2|E2].
    + (* a name of length zero: get_mem(0) fails its range assertion *)
      assert (Hz : (Z.of_N sz - 24 = 0)%Z) by lia.
      cbn [run ev geti s_ints text_eqb N.eqb Pos.eqb andb]. rewrite Hz. reflexivity.
    + assert (Hpos : (0 < Z.of_N sz - 24)%Z) by lia.
      assert (Hn : Z.to_nat (Z.of_N sz - 24) = N.to_nat (sz - 24)) by lia.
      destruct (StreamProg.has (N.to_nat (sz - 24)) d) eqn:Hh.
      * erewrite run_mem with (z := (Z.of_N sz - 24)%Z); [|reflexivity|exact Hpos|rewrite Hn; exact Hh].
        norm. rewrite Hn.
        cbv [pce_of p_size int_of mem_of geti getm s_ints s_mems s_rest text_eqb N.eqb Pos.eqb andb L
             Ascii.N_of_ascii Ascii.N_of_digits N.add N.mul Pos.add Pos.mul Pos.succ]. rewrite ?N2Z.id. split; reflexivity.
      * cbn [run ev geti s_ints text_eqb N.eqb Pos.eqb andb s_rest]. rewrite Hn, Hh.
        destruct (0 <? Z.of_N sz - 24)%Z; reflexivity.
Qed.

(* ---------- MRU.__init__ ---------- *)
(* the values stored under one key, newest first *)
Fixpoint values_of (m : list (name * Z)) (k : name) : list Z :=
  match m with
  | [] => []
  | (k', x) :: t => if text_eqb k' k then x :: values_of t k else values_of t k
  end.
(* what  lst.append(C(a, b))  has collected, in append order *)
Definition pairs_of (s : sst) (lst : name) : list (N * N) :=
  rev (combine (map Z.to_N (values_of (s_ints s) (lst ++ [46; 48]%N))) (map Z.to_N (values_of (s_ints s) (lst ++ [46; 49]%N)))).

Definition mru_of (s : sst) : mru_t :=
  {| m_size := int_of s (L "self.flattenedSize"); m_flags := int_of s (L "self.flags"); m_res := int_of s (L "self.reserved4B");
     m_list := pairs_of s (L "self.mrus") |}.

Definition mru_agrees (d : bytes) : Prop :=
  match run prog_mru (init d) with
  | RFall s => parse_mru d = Some (mru_of s, s_rest s) /\
               geti (s_ints s) (L "self.flattenedSize") = Some (Z.of_N (m_size (mru_of s)))
  | RErr => parse_mru d = None
  | _ => False
  end.

Definition pair_reader : reader (N * N) := p <- get_int 4 ;; i <- get_int 4 ;; ret (p, i).

Lemma pair_reader_has d : pair_reader d =
  if StreamProg.has 8 d then Some ((be_val (firstn 4 d) 0, be_val (firstn 4 (skipn 4 d)) 0), skipn 8 d) else None.
Proof.
  cbv [pair_reader bind get_int ret]. rewrite (get_mem_has 3 d).
  destruct (StreamProg.has 4 d) eqn:H4.
  - cbv beta iota. rewrite (get_mem_has 3 (skipn 4 d)).
    change 8%nat with (4 + 4)%nat. rewrite has_add, H4. cbn [andb].
    destruct (StreamProg.has 4 (skipn 4 d)); [|reflexivity]. rewrite skipn_add. reflexivity.
  - change 8%nat with (4 + 4)%nat. rewrite has_add, H4. reflexivity.
Qed.

Definition push_pair (lst : name) (ints : list (name * Z)) (pr : N * N) : list (name * Z) :=
  (lst ++ [46; 49]%N, Z.of_N (snd pr)) :: (lst ++ [46; 48]%N, Z.of_N (fst pr)) :: ints.

Lemma repeat_pairs lst n : forall d i ints mems,
  iter_body (run (TAppendPair lst (XC 4) (XC 4))) n (mkS d i ints mems) =
  match read_n n pair_reader d with
  | Some (l, rest) => RFall (mkS rest (i + 8 * Z.of_nat n) (fold_left (push_pair lst) l ints) mems)
  | None => RErr
  end.
Proof.
  induction n as [|n IH]; intros d i ints mems.
  - cbn [iter_body read_n ret]. replace (i + 8 * Z.of_nat 0)%Z with i by lia. reflexivity.
  - cbn [iter_body read_n]. unfold bind at 1. rewrite pair_reader_has.
    cbn [run ev]. change (0 <? 4)%Z with true. cbn [andb]. change (Z.to_nat 4 + Z.to_nat 4)%nat with 8%nat. cbn [s_rest].
    destruct (StreamProg.has 8 d) eqn:H8; [|reflexivity].
    cbn [s_idx s_ints s_mems]. change (Z.to_nat 4) with 4%nat. rewrite IH. unfold bind.
    destruct (read_n n pair_reader (skipn 8 d)) as [[l rest]|]; [|reflexivity].
    cbn [ret fold_left push_pair fst snd]. do 2 f_equal. lia.
Qed.

Definition mrus : name := L "self.mrus".
Definition k0 : name := mrus ++ [46; 48]%N.
Definition k1 : name := mrus ++ [46; 49]%N.

Lemma values_push0 l : forall ints,
  values_of (fold_left (push_pair mrus) l ints) k0 = rev (map (fun pr => Z.of_N (fst pr)) l) ++ values_of ints k0.
Proof.
  induction l as [|pr l IH]; intros ints; [reflexivity|].
  cbn [fold_left map rev]. rewrite IH. unfold push_pair at 1.
  change (values_of ((mrus ++ [46; 49]%N, Z.of_N (snd pr)) :: (mrus ++ [46; 48]%N, Z.of_N (fst pr)) :: ints) k0)
    with (Z.of_N (fst pr) :: values_of ints k0).
  rewrite <- app_assoc. reflexivity.
Qed.
Lemma values_push1 l : forall ints,
  values_of (fold_left (push_pair mrus) l ints) k1 = rev (map (fun pr => Z.of_N (snd pr)) l) ++ values_of ints k1.
Proof.
  induction l as [|pr l IH]; intros ints; [reflexivity|].
  cbn [fold_left map rev]. rewrite IH. unfold push_pair at 1.
  change (values_of ((mrus ++ [46; 49]%N, Z.of_N (snd pr)) :: (mrus ++ [46; 48]%N, Z.of_N (fst pr)) :: ints) k1)
    with (Z.of_N (snd pr) :: values_of ints k1).
  rewrite <- app_assoc. reflexivity.
Qed.

Lemma geti_push l k : text_eqb k1 k = false -> text_eqb k0 k = false -> forall ints,
  geti (fold_left (push_pair mrus) l ints) k = geti ints k.
Proof.
  intros H1 H0. induction l as [|pr l IH]; intros ints; [reflexivity|].
  cbn [fold_left]. rewrite IH. unfold push_pair. cbn [geti]. fold k1 k0. rewrite H1, H0. reflexivity.
Qed.

Lemma combine_rev_map (l : list (N * N)) :
  rev (combine (map Z.to_N (rev (map (fun pr => Z.of_N (fst pr)) l))) (map Z.to_N (rev (map (fun pr => Z.of_N (snd pr)) l)))) = l.
Proof.
  rewrite <- !map_rev, !map_map.
  assert (E : forall (m : list (N * N)), combine (map (fun x => Z.to_N (Z.of_N (fst x))) m) (map (fun x => Z.to_N (Z.of_N (snd x))) m) = m).
  { induction m as [|[a b] m IHm]; cbn; [reflexivity|]. rewrite !N2Z.id, IHm. reflexivity. }
  rewrite E. apply rev_involutive.
Qed.

Lemma parse_mru_cons a0 a1 a2 a3 a4 a5 a6 a7 d1 :
  parse_mru (a0 :: a1 :: a2 :: a3 :: a4 :: a5 :: a6 :: a7 :: d1) =
  match read_n (N.to_nat (N.land (be_val [a3] 0) 15)) pair_reader d1 with
  | Some (l, rest) => Some ({| m_size := be_val [a2] 0; m_flags := be_val [a3] 0; m_res := be_val [a4; a5; a6; a7] 0; m_list := l |}, rest)
  | None => None
  end.
Proof. reflexivity. Qed.


Theorem mru_prog_correct : forall d, mru_agrees d.
Proof.
  intro d. unfold mru_agrees.
  do 8 (destruct d as [|?a d]; [cbv -[be_val Z.of_N]; reflexivity|]).
  rewrite parse_mru_cons. unfold prog_mru, init.
  do 5 step.
  generalize (be_val [a2] 0) (be_val [a1] 0) (be_val [a; a0] 0) (be_val [a3; a4; a5; a6] 0). intros fl sz ty rs.
  erewrite run_repeat with (z := Z.of_N (N.land fl 15)).
  2:{ cbn [ev geti s_ints text_eqb N.eqb Pos.eqb andb]. change 15%Z with (Z.of_N 15). rewrite land_of_N. reflexivity. }
  replace (Z.to_nat (Z.of_N (N.land fl 15))) with (N.to_nat (N.land fl 15)) by lia.
  rewrite repeat_pairs.
  destruct (read_n (N.to_nat (N.land fl 15)) pair_reader d) as [[l rest]|]; [|reflexivity].
  cbn [s_rest]. split.
  2:{ cbn [s_ints mru_of m_size]. unfold int_of. cbn [s_ints]. fold mrus. rewrite !geti_push by reflexivity.
      cbv [geti text_eqb N.eqb Pos.eqb andb L Ascii.N_of_ascii Ascii.N_of_digits N.add N.mul Pos.add Pos.mul Pos.succ].
      rewrite !N2Z.id. reflexivity. }
  f_equal. f_equal.
  unfold mru_of, pairs_of, int_of. cbn [s_ints].
  fold mrus. fold k0 k1. rewrite values_push0, values_push1.
  rewrite !geti_push by reflexivity.
  repeat match goal with |- context [values_of ?m ?k] =>
    match m with _ :: _ => change (values_of m k) with (@nil Z) end end.
  rewrite !app_nil_r, combine_rev_map.
  cbv [geti text_eqb N.eqb Pos.eqb andb L Ascii.N_of_ascii Ascii.N_of_digits N.add N.mul Pos.add Pos.mul Pos.succ].
  rewrite !N2Z.id. reflexivity.
Qed.

(* ---------- Callout.__init__: the part before the substructure loop ---------- *)
Definition head_agrees (d : bytes) : Prop :=
  match run prog_callout_head (init d) with
  | RFall s =>
      callout_head d = Some ((int_of s (L "self.size"), int_of s (L "self.flags"), int_of s (L "self.priority"),
                              mem_of s (L "self.locationCode")), s_rest s) /\
      int_of s (L "currentSize") = (4 + N.of_nat (length (mem_of s (L "self.locationCode"))))%N
  | RErr => callout_head d = None
  | _ => False
  end.

Lemma callout_head_cons a0 a1 a2 a3 d1 :
  callout_head (a0 :: a1 :: a2 :: a3 :: d1) =
  let ll := be_val [a3] 0 in
  match (if (0 <? ll)%N then get_memN ll d1 else Some ([], d1)) with
  | Some (loc, d2) => Some ((be_val [a0] 0, be_val [a1] 0, be_val [a2] 0, loc), d2)
  | None => None
  end.
Proof.
  cbv zeta. unfold callout_head. cbv -[be_val N.ltb get_memN].
  destruct (0 <? be_val [a3] 0)%N; reflexivity.
Qed.

Lemma run_pure s : run TPure s = RFall s.
Proof. reflexivity. Qed.
Lemma run_forget_pure v s :
  run (TSeq (TForget v) TPure) s = RFall (mkS (s_rest s) (s_idx s) (forget v (s_ints s)) (forget v (s_mems s))).
Proof. reflexivity. Qed.
Ltac forget_now := cbn [forget names_var N.eqb Pos.eqb andb s_rest s_idx s_ints s_mems].

Theorem head_prog_correct : forall d, head_agrees d.
Proof.
  intro d. unfold head_agrees.
  do 4 (destruct d as [|?a d]; [cbv -[be_val Z.of_N]; reflexivity|]).
  rewrite callout_head_cons. cbv zeta. unfold prog_callout_head, init.
  do 5 step.
  generalize (be_val [a2] 0) (be_val [a1] 0) (be_val [a0] 0) (be_val [a] 0). intros ll pr fl sz.
  rewrite run_seq_eq. erewrite run_if with (b := (0 <? Z.of_N ll)%Z) by reflexivity.
  replace (0 <? ll)%N with (0 <? Z.of_N ll)%Z by lia.
  destruct (0 <? Z.of_N ll)%Z eqn:E.
  - rewrite get_memN_has. assert (Hpos : (0 < Z.of_N ll)%Z) by lia.
    destruct (N.eqb_spec ll 0) as [E0|E0]; [lia|].
    destruct (StreamProg.has (N.to_nat ll) d) eqn:Hh.
    + erewrite run_mem with (z := Z.of_N ll); [|reflexivity|exact Hpos|rewrite to_nat_of_N; exact Hh].
      norm. rewrite to_nat_of_N. do 3 (rewrite run_seq_eq, run_forget_pure; cbv beta iota; forget_now).
      erewrite run_let with (z := (4 + Z.of_N ll)%Z) by reflexivity. norm.
      split.
      * cbv [int_of mem_of geti getm s_ints s_mems s_rest text_eqb N.eqb Pos.eqb andb L
             Ascii.N_of_ascii Ascii.N_of_digits N.add N.mul Pos.add Pos.mul Pos.succ].
        rewrite ?N2Z.id. reflexivity.
      * match goal with |- int_of ?s ?k = (4 + N.of_nat (length (mem_of ?s2 ?k2)))%N =>
          change (int_of s k) with (Z.to_N (4 + Z.of_N ll)); change (mem_of s2 k2) with (firstn (N.to_nat ll) d) end.
        rewrite (firstn_len_has _ _ Hh). lia.
    + cbn [run ev geti s_ints s_rest text_eqb N.eqb Pos.eqb andb]. rewrite to_nat_of_N, Hh.
      destruct (0 <? Z.of_N ll)%Z; reflexivity.
  - rewrite run_nop. norm. do 3 (rewrite run_seq_eq, run_forget_pure; cbv beta iota; forget_now).
    erewrite run_let with (z := (4 + Z.of_N ll)%Z) by reflexivity. norm.
    split.
    + cbv [int_of mem_of geti getm s_ints s_mems s_rest text_eqb N.eqb Pos.eqb andb L
           Ascii.N_of_ascii Ascii.N_of_digits N.add N.mul Pos.add Pos.mul Pos.succ].
      rewrite ?N2Z.id. reflexivity.
    + match goal with |- int_of ?s ?k = (4 + N.of_nat (length (mem_of ?s2 ?k2)))%N =>
        change (int_of s k) with (Z.to_N (4 + Z.of_N ll)); change (mem_of s2 k2) with (@nil N) end.
      cbn [length]. lia.
Qed.

(* ---------- attribute names across a constructor call ---------- *)
Definition self4 : name := [115; 101; 108; 102]%N.

Lemma text_eqb_refl a : text_eqb a a = true.
Proof. induction a as [|x a IH]; cbn; [reflexivity|]. rewrite N.eqb_refl, IH. reflexivity. Qed.

Lemma text_eqb_app v a b : text_eqb (v ++ a) (v ++ b) = text_eqb a b.
Proof. induction v as [|x v IH]; cbn; [reflexivity|]. rewrite N.eqb_refl. exact IH. Qed.

(* a key with the prefix "self." is "self" followed by something that begins with a dot *)
Lemma prefix_self k : is_prefix self_dot k = true -> exists k2, k = self4 ++ (46%N :: k2).
Proof.
  unfold self_dot, self4. intros H.
  do 5 (destruct k as [|?c k]; [cbn in H; try discriminate H; repeat (rewrite ?andb_false_r in H; try discriminate H)|]).
  cbn [is_prefix] in H.
  repeat match goal with H : (_ && _) = true |- _ => apply andb_prop in H; destruct H as [? H] end.
  repeat match goal with H : N.eqb _ _ = true |- _ => apply N.eqb_eq in H; subst end.
  exists k. reflexivity.
Qed.

Lemma noprefix_self k k' : is_prefix self_dot k = false -> text_eqb k (self4 ++ 46%N :: k') = false.
Proof.
  unfold self_dot, self4. intros H. cbn [app].
  do 5 (destruct k as [|?c k]; [cbn; rewrite ?andb_false_r; reflexivity|cbn [is_prefix] in H; cbn [text_eqb]]).
  destruct (N.eqb 115 c) eqn:E1; [|rewrite N.eqb_sym, E1; reflexivity]. apply N.eqb_eq in E1; subst c.
  destruct (N.eqb 101 c0) eqn:E2; [|rewrite (N.eqb_sym c0), E2; cbn; reflexivity]. apply N.eqb_eq in E2; subst c0.
  destruct (N.eqb 108 c1) eqn:E3; [|rewrite (N.eqb_sym c1), E3; cbn; reflexivity]. apply N.eqb_eq in E3; subst c1.
  destruct (N.eqb 102 c2) eqn:E4; [|rewrite (N.eqb_sym c2), E4; cbn; reflexivity]. apply N.eqb_eq in E4; subst c2.
  destruct (N.eqb 46 c3) eqn:E5; [|rewrite (N.eqb_sym c3), E5; cbn; reflexivity]. cbn in H. discriminate H.
Qed.

Section Assoc.
  Context {A : Type}.
  Fixpoint gassoc (m : list (name * A)) (v : name) : option A :=
    match m with
    | [] => None
    | (k, x) :: t => if text_eqb k v then Some x else gassoc t v
    end.

  Lemma gassoc_rename v m r k' :
    gassoc (rename_keys v m ++ r) (v ++ 46%N :: k') =
    match gassoc m (self4 ++ 46%N :: k') with Some x => Some x | None => gassoc r (v ++ 46%N :: k') end.
  Proof.
    induction m as [|[k x] m IH]; [reflexivity|].
    cbn [rename_keys gassoc]. destruct (is_prefix self_dot k) eqn:P.
    - destruct (prefix_self k P) as [k2 ->].
      change (skipn 4 (self4 ++ 46%N :: k2)) with (46%N :: k2).
      cbn [app gassoc]. fold (self4 ++ 46%N :: k2). rewrite !text_eqb_app.
      destruct (text_eqb (46%N :: k2) (46%N :: k')); [reflexivity|exact IH].
    - rewrite (noprefix_self k k' P). exact IH.
  Qed.
End Assoc.

Lemma geti_gassoc m v : geti m v = gassoc m v.
Proof. induction m as [|[k x] m IH]; cbn; [reflexivity|]. rewrite IH. reflexivity. Qed.
Lemma getm_gassoc m v : getm m v = gassoc m v.
Proof. induction m as [|[k x] m IH]; cbn; [reflexivity|]. rewrite IH. reflexivity. Qed.

Lemma geti_rename v m r k' :
  geti (rename_keys v m ++ r) (v ++ 46%N :: k') =
  match geti m (self4 ++ 46%N :: k') with Some x => Some x | None => geti r (v ++ 46%N :: k') end.
Proof. rewrite !geti_gassoc. apply gassoc_rename. Qed.
Lemma getm_rename v m r k' :
  getm (rename_keys v m ++ r) (v ++ 46%N :: k') =
  match getm m (self4 ++ 46%N :: k') with Some x => Some x | None => getm r (v ++ 46%N :: k') end.
Proof. rewrite !getm_gassoc. apply gassoc_rename. Qed.

(* ---------- Callout.__init__: one round of the substructure loop ---------- *)
Definition vfru : name := L "self.fruIdentity".
Definition vpce : name := L "self.pceIdentity".
Definition vmru : name := L "self.mru".

Definition loop_state (d : bytes) (size cur : N) : sst :=
  mkS d 0 [(L "currentSize", Z.of_N cur); (L "self.size", Z.of_N size)] [].

Definition fru_at (s : sst) : fru_t :=
  {| f_size := int_of s (vfru ++ 46%N :: L "size"); f_flags := int_of s (vfru ++ 46%N :: L "flags"); f_pn := mem_of s (vfru ++ 46%N :: L "pnOrProcedureID");
     f_ccin := mem_of s (vfru ++ 46%N :: L "ccin"); f_sn := mem_of s (vfru ++ 46%N :: L "sn") |}.
Definition pce_at (s : sst) : pce_t :=
  {| p_size := int_of s (vpce ++ 46%N :: L "flattenedSize"); p_flags := int_of s (vpce ++ 46%N :: L "flags"); p_mtm := mem_of s (vpce ++ 46%N :: L "machineType");
     p_sn := mem_of s (vpce ++ 46%N :: L "serialNumber"); p_name := mem_of s (vpce ++ 46%N :: L "pceName") |}.
Definition mru_at (s : sst) : mru_t :=
  {| m_size := int_of s (vmru ++ 46%N :: L "flattenedSize"); m_flags := int_of s (vmru ++ 46%N :: L "flags"); m_res := int_of s (vmru ++ 46%N :: L "reserved4B");
     m_list := pairs_of s (vmru ++ 46%N :: L "mrus") |}.

(* lookups in the caller after  v = C(stream) *)
Definition early_tail : name := [46; 95; 95; 101; 97; 114; 108; 121]%N.
Lemma int_after_call v e s s' k' : text_eqb early_tail (46%N :: k') = false -> geti (s_ints s) (v ++ 46%N :: k') = None ->
  int_of (after_call v e s s') (v ++ 46%N :: k') = int_of s' (self4 ++ 46%N :: k').
Proof.
  intros He Hn. unfold int_of, after_call. cbn [s_ints geti].
  unfold early_key. fold early_tail. rewrite text_eqb_app, He, geti_rename, Hn.
  destruct (geti (s_ints s') (self4 ++ 46%N :: k')); reflexivity.
Qed.
Lemma mem_after_call v e s s' k' : getm (s_mems s) (v ++ 46%N :: k') = None ->
  mem_of (after_call v e s s') (v ++ 46%N :: k') = mem_of s' (self4 ++ 46%N :: k').
Proof.
  intros Hn. unfold mem_of, after_call. cbn [s_mems]. rewrite getm_rename, Hn.
  destruct (getm (s_mems s') (self4 ++ 46%N :: k')); reflexivity.
Qed.
Lemma early_after_call v e s s' : geti (s_ints (after_call v e s s')) (early_key v) = Some e.
Proof. unfold after_call. cbn [s_ints geti]. rewrite text_eqb_refl. reflexivity. Qed.

Lemma values_rename v m r k' :
  values_of (rename_keys v m ++ r) (v ++ 46%N :: k') = values_of m (self4 ++ 46%N :: k') ++ values_of r (v ++ 46%N :: k').
Proof.
  induction m as [|[k x] m IH]; [reflexivity|].
  cbn [rename_keys values_of]. destruct (is_prefix self_dot k) eqn:P.
  - destruct (prefix_self k P) as [k2 ->].
    change (skipn 4 (self4 ++ 46%N :: k2)) with (46%N :: k2).
    cbn [app values_of]. fold (self4 ++ 46%N :: k2). rewrite !text_eqb_app.
    destruct (text_eqb (46%N :: k2) (46%N :: k')); cbn [app]; rewrite IH; reflexivity.
  - rewrite (noprefix_self k k' P). exact IH.
Qed.

Lemma text_eqb_prefix_false v x k : is_prefix v k = false -> text_eqb (v ++ x) k = false.
Proof.
  revert k; induction v as [|a v IH]; intros k H; [discriminate H|].
  destruct k as [|b k]; [reflexivity|]. cbn [is_prefix] in H. cbn [app text_eqb].
  destruct (N.eqb a b); [cbn in *; apply IH; exact H|reflexivity].
Qed.
Lemma geti_rename_other v m r k : is_prefix v k = false -> geti (rename_keys v m ++ r) k = geti r k.
Proof.
  intros H. induction m as [|[k0 x] m IH]; [reflexivity|].
  cbn [rename_keys]. destruct (is_prefix self_dot k0); [|exact IH].
  cbn [app geti]. rewrite (text_eqb_prefix_false v _ k H). exact IH.
Qed.

(* the caller's state after  v = C(stream); currentSize += v.flattenedSize  *)
Lemma run1_call pe v c q s : lookup_prog pe c = Some q -> uses_idx q = false ->
  run1 pe (TCall v c) s =
  match run q (init (s_rest s)) with
  | RFall s' => RFall (after_call v 0 s s')
  | RRet _ s' => RFall (after_call v 1 s s')
  | _ => RErr
  end.
Proof. intros H1 H2. cbn [run1]. rewrite H1, H2. reflexivity. Qed.

Definition csz : name := L "currentSize".
Definition add_state (v : name) (e : Z) (S s' : sst) (c : Z) : sst :=
  mkS (s_rest s') (s_idx S + s_idx s') ((csz, c) :: s_ints (after_call v e S s')) (s_mems (after_call v e S s')).

Lemma call_add v e S s' z c0 fk :
  fk = v ++ 46%N :: L "flattenedSize" ->
  geti (s_ints s') (L "self.flattenedSize") = Some z ->
  geti (s_ints S) csz = Some c0 -> is_prefix v csz = false ->
  run (TLet csz (XAdd (XV csz) (XV fk))) (after_call v e S s') = RFall (add_state v e S s' (c0 + z)).
Proof.
  intros -> Hz Hc Hp. erewrite run_let with (z := (c0 + z)%Z); [reflexivity|].
  cbn [ev]. unfold after_call at 1. cbn [s_ints geti].
  unfold early_key at 1. rewrite (text_eqb_prefix_false v _ csz Hp), (geti_rename_other v _ _ csz Hp), Hc.
  unfold after_call. cbn [s_ints geti]. unfold early_key. fold early_tail. rewrite text_eqb_app.
  change (text_eqb early_tail (46%N :: L "flattenedSize")) with false. cbv beta iota.
  rewrite geti_rename. change (self4 ++ 46%N :: L "flattenedSize") with (L "self.flattenedSize"). rewrite Hz. reflexivity.
Qed.

Lemma int_add_state v e S s' c k' :
  text_eqb csz (v ++ 46%N :: k') = false -> text_eqb early_tail (46%N :: k') = false -> geti (s_ints S) (v ++ 46%N :: k') = None ->
  int_of (add_state v e S s' c) (v ++ 46%N :: k') = int_of s' (self4 ++ 46%N :: k').
Proof.
  intros H1 H2 H3. rewrite <- (int_after_call v e S s' k' H2 H3).
  unfold int_of, add_state. cbn [s_ints geti]. rewrite H1. reflexivity.
Qed.
Lemma mem_add_state v e S s' c k' : getm (s_mems S) (v ++ 46%N :: k') = None ->
  mem_of (add_state v e S s' c) (v ++ 46%N :: k') = mem_of s' (self4 ++ 46%N :: k').
Proof. intros H. rewrite <- (mem_after_call v e S s' k' H). reflexivity. Qed.
Lemma other_add_state v e S s' c k : text_eqb csz k = false -> is_prefix v k = false ->
  geti (s_ints (add_state v e S s' c)) k = geti (s_ints S) k.
Proof.
  intros H1 H2. unfold add_state, after_call. cbn [s_ints geti]. rewrite H1.
  unfold early_key. rewrite (text_eqb_prefix_false v _ k H2). apply geti_rename_other. exact H2.
Qed.
Lemma early_add_state v e S s' c : text_eqb csz (early_key v) = false ->
  geti (s_ints (add_state v e S s' c)) (early_key v) = Some e.
Proof. intros H. unfold add_state, after_call. cbn [s_ints geti]. rewrite H, text_eqb_refl. reflexivity. Qed.
Lemma csz_add_state v e S s' c : int_of (add_state v e S s' c) csz = Z.to_N c.
Proof. unfold int_of, add_state. cbn [s_ints geti]. change (text_eqb csz csz) with true. reflexivity. Qed.

Lemma values_add_state v e S s' c k' :
  text_eqb csz (v ++ 46%N :: k') = false -> text_eqb early_tail (46%N :: k') = false -> values_of (s_ints S) (v ++ 46%N :: k') = [] ->
  values_of (s_ints (add_state v e S s' c)) (v ++ 46%N :: k') = values_of (s_ints s') (self4 ++ 46%N :: k').
Proof.
  intros H1 H2 H3. unfold add_state, after_call. cbn [s_ints values_of]. rewrite H1.
  unfold early_key. fold early_tail. rewrite text_eqb_app, H2, values_rename, H3. apply app_nil_r.
Qed.

Definition body_sub (s' : sst) : option sub_t :=
  let t := int_of s' (L "type") in
  if (t =? 18756)%N then Some (SubFru (fru_at s'))
  else if (t =? 20549)%N then Some (SubPce (pce_at s'))
  else if (t =? 19794)%N then Some (SubMru (mru_at s'))
  else None.
Definition early_of (s' : sst) (v : name) : bool :=
  match geti (s_ints s') (early_key v) with Some 1%Z => true | _ => false end.
Definition body_early (s' : sst) : bool := early_of s' vfru || early_of s' vpce || early_of s' vmru.

Definition subs_step (f : nat) (size cur : N) (acc : list sub_t) (d : bytes) : option (option (list sub_t) * bytes) :=
  match evc guard_callout (loop_state d size cur) with
  | Some false => Some (Some (rev acc), d)
  | Some true =>
      match run1 callee_progs prog_callout_body (loop_state d size cur) with
      | RBrk _ => Some (Some (rev acc), d)
      | RFall s' =>
          if body_early s' then None
          else match body_sub s' with
               | Some sub => parse_subs f size (int_of s' (L "currentSize")) (sub :: acc) (s_rest s')
               | None => None
               end
      | _ => None
      end
  | None => None
  end.

Lemma run1_seq pe a b s : run1 pe (TSeq a b) s = match run1 pe a s with RFall s' => run1 pe b s' | r => r end.
Proof. reflexivity. Qed.
Lemma run1_if pe c th el s b : evc c s = Some b -> run1 pe (TIf c th el) s = if b then run1 pe th s else run1 pe el s.
Proof. intros H. cbn [run1]. rewrite H. destruct b; reflexivity. Qed.

Theorem subs_step_correct : forall f size cur acc d, parse_subs (S f) size cur acc d = subs_step f size cur acc d.
Proof.
  intros f size cur acc d. unfold subs_step. cbn [parse_subs].
  change (evc guard_callout (loop_state d size cur)) with (Some (Z.of_N cur <? Z.of_N size)%Z).
  replace (cur <? size)%N with (Z.of_N cur <? Z.of_N size)%Z by lia.
  destruct (Z.of_N cur <? Z.of_N size)%Z eqn:G; [|reflexivity].
  unfold prog_callout_body. rewrite run1_seq.
  change (run1 callee_progs (TLet ?v XPeek2) (loop_state d size cur))
    with (RFall (mkS d 0 ((v, Z.of_N (be_val (firstn 2 d) 0)) :: s_ints (loop_state d size cur)) [])).
  cbv beta iota. unfold bind at 1. unfold peek2 at 1.
  generalize (be_val (firstn 2 d) 0). intro t. unfold loop_state. cbn [s_ints].
  set (S := mkS d 0 [(L "type", Z.of_N t); (L "currentSize", Z.of_N cur); (L "self.size", Z.of_N size)] []).
  change (mkS d 0 _ []) with S.
  erewrite run1_if with (b := (Z.of_N t =? 18756)%Z) by reflexivity.
  replace (t =? 18756)%N with (Z.of_N t =? 18756)%Z by lia.
  destruct (Z.of_N t =? 18756)%Z eqn:T1.
  { (* 'ID': a FRU identity *)
    rewrite run1_seq. rewrite (run1_call _ _ _ prog_fru) by reflexivity. change (s_rest S) with d.
    pose proof (fru_prog_correct d) as F. unfold fru_agrees in F. unfold bind at 1.
    destruct (run prog_fru (init d)) as [s'|b s'|s'|s'|] eqn:R; try contradiction.
    - destruct F as [F1 F2]. rewrite F1.
      change (run1 callee_progs ?p ?s) with (run p s).
      erewrite (call_add vfru 0 S s' _ (Z.of_N cur)) by (reflexivity || exact F2).
      set (s2 := add_state vfru 0 S s' (Z.of_N cur + Z.of_N (fru_flat (fru_of s')))).
      assert (E0 : body_early s2 = false).
      { unfold body_early, early_of. unfold s2.
        rewrite (early_add_state vfru) by reflexivity.
        rewrite !(other_add_state vfru) by reflexivity. reflexivity. }
      rewrite E0.
      assert (ET : int_of s2 (L "type") = t).
      { unfold int_of, s2. rewrite (other_add_state vfru) by reflexivity. cbn. apply N2Z.id. }
      unfold body_sub. cbv zeta. rewrite ET.
      replace (t =? 18756)%N with true by lia.
      assert (EF : fru_at s2 = fru_of s').
      { unfold fru_at, fru_of, s2.
        rewrite !(int_add_state vfru 0 S s' _) by reflexivity.
        rewrite !(mem_add_state vfru 0 S s' _) by reflexivity. reflexivity. }
      rewrite EF. unfold s2 at 1. change (L "currentSize") with csz. rewrite csz_add_state.
      replace (Z.to_N (Z.of_N cur + Z.of_N (fru_flat (fru_of s')))) with (cur + fru_flat (fru_of s'))%N by lia.
      reflexivity.
    - rewrite F. reflexivity. }
  erewrite run1_if with (b := (Z.of_N t =? 20549)%Z) by reflexivity.
  replace (t =? 20549)%N with (Z.of_N t =? 20549)%Z by lia.
  destruct (Z.of_N t =? 20549)%Z eqn:T2.
  { (* 'PE': a PCE identity *)
    rewrite run1_seq. rewrite (run1_call _ _ _ prog_pce) by reflexivity. change (s_rest S) with d.
    pose proof (pce_prog_correct d) as F. unfold pce_agrees in F. unfold bind at 1.
    destruct (run prog_pce (init d)) as [s'|b s'|s'|s'|] eqn:R; try contradiction.
    - destruct F as [F1 F2]. rewrite F1.
      change (run1 callee_progs ?p ?s) with (run p s).
      erewrite (call_add vpce 0 S s' _ (Z.of_N cur)) by (reflexivity || exact F2).
      set (s2 := add_state vpce 0 S s' (Z.of_N cur + Z.of_N (p_size (pce_of s')))).
      assert (E0 : body_early s2 = false).
      { unfold body_early, early_of. unfold s2.
        rewrite (early_add_state vpce) by reflexivity.
        rewrite !(other_add_state vpce) by reflexivity. reflexivity. }
      rewrite E0.
      assert (ET : int_of s2 (L "type") = t).
      { unfold int_of, s2. rewrite (other_add_state vpce) by reflexivity. cbn. apply N2Z.id. }
      unfold body_sub. cbv zeta. rewrite ET.
      replace (t =? 18756)%N with false by lia. replace (t =? 20549)%N with true by lia.
      assert (EF : pce_at s2 = pce_of s').
      { unfold pce_at, pce_of, s2.
        rewrite !(int_add_state vpce 0 S s' _) by reflexivity.
        rewrite !(mem_add_state vpce 0 S s' _) by reflexivity. reflexivity. }
      rewrite EF. unfold s2 at 1. change (L "currentSize") with csz. rewrite csz_add_state.
      replace (Z.to_N (Z.of_N cur + Z.of_N (p_size (pce_of s')))) with (cur + p_size (pce_of s'))%N by lia.
      reflexivity.
    - (* the constructor returned early: the object lacks pceName, the model rejects *)
      destruct b; [contradiction|]. rewrite F.
      change (run1 callee_progs ?p ?s) with (run p s). cbn [run].
      let v := eval cbv in vpce in change v with vpce.
      match goal with |- context [ev ?e (after_call vpce 1 S s')] => destruct (ev e (after_call vpce 1 S s')) as [z|] end; [|reflexivity].
      match goal with |- None = (if body_early ?s2 then _ else _) => assert (E1 : body_early s2 = true) end.
      { unfold body_early, early_of. cbn [s_ints s_rest s_idx s_mems].
        change (geti ((?k, ?x) :: s_ints (after_call vpce 1 S s')) (early_key vpce))
          with (geti (s_ints (after_call vpce 1 S s')) (early_key vpce)).
        rewrite early_after_call. apply orb_true_iff. left. apply orb_true_r. }
      rewrite E1. reflexivity.
    - rewrite F. reflexivity. }
  erewrite run1_if with (b := (Z.of_N t =? 19794)%Z) by reflexivity.
  replace (t =? 19794)%N with (Z.of_N t =? 19794)%Z by lia.
  destruct (Z.of_N t =? 19794)%Z eqn:T3; [|reflexivity].
  (* 'MR': a MRU list *)
  rewrite run1_seq. rewrite (run1_call _ _ _ prog_mru) by reflexivity. change (s_rest S) with d.
  pose proof (mru_prog_correct d) as F. unfold mru_agrees in F. unfold bind at 1.
  destruct (run prog_mru (init d)) as [s'|b s'|s'|s'|] eqn:R; try contradiction.
  - destruct F as [F1 F2]. rewrite F1.
    change (run1 callee_progs ?p ?s) with (run p s).
    erewrite (call_add vmru 0 S s' _ (Z.of_N cur)) by (reflexivity || exact F2).
    set (s2 := add_state vmru 0 S s' (Z.of_N cur + Z.of_N (m_size (mru_of s')))).
    assert (E0 : body_early s2 = false).
    { unfold body_early, early_of. unfold s2.
      rewrite (early_add_state vmru) by reflexivity.
      rewrite !(other_add_state vmru) by reflexivity. reflexivity. }
    rewrite E0.
    assert (ET : int_of s2 (L "type") = t).
    { unfold int_of, s2. rewrite (other_add_state vmru) by reflexivity. cbn. apply N2Z.id. }
    unfold body_sub. cbv zeta. rewrite ET.
    replace (t =? 18756)%N with false by lia. replace (t =? 20549)%N with false by lia. replace (t =? 19794)%N with true by lia.
    assert (EF : mru_at s2 = mru_of s').
    { unfold mru_at, mru_of, s2.
      rewrite !(int_add_state vmru 0 S s' _) by reflexivity.
      unfold pairs_of.
      change ((vmru ++ 46%N :: L "mrus") ++ [46; 48]%N) with (vmru ++ 46%N :: (L "mrus" ++ [46; 48]%N)).
      change ((vmru ++ 46%N :: L "mrus") ++ [46; 49]%N) with (vmru ++ 46%N :: (L "mrus" ++ [46; 49]%N)).
      rewrite !(values_add_state vmru 0 S s' _) by reflexivity. reflexivity. }
    rewrite EF. unfold s2 at 1. change (L "currentSize") with csz. rewrite csz_add_state.
    replace (Z.to_N (Z.of_N cur + Z.of_N (m_size (mru_of s')))) with (cur + m_size (mru_of s'))%N by lia.
    reflexivity.
  - rewrite F. reflexivity.
Qed.

(* ---------- SRC.toJSON: the fixed part (six header fields, eight hex words, the 32-byte reference code) ---------- *)
Definition src_fixed : reader (N * N * N * N * N * N * list N * bytes) :=
  v <- get_int 1 ;; fl <- get_int 1 ;; r1 <- get_int 1 ;; wc <- get_int 1 ;; r2 <- get_int 2 ;; sz <- get_int 2 ;;
  ws <- read_n 8 (get_int 4) ;; asc <- get_mem 32 ;; ret (v, fl, r1, wc, r2, sz, ws, asc).

Definition hexkey : name := Eval cbv in (L "self.hexData" ++ [46; 48]%N).
Definition src_fixed_of (s : sst) :=
  (be_val (mem_of s (L "self.version")) 0, int_of s (L "self.flags"), int_of s (L "self.reserved1B"), int_of s (L "self.wordCount"),
   int_of s (L "self.reserved2B"), int_of s (L "self.size"), rev (map Z.to_N (values_of (s_ints s) hexkey)),
   mem_of s (L "self.asciiString")).

Definition src_head_agrees (d : bytes) : Prop :=
  match run prog_src_head (init d) with
  | RFall s => src_fixed d = Some (src_fixed_of s, s_rest s)
  | RErr => src_fixed d = None
  | _ => False
  end.

Theorem src_head_correct : forall d, src_head_agrees d.
Proof.
  intro d. unfold src_head_agrees.
  do 72 (destruct d as [|?a d]; [cbv -[be_val Z.of_N]; reflexivity|]).
  unfold prog_src_head, init. do 9 step. cbn [run].
  cbv -[be_val Z.of_N Z.to_N]. rewrite !N2Z.id. reflexivity.
Qed.

(* parse_src is the fixed part followed by the word-count check and the optional callout subsection *)
Definition src_rest (x : N * N * N * N * N * N * list N * bytes) : reader (option src_t) :=
  let '(v, fl, r1, wc, r2, sz, ws, asc) := x in
  if (9 <? wc)%N then fail
  else if Parse.has fl HeaderFlags_additionalSections then
    cs <- parse_callouts ;;
    match cs with
    | None => ret None
    | Some cs => ret (Some {| s_version := v; s_flags := fl; s_res1 := r1; s_wcount := wc; s_res2 := r2; s_size := sz;
                              s_words := ws; s_ascii := asc; s_callouts := Some cs |})
    end
  else ret (Some {| s_version := v; s_flags := fl; s_res1 := r1; s_wcount := wc; s_res2 := r2; s_size := sz;
                    s_words := ws; s_ascii := asc; s_callouts := None |}).

Lemma parse_src_split d : parse_src d = (x <- src_fixed ;; src_rest x) d.
Proof.
  unfold parse_src, src_fixed, bind.
  destruct (get_int 1 d) as [[v d1]|]; [|reflexivity].
  destruct (get_int 1 d1) as [[fl d2]|]; [|reflexivity].
  destruct (get_int 1 d2) as [[r1 d3]|]; [|reflexivity].
  destruct (get_int 1 d3) as [[wc d4]|]; [|reflexivity].
  destruct (get_int 2 d4) as [[r2 d5]|]; [|reflexivity].
  destruct (get_int 2 d5) as [[sz d6]|]; [|reflexivity].
  destruct (read_n 8 (get_int 4) d6) as [[ws d7]|]; [|reflexivity].
  destruct (get_mem 32 d7) as [[asc d8]|]; reflexivity.
Qed.

(* ---------- SRC.getCallouts: the subsection header, the running length and the loop condition ---------- *)
(* the model keeps the first two bytes (they are not displayed: the code reads them into `_`) *)
Definition callouts_head : reader N := _ <- get_int 1 ;; _ <- get_int 1 ;; wl <- get_int 2 ;; ret wl.

Definition callouts_head_agrees (d : bytes) : Prop :=
  match run prog_callouts_head (init d) with
  | RFall s =>
      callouts_head d = Some (int_of s (L "subsectionWordLength"), s_rest s) /\
      int_of s (L "currentLength") = 4%N /\
      evc guard_callouts s = Some (4 <? int_of s (L "subsectionWordLength") * 4)%N
  | RErr => callouts_head d = None
  | _ => False
  end.

Theorem callouts_head_correct : forall d, callouts_head_agrees d.
Proof.
  intro d. unfold callouts_head_agrees.
  do 4 (destruct d as [|?a d]; [cbv -[be_val Z.of_N]; reflexivity|]).
  unfold prog_callouts_head, init. do 5 step.
  change (callouts_head (a :: a0 :: a1 :: a2 :: d)) with (Some (be_val [a1; a2] 0, d)).
  generalize (be_val [a1; a2] 0). intro wl.
  cbn [run forget names_var N.eqb Pos.eqb andb s_rest s_idx s_ints s_mems].
  split; [|split].
  - cbv -[be_val Z.of_N Z.to_N]. rewrite N2Z.id. reflexivity.
  - reflexivity.
  - (let n := eval cbv in (L "subsectionWordLength") in change (L "subsectionWordLength") with n).
    unfold guard_callouts, int_of. cbn [evc ev geti s_ints text_eqb N.eqb Pos.eqb andb].
    rewrite N2Z.id. f_equal. lia.
Qed.

(* the loop condition in any later round: the words declared times four against the running length *)
Lemma callouts_guard wl cur d i mems :
  evc guard_callouts (mkS d i [(L "currentLength", Z.of_N cur); (L "subsectionWordLength", Z.of_N wl)] mems) = Some (cur <? wl * 4)%N.
Proof. cbn. f_equal. lia. Qed.

Lemma parse_callouts_split d :
  parse_callouts d =
  (id <- get_int 1 ;; fl <- get_int 1 ;; wl <- get_int 2 ;;
   l <- parse_callout_list (N.to_nat wl + 4) (wl * 4) 4 [] ;;
   match l with
   | None => ret None
   | Some l => ret (Some {| cs_id := id; cs_flags := fl; cs_wlen := wl; cs_list := l |})
   end) d.
Proof. reflexivity. Qed.

Theorem src_readers_agree :
  (forall d, fru_agrees d) /\ (forall d, pce_agrees d) /\ (forall d, mru_agrees d) /\ (forall d, head_agrees d) /\
  (forall f size cur acc d, parse_subs (S f) size cur acc d = subs_step f size cur acc d).
Proof. repeat split; [exact fru_prog_correct|exact pce_prog_correct|exact mru_prog_correct|exact head_prog_correct|exact subs_step_correct]. Qed.
