(* The substructure constructors of src.py (FRUIdentity.__init__, PCEIdentity.__init__), translated from the source text
   (Gen/Readers.v, regenerated every run), are the model's parse_fru / parse_pce (Model/Parse.v), for every byte string. *)
From Coq Require Import List NArith ZArith Bool Lia ZifyBool.
From PV Require Import Base.Bytes Base.Lit Base.Reader Base.PelTypes Model.StreamProg Model.Parse Gen.Readers Gen.Tables
                       Proofs.ReaderProgFacts.
Import ListNotations.

Lemma has_leb n d : StreamProg.has n d = Nat.leb n (length d).
Proof. revert d; induction n as [|n IH]; intros [|b d]; cbn; auto. Qed.

Lemma get_mem_has n d : get_mem (S n) d = if StreamProg.has (S n) d then Some (firstn (S n) d, skipn (S n) d) else None.
Proof. unfold get_mem. rewrite has_leb. reflexivity. Qed.

Lemma land_of_N a b : Z.land (Z.of_N a) (Z.of_N b) = Z.of_N (N.land a b).
Proof. destruct a, b; reflexivity. Qed.
Lemma truthy_land fl k : negb (Z.land (Z.of_N fl) (Z.of_N k) =? 0)%Z = Parse.has fl k.
Proof. unfold Parse.has. rewrite land_of_N. f_equal. lia. Qed.

Lemma firstn_len_has n (d : bytes) : StreamProg.has n d = true -> length (firstn n d) = n.
Proof. revert d; induction n as [|n IH]; intros [|b d] H; cbn in *; try discriminate; auto. Qed.

Definition fru_of (s : sst) : fru_t :=
  {| f_size := int_of s (L "self.size"); f_flags := int_of s (L "self.flags"); f_pn := mem_of s (L "self.pnOrProcedureID");
     f_ccin := mem_of s (L "self.ccin"); f_sn := mem_of s (L "self.sn") |}.

Definition fru_agrees (d : bytes) : Prop :=
  match run prog_fru (init d) with
  | RFall s => parse_fru d = Some (fru_of s, s_rest s) /\ int_of s (L "self.flattenedSize") = fru_flat (fru_of s)
  | RErr => parse_fru d = None
  | _ => False
  end.

(* one optional field:  if <cond>: self.v = ...get_mem(n)...; self.flattenedSize += n *)
Lemma run_optfield c v n F s b f : evc c s = Some b -> geti (s_ints s) F = Some f -> (0 < n)%Z ->
  run (TIf c (TSeq (TMem v (XC n)) (TLet F (XAdd (XV F) (XC n)))) TNop) s =
  if b then
    if StreamProg.has (Z.to_nat n) (s_rest s)
    then RFall (mkS (skipn (Z.to_nat n) (s_rest s)) (s_idx s + n) ((F, (f + n)%Z) :: s_ints s)
                    ((v, firstn (Z.to_nat n) (s_rest s)) :: s_mems s))
    else RErr
  else RFall s.
Proof.
  intros Hc Hf Hn. erewrite run_if by exact Hc. destruct b; [|reflexivity].
  rewrite run_seq_eq. cbn [run ev]. apply Z.ltb_lt in Hn. rewrite Hn. cbn [andb].
  destruct (StreamProg.has (Z.to_nat n) (s_rest s)); [|reflexivity].
  cbn [s_ints ev]. rewrite Hf. reflexivity.
Qed.

Lemma evc_truthy_flags s F fl k : geti (s_ints s) F = Some (Z.of_N fl) ->
  evc (CTruthy (XAnd (XV F) (XC (Z.of_N k)))) s = Some (Parse.has fl k).
Proof. intros H. cbn [evc ev]. rewrite H. rewrite truthy_land. reflexivity. Qed.
Lemma evc_or a b s x y : evc a s = Some x -> evc b s = Some y -> evc (COr a b) s = Some (x || y).
Proof. intros Ha Hb. cbn [evc]. rewrite Ha. destruct x; [reflexivity|exact Hb]. Qed.

Lemma opt_mem_has c n d : opt_mem c (S n) d =
  if c then (if StreamProg.has (S n) d then Some (firstn (S n) d, skipn (S n) d) else None) else Some ([], d).
Proof. unfold opt_mem. destruct c; [apply get_mem_has|reflexivity]. Qed.

Lemma parse_fru_cons a0 a1 a2 a3 d1 :
  parse_fru (a0 :: a1 :: a2 :: a3 :: d1) =
  let fl := be_val [a3] 0 in
  match opt_mem (Parse.has fl 8 || Parse.has fl 2) 8 d1 with
  | Some (pn, d2) =>
      match opt_mem (Parse.has fl 4) 4 d2 with
      | Some (cc, d3) =>
          match opt_mem (Parse.has fl 1) 12 d3 with
          | Some (sn, d4) => Some ({| f_size := be_val [a2] 0; f_flags := fl; f_pn := pn; f_ccin := cc; f_sn := sn |}, d4)
          | None => None
          end
      | None => None
      end
  | None => None
  end.
Proof. reflexivity. Qed.

Theorem fru_prog_correct : forall d, fru_agrees d.
Proof.
  intro d. unfold fru_agrees.
  destruct d as [|a0 d]; [vm_compute; reflexivity|].
  destruct d as [|a1 d]; [vm_compute; reflexivity|].
  destruct d as [|a2 d]; [cbv -[be_val Z.of_N]; reflexivity|].
  destruct d as [|a3 d]; [cbv -[be_val Z.of_N]; reflexivity|].
  rewrite parse_fru_cons. cbv zeta. unfold prog_fru, init.
  do 7 step.
  generalize (be_val [a3] 0) (be_val [a2] 0) (be_val [a0; a1] 0). intros fl sz ty.
  (* part number / procedure id *)
  rewrite run_seq_eq.
  erewrite run_optfield with (b := Parse.has fl 8 || Parse.has fl 2) (f := 4%Z);
    [|apply evc_or; [apply (evc_truthy_flags _ _ fl 8%N)|apply (evc_truthy_flags _ _ fl 2%N)]; reflexivity|reflexivity|reflexivity].
  rewrite opt_mem_has. change (Z.to_nat 8) with 8%nat. norm.
  destruct (Parse.has fl 8 || Parse.has fl 2); [destruct (StreamProg.has 8 d) eqn:H1; [|reflexivity]|]; cbv beta iota.
  all: rewrite run_seq_eq;
    (erewrite run_optfield with (b := Parse.has fl 4);
     [|apply (evc_truthy_flags _ _ fl 4%N); reflexivity|reflexivity|reflexivity]);
    rewrite opt_mem_has; change (Z.to_nat 4) with 4%nat; norm;
    (destruct (Parse.has fl 4); [match goal with |- context [StreamProg.has 4 ?r] => destruct (StreamProg.has 4 r) eqn:H2; [|reflexivity] end|]);
    cbv beta iota.
  all: (erewrite run_optfield with (b := Parse.has fl 1);
        [|apply (evc_truthy_flags _ _ fl 1%N); reflexivity|reflexivity|reflexivity]);
    rewrite opt_mem_has; change (Z.to_nat 12) with 12%nat; norm;
    (destruct (Parse.has fl 1); [match goal with |- context [StreamProg.has 12 ?r] => destruct (StreamProg.has 12 r) eqn:H3; [|reflexivity] end|]);
    cbv beta iota.
  all: (split;
        [cbv [fru_of int_of mem_of geti getm s_ints s_mems s_rest text_eqb N.eqb Pos.eqb andb L
              Ascii.N_of_ascii Ascii.N_of_digits N.add N.mul Pos.add Pos.mul Pos.succ]; rewrite ?N2Z.id; reflexivity
        |cbv [fru_of fru_flat f_pn f_ccin f_sn int_of mem_of geti getm s_ints s_mems s_rest text_eqb N.eqb Pos.eqb andb L
              Ascii.N_of_ascii Ascii.N_of_digits N.add N.mul Pos.add Pos.mul Pos.succ];
         rewrite ?(firstn_len_has _ _ H1), ?(firstn_len_has _ _ H2), ?(firstn_len_has _ _ H3); reflexivity]).
Qed.

(* ---------- PCEIdentity.__init__ ---------- *)
Definition pce_of (s : sst) : pce_t :=
  {| p_size := int_of s (L "self.flattenedSize"); p_flags := int_of s (L "self.flags"); p_mtm := mem_of s (L "self.machineType");
     p_sn := mem_of s (L "self.serialNumber"); p_name := mem_of s (L "self.pceName") |}.

(* the early `return` (size field below 24: pceName stays unset and rendering the callout raises) and a DataStream assertion are
   both the model's rejection *)
Definition pce_agrees (d : bytes) : Prop :=
  match run prog_pce (init d) with
  | RFall s => parse_pce d = Some (pce_of s, s_rest s)
  | RErr => parse_pce d = None
  | RRet false _ => parse_pce d = None
  | _ => False
  end.

Lemma get_memN_has n d : get_memN n d =
  if (n =? 0)%N then None
  else if StreamProg.has (N.to_nat n) d then Some (firstn (N.to_nat n) d, skipn (N.to_nat n) d) else None.
Proof.
  unfold get_memN, get_mem. rewrite has_leb. destruct (N.eqb_spec n 0) as [E|E].
  - subst n. reflexivity.
  - destruct (N.to_nat n) eqn:En; [lia|reflexivity].
Qed.

Lemma parse_pce_cons a0 a1 a2 a3 a4 a5 a6 a7 a8 a9 a10 a11 a12 a13 a14 a15 a16 a17 a18 a19 a20 a21 a22 a23 d1 :
  parse_pce (a0 :: a1 :: a2 :: a3 :: a4 :: a5 :: a6 :: a7 :: a8 :: a9 :: a10 :: a11 :: a12 :: a13 :: a14 :: a15 :: a16 :: a17
             :: a18 :: a19 :: a20 :: a21 :: a22 :: a23 :: d1) =
  let sz := be_val [a2] 0 in
  if (sz <? 24)%N then None
  else match get_memN (sz - 24) d1 with
       | Some (nm, d2) => Some ({| p_size := sz; p_flags := be_val [a3] 0; p_mtm := [a4; a5; a6; a7; a8; a9; a10; a11];
                                   p_sn := [a12; a13; a14; a15; a16; a17; a18; a19; a20; a21; a22; a23]; p_name := nm |}, d2)
       | None => None
       end.
Proof.
  cbv zeta. unfold parse_pce. cbv -[be_val N.ltb N.sub get_memN].
  destruct (be_val [a2] 0 <? 24)%N; reflexivity.
Qed.

Theorem pce_prog_correct : forall d, pce_agrees d.
Proof.
  intro d. unfold pce_agrees.
  do 24 (destruct d as [|?a d]; [cbv -[be_val Z.of_N]; reflexivity|]).
  rewrite parse_pce_cons. cbv zeta. unfold prog_pce, init.
  do 5 step.
  generalize (be_val [a1] 0) (be_val [a2] 0) (be_val [a; a0] 0). intros sz fl ty.
  rewrite run_seq_eq. erewrite run_if with (b := (Z.of_N sz <? 24)%Z) by reflexivity.
  replace (sz <? 24)%N with (Z.of_N sz <? 24)%Z by lia.
  destruct (Z.of_N sz <? 24)%Z eqn:E1.
  - cbn [run]. reflexivity.
  - rewrite run_nop. cbv beta iota. rewrite run_seq_eq.
    erewrite run_let with (z := (Z.of_N sz - 24)%Z) by reflexivity. norm.
    rewrite get_memN_has.
    destruct (N.eqb_spec (sz - 24) 0) as [E2|E2].
    + (* a name of length zero: get_mem(0) fails its range assertion *)
      assert (Hz : (Z.of_N sz - 24 = 0)%Z) by lia.
      cbn [run ev geti s_ints text_eqb N.eqb Pos.eqb andb]. rewrite Hz. reflexivity.
    + assert (Hpos : (0 < Z.of_N sz - 24)%Z) by lia.
      assert (Hn : Z.to_nat (Z.of_N sz - 24) = N.to_nat (sz - 24)) by lia.
      destruct (StreamProg.has (N.to_nat (sz - 24)) d) eqn:Hh.
      * erewrite run_mem with (z := (Z.of_N sz - 24)%Z); [|reflexivity|exact Hpos|rewrite Hn; exact Hh].
        norm. rewrite Hn.
        cbv [pce_of int_of mem_of geti getm s_ints s_mems s_rest text_eqb N.eqb Pos.eqb andb L
             Ascii.N_of_ascii Ascii.N_of_digits N.add N.mul Pos.add Pos.mul Pos.succ]. rewrite ?N2Z.id. reflexivity.
      * cbn [run ev geti s_ints text_eqb N.eqb Pos.eqb andb s_rest]. rewrite Hn, Hh.
        destruct (0 <? Z.of_N sz - 24)%Z; reflexivity.
Qed.

Theorem src_readers_agree : (forall d, fru_agrees d) /\ (forall d, pce_agrees d).
Proof. split; [exact fru_prog_correct|exact pce_prog_correct]. Qed.
