(* Lemmas for C20 (hardware-diagnostics signatures and register dumps). *)
From Coq Require Import List NArith ZArith Bool Arith Lia ZifyBool ZifyNat.
From PV Require Import Base.Bytes Base.Lit Base.Json Base.Utf8 Base.Reader Model.Hexdump Model.Hwdiags Spec.HwdiagsSpec
                       Proofs.BytesFacts Proofs.HexdumpFacts Proofs.HwdiagsUtf8.
Import ListNotations.
Ltac Zify.zify_post_hook ::= Z.to_euclidean_division_equations.
Open Scope N_scope.

(* ------------------------------------------------------------------ *)
(* letter case and hex digits                                          *)

Lemma is_hex_lower_c c : is_hex (lower_c c) = is_hex c.
Proof. unfold is_hex, lower_c. destruct ((65 <=? c) && (c <=? 90)) eqn:E; lia. Qed.

Lemma hexval_lower_c c : is_hex c = true -> hexval (lower_c c) = hexval c.
Proof.
  unfold is_hex, hexval, lower_c. intros H.
  destruct ((65 <=? c) && (c <=? 90)) eqn:E; [|reflexivity].
  destruct (N.leb_spec (c + 32) 57); [lia|]. destruct (N.leb_spec (c + 32) 70); [lia|].
  destruct (N.leb_spec c 57); [lia|]. destruct (N.leb_spec c 70); lia.
Qed.

Lemma lower_c_idem c : lower_c (lower_c c) = lower_c c.
Proof. unfold lower_c. destruct ((65 <=? c) && (c <=? 90)) eqn:E; [|rewrite E; reflexivity].
  destruct ((65 <=? c + 32) && (c + 32 <=? 90)) eqn:E2; [lia|reflexivity]. Qed.

Lemma lower_upper_c c : lower_c (upper_c c) = lower_c c.
Proof. unfold lower_c, upper_c. destruct ((97 <=? c) && (c <=? 122)) eqn:E.
  - destruct ((65 <=? c - 32) && (c - 32 <=? 90)) eqn:E2; destruct ((65 <=? c) && (c <=? 90)) eqn:E3; lia.
  - reflexivity. Qed.

Lemma lower_idem s : lower (lower s) = lower s.
Proof. unfold lower. rewrite map_map. apply map_ext. apply lower_c_idem. Qed.
Lemma lower_upper s : lower (upper s) = lower s.
Proof. unfold lower, upper. rewrite map_map. apply map_ext. apply lower_upper_c. Qed.

Lemma forallb_is_hex_lower s : forallb is_hex (lower s) = forallb is_hex s.
Proof. induction s; simpl; [reflexivity|]. rewrite is_hex_lower_c, IHs. reflexivity. Qed.

Lemma check_hex_lower n s : check_hex n (lower s) = check_hex n s.
Proof. unfold check_hex. rewrite forallb_is_hex_lower. unfold lower. rewrite map_length. reflexivity. Qed.

Lemma hexnum_acc_lower s : forall acc, forallb is_hex s = true ->
  fold_left (fun a c => a * 16 + hexval c) (lower s) acc = fold_left (fun a c => a * 16 + hexval c) s acc.
Proof.
  induction s as [|c t IH]; intros acc H; simpl in *; [reflexivity|].
  apply andb_true_iff in H. destruct H as [Hc Ht]. rewrite hexval_lower_c by assumption. apply IH. assumption.
Qed.
Lemma hexnum_lower s : forallb is_hex s = true -> hexnum (lower s) = hexnum s.
Proof. apply hexnum_acc_lower. Qed.

Lemma slice_lower a b s : slice a b (lower s) = lower (slice a b s).
Proof. unfold slice, lower. rewrite skipn_map, firstn_map. reflexivity. Qed.

Lemma forallb_firstn {A} (p : A -> bool) n l : forallb p l = true -> forallb p (firstn n l) = true.
Proof. revert l; induction n; intros l H; simpl; [reflexivity|]. destruct l; simpl in *; [reflexivity|].
  apply andb_true_iff in H. destruct H. rewrite H. simpl. apply IHn. assumption. Qed.
Lemma forallb_skipn {A} (p : A -> bool) n l : forallb p l = true -> forallb p (skipn n l) = true.
Proof. revert l; induction n; intros l H; simpl; [assumption|]. destruct l; simpl in *; [reflexivity|].
  apply andb_true_iff in H. destruct H. apply IHn. assumption. Qed.
Lemma forallb_slice a b s : forallb is_hex s = true -> forallb is_hex (slice a b s) = true.
Proof. intros. unfold slice. apply forallb_firstn, forallb_skipn. assumption. Qed.

Lemma check_hex_forallb n s : check_hex n s = true -> forallb is_hex s = true.
Proof. unfold check_hex. intros H. apply andb_true_iff in H. apply H. Qed.

Lemma hexnum_slice_lower a b s : forallb is_hex s = true -> hexnum (slice a b (lower s)) = hexnum (slice a b s).
Proof. intros. rewrite slice_lower. apply hexnum_lower. apply forallb_slice. assumption. Qed.

(* ------------------------------------------------------------------ *)
(* C20_case: the accessors do not see the letter case of their hex arguments *)

Lemma get_chip_desc_lower cd m node pos : get_chip_desc cd (lower m) node pos = get_chip_desc cd m node pos.
Proof. unfold get_chip_desc. rewrite check_hex_lower, lower_idem. reflexivity. Qed.

Lemma get_attn_desc_lower cd m a : get_attn_desc cd (lower m) a = get_attn_desc cd m a.
Proof. unfold get_attn_desc. rewrite check_hex_lower, lower_idem. reflexivity. Qed.

Lemma get_sig_desc_lower cd m sid inst bit :
  get_sig_desc cd (lower m) (lower sid) inst bit = get_sig_desc cd m sid inst bit.
Proof. unfold get_sig_desc. rewrite !check_hex_lower, !lower_idem. reflexivity. Qed.

Lemma get_reg_data_lower cd m rid inst : get_reg_data cd (lower m) (lower rid) inst = get_reg_data cd m rid inst.
Proof. unfold get_reg_data. rewrite !check_hex_lower, !lower_idem. reflexivity. Qed.

Lemma query_model_ec_lower cd m : query_model_ec cd (lower m) = query_model_ec cd m.
Proof. unfold query_model_ec. rewrite lower_idem. reflexivity. Qed.

Theorem get_signature_lower cd a b c : get_signature cd (lower a) (lower b) (lower c) = get_signature cd a b c.
Proof.
  unfold get_signature. rewrite !check_hex_lower.
  destruct (check_hex 4 a && check_hex 4 b && check_hex 4 c) eqn:E; [|reflexivity].
  apply andb_true_iff in E. destruct E as [E Hc]. apply andb_true_iff in E. destruct E as [Ha Hb].
  apply check_hex_forallb in Hb, Hc.
  rewrite !hexnum_slice_lower by assumption.
  rewrite get_chip_desc_lower, get_attn_desc_lower, (slice_lower 0 4 c), get_sig_desc_lower. reflexivity.
Qed.

Theorem get_signature_case cd a b c :
  get_signature cd (upper a) (upper b) (upper c) = get_signature cd (lower a) (lower b) (lower c).
Proof.
  rewrite <- (get_signature_lower cd (upper a)), !lower_upper. rewrite get_signature_lower. reflexivity.
Qed.

(* ------------------------------------------------------------------ *)
(* hex text of big-endian bytes                                        *)

Lemma bytes_hex_app a b : bytes_hex (a ++ b) = bytes_hex a ++ bytes_hex b.
Proof. unfold bytes_hex. apply flat_map_app. Qed.

Lemma hex_fixed_2 dig b : hex_fixed dig 2 b = [dig (b / 16 mod 16); dig (b mod 16)].
Proof. reflexivity. Qed.

Lemma hex_fixed_S2 dig n v : hex_fixed dig (S (S n)) v = hex_fixed dig n (v / 256) ++ hex_fixed dig 2 (v mod 256).
Proof.
  cbn [hex_fixed]. rewrite <- app_assoc. simpl app.
  replace (v / 16 / 16) with (v / 256) by (rewrite N.div_div by lia; reflexivity).
  replace (v mod 256 / 16 mod 16) with (v / 16 mod 16) by lia.
  replace (v mod 256 mod 16) with (v mod 16) by lia. reflexivity.
Qed.

Lemma bytes_hex_be n : forall v, bytes_hex (be_bytes n v) = hex_fixed hexdigL (2 * n) v.
Proof.
  induction n; intros v; [reflexivity|].
  cbn [be_bytes]. rewrite bytes_hex_app, IHn.
  replace (2 * S n)%nat with (S (S (2 * n))) by lia. rewrite hex_fixed_S2.
  unfold bytes_hex. cbn [flat_map]. rewrite app_nil_r. reflexivity.
Qed.

Lemma forallb_app {A} (p : A -> bool) a b : forallb p (a ++ b) = forallb p a && forallb p b.
Proof. induction a; simpl; [reflexivity|]. rewrite IHa. apply andb_assoc. Qed.

Lemma hex_fixed_is_hexL n v : forallb is_hex (hex_fixed hexdigL n v) = true.
Proof.
  revert v; induction n; intros v; simpl; [reflexivity|].
  rewrite forallb_app, IHn. simpl. rewrite is_hex_hexdigL; [reflexivity|]. apply N.mod_lt. lia.
Qed.

Lemma check_hex_fixed nb v : check_hex nb (hex_fixed hexdigL (2 * nb) v) = true.
Proof. unfold check_hex. rewrite hex_fixed_length, Nat.eqb_refl, hex_fixed_is_hexL. reflexivity. Qed.

Lemma lower_c_hexdigL n : n < 16 -> lower_c (hexdigL n) = hexdigL n.
Proof. intros. unfold lower_c, hexdigL. destruct (N.ltb_spec n 10);
  match goal with |- context[(65 <=? ?x) && (?x <=? 90)] => destruct ((65 <=? x) && (x <=? 90)) eqn:E end; lia. Qed.
Lemma upper_c_hexdigL n : n < 16 -> upper_c (hexdigL n) = hexdigU n.
Proof. intros. unfold upper_c, hexdigL, hexdigU. destruct (N.ltb_spec n 10);
  match goal with |- context[(97 <=? ?x) && (?x <=? 122)] => destruct ((97 <=? x) && (x <=? 122)) eqn:E end; lia. Qed.

Lemma lower_hex_fixedL n v : lower (hex_fixed hexdigL n v) = hex_fixed hexdigL n v.
Proof.
  revert v; induction n; intros v; simpl; [reflexivity|].
  unfold lower in *. rewrite map_app, IHn. simpl. rewrite lower_c_hexdigL; [reflexivity|]. apply N.mod_lt. lia.
Qed.
Lemma upper_hex_fixedL n v : upper (hex_fixed hexdigL n v) = hex_fixed hexdigU n v.
Proof.
  revert v; induction n; intros v; simpl; [reflexivity|].
  unfold upper in *. rewrite map_app, IHn. simpl. rewrite upper_c_hexdigL; [reflexivity|]. apply N.mod_lt. lia.
Qed.

Lemma hexnum_app a b : hexnum (a ++ b) = fold_left (fun acc c => acc * 16 + hexval c) b (hexnum a).
Proof. unfold hexnum. apply fold_left_app. Qed.

Lemma hexnum_hex_fixedL n : forall v, v < 16 ^ N.of_nat n -> hexnum (hex_fixed hexdigL n v) = v.
Proof.
  induction n; intros v H.
  - simpl in *. unfold hexnum. simpl. lia.
  - cbn [hex_fixed]. rewrite hexnum_app. simpl fold_left.
    rewrite Nat2N.inj_succ, N.pow_succ_r' in H.
    rewrite IHn by (apply N.div_lt_upper_bound; lia).
    rewrite hexval_hexdigL by (apply N.mod_lt; lia). lia.
Qed.

Lemma firstn_exact {A} (x y : list A) n : length x = n -> firstn n (x ++ y) = x.
Proof. intros; subst n. induction x; simpl; [destruct y; reflexivity|]. rewrite IHx. reflexivity. Qed.
Lemma skipn_exact {A} (x y : list A) n : length x = n -> skipn n (x ++ y) = y.
Proof. intros; subst n. induction x; simpl; [reflexivity|assumption]. Qed.

(* slices of a word made of a 4-, a 2- and a 2-digit field *)
Lemma slice_422_1 (x y z : text) : length x = 4%nat -> slice 0 4 (x ++ y ++ z) = x.
Proof. intros H. unfold slice. change (skipn 0 (x ++ y ++ z)) with (x ++ y ++ z). apply firstn_exact. assumption. Qed.
Lemma slice_422_2 (x y z : text) : length x = 4%nat -> length y = 2%nat -> slice 4 6 (x ++ y ++ z) = y.
Proof. intros H1 H2. unfold slice. rewrite skipn_exact by assumption. apply firstn_exact. assumption. Qed.
Lemma slice_422_3 (x y z : text) : length x = 4%nat -> length y = 2%nat -> length z = 2%nat -> slice 6 8 (x ++ y ++ z) = z.
Proof. intros H1 H2 H3. unfold slice. rewrite app_assoc. rewrite skipn_exact by (rewrite app_length; lia).
  rewrite <- (app_nil_r z) at 1. apply firstn_exact. assumption. Qed.

Lemma bytes_hex_length bs : length (bytes_hex bs) = (2 * length bs)%nat.
Proof. induction bs; [reflexivity|]. unfold bytes_hex in *. cbn [flat_map]. rewrite app_length, IHbs, hex_fixed_length. simpl length. lia. Qed.
Lemma bytes_hex_is_hex bs : forallb is_hex (bytes_hex bs) = true.
Proof. induction bs as [|b t IH]; [reflexivity|]. unfold bytes_hex in *. cbn [flat_map].
  rewrite forallb_app, IH, hex_fixed_is_hexL. reflexivity. Qed.
Lemma check_hex_bytes_hex n bs : length bs = n -> check_hex n (bytes_hex bs) = true.
Proof. intros. unfold check_hex. rewrite bytes_hex_length, bytes_hex_is_hex, H, Nat.eqb_refl. reflexivity. Qed.

(* ------------------------------------------------------------------ *)
(* C20_signature                                                       *)

Lemma word_a_hex s : bytes_hex (word_a s) = hex_fixed hexdigL 8 (a_model s).
Proof. unfold word_a. apply (bytes_hex_be 4). Qed.
Lemma word_b_hex s : bytes_hex (word_b s) =
  hex_fixed hexdigL 4 (a_pos s) ++ hex_fixed hexdigL 2 (a_node s) ++ hex_fixed hexdigL 2 (a_attn s).
Proof. unfold word_b. rewrite !bytes_hex_app. rewrite (bytes_hex_be 2), !(bytes_hex_be 1). reflexivity. Qed.
Lemma word_c_hex s : bytes_hex (word_c s) =
  hex_fixed hexdigL 4 (a_id s) ++ hex_fixed hexdigL 2 (a_inst s) ++ hex_fixed hexdigL 2 (a_bit s).
Proof. unfold word_c. rewrite !bytes_hex_app. rewrite (bytes_hex_be 2), !(bytes_hex_be 1). reflexivity. Qed.

Lemma word_a_length s : length (word_a s) = 4%nat. Proof. apply be_bytes_length. Qed.
Lemma word_b_length s : length (word_b s) = 4%nat. Proof. unfold word_b. rewrite !app_length, !be_bytes_length. reflexivity. Qed.
Lemma word_c_length s : length (word_c s) = 4%nat. Proof. unfold word_c. rewrite !app_length, !be_bytes_length. reflexivity. Qed.

Lemma check_int_1 v : v < 2 ^ 8 -> check_int 1 v = true.
Proof. intros. unfold check_int. apply N.ltb_lt. exact H. Qed.
Lemma check_int_2 v : v < 2 ^ 16 -> check_int 2 v = true.
Proof. intros. unfold check_int. apply N.ltb_lt. exact H. Qed.

Lemma check_hex_fixed4 v : check_hex 4 (hex_fixed hexdigL 8 v) = true. Proof. exact (check_hex_fixed 4 v). Qed.
Lemma check_hex_fixed3 v : check_hex 3 (hex_fixed hexdigL 6 v) = true. Proof. exact (check_hex_fixed 3 v). Qed.
Lemma check_hex_fixed2 v : check_hex 2 (hex_fixed hexdigL 4 v) = true. Proof. exact (check_hex_fixed 2 v). Qed.

Lemma get_chip_desc_spec cd model node pos : node < 2 ^ 8 -> pos < 2 ^ 16 ->
  get_chip_desc cd (hex_fixed hexdigL 8 model) node pos
  = Some (chip_text (cd_type cd model) (cd_desc cd model) model node pos).
Proof.
  intros Hn Hp. unfold get_chip_desc. rewrite check_hex_fixed4, check_int_1, check_int_2 by assumption.
  cbn [andb]. rewrite lower_hex_fixedL, upper_hex_fixedL. reflexivity.
Qed.

Lemma get_sig_desc_spec cd model id inst bit : inst < 2 ^ 8 -> bit < 2 ^ 8 ->
  get_sig_desc cd (hex_fixed hexdigL 8 model) (hex_fixed hexdigL 4 id) inst bit
  = Some (sig_text (cd_signame cd model id) (cd_sigbit cd model id bit) id inst bit).
Proof.
  intros Hi Hb. unfold get_sig_desc. rewrite check_hex_fixed4, check_hex_fixed2, !check_int_1 by assumption.
  cbn [andb]. rewrite !lower_hex_fixedL, upper_hex_fixedL. reflexivity.
Qed.

Lemma get_attn_desc_spec cd model attn :
  get_attn_desc cd (hex_fixed hexdigL 8 model) attn = Some (attn_text (cd_attn cd model attn) attn).
Proof. unfold get_attn_desc. rewrite check_hex_fixed4, lower_hex_fixedL. reflexivity. Qed.

Lemma pow16_4 : 16 ^ N.of_nat 4 = 2 ^ 16. Proof. reflexivity. Qed.
Lemma pow16_2 : 16 ^ N.of_nat 2 = 2 ^ 8. Proof. reflexivity. Qed.

Theorem get_signature_words cd s : asig_wf s ->
  get_signature cd (bytes_hex (word_a s)) (bytes_hex (word_b s)) (bytes_hex (word_c s)) = Some (sig_render cd s).
Proof.
  intros (Hm & Hp & Hn & Ha & Hi & Hs & Hb).
  unfold get_signature.
  rewrite (check_hex_bytes_hex 4 (word_a s)) by apply word_a_length.
  rewrite (check_hex_bytes_hex 4 (word_b s)) by apply word_b_length.
  rewrite (check_hex_bytes_hex 4 (word_c s)) by apply word_c_length.
  cbn [andb]. rewrite word_a_hex, word_b_hex, word_c_hex.
  rewrite !slice_422_1, !slice_422_2, !slice_422_3 by apply hex_fixed_length.
  rewrite !hexnum_hex_fixedL by (rewrite ?pow16_4, ?pow16_2; assumption).
  rewrite get_chip_desc_spec, get_sig_desc_spec, get_attn_desc_spec by assumption.
  reflexivity.
Qed.

Theorem get_signature_spells cd s wa wb wc : asig_wf s ->
  spells wa (word_a s) -> spells wb (word_b s) -> spells wc (word_c s) ->
  get_signature cd wa wb wc = Some (sig_render cd s).
Proof.
  unfold spells. intros Hwf Ha Hb Hc. rewrite <- get_signature_lower. unfold lower. rewrite Ha, Hb, Hc.
  apply get_signature_words. assumption.
Qed.

(* ------------------------------------------------------------------ *)
(* reading encoded fields                                              *)

Lemma get_mem_exact n a rest : length a = n -> n <> 0%nat -> get_mem n (a ++ rest) = Some (a, rest).
Proof.
  intros H Hn. unfold get_mem. destruct n; [contradiction|].
  replace (Nat.leb (S n) (length (a ++ rest))) with true by (symmetry; apply Nat.leb_le; rewrite app_length; lia).
  rewrite firstn_exact, skipn_exact by assumption. reflexivity.
Qed.

Lemma get_int_be n v rest : n <> 0%nat -> v < 256 ^ N.of_nat n -> get_int n (be_bytes n v ++ rest) = Some (v, rest).
Proof.
  intros Hn Hv. unfold get_int, bind, ret. rewrite get_mem_exact by (try apply be_bytes_length; assumption).
  rewrite be_val_be_bytes by assumption. f_equal.
Qed.

Lemma hbind_lift {A B} (r : reader A) (k : A -> hwr B) s a s' : r s = Some (a, s') -> hbind (hlift r) k s = k a s'.
Proof. intros H. unfold hbind, hlift. rewrite H. reflexivity. Qed.
Lemma hbind_opt {A B} (o : option A) (k : A -> hwr B) s a : o = Some a -> hbind (hopt o) k s = k a s.
Proof. intros H. unfold hbind, hopt. rewrite H. reflexivity. Qed.
Lemma hbind_ok {A B} (r : hwr A) (k : A -> hwr B) s a s' : r s = ROk (a, s') -> hbind r k s = k a s'.
Proof. intros H. unfold hbind. rewrite H. reflexivity. Qed.

(* ------------------------------------------------------------------ *)
(* C20_siglist                                                         *)

Lemma read_sig_ok cd s rest : asig_wf s -> read_sig cd (encode_sig s ++ rest) = ROk (JObj (sig_render cd s), rest).
Proof.
  intros Hwf. unfold read_sig, encode_sig. rewrite <- !app_assoc.
  rewrite (hbind_lift _ _ _ _ _ (get_mem_exact 4 (word_a s) _ (word_a_length s) ltac:(discriminate))).
  rewrite (hbind_lift _ _ _ _ _ (get_mem_exact 4 (word_b s) _ (word_b_length s) ltac:(discriminate))).
  rewrite (hbind_lift _ _ _ _ _ (get_mem_exact 4 (word_c s) _ (word_c_length s) ltac:(discriminate))).
  rewrite (hbind_opt _ _ _ _ (get_signature_words cd s Hwf)). reflexivity.
Qed.

Lemma of_nat_S_eqb n : (N.of_nat (S n) =? 0) = false.
Proof. apply N.eqb_neq. lia. Qed.
Lemma of_nat_S_pred n : N.of_nat (S n) - 1 = N.of_nat n.
Proof. lia. Qed.

Lemma sig_loop_ok cd : forall l fuel rest, Forall asig_wf l -> (length l <= fuel)%nat ->
  sig_loop cd fuel (N.of_nat (length l)) (flat_map encode_sig l ++ rest)
  = ROk (map (fun s => JObj (sig_render cd s)) l, rest).
Proof.
  induction l as [|s t IH]; intros fuel rest Hwf Hf.
  - destruct fuel; reflexivity.
  - destruct fuel as [|f]; [simpl in Hf; lia|].
    inversion Hwf; subst. cbn [length flat_map sig_loop]. rewrite of_nat_S_eqb, of_nat_S_pred.
    rewrite <- app_assoc. rewrite (hbind_ok _ _ _ _ _ (read_sig_ok cd s _ H1)).
    rewrite (hbind_ok _ _ _ _ _ (IH f rest H2 ltac:(simpl in Hf; lia))). reflexivity.
Qed.

Lemma flat_map_length_ge {A B} (f : A -> list B) (l : list A) :
  (forall a, 1 <= length (f a))%nat -> (length l <= length (flat_map f l))%nat.
Proof. intros H. induction l; simpl; [lia|]. rewrite app_length. specialize (H a). lia. Qed.

Lemma encode_sig_length s : length (encode_sig s) = 12%nat.
Proof. unfold encode_sig. rewrite !app_length, word_a_length, word_b_length, word_c_length. reflexivity. Qed.

Theorem siglist_ok cd l rest version : Forall asig_wf l -> N.of_nat (length l) < 2 ^ 32 ->
  oe500_ud cd 1 version (encode_siglist l ++ rest) = HwOk (siglist_render cd l).
Proof.
  intros Hwf Hn. unfold oe500_ud. cbn [N.eqb Pos.eqb]. unfold parse_signature_list, encode_siglist.
  rewrite <- app_assoc.
  rewrite (hbind_lift _ _ _ _ _ (get_int_be 4 _ _ ltac:(discriminate) Hn)).
  assert (Hlen : (length l <= S (length (be_bytes 4 (N.of_nat (length l)) ++ flat_map encode_sig l ++ rest)))%nat).
  { rewrite !app_length. pose proof (flat_map_length_ge encode_sig l) as G.
    assert (length l <= length (flat_map encode_sig l))%nat by (apply G; intros; rewrite encode_sig_length; lia). lia. }
  rewrite (hbind_ok _ _ _ _ _ (sig_loop_ok cd l _ rest Hwf Hlen)). reflexivity.
Qed.

(* ------------------------------------------------------------------ *)
(* register dump: the data column                                      *)

Lemma list_pair_ind {A} (P : list A -> Prop) :
  P [] -> (forall a, P [a]) -> (forall a b t, P t -> P (a :: b :: t)) -> forall l, P l.
Proof.
  intros H0 H1 H2. assert (G : forall l, P l /\ forall a, P (a :: l)).
  { induction l as [|x l [IHa IHb]]; split; auto. }
  intros l. apply G.
Qed.

Lemma upper_sp : upper (L " ") = L " ". Proof. reflexivity. Qed.
Lemma upper_app a b : upper (a ++ b) = upper a ++ upper b. Proof. apply map_app. Qed.

Lemma upper_join_sp l : upper (join (L " ") l) = join (L " ") (map upper l).
Proof.
  induction l as [|x t IH]; [reflexivity|]. destruct t as [|y t']; [reflexivity|].
  change (join (L " ") (x :: y :: t')) with (x ++ L " " ++ join (L " ") (y :: t')).
  change (map upper (x :: y :: t')) with (upper x :: upper y :: map upper t').
  change (join (L " ") (upper x :: upper y :: map upper t')) with (upper x ++ L " " ++ join (L " ") (map upper (y :: t'))).
  rewrite !upper_app, IH. reflexivity.
Qed.

Lemma chunk_fuel_nil f n : chunk_fuel f n [] = []. Proof. destruct f; reflexivity. Qed.

Lemma data_chunks : forall d fuel, (2 * length d <= fuel)%nat ->
  map upper (chunk_fuel fuel 4 (bytes_hex d)) = data_groups d.
Proof.
  intros d. pattern d. apply list_pair_ind; clear d.
  - intros fuel _. change (bytes_hex []) with (@nil N). rewrite chunk_fuel_nil. reflexivity.
  - intros b fuel H. destruct fuel as [|f]; [simpl in H; lia|].
    change (bytes_hex [b]) with [hexdigL (b / 16 mod 16); hexdigL (b mod 16)].
    cbn [chunk_fuel firstn skipn map]. rewrite chunk_fuel_nil. unfold upper. cbn [map].
    rewrite !upper_c_hexdigL by (apply N.mod_lt; lia). reflexivity.
  - intros b1 b2 t IH fuel H. destruct fuel as [|f]; [simpl in H; lia|].
    change (bytes_hex (b1 :: b2 :: t)) with
      (hexdigL (b1 / 16 mod 16) :: hexdigL (b1 mod 16) :: hexdigL (b2 / 16 mod 16) :: hexdigL (b2 mod 16) :: bytes_hex t).
    cbn [chunk_fuel firstn skipn map]. rewrite IH by (simpl in H; lia). unfold upper. cbn [map].
    rewrite !upper_c_hexdigL by (apply N.mod_lt; lia). reflexivity.
Qed.

Lemma data_text_groups d : data_text d = join (L " ") (data_groups d).
Proof. unfold data_text, chunk. rewrite upper_join_sp, data_chunks; [reflexivity|]. rewrite bytes_hex_length. lia. Qed.

(* ------------------------------------------------------------------ *)
(* C20_regdump                                                         *)

Lemma get_reg_data_spec cd model r : r_inst r < 2 ^ 8 -> reg_addr_ok cd model r ->
  get_reg_data cd (hex_fixed hexdigL 8 model) (hex_fixed hexdigL 6 (r_id r)) (r_inst r)
  = Some (odflt (cd_regname cd model (r_id r)) (L "id:" ++ hex_fixed hexdigU 6 (r_id r) ++ L " inst:" ++ dec (r_inst r)),
          addr_fmt (reg_addr cd model r)).
Proof.
  intros Hi Hok. unfold get_reg_data. rewrite check_hex_fixed4, check_hex_fixed3, check_int_1 by assumption.
  cbn [andb]. rewrite !lower_hex_fixedL, upper_hex_fixedL.
  unfold reg_addr_ok, reg_addr, cd_regaddr, cd_regname, cd_reg, find_chip, chip_key in *.
  destruct (obind (obind (assoc cd (hex_fixed hexdigL 8 model))
                         (fun c => assoc (c_regs c) (hex_fixed hexdigL 6 (r_id r))))
                  (fun e => assoc (rg_addrs e) (dec (r_inst r)))) as [a|]; [|reflexivity].
  destruct (parse_addr a); [reflexivity|contradiction].
Qed.

Lemma reg_line_text name v d :
  reg_line_fmt name (addr_fmt v) d = L "  " ++ pad25 name ++ L " (0x" ++ hexU 8 v ++ L ") " ++ join (L " ") (data_groups d).
Proof.
  unfold reg_line_fmt, addr_fmt, pad25, ljust. rewrite data_text_groups. rewrite <- !app_assoc. reflexivity.
Qed.

Lemma get_memN_exact (a rest : bytes) : a <> [] -> get_memN (N.of_nat (length a)) (a ++ rest) = Some (a, rest).
Proof. intros H. unfold get_memN. rewrite Nat2N.id. apply get_mem_exact; [reflexivity|]. destruct a; [contradiction|discriminate]. Qed.

Lemma read_reg_ok cd model r rest : areg_wf r -> reg_addr_ok cd model r ->
  read_reg cd (hex_fixed hexdigL 8 model) (encode_reg r ++ rest) = ROk (reg_render cd model r, rest).
Proof.
  intros (Hid & Hinst & Hlen & Hb) Hok. unfold read_reg, encode_reg. rewrite <- !app_assoc.
  rewrite (hbind_lift _ _ _ _ _ (get_mem_exact 3 (be_bytes 3 (r_id r)) _ (be_bytes_length 3 _) ltac:(discriminate))).
  rewrite (hbind_lift _ _ _ _ _ (get_int_be 1 (r_inst r) _ ltac:(discriminate) Hinst)).
  assert (Hl : N.of_nat (length (r_data r)) < 256 ^ N.of_nat 1) by (change (256 ^ N.of_nat 1) with 256; lia).
  rewrite (hbind_lift _ _ _ _ _ (get_int_be 1 _ _ ltac:(discriminate) Hl)).
  assert (Hne : r_data r <> []) by (destruct (r_data r); [simpl in Hlen; lia|discriminate]).
  rewrite (hbind_lift _ _ _ _ _ (get_memN_exact (r_data r) rest Hne)).
  rewrite (bytes_hex_be 3).
  rewrite (hbind_opt _ _ _ _ (get_reg_data_spec cd model r Hinst Hok)).
  unfold hret. cbn [fst snd]. rewrite reg_line_text. reflexivity.
Qed.

Lemma reg_loop_ok cd model : forall l fuel rest, Forall areg_wf l -> Forall (reg_addr_ok cd model) l ->
  (length l <= fuel)%nat ->
  reg_loop cd (hex_fixed hexdigL 8 model) fuel (N.of_nat (length l)) (flat_map encode_reg l ++ rest)
  = ROk (map (reg_render cd model) l, rest).
Proof.
  induction l as [|r t IH]; intros fuel rest Hwf Hok Hf.
  - destruct fuel; reflexivity.
  - destruct fuel as [|f]; [simpl in Hf; lia|].
    inversion Hwf; subst. inversion Hok; subst. cbn [length flat_map reg_loop]. rewrite of_nat_S_eqb, of_nat_S_pred.
    rewrite <- app_assoc. rewrite (hbind_ok _ _ _ _ _ (read_reg_ok cd model r _ H1 H3)).
    rewrite (hbind_ok _ _ _ _ _ (IH f rest H2 H4 ltac:(simpl in Hf; lia))). reflexivity.
Qed.

Lemma encode_reg_length r : (1 <= length (encode_reg r))%nat.
Proof. unfold encode_reg. rewrite !app_length, !be_bytes_length. lia. Qed.
Lemma encode_chip_length h : (1 + length (h_regs h) <= length (encode_chip h))%nat.
Proof. unfold encode_chip. rewrite !app_length, !be_bytes_length.
  pose proof (flat_map_length_ge encode_reg (h_regs h) encode_reg_length). lia. Qed.

Lemma chip_loop_ok cd f0 : forall l fuel rest, Forall achip_wf l ->
  Forall (fun h => Forall (reg_addr_ok cd (h_model h)) (h_regs h)) l ->
  Forall (fun h => (length (h_regs h) <= f0)%nat) l -> (length l <= fuel)%nat ->
  chip_loop cd f0 fuel (N.of_nat (length l)) (flat_map encode_chip l ++ rest)
  = ROk (flat_map (chip_render cd) l, rest).
Proof.
  induction l as [|h t IH]; intros fuel rest Hwf Hok Hf0 Hf.
  - destruct fuel; reflexivity.
  - destruct fuel as [|f]; [simpl in Hf; lia|].
    inversion Hwf as [|? ? (Hm & Hp & Hn & Hc & Hr) Hwt]; subst.
    inversion Hok; subst. inversion Hf0; subst.
    cbn [length flat_map chip_loop]. rewrite of_nat_S_eqb, of_nat_S_pred.
    unfold encode_chip at 1. rewrite <- !app_assoc.
    rewrite (hbind_lift _ _ _ _ _ (get_mem_exact 4 (be_bytes 4 (h_model h)) _ (be_bytes_length 4 _) ltac:(discriminate))).
    rewrite (hbind_lift _ _ _ _ _ (get_int_be 2 (h_pos h) _ ltac:(discriminate) Hp)).
    rewrite (hbind_lift _ _ _ _ _ (get_int_be 1 (h_node h) _ ltac:(discriminate) Hn)).
    rewrite (hbind_lift _ _ _ _ _ (get_int_be 4 _ _ ltac:(discriminate) Hc)).
    rewrite (bytes_hex_be 4).
    rewrite (hbind_opt _ _ _ _ (get_chip_desc_spec cd (h_model h) (h_node h) (h_pos h) Hn Hp)).
    rewrite (hbind_ok _ _ _ _ _ (reg_loop_ok cd (h_model h) (h_regs h) f0 _ Hr H1 H3)).
    rewrite (hbind_ok _ _ _ _ _ (IH f rest Hwt H2 H4 ltac:(simpl in Hf; lia))). reflexivity.
Qed.

Lemma flat_map_length_in {A B} (f : A -> list B) (l : list A) a : In a l -> (length (f a) <= length (flat_map f l))%nat.
Proof. induction l; simpl; [contradiction|]. intros [->|H]; rewrite app_length; [lia|]. specialize (IHl H). lia. Qed.

Theorem regdump_ok cd l rest version : regdump_wf l -> regdump_addrs_ok cd l ->
  oe500_ud cd 2 version (encode_regdump l ++ rest) = HwOk (regdump_render cd l).
Proof.
  intros (Hn & Hwf) Hok. unfold oe500_ud. cbn [N.eqb Pos.eqb]. unfold parse_register_dump, encode_regdump.
  rewrite <- app_assoc.
  rewrite (hbind_lift _ _ _ _ _ (get_int_be 4 _ _ ltac:(discriminate) Hn)).
  set (data := be_bytes 4 (N.of_nat (length l)) ++ flat_map encode_chip l ++ rest).
  assert (Hd : (length (flat_map encode_chip l) <= length data)%nat) by (unfold data; rewrite !app_length; lia).
  assert (Hf0 : Forall (fun h => (length (h_regs h) <= S (length data))%nat) l).
  { apply Forall_forall. intros h Hin. pose proof (flat_map_length_in encode_chip l h Hin).
    pose proof (encode_chip_length h). lia. }
  assert (Hf : (length l <= S (length data))%nat).
  { pose proof (flat_map_length_ge encode_chip l) as G.
    assert (length l <= length (flat_map encode_chip l))%nat by (apply G; intros a; pose proof (encode_chip_length a); lia). lia. }
  rewrite (hbind_ok _ _ _ _ _ (chip_loop_ok cd _ l _ rest Hwf Hok Hf0 Hf)). reflexivity.
Qed.

(* "exactly its data bytes": the data column reads back as the bytes *)
Definition nonsp (c : N) : bool := negb (c =? 32).

Lemma filter_join_cons x l : filter nonsp (join (L " ") (x :: l)) = filter nonsp x ++ filter nonsp (join (L " ") l).
Proof.
  destruct l as [|y t]; [simpl; rewrite app_nil_r; reflexivity|].
  change (join (L " ") (x :: y :: t)) with (x ++ L " " ++ join (L " ") (y :: t)).
  rewrite !filter_app. reflexivity.
Qed.

Lemma hexdigU_nonsp n : n < 16 -> nonsp (hexdigU n) = true.
Proof. intros. unfold nonsp, hexdigU. destruct (N.ltb_spec n 10); apply negb_true_iff, N.eqb_neq; lia. Qed.

Lemma filter_hexU2 b : filter nonsp (hex_fixed hexdigU 2 b) = hex_fixed hexdigU 2 b.
Proof. rewrite hex_fixed_2. cbn [filter]. rewrite !hexdigU_nonsp by (apply N.mod_lt; lia). reflexivity. Qed.

Lemma filter_data_groups d :
  filter nonsp (join (L " ") (data_groups d)) = flat_map (hex_fixed hexdigU 2) d.
Proof.
  pattern d. apply list_pair_ind; clear d.
  - reflexivity.
  - intros b. cbn [data_groups join flat_map]. rewrite app_nil_r. apply filter_hexU2.
  - intros b1 b2 t IH. cbn [data_groups flat_map]. rewrite filter_join_cons, IH, filter_app, !filter_hexU2.
    rewrite <- app_assoc. reflexivity.
Qed.

Lemma unhex_hexU d : Forall (fun b => b < 256) d -> unhex (flat_map (hex_fixed hexdigU 2) d) = d.
Proof.
  induction 1 as [|b t Hb Ht IH]; [reflexivity|].
  cbn [flat_map]. rewrite hex_fixed_2. cbn [app unhex]. rewrite IH.
  rewrite !hexval_hexdigU by (apply N.mod_lt; lia). f_equal. lia.
Qed.

Theorem data_back_ok d : Forall (fun b => b < 256) d -> data_back (join (L " ") (data_groups d)) = d.
Proof. intros. unfold data_back. change (fun c : N => negb (c =? 32)) with nonsp. rewrite (filter_data_groups d). apply unhex_hexU. assumption. Qed.

(* ------------------------------------------------------------------ *)
(* C20_scratch                                                         *)

Lemma text_eqb_length a : forall b, text_eqb a b = true -> length a = length b.
Proof. induction a; destruct b; simpl; intros H; try discriminate; [reflexivity|].
  apply andb_true_iff in H. f_equal. apply IHa. apply H. Qed.

Lemma x0_be n v : x0 (be_bytes n v) = hxt n v.
Proof. unfold x0, hxt. rewrite bytes_hex_be. reflexivity. Qed.

Theorem scratch_ok cd version ca cv sa sv rest :
  oe500_ud cd 4 version (encode_scratch ca cv sa sv ++ rest) = HwOk (scratch_render ca cv sa sv).
Proof.
  unfold oe500_ud. cbn [N.eqb Pos.eqb]. unfold parse_hb_scratch_regs, encode_scratch. rewrite <- !app_assoc.
  rewrite (hbind_lift _ _ _ _ _ (get_mem_exact 4 (be_bytes 4 ca) _ (be_bytes_length 4 _) ltac:(discriminate))).
  rewrite (hbind_lift _ _ _ _ _ (get_mem_exact 4 (be_bytes 4 cv) _ (be_bytes_length 4 _) ltac:(discriminate))).
  rewrite (hbind_lift _ _ _ _ _ (get_mem_exact 8 (be_bytes 8 sa) _ (be_bytes_length 8 _) ltac:(discriminate))).
  rewrite (hbind_lift _ _ _ _ _ (get_mem_exact 8 (be_bytes 8 sv) _ (be_bytes_length 8 _) ltac:(discriminate))).
  unfold hret, finish, scratch_render, hx. rewrite !x0_be. cbn [obj_set].
  destruct (text_eqb (hxt 8 sa) (hxt 4 ca)) eqn:E; [|reflexivity].
  apply text_eqb_length in E. unfold hxt in E. rewrite !app_length, !hex_fixed_length in E. simpl in E. lia.
Qed.

Theorem scratch_sig_ok cd version chipid sigid rest :
  oe500_ud cd 5 version (encode_scratch_sig chipid sigid ++ rest) = HwOk (scratch_sig_render chipid sigid).
Proof.
  unfold oe500_ud. cbn [N.eqb Pos.eqb]. unfold parse_scratch_reg_sig, encode_scratch_sig. rewrite <- !app_assoc.
  rewrite (hbind_lift _ _ _ _ _ (get_mem_exact 4 (be_bytes 4 chipid) _ (be_bytes_length 4 _) ltac:(discriminate))).
  rewrite (hbind_lift _ _ _ _ _ (get_mem_exact 4 (be_bytes 4 sigid) _ (be_bytes_length 4 _) ltac:(discriminate))).
  unfold hret, finish, scratch_sig_render, hx. rewrite !x0_be. reflexivity.
Qed.

(* the digits shown determine the value (widths as stated: n hex digits for a value below 16^n) *)
Theorem hex_shown_faithful n v : v < 16 ^ N.of_nat n -> hexnum (hex_fixed hexdigL n v) = v.
Proof. apply hexnum_hex_fixedL. Qed.

Theorem other_subtype_null cd sub version data : 6 <= sub \/ sub = 0 -> oe500_ud cd sub version data = HwOk JNull.
Proof.
  intros H. unfold oe500_ud.
  destruct (N.eqb_spec sub 1); [lia|]. destruct (N.eqb_spec sub 2); [lia|]. destruct (N.eqb_spec sub 3); [lia|].
  destruct (N.eqb_spec sub 4); [lia|]. destruct (N.eqb_spec sub 5); [lia|]. reflexivity.
Qed.

(* ------------------------------------------------------------------ *)
(* C20_src                                                             *)

Theorem src_ok cd refcode s w2 w3 w4 w5 w6 w7 w8 w9 : asig_wf s ->
  spells w6 (word_a s) -> spells w7 (word_b s) -> spells w8 (word_c s) ->
  oe500_src cd refcode [w2; w3; w4; w5; w6; w7; w8; w9] = HwOk (src_render cd refcode s).
Proof.
  intros Hwf Ha Hb Hc. unfold oe500_src. rewrite (get_signature_spells cd s w6 w7 w8 Hwf Ha Hb Hc). reflexivity.
Qed.

Theorem src_argcount cd refcode ws : length ws <> 8%nat -> oe500_src cd refcode ws = HwRaise.
Proof.
  intros H. unfold oe500_src.
  do 8 (destruct ws as [|? ws]; [reflexivity|]). destruct ws; [simpl in H; lia|reflexivity].
Qed.

(* ------------------------------------------------------------------ *)
(* every 12 bytes are the encoding of exactly one well-formed signature *)

Lemma be2 a b : a < 256 -> b < 256 -> be_bytes 2 (a * 256 + b) = [a; b].
Proof. intros. cbn [be_bytes app]. f_equal; [|f_equal]; lia. Qed.
Lemma be1 a : a < 256 -> be_bytes 1 a = [a].
Proof. intros. cbn [be_bytes app]. f_equal. apply N.mod_small. assumption. Qed.
Lemma be4 a b c d : a < 256 -> b < 256 -> c < 256 -> d < 256 ->
  be_bytes 4 (((a * 256 + b) * 256 + c) * 256 + d) = [a; b; c; d].
Proof. intros. cbn [be_bytes app]. repeat (f_equal; try lia). Qed.

Theorem encode_sig_onto bs : length bs = 12%nat -> Forall (fun b => b < 256) bs ->
  exists s, asig_wf s /\ encode_sig s = bs.
Proof.
  intros Hl Hb.
  do 12 (destruct bs as [|? bs]; [discriminate|]). destruct bs; [|discriminate].
  repeat match goal with H : Forall _ (_ :: _) |- _ => inversion H; clear H; subst end.
  exists {| a_model := ((n * 256 + n0) * 256 + n1) * 256 + n2; a_pos := n3 * 256 + n4; a_node := n5; a_attn := n6;
            a_id := n7 * 256 + n8; a_inst := n9; a_bit := n10 |}.
  split.
  - unfold asig_wf. cbn [a_model a_pos a_node a_attn a_id a_inst a_bit].
    change (2 ^ 32) with 4294967296. change (2 ^ 16) with 65536. change (2 ^ 8) with 256. lia.
  - unfold encode_sig, word_a, word_b, word_c. cbn [a_model a_pos a_node a_attn a_id a_inst a_bit].
    rewrite be4, !be2, !be1 by assumption. reflexivity.
Qed.


(* ------------------------------------------------------------------ *)
(* progress: with the fuel the entry points supply, no loop runs out   *)

Definition safe {A} (r : hwr A) : Prop :=
  forall s, match r s with ROk (_, s') => (length s' <= length s)%nat | RRaise => True | RFuel => False end.
Definition shrinks {A} (r : hwr A) : Prop :=
  forall s, match r s with ROk (_, s') => (length s' < length s)%nat | RRaise => True | RFuel => False end.

Lemma shrinks_safe {A} (r : hwr A) : shrinks r -> safe r.
Proof. intros H s. specialize (H s). destruct (r s) as [[a s']| |]; auto. lia. Qed.
Lemma safe_ret {A} (a : A) : safe (hret a).
Proof. intros s. simpl. lia. Qed.
Lemma safe_opt {A} (o : option A) : safe (hopt o).
Proof. intros s. unfold hopt. destruct o; simpl; auto. Qed.
Lemma shrinks_get_mem n : shrinks (hlift (get_mem n)).
Proof.
  intros s. unfold hlift, get_mem. destruct n; [exact I|].
  destruct (Nat.leb (S n) (length s)) eqn:E; [|exact I]. apply Nat.leb_le in E. rewrite skipn_length. lia.
Qed.
Lemma shrinks_get_int n : shrinks (hlift (get_int n)).
Proof.
  intros s. pose proof (shrinks_get_mem n s) as H. unfold hlift, get_int, bind, ret in *.
  destruct (get_mem n s) as [[b s']|]; auto.
Qed.
Lemma shrinks_get_memN n : shrinks (hlift (get_memN n)).
Proof. apply shrinks_get_mem. Qed.
Lemma shrinks_bind {A B} (r : hwr A) (k : A -> hwr B) : shrinks r -> (forall a, safe (k a)) -> shrinks (hbind r k).
Proof.
  intros Hr Hk s. unfold hbind. specialize (Hr s). destruct (r s) as [[a s']| |]; auto.
  specialize (Hk a s'). destruct (k a s') as [[b s'']| |]; auto. lia.
Qed.
Lemma safe_bind {A B} (r : hwr A) (k : A -> hwr B) : safe r -> (forall a, safe (k a)) -> safe (hbind r k).
Proof.
  intros Hr Hk s. unfold hbind. specialize (Hr s). destruct (r s) as [[a s']| |]; auto.
  specialize (Hk a s'). destruct (k a s') as [[b s'']| |]; auto. lia.
Qed.

Ltac safety :=
  repeat first [ apply shrinks_bind; [first [apply shrinks_get_mem | apply shrinks_get_int | apply shrinks_get_memN]|intros]
               | apply safe_bind; [first [apply safe_opt | apply shrinks_safe; first [apply shrinks_get_mem | apply shrinks_get_int | apply shrinks_get_memN]]|intros]
               | apply safe_ret | apply safe_opt ].

Lemma shrinks_read_sig cd : shrinks (read_sig cd).
Proof. unfold read_sig. safety. Qed.
Lemma shrinks_read_reg cd m : shrinks (read_reg cd m).
Proof. unfold read_reg. safety. Qed.

(* a loop whose body shrinks the input is safe once fuel exceeds the remaining length *)
Lemma sig_loop_safe cd : forall fuel count s, (length s < fuel)%nat ->
  match sig_loop cd fuel count s with ROk (_, s') => (length s' <= length s)%nat | RRaise => True | RFuel => False end.
Proof.
  induction fuel as [|f IH]; intros count s Hf; [lia|].
  cbn [sig_loop]. destruct (count =? 0); [simpl; lia|].
  unfold hbind at 1. pose proof (shrinks_read_sig cd s) as H. destruct (read_sig cd s) as [[j s']| |]; auto.
  unfold hbind. specialize (IH (count - 1) s' ltac:(lia)).
  destruct (sig_loop cd f (count - 1) s') as [[t s'']| |]; auto. simpl. lia.
Qed.

Lemma reg_loop_safe cd m : forall fuel count s, (length s < fuel)%nat ->
  match reg_loop cd m fuel count s with ROk (_, s') => (length s' <= length s)%nat | RRaise => True | RFuel => False end.
Proof.
  induction fuel as [|f IH]; intros count s Hf; [lia|].
  cbn [reg_loop]. destruct (count =? 0); [simpl; lia|].
  unfold hbind at 1. pose proof (shrinks_read_reg cd m s) as H. destruct (read_reg cd m s) as [[j s']| |]; auto.
  unfold hbind. specialize (IH (count - 1) s' ltac:(lia)).
  destruct (reg_loop cd m f (count - 1) s') as [[t s'']| |]; auto. simpl. lia.
Qed.

Definition chip_head cd : hwr (text * text * N) :=
  m <~ hlift (get_mem 4) ;; pos <~ hlift (get_int 2) ;; node <~ hlift (get_int 1) ;; nregs <~ hlift (get_int 4) ;;
  desc <~ hopt (get_chip_desc cd (bytes_hex m) node pos) ;; hret (bytes_hex m, desc, nregs).
Lemma shrinks_chip_head cd : shrinks (chip_head cd).
Proof. unfold chip_head. safety. Qed.

Lemma chip_loop_step cd f0 f count s : (count =? 0) = false ->
  chip_loop cd f0 (S f) count s =
  (x <~ chip_head cd ;; regs <~ reg_loop cd (fst (fst x)) f0 (snd x) ;; rest <~ chip_loop cd f0 f (count - 1) ;;
   hret (chip_line_fmt (snd (fst x)) :: regs ++ rest)) s.
Proof.
  intros E. cbn [chip_loop]. rewrite E. unfold chip_head, hbind, hlift, hopt, hret.
  destruct (get_mem 4 s) as [[m s1]|]; [|reflexivity].
  destruct (get_int 2 s1) as [[pos s2]|]; [|reflexivity].
  destruct (get_int 1 s2) as [[node s3]|]; [|reflexivity].
  destruct (get_int 4 s3) as [[nregs s4]|]; [|reflexivity].
  destruct (get_chip_desc cd (bytes_hex m) node pos); reflexivity.
Qed.

Lemma chip_loop_safe cd f0 : forall fuel count s, (length s < f0)%nat -> (length s < fuel)%nat ->
  match chip_loop cd f0 fuel count s with ROk (_, s') => (length s' <= length s)%nat | RRaise => True | RFuel => False end.
Proof.
  induction fuel as [|f IH]; intros count s Hf0 Hf; [lia|].
  destruct (count =? 0) eqn:E; [cbn [chip_loop]; rewrite E; simpl; lia|].
  rewrite chip_loop_step by assumption.
  unfold hbind at 1. pose proof (shrinks_chip_head cd s) as H. destruct (chip_head cd s) as [[x s1]| |]; auto.
  unfold hbind at 1. pose proof (reg_loop_safe cd (fst (fst x)) f0 (snd x) s1 ltac:(lia)) as H2.
  destruct (reg_loop cd (fst (fst x)) f0 (snd x) s1) as [[regs s2]| |]; auto.
  unfold hbind. specialize (IH (count - 1) s2 ltac:(lia) ltac:(lia)).
  destruct (chip_loop cd f0 f (count - 1) s2) as [[t s3]| |]; auto. simpl. lia.
Qed.

Theorem oe500_ud_no_fuel cd sub version data : oe500_ud cd sub version data <> HwFuel.
Proof.
  unfold oe500_ud.
  destruct (sub =? 1).
  { unfold parse_signature_list, hbind at 1. pose proof (shrinks_get_int 4 data) as H.
    destruct (hlift (get_int 4) data) as [[n s]| |]; try discriminate; [|contradiction].
    unfold hbind. pose proof (sig_loop_safe cd (S (length data)) n s ltac:(lia)) as H2.
    destruct (sig_loop cd (S (length data)) n s) as [[l s']| |]; try discriminate. contradiction. }
  destruct (sub =? 2).
  { unfold parse_register_dump, hbind at 1. pose proof (shrinks_get_int 4 data) as H.
    destruct (hlift (get_int 4) data) as [[n s]| |]; try discriminate; [|contradiction].
    unfold hbind. pose proof (chip_loop_safe cd (S (length data)) (S (length data)) n s ltac:(lia) ltac:(lia)) as H2.
    destruct (chip_loop cd (S (length data)) (S (length data)) n s) as [[l s']| |]; try discriminate. contradiction. }
  destruct (sub =? 3).
  { unfold parse_callout_ffdc, ffdc_of_text. destruct (utf8_decode (rstrip_nul data)) as [s0|]; [destruct (JsonLoads.loads s0)|]; discriminate. }
  destruct (sub =? 4).
  { unfold parse_hb_scratch_regs.
    assert (S0 : safe (ca <~ hlift (get_mem 4);; cv <~ hlift (get_mem 4);; sa <~ hlift (get_mem 8);; sv <~ hlift (get_mem 8);;
       hret (JObj [(L "Hostboot Scratch Registers",
                    JObj (obj_set (obj_set [] (x0 ca) (JStr (x0 cv))) (x0 sa) (JStr (x0 sv))))]))) by safety.
    specialize (S0 data). match type of S0 with match ?x with _ => _ end => destruct x as [[j s']| |] end; try discriminate. contradiction. }
  destruct (sub =? 5).
  { unfold parse_scratch_reg_sig.
    assert (S0 : safe (c <~ hlift (get_mem 4);; s <~ hlift (get_mem 4);;
       hret (JObj [(L "Scratch Register Error Signature",
                    JObj [(L "Chip ID", JStr (x0 c)); (L "Signature ID", JStr (x0 s))])]))) by safety.
    specialize (S0 data). match type of S0 with match ?x with _ => _ end => destruct x as [[j s']| |] end; try discriminate. contradiction. }
  discriminate.
Qed.

(* ------------------------------------------------------------------ *)
(* C20_ffdc                                                            *)

Theorem ffdc_ok cd version t b k : utf8_encode t = Some b -> ends_nul t = false ->
  oe500_ud cd 3 version (b ++ repeat 0 k) = ffdc_render t.
Proof.
  intros He Hn. unfold oe500_ud. cbn [N.eqb Pos.eqb]. unfold parse_callout_ffdc.
  rewrite rstrip_nul_padding by (rewrite (utf8_encode_ends_nul t b He); assumption).
  rewrite (utf8_roundtrip t b He). reflexivity.
Qed.

Theorem ffdc_not_utf8 cd version data : utf8_decode (rstrip_nul data) = None -> oe500_ud cd 3 version data = HwRaise.
Proof. intros H. unfold oe500_ud. cbn [N.eqb Pos.eqb]. unfold parse_callout_ffdc. rewrite H. reflexivity. Qed.

(* ------------------------------------------------------------------ *)
(* C20_fallback                                                        *)

Lemma sig_render_absent cd s : find_chip cd (a_model s) = None -> sig_render cd s = sig_render_raw s.
Proof.
  intros H. unfold sig_render, sig_render_raw, cd_type, cd_desc, cd_signame, cd_sigbit, cd_sig, cd_attn. rewrite H. reflexivity.
Qed.

Lemma sig_render_nodata s : sig_render [] s = sig_render_raw s.
Proof. apply sig_render_absent. reflexivity. Qed.

Lemma assoc_in {V} (l : list (text * V)) k v : assoc l k = Some v -> exists k', In (k', v) l.
Proof.
  induction l as [|[k' v'] t IH]; simpl; [discriminate|].
  destruct (text_eqb k k'); [intros [= ->]; exists k'; left; reflexivity|].
  intros H. destruct (IH H) as [k'' Hin]. exists k''. right. assumption.
Qed.

Lemma addrs_wf_reg_ok cd model r : cd_addrs_wf cd -> reg_addr_ok cd model r.
Proof.
  intros Hwf. unfold reg_addr_ok, cd_regaddr, cd_reg, find_chip.
  destruct (assoc cd (chip_key model)) as [c|] eqn:Ec; [|exact I]. cbn [obind].
  destruct (assoc (c_regs c) (hex_fixed hexdigL 6 (r_id r))) as [e|] eqn:Ee; [|exact I]. cbn [obind].
  destruct (assoc (rg_addrs e) (dec (r_inst r))) as [a|] eqn:Ea; [|exact I].
  apply assoc_in in Ec, Ee, Ea. destruct Ec as [k1 H1]. destruct Ee as [k2 H2]. destruct Ea as [k3 H3].
  unfold cd_addrs_wf in Hwf. rewrite Forall_forall in Hwf. specialize (Hwf _ H1). cbn [snd] in Hwf.
  rewrite Forall_forall in Hwf. specialize (Hwf _ H2). cbn [snd] in Hwf.
  rewrite Forall_forall in Hwf. specialize (Hwf _ H3). exact Hwf.
Qed.

Lemma addrs_wf_ok cd l : cd_addrs_wf cd -> regdump_addrs_ok cd l.
Proof.
  intros Hwf. unfold regdump_addrs_ok. apply Forall_forall. intros h _. apply Forall_forall. intros r _.
  apply addrs_wf_reg_ok. assumption.
Qed.

Lemma nodata_addrs_wf : cd_addrs_wf []. Proof. constructor. Qed.

(* what a register line falls back to when the file has no name / no address for it *)
Lemma reg_render_absent cd model r : find_chip cd model = None ->
  reg_render cd model r = reg_text None 0 r.
Proof. intros H. unfold reg_render, reg_addr, cd_regname, cd_regaddr, cd_reg. rewrite H. reflexivity. Qed.

Theorem signature_fallback cd s wa wb wc : asig_wf s ->
  spells wa (word_a s) -> spells wb (word_b s) -> spells wc (word_c s) ->
  (exists c g a, get_signature cd wa wb wc = Some (sig_fields c g a)) /\
  (find_chip cd (a_model s) = None -> get_signature cd wa wb wc = Some (sig_render_raw s)) /\
  get_signature cd wa wb wc = Some (sig_fields
    (chip_text (cd_type cd (a_model s)) (cd_desc cd (a_model s)) (a_model s) (a_node s) (a_pos s))
    (sig_text (cd_signame cd (a_model s) (a_id s)) (cd_sigbit cd (a_model s) (a_id s) (a_bit s)) (a_id s) (a_inst s) (a_bit s))
    (attn_text (cd_attn cd (a_model s) (a_attn s)) (a_attn s))).
Proof.
  intros Hwf Ha Hb Hc. pose proof (get_signature_spells cd s wa wb wc Hwf Ha Hb Hc) as H.
  split; [|split].
  - eexists _, _, _. exact H.
  - intros Hn. rewrite H, sig_render_absent by assumption. reflexivity.
  - exact H.
Qed.

(* ------------------------------------------------------------------ *)
(* truncated payloads are rejected (an exception escapes), never rendered *)

Lemma get_mem_short n s : (length s < n)%nat -> get_mem n s = None.
Proof. intros H. unfold get_mem. destruct n; [reflexivity|]. replace (Nat.leb (S n) (length s)) with false; [reflexivity|].
  symmetry. apply Nat.leb_gt. assumption. Qed.
Lemma get_mem_rest n s a s' : get_mem n s = Some (a, s') -> length s' = (length s - n)%nat.
Proof. unfold get_mem. destruct n; [discriminate|]. destruct (Nat.leb (S n) (length s)); [|discriminate].
  intros H. apply Some_inj in H. apply (f_equal snd) in H. cbn [snd] in H. subst s'. apply (skipn_length (S n) s). Qed.

Lemma hlift_short {A} n (k : bytes -> hwr A) s : (length s < n)%nat -> hbind (hlift (get_mem n)) k s = RRaise.
Proof. intros H. unfold hbind, hlift. rewrite get_mem_short by assumption. reflexivity. Qed.

(* a run of get_mem reads needing more bytes than there are raises *)
Lemma read_sig_short cd d : (length d < 12)%nat -> read_sig cd d = RRaise.
Proof.
  intros H. unfold read_sig, hbind at 1, hlift at 1.
  destruct (get_mem 4 d) as [[a d1]|] eqn:E1; [|reflexivity]. apply get_mem_rest in E1.
  unfold hbind at 1, hlift at 1.
  destruct (get_mem 4 d1) as [[b d2]|] eqn:E2; [|reflexivity]. apply get_mem_rest in E2.
  apply hlift_short. lia.
Qed.

Lemma firstn_app_ge {A} (x y : list A) j : (length x <= j)%nat -> firstn j (x ++ y) = x ++ firstn (j - length x) y.
Proof. intros H. rewrite firstn_app. rewrite firstn_all2 by assumption. reflexivity. Qed.
Lemma firstn_app_lt {A} (x y : list A) j : (j <= length x)%nat -> firstn j (x ++ y) = firstn j x.
Proof. intros H. rewrite firstn_app. replace (j - length x)%nat with 0%nat by lia. simpl. apply app_nil_r. Qed.

Lemma sig_loop_truncated cd : forall l fuel j, Forall asig_wf l -> (j < fuel)%nat -> (j < 12 * length l)%nat ->
  sig_loop cd fuel (N.of_nat (length l)) (firstn j (flat_map encode_sig l)) = RRaise.
Proof.
  induction l as [|s t IH]; intros fuel j Hwf Hf Hj; [simpl in Hj; lia|].
  destruct fuel as [|f]; [lia|]. inversion Hwf; subst.
  cbn [length flat_map sig_loop]. rewrite of_nat_S_eqb, of_nat_S_pred.
  destruct (Nat.lt_ge_cases j 12) as [Hlt|Hge].
  - unfold hbind at 1. rewrite read_sig_short; [reflexivity|]. rewrite firstn_length. lia.
  - rewrite firstn_app_ge by (rewrite encode_sig_length; assumption). rewrite encode_sig_length.
    rewrite (hbind_ok _ _ _ _ _ (read_sig_ok cd s _ H1)).
    unfold hbind. rewrite IH; [reflexivity|assumption|lia|simpl in Hj; lia].
Qed.

Theorem siglist_truncated cd l version k : Forall asig_wf l -> N.of_nat (length l) < 2 ^ 32 ->
  (k < length (encode_siglist l))%nat -> oe500_ud cd 1 version (firstn k (encode_siglist l)) = HwRaise.
Proof.
  intros Hwf Hn Hk. unfold oe500_ud. cbn [N.eqb Pos.eqb]. unfold parse_signature_list, encode_siglist in *.
  rewrite app_length, be_bytes_length in Hk.
  destruct (Nat.lt_ge_cases k 4) as [Hlt|Hge].
  - unfold hbind at 1, hlift, get_int, bind. rewrite get_mem_short; [reflexivity|]. rewrite firstn_length. lia.
  - rewrite firstn_app_ge by (rewrite be_bytes_length; assumption). rewrite be_bytes_length.
    rewrite (hbind_lift _ _ _ _ _ (get_int_be 4 _ _ ltac:(discriminate) Hn)).
    assert (Hb : (length (flat_map encode_sig l) = 12 * length l)%nat).
    { clear. induction l; [reflexivity|]. cbn [flat_map length]. rewrite app_length, encode_sig_length, IHl. lia. }
    unfold hbind. rewrite sig_loop_truncated; [reflexivity|assumption| |lia].
    rewrite app_length, be_bytes_length, firstn_length. lia.
Qed.

Theorem scratch_truncated cd version data : (length data < 24)%nat -> oe500_ud cd 4 version data = HwRaise.
Proof.
  intros H. unfold oe500_ud. cbn [N.eqb Pos.eqb]. unfold parse_hb_scratch_regs.
  unfold hbind at 1, hlift at 1. destruct (get_mem 4 data) as [[a d1]|] eqn:E1; [|reflexivity]. apply get_mem_rest in E1.
  unfold hbind at 1, hlift at 1. destruct (get_mem 4 d1) as [[b d2]|] eqn:E2; [|reflexivity]. apply get_mem_rest in E2.
  unfold hbind at 1, hlift at 1. destruct (get_mem 8 d2) as [[c d3]|] eqn:E3; [|reflexivity]. apply get_mem_rest in E3.
  rewrite hlift_short by lia. reflexivity.
Qed.

Theorem scratch_sig_truncated cd version data : (length data < 8)%nat -> oe500_ud cd 5 version data = HwRaise.
Proof.
  intros H. unfold oe500_ud. cbn [N.eqb Pos.eqb]. unfold parse_scratch_reg_sig.
  unfold hbind at 1, hlift at 1. destruct (get_mem 4 data) as [[a d1]|] eqn:E1; [|reflexivity]. apply get_mem_rest in E1.
  rewrite hlift_short by lia. reflexivity.
Qed.
