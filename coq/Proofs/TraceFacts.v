(* Lemmas for C15 (trace buffers). *)
From Coq Require Import List NArith ZArith Bool Arith Lia ZifyBool ZifyNat.
From PV Require Import Base.Bytes Base.Lit Model.Hexdump Model.TraceFmt Model.Trace Spec.TraceSpec Gen.Tables
                       Proofs.BytesFacts Proofs.HexdumpFacts Proofs.HexdumpRoundtrip.
Import ListNotations.
Ltac Zify.zify_post_hook ::= Z.to_euclidean_division_equations.
Open Scope N_scope.

Notation byte_list := (Forall (fun b : N => b < 256)).

(* ------------------------------------------------------------------ *)
(* constants: the regenerated values are the published ones            *)

Lemma consts_agree :
  Gen.Tables.TraceBufferHeader_SIZE = spec_HDR_SIZE /\
  Gen.Tables.TraceEntry_FIXED_SIZE = spec_FIXED_SIZE /\
  Gen.Tables.TraceEntry_MAX_DATA_LEN = spec_MAX_DATA_LEN /\
  Gen.Tables.TraceEntry_TYPE_FIELDTRACE = spec_TYPE_FIELDTRACE /\
  Gen.Tables.TraceEntry_TYPE_FIELDBIN = spec_TYPE_FIELDBIN /\
  Gen.Tables.TraceEntry_MAX_ARGS = spec_MAX_ARGS /\
  Gen.Tables.TraceBufferHeader_BUFFER_NAMES = spec_BUFFER_NAMES.
Proof. repeat split; vm_compute; reflexivity. Qed.

Lemma HDR_SIZE_eq : HDR_SIZE = 32%nat.  Proof. reflexivity. Qed.
Lemma FIXED_SIZE_eq : FIXED_SIZE = 16%nat.  Proof. reflexivity. Qed.
Lemma MAX_DATA_LEN_eq : MAX_DATA_LEN = 1024.  Proof. reflexivity. Qed.
Lemma TYPE_FIELDBIN_eq : TYPE_FIELDBIN = spec_TYPE_FIELDBIN.  Proof. reflexivity. Qed.
Lemma MAX_ARGS_eq : MAX_ARGS = 5%nat.  Proof. reflexivity. Qed.

(* ------------------------------------------------------------------ *)
(* list helpers                                                        *)

Lemma has_spec : forall n d, has n d = true <-> (n <= length d)%nat.
Proof.
  induction n as [|n IH]; intros d; simpl.
  - split; [lia|reflexivity].
  - destruct d as [|b t]; simpl; [split; [discriminate|lia]|]. rewrite IH. lia.
Qed.
Lemma has_false : forall n d, has n d = false <-> (length d < n)%nat.
Proof.
  intros n d. pose proof (has_spec n d) as H. destruct (has n d).
  - split; [discriminate|]. intros. assert (n <= length d)%nat by (apply H; reflexivity). lia.
  - split; [|reflexivity]. intros _. destruct (Nat.le_gt_cases n (length d)) as [G|G]; [|assumption].
    apply H in G. discriminate.
Qed.

Lemma firstn_add_split {A} : forall a b (l : list A), firstn (a + b) l = firstn a l ++ firstn b (skipn a l).
Proof.
  induction a as [|a IH]; intros b l; simpl; [reflexivity|].
  destruct l as [|x t]; simpl; [destruct b; reflexivity|]. rewrite IH. reflexivity.
Qed.

Lemma skipn_skipn' {A} : forall a b (l : list A), skipn a (skipn b l) = skipn (b + a) l.
Proof.
  intros a b; revert a. induction b as [|b IH]; intros a l; simpl; [reflexivity|].
  destruct l as [|x t]; simpl; [destruct a; reflexivity|]. apply IH.
Qed.

Lemma app_eq_len {A} : forall (a a' b b' : list A), length a = length a' -> a ++ b = a' ++ b' -> a = a' /\ b = b'.
Proof.
  induction a as [|x a IH]; intros [|x' a'] b b' Hl H; simpl in *; try discriminate.
  - auto.
  - inversion H; subst. destruct (IH a' b b') as [-> ->]; auto.
Qed.

Lemma Forall_firstn {A} (P : A -> Prop) n l : Forall P l -> Forall P (firstn n l).
Proof. revert l; induction n; intros l H; simpl; [constructor|]. destruct H; constructor; auto. Qed.
Lemma Forall_skipn {A} (P : A -> Prop) n l : Forall P l -> Forall P (skipn n l).
Proof. revert l; induction n; intros l H; simpl; [assumption|]. destruct H; [constructor|auto]. Qed.

Lemma forallb_bytes l : forallb is_byteb l = true <-> byte_list l.
Proof.
  rewrite forallb_forall, Forall_forall. unfold is_byteb. split; intros H x Hx; specialize (H x Hx); lia.
Qed.

(* ------------------------------------------------------------------ *)
(* big-endian fields                                                   *)

Lemma be_val_snoc l b acc : be_val (l ++ [b]) acc = be_val l acc * 256 + b.
Proof. rewrite be_val_app. reflexivity. Qed.

Lemma be_bytes_be_val : forall l, byte_list l -> be_bytes (length l) (be_val l 0) = l.
Proof.
  induction l as [|b l IH] using rev_ind; intros H; [reflexivity|].
  apply Forall_app in H. destruct H as [Hl Hb]. inversion Hb; subst.
  rewrite app_length, Nat.add_comm. cbn [length plus be_bytes]. rewrite be_val_snoc.
  replace ((be_val l 0 * 256 + b) / 256) with (be_val l 0) by lia.
  replace ((be_val l 0 * 256 + b) mod 256) with b by lia.
  rewrite IH by assumption. reflexivity.
Qed.

Lemma be_val0 n v : v < 256 ^ N.of_nat n -> be_val (be_bytes n v) 0 = v.
Proof. intros H. rewrite be_val_be_bytes by assumption. lia. Qed.

Lemma be_val_lt l n : byte_list l -> length l = n -> be_val l 0 < 256 ^ N.of_nat n.
Proof. intros. apply (be_val_bound l 0 n); auto. Qed.

Lemma int_at_eq off n d : int_at off n d = be_val (firstn n (skipn off d)) 0.
Proof. reflexivity. Qed.

(* a field in the middle of a concatenation *)
Lemma slice_mid {A} (pre x post : list A) : firstn (length x) (skipn (length pre) (pre ++ x ++ post)) = x.
Proof.
  rewrite skipn_app, skipn_all, Nat.sub_diag. simpl. rewrite firstn_app, Nat.sub_diag, firstn_all. simpl.
  apply app_nil_r.
Qed.
Lemma int_at_mid pre x post off n : length pre = off -> length x = n -> int_at off n (pre ++ x ++ post) = be_val x 0.
Proof. intros <- <-. unfold int_at. rewrite slice_mid. reflexivity. Qed.

(* ------------------------------------------------------------------ *)
(* TraceEntry.read                                                     *)

Lemma pad_size_len n : N.to_nat (pad_size (N.of_nat n)) = pad_len n.
Proof. unfold pad_size, pad_len. destruct (N.eqb_spec (N.of_nat n mod 4) 0); lia. Qed.
Lemma pad_len_lt n : (pad_len n < 4)%nat.
Proof. unfold pad_len. apply Nat.mod_upper_bound. lia. Qed.

Lemma entry_read_unfold d : entry_read d =
  if has 16 d then
    let len := int_at 4 2 d in
    if 1024 <? len then None
    else
      let n := N.to_nat len in
      let p := N.to_nat (pad_size len) in
      if has (n + p) (skipn 16 d) then
        let d2 := skipn (n + p) (skipn 16 d) in
        if has 4 d2 then
          if int_at 0 4 d2 =? 16 + len + pad_size len + 4
          then Some (mkEntry (int_at 0 2 d) (int_at 2 2 d) len (int_at 6 2 d) (int_at 8 4 d) (int_at 12 4 d)
                             (firstn n (skipn 16 d)), 16 + len + pad_size len + 4, skipn 4 d2)
          else None
        else None
      else None
  else None.
Proof. reflexivity. Qed.

Lemma wf_entry_iff e : wf_entry e <->
  ae_tbh e < 65536 /\ ae_tbl e < 65536 /\ ae_tag e < 65536 /\ ae_hash e < 4294967296 /\ ae_line e < 4294967296 /\
  byte_list (ae_data e) /\ byte_list (ae_pad e) /\ (length (ae_data e) <= 1024)%nat /\
  length (ae_pad e) = pad_len (length (ae_data e)).
Proof.
  unfold wf_entry, wf_entryb. rewrite !andb_true_iff, !forallb_bytes, !N.ltb_lt, Nat.leb_le, Nat.eqb_eq. tauto.
Qed.

Definition fixed16 (e : aentry) : bytes :=
  be_bytes 2 (ae_tbh e) ++ be_bytes 2 (ae_tbl e) ++ be_bytes 2 (N.of_nat (length (ae_data e)))
  ++ be_bytes 2 (ae_tag e) ++ be_bytes 4 (ae_hash e) ++ be_bytes 4 (ae_line e).
Lemma encode_entry_split e :
  encode_entry e = fixed16 e ++ ae_data e ++ ae_pad e ++ be_bytes 4 (N.of_nat (entry_size e)).
Proof. unfold encode_entry, fixed16. rewrite <- !app_assoc. reflexivity. Qed.
Lemma fixed16_length e : length (fixed16 e) = 16%nat.
Proof. unfold fixed16. rewrite !app_length, !be_bytes_length. reflexivity. Qed.

Lemma fixed16_fields e tail : wf_entry e ->
  let d := fixed16 e ++ tail in
  int_at 0 2 d = ae_tbh e /\ int_at 2 2 d = ae_tbl e /\ int_at 4 2 d = N.of_nat (length (ae_data e)) /\
  int_at 6 2 d = ae_tag e /\ int_at 8 4 d = ae_hash e /\ int_at 12 4 d = ae_line e.
Proof.
  intros W d. apply wf_entry_iff in W. destruct W as (H1 & H2 & H3 & H4 & H5 & _ & _ & H8 & _).
  subst d. unfold fixed16. cbn [be_bytes app]. unfold int_at. cbn [skipn firstn be_val].
  repeat split; lia.
Qed.

Lemma skipn_app_exact {A} (a b : list A) n : length a = n -> skipn n (a ++ b) = b.
Proof. intros <-. rewrite skipn_app, skipn_all, Nat.sub_diag. reflexivity. Qed.
Lemma firstn_app_exact {A} (a b : list A) n : length a = n -> firstn n (a ++ b) = a.
Proof. intros <-. rewrite firstn_app, Nat.sub_diag, firstn_all. simpl. apply app_nil_r. Qed.

(* a well-framed entry is read back, field for field, and the stream is left right behind it *)
Lemma entry_read_encode e rest : wf_entry e ->
  entry_read (encode_entry e ++ rest) = Some (entry_of e, N.of_nat (entry_size e), rest).
Proof.
  intros W. pose proof W as W'. apply wf_entry_iff in W'. destruct W' as (H1 & H2 & H3 & H4 & H5 & H6 & H7 & H8 & H9).
  rewrite encode_entry_split, <- !app_assoc.
  set (tail := ae_data e ++ ae_pad e ++ be_bytes 4 (N.of_nat (entry_size e)) ++ rest).
  destruct (fixed16_fields e tail W) as (F1 & F2 & F3 & F4 & F5 & F6).
  rewrite entry_read_unfold. cbv zeta.
  assert (Hh : has 16 (fixed16 e ++ tail) = true) by (apply has_spec; rewrite app_length, fixed16_length; lia).
  rewrite Hh, F1, F2, F3, F4, F5, F6.
  destruct (N.ltb_spec 1024 (N.of_nat (length (ae_data e)))) as [G|G]; [lia|].
  rewrite Nat2N.id, pad_size_len, <- H9.
  rewrite (skipn_app_exact (fixed16 e) tail 16 (fixed16_length e)).
  unfold tail.
  assert (Hh2 : has (length (ae_data e) + length (ae_pad e))
                    (ae_data e ++ ae_pad e ++ be_bytes 4 (N.of_nat (entry_size e)) ++ rest) = true).
  { apply has_spec. rewrite !app_length. lia. }
  rewrite Hh2.
  replace (skipn (length (ae_data e) + length (ae_pad e)) (ae_data e ++ ae_pad e ++ be_bytes 4 (N.of_nat (entry_size e)) ++ rest))
    with (be_bytes 4 (N.of_nat (entry_size e)) ++ rest).
  2:{ rewrite (app_assoc (ae_data e)). symmetry. apply skipn_app_exact. apply app_length. }
  assert (Hh3 : has 4 (be_bytes 4 (N.of_nat (entry_size e)) ++ rest) = true).
  { apply has_spec. rewrite app_length, be_bytes_length. lia. }
  rewrite Hh3.
  assert (Hsz : N.of_nat (entry_size e) < 256 ^ N.of_nat 4).
  { unfold entry_size. pose proof (pad_len_lt (length (ae_data e))). change (256 ^ N.of_nat 4) with 4294967296. lia. }
  unfold int_at at 1. rewrite skipn_O. rewrite (firstn_app_exact _ rest 4 (be_bytes_length 4 _)), (be_val0 4 _ Hsz).
  assert (Hsz2 : 16 + N.of_nat (length (ae_data e)) + pad_size (N.of_nat (length (ae_data e))) + 4 = N.of_nat (entry_size e)).
  { unfold entry_size. rewrite H9, <- pad_size_len. lia. }
  rewrite Hsz2, N.eqb_refl.
  rewrite (skipn_app_exact (be_bytes 4 (N.of_nat (entry_size e))) rest 4 (be_bytes_length 4 _)).
  rewrite (firstn_app_exact (ae_data e) _ _ eq_refl).
  reflexivity.
Qed.

Lemma field_bytes off n d : (off + n <= length d)%nat -> byte_list d ->
  be_bytes n (int_at off n d) = firstn n (skipn off d).
Proof.
  intros L B. unfold int_at.
  assert (Hl : length (firstn n (skipn off d)) = n) by (rewrite firstn_length, skipn_length; lia).
  rewrite <- Hl at 1. apply be_bytes_be_val. apply Forall_firstn, Forall_skipn, B.
Qed.

Lemma field_lt off n d : (off + n <= length d)%nat -> byte_list d -> int_at off n d < 256 ^ N.of_nat n.
Proof.
  intros L B. unfold int_at. apply be_val_lt; [apply Forall_firstn, Forall_skipn, B|].
  rewrite firstn_length, skipn_length. lia.
Qed.

Lemma fixed_decompose d : (16 <= length d)%nat -> byte_list d ->
  firstn 16 d = be_bytes 2 (int_at 0 2 d) ++ be_bytes 2 (int_at 2 2 d) ++ be_bytes 2 (int_at 4 2 d)
                ++ be_bytes 2 (int_at 6 2 d) ++ be_bytes 4 (int_at 8 4 d) ++ be_bytes 4 (int_at 12 4 d).
Proof.
  intros L B. rewrite !field_bytes by (assumption || lia).
  do 16 (destruct d as [|? d]; [simpl in L; lia|]). reflexivity.
Qed.

(* conversely, whatever TraceEntry.read accepts is a well-framed entry *)
Lemma entry_read_sound d e n rest : byte_list d -> entry_read d = Some (e, n, rest) ->
  exists ae, wf_entry ae /\ d = encode_entry ae ++ rest /\ entry_of ae = e /\ n = N.of_nat (entry_size ae).
Proof.
  intros B. rewrite entry_read_unfold. cbv zeta.
  destruct (has 16 d) eqn:E1; [|discriminate]. apply has_spec in E1.
  destruct (N.ltb_spec 1024 (int_at 4 2 d)) as [E2|E2]; [discriminate|].
  set (len := int_at 4 2 d) in *. set (nn := N.to_nat len). set (p := N.to_nat (pad_size len)).
  destruct (has (nn + p) (skipn 16 d)) eqn:E3; [|discriminate]. apply has_spec in E3. rewrite skipn_length in E3.
  set (d2 := skipn (nn + p) (skipn 16 d)).
  destruct (has 4 d2) eqn:E4; [|discriminate]. apply has_spec in E4.
  destruct (N.eqb_spec (int_at 0 4 d2) (16 + len + pad_size len + 4)) as [E5|E5]; [|discriminate].
  intros H. inversion H; subst e n rest; clear H.
  assert (Hp : p = pad_len nn).
  { unfold p, nn. rewrite <- pad_size_len, N2Nat.id. reflexivity. }
  assert (Bd : byte_list (skipn 16 d)) by (apply Forall_skipn, B).
  assert (Bd2 : byte_list d2) by (apply Forall_skipn, Bd).
  assert (Ld2 : (length d2 = length d - 16 - (nn + p))%nat) by (unfold d2; rewrite !skipn_length; lia).
  set (data := firstn nn (skipn 16 d)). set (pad := firstn p (skipn nn (skipn 16 d))).
  assert (Ldata : length data = nn) by (unfold data; rewrite firstn_length, skipn_length; lia).
  assert (Lpad : length pad = p) by (unfold pad; rewrite firstn_length, !skipn_length; lia).
  exists (mkAEntry (int_at 0 2 d) (int_at 2 2 d) (int_at 6 2 d) (int_at 8 4 d) (int_at 12 4 d) data pad).
  assert (Hsize : N.of_nat (16 + nn + p + 4) = 16 + len + pad_size len + 4) by (unfold nn, p; lia).
  split; [|split; [|split]].
  - apply wf_entry_iff. cbn [ae_tbh ae_tbl ae_tag ae_hash ae_line ae_data ae_pad].
    pose proof (field_lt 0 2 d ltac:(lia) B). pose proof (field_lt 2 2 d ltac:(lia) B).
    pose proof (field_lt 6 2 d ltac:(lia) B). pose proof (field_lt 8 4 d ltac:(lia) B).
    pose proof (field_lt 12 4 d ltac:(lia) B).
    change (256 ^ N.of_nat 2) with 65536 in *. change (256 ^ N.of_nat 4) with 4294967296 in *.
    repeat split; try assumption.
    + apply Forall_firstn, Bd.
    + apply Forall_firstn, Forall_skipn, Bd.
    + rewrite Ldata. unfold nn. lia.
    + rewrite Lpad, Ldata. exact Hp.
  - rewrite encode_entry_split. unfold fixed16, entry_size.
    cbn [ae_tbh ae_tbl ae_tag ae_hash ae_line ae_data ae_pad]. rewrite Ldata, Lpad.
    replace (N.of_nat nn) with (int_at 4 2 d) by (unfold nn; fold len; lia).
    rewrite <- (fixed_decompose d E1 B), Hsize, <- E5.
    rewrite (field_bytes 0 4 d2 ltac:(lia) Bd2). rewrite skipn_O.
    change (match d2 with | _ :: _ :: _ :: _ :: l2 => l2 | _ => [] end) with (skipn 4 d2).
    rewrite <- !app_assoc.
    rewrite <- (firstn_skipn 16 d) at 1. f_equal.
    rewrite <- (firstn_skipn nn (skipn 16 d)) at 1. fold data. f_equal.
    rewrite <- (firstn_skipn p (skipn nn (skipn 16 d))) at 1. fold pad. f_equal.
    rewrite skipn_skipn'. fold d2. symmetry. apply firstn_skipn.
  - unfold entry_of. cbn [ae_tbh ae_tbl ae_tag ae_hash ae_line ae_data ae_pad]. rewrite Ldata.
    replace (N.of_nat nn) with len by (unfold nn; lia). reflexivity.
  - unfold entry_size. cbn [ae_data ae_pad]. rewrite Ldata, Lpad. symmetry. exact Hsize.
Qed.

Lemma pad_size_nat len : pad_size len = N.of_nat (pad_len (N.to_nat len)).
Proof. rewrite <- (N2Nat.id len) at 1. rewrite <- pad_size_len. lia. Qed.

(* the three ways TraceEntry.read can fail, on the raw fields *)
Lemma entry_read_none_unframed d : entry_read d = None <-> unframed d.
Proof.
  rewrite entry_read_unfold. cbv zeta. change (int_at 4 2 d) with (raw_len d).
  assert (Hspan : raw_span d = 16 + raw_len d + pad_size (raw_len d) + 4) by (unfold raw_span; rewrite pad_size_nat; reflexivity).
  set (len := raw_len d) in *. set (nn := N.to_nat len). set (p := N.to_nat (pad_size len)).
  assert (Htr : int_at 0 4 (skipn (nn + p) (skipn 16 d)) = raw_trailer d).
  { unfold int_at, raw_trailer. rewrite skipn_O, skipn_skipn'. do 3 f_equal. rewrite Hspan. unfold nn, p. lia. }
  assert (Hsp : N.to_nat (raw_span d) = (16 + nn + p + 4)%nat) by (rewrite Hspan; unfold nn, p; lia).
  destruct (has 16 d) eqn:E1.
  - apply has_spec in E1. destruct (N.ltb_spec 1024 len) as [E2|E2].
    + split; [intros _; apply uf_oversized; assumption|reflexivity].
    + destruct (has (nn + p) (skipn 16 d)) eqn:E3.
      * apply has_spec in E3. rewrite skipn_length in E3.
        destruct (has 4 (skipn (nn + p) (skipn 16 d))) eqn:E4.
        -- apply has_spec in E4. rewrite !skipn_length in E4. rewrite Htr, <- Hspan.
           destruct (N.eqb_spec (raw_trailer d) (raw_span d)) as [E5|E5].
           ++ split; [discriminate|]. intros U. exfalso. destruct U; lia.
           ++ split; [|reflexivity]. intros _. apply uf_trailer; try assumption. lia.
        -- apply has_false in E4. rewrite !skipn_length in E4.
           split; [|reflexivity]. intros _. apply uf_truncated; try assumption. lia.
      * apply has_false in E3. rewrite skipn_length in E3.
        split; [|reflexivity]. intros _. apply uf_truncated; try assumption. lia.
  - apply has_false in E1. split; [|reflexivity]. intros _. apply uf_truncated_fixed. assumption.
Qed.

Lemma framed_read d e rest : framed d e rest -> entry_read d = Some (entry_of e, N.of_nat (entry_size e), rest).
Proof. intros [W ->]. apply entry_read_encode, W. Qed.

Lemma read_framed d e n rest : byte_list d -> entry_read d = Some (e, n, rest) ->
  exists ae, framed d ae rest /\ entry_of ae = e /\ n = N.of_nat (entry_size ae).
Proof.
  intros B H. destruct (entry_read_sound d e n rest B H) as (ae & W & Hd & He & Hn).
  exists ae. repeat split; assumption.
Qed.

Lemma not_framed_read d : byte_list d -> ((forall e rest, ~ framed d e rest) <-> entry_read d = None).
Proof.
  intros B. split.
  - intros H. destruct (entry_read d) as [[[e n] rest]|] eqn:E; [|reflexivity].
    destruct (read_framed d e n rest B E) as (ae & F & _). exfalso. exact (H ae rest F).
  - intros H e rest F. rewrite (framed_read d e rest F) in H. discriminate.
Qed.

Theorem not_framed_iff d : byte_list d -> ((forall e rest, ~ framed d e rest) <-> unframed d).
Proof. intros B. rewrite (not_framed_read d B). apply entry_read_none_unframed. Qed.

(* a framed prefix determines the entry and what follows it *)
Lemma framed_unique d e1 r1 e2 r2 : framed d e1 r1 -> framed d e2 r2 -> e1 = e2 /\ r1 = r2.
Proof.
  intros F1 F2. pose proof (framed_read d e1 r1 F1) as R1. rewrite (framed_read d e2 r2 F2) in R1.
  assert (He : entry_of e2 = entry_of e1) by congruence.
  assert (Hr : r2 = r1) by congruence. clear R1. split; [|symmetry; exact Hr].
  pose proof (f_equal e_tbh He) as H1. pose proof (f_equal e_tbl He) as H2. pose proof (f_equal e_tag He) as H3.
  pose proof (f_equal e_hash He) as H4. pose proof (f_equal e_line He) as H5. pose proof (f_equal e_data He) as H6.
  cbn [entry_of e_tbh e_tbl e_tag e_hash e_line e_data] in *.
  destruct F1 as [W1 D1], F2 as [W2 D2]. subst r2.
  apply wf_entry_iff in W1, W2. destruct W1 as (_ & _ & _ & _ & _ & _ & _ & _ & P1), W2 as (_ & _ & _ & _ & _ & _ & _ & _ & P2).
  rewrite D1 in D2. rewrite !encode_entry_split, <- !app_assoc in D2.
  assert (Hf : fixed16 e1 = fixed16 e2) by (unfold fixed16; rewrite H1, H2, H3, H4, H5, H6; reflexivity).
  rewrite Hf, H6 in D2. apply app_inv_head in D2. apply app_inv_head in D2.
  apply app_eq_len in D2; [|rewrite P1, P2, H6; reflexivity]. destruct D2 as [Hp _].
  destruct e1 as [a1 a2 a3 a4 a5 a6 a7], e2 as [b1 b2 b3 b4 b5 b6 b7]; cbn [ae_tbh ae_tbl ae_tag ae_hash ae_line ae_data ae_pad] in *; subst; reflexivity.
Qed.

(* ------------------------------------------------------------------ *)
(* TraceBuffer.read : the entry loop                                   *)

Lemma entry_read_shrinks d e n rest : entry_read d = Some (e, n, rest) -> (length rest < length d)%nat.
Proof.
  rewrite entry_read_unfold. cbv zeta.
  destruct (has 16 d) eqn:E1; [|discriminate]. apply has_spec in E1.
  destruct (1024 <? int_at 4 2 d); [discriminate|].
  destruct (has _ (skipn 16 d)); [|discriminate]. destruct (has 4 _); [|discriminate].
  destruct (_ =? _); [|discriminate].
  match goal with |- Some (_, _, ?r) = _ -> _ => intros H; assert (Hr : rest = r) by congruence end.
  subst rest. rewrite !skipn_length. lia.
Qed.

(* progress: with fuel above the number of remaining bytes the loop never runs out of fuel *)
Lemma read_entries_progress : forall fuel size idx d, (length d < fuel)%nat -> read_entries fuel size idx d <> None.
Proof.
  induction fuel as [|f IH]; intros size idx d L; [lia|]. cbn [read_entries].
  destruct (idx <? size); [|discriminate].
  destruct (entry_read d) as [[[e n] rest]|] eqn:E; [|discriminate].
  apply entry_read_shrinks in E. specialize (IH size (idx + n) rest ltac:(lia)).
  destruct (read_entries f size (idx + n) rest); [discriminate|congruence].
Qed.

Lemma read_entries_shown : forall fuel size idx d es, byte_list d -> read_entries fuel size idx d = Some es ->
  exists aes, shown_entries size idx d aes /\ es = map entry_of aes.
Proof.
  induction fuel as [|f IH]; intros size idx d es B; [discriminate|]. cbn [read_entries].
  destruct (N.ltb_spec idx size) as [Hi|Hi].
  - destruct (entry_read d) as [[[e n] rest]|] eqn:E.
    + destruct (read_framed d e n rest B E) as (ae & F & He & Hn).
      destruct (read_entries f size (idx + n) rest) as [es'|] eqn:R; [|discriminate].
      intros H. injection H as <-.
      assert (Br : byte_list rest). { destruct F as [_ Hd]. rewrite Hd in B. apply Forall_app in B. apply B. }
      destruct (IH size (idx + n) rest es' Br R) as (aes & S & ->).
      exists (ae :: aes). split; [|simpl; rewrite He; reflexivity].
      apply se_step with (rest := rest); [assumption|assumption|]. rewrite <- Hn. exact S.
    + intros H. injection H as <-. exists []. split; [|reflexivity].
      apply se_bad; [assumption|]. apply not_framed_read; assumption.
  - intros H. injection H as <-. exists []. split; [|reflexivity]. apply se_size. assumption.
Qed.

Theorem shown_entries_unique size : forall idx d es1, shown_entries size idx d es1 ->
  forall es2, shown_entries size idx d es2 -> es1 = es2.
Proof.
  induction 1 as [idx d Hs|idx d Hi Hb|idx d e rest es Hi F S IH]; intros es2 S2.
  - inversion S2; subst; [reflexivity|reflexivity|lia].
  - inversion S2 as [| |? ? e' rest' es' Hi' F' S']; subst; [reflexivity|reflexivity|]. exfalso. exact (Hb e' rest' F').
  - inversion S2 as [|? ? Hi' Hb'|? ? e' rest' es' Hi' F' S']; subst; [lia| |].
    + exfalso. exact (Hb' e rest F).
    + destruct (framed_unique d e rest e' rest' F F') as [<- <-]. f_equal. apply IH. exact S'.
Qed.

(* ------------------------------------------------------------------ *)
(* message choice                                                      *)

Lemma last_opt_cons {A} (x : A) l : last_opt (x :: l) = match last_opt l with Some y => Some y | None => Some x end.
Proof. unfold last_opt. simpl. destruct (rev l); reflexivity. Qed.

Lemma last_opt_in {A} (x : A) l : last_opt l = Some x -> In x l.
Proof.
  unfold last_opt. intros H. apply in_rev. destruct (rev l) as [|y r]; [discriminate|]. injection H as ->. left. reflexivity.
Qed.

Lemma lookup_from_spec tbl h : forall p, lookup_from tbl h p =
  match exact_match tbl h with
  | Some s => Some s
  | None => match last_opt (partial_matches tbl h) with Some s => Some s | None => p end
  end.
Proof.
  unfold exact_match, partial_matches. induction tbl as [|s t IH]; intros p; [reflexivity|].
  cbn [lookup_from List.find filter]. change (is_match s h) with (same_hash h s).
  change (is_partial_match s h) with (same_low_digits h s).
  destruct (same_hash h s); [reflexivity|].
  destruct (same_low_digits h s).
  - rewrite IH, last_opt_cons. destruct (List.find (same_hash h) t); [reflexivity|].
    destruct (last_opt (filter (same_low_digits h) t)); reflexivity.
  - apply IH.
Qed.

Lemma get_trace_string_chosen tbl h :
  match chosen tbl h with
  | Some (s, b) => get_trace_string tbl h = Some s /\ is_partial_match s h = b
  | None => get_trace_string tbl h = None
  end.
Proof.
  unfold get_trace_string, chosen. rewrite lookup_from_spec.
  destruct (exact_match tbl h) as [s|] eqn:E.
  - split; [reflexivity|]. apply find_some in E. destruct E as [_ E]. unfold same_hash in E.
    unfold is_partial_match. rewrite E. reflexivity.
  - destruct (last_opt (partial_matches tbl h)) as [s|] eqn:P; [|reflexivity].
    split; [reflexivity|]. apply last_opt_in in P. apply filter_In in P. apply P.
Qed.

(* arguments *)
Lemma chunk_fuel_indep n : (1 <= n)%nat -> forall f1 f2 l, (length l <= f1)%nat -> (length l <= f2)%nat ->
  chunk_fuel f1 n l = chunk_fuel f2 n l.
Proof.
  intros Hn. induction f1 as [|f1 IH]; intros f2 l H1 H2.
  - destruct l; [|simpl in H1; lia]. destruct f2; reflexivity.
  - destruct l as [|b t]; [destruct f2; reflexivity|]. destruct f2 as [|f2]; [simpl in H2; lia|].
    cbn [chunk_fuel]. f_equal. apply IH; rewrite skipn_length; simpl length in *; lia.
Qed.
Lemma chunk_cons n l : (1 <= n)%nat -> l <> [] -> chunk n l = firstn n l :: chunk n (skipn n l).
Proof.
  unfold chunk. intros Hn. destruct l as [|b t]; [congruence|]. intros _. cbn [length chunk_fuel]. f_equal.
  apply chunk_fuel_indep; [assumption| |]; rewrite skipn_length; simpl length; lia.
Qed.

Lemma get_words_spec : forall n d,
  get_words n d = map (fun w => be_val w 0) (firstn n (filter (fun w => Nat.eqb (length w) 4) (chunk 4 d))).
Proof.
  induction n as [|k IH]; intros d; [reflexivity|]. cbn [get_words].
  destruct (has 4 d) eqn:E.
  - apply has_spec in E. rewrite chunk_cons by first [lia | destruct d; [simpl in E; lia|discriminate]].
    cbn [filter]. rewrite firstn_length, Nat.min_l by assumption. cbn [Nat.eqb firstn map].
    rewrite IH. reflexivity.
  - apply has_false in E. destruct d as [|b t]; [destruct k; reflexivity|].
    rewrite chunk_cons by first [lia | discriminate]. cbn [filter].
    rewrite firstn_length, Nat.min_r by lia.
    destruct (Nat.eqb_spec (length (b :: t)) 4) as [G|G]; [lia|].
    rewrite skipn_all2 by lia. reflexivity.
Qed.

Lemma get_args_eq e : get_args e = args_of e.
Proof.
  unfold get_args, args_of, words_of. change (is_binary_trace e) with (is_binary e).
  destruct (is_binary e); [reflexivity|]. rewrite MAX_ARGS_eq. apply get_words_spec.
Qed.

(* _format_trace_entry displays what the property text says *)
Theorem format_entry_eq tbl e : format_entry tbl e = show_entry tbl e.
Proof.
  unfold format_entry, show_entry. pose proof (get_trace_string_chosen tbl (e_hash e)) as H.
  destruct (chosen tbl (e_hash e)) as [[s b]|].
  - destruct H as [-> Hb]. unfold format_with, show_with. rewrite Hb, get_args_eq.
    change (is_binary_trace e) with (is_binary e).
    destruct b.
    + rewrite orb_true_r. reflexivity.
    + rewrite orb_false_r. reflexivity.
  - rewrite H. reflexivity.
Qed.

Lemma flat_map_entries tbl aes :
  flat_map (format_entry tbl) (map entry_of aes) = flat_map (fun a => show_entry tbl (entry_of a)) aes.
Proof. induction aes as [|a t IH]; [reflexivity|]. simpl. rewrite IH, format_entry_eq. reflexivity. Qed.

(* ------------------------------------------------------------------ *)
(* parse_trace_data                                                    *)

Lemma header_read_none d : (length d < 32)%nat -> header_read d = None.
Proof. intros L. unfold header_read. rewrite HDR_SIZE_eq. apply has_false in L. rewrite L. reflexivity. Qed.

Lemma header_read_some d : (32 <= length d)%nat ->
  exists h, header_read d = Some (h, skipn 32 d) /\ header_lines h = shown_header d /\
            h_size h = be_val (firstn 4 (skipn 20 d)) 0.
Proof.
  intros L. unfold header_read. rewrite HDR_SIZE_eq. apply has_spec in L. rewrite L.
  eexists. split; [reflexivity|]. split; [|reflexivity].
  unfold header_lines, shown_header. cbn [h_comp h_ver h_size h_times_wrap].
  destruct d as [|b t]; [discriminate|]. reflexivity.
Qed.

Theorem parse_no_header tbl d : (length d < 32)%nat ->
  parse_trace tbl d = L "Unable to parse trace data." :: hexdump d.
Proof. intros L. unfold parse_trace, parse_trace_fuel. rewrite (header_read_none d L). reflexivity. Qed.

Theorem parse_no_header_lossless tbl d : byte_list d -> (length d < 32)%nat ->
  Hexdump.parse default_fmt (tl (parse_trace tbl d)) = d.
Proof.
  intros B L. rewrite (parse_no_header tbl d L). cbn [tl]. apply hexdump_roundtrip; [assumption|].
  change (2 ^ 32) with 4294967296. lia.
Qed.

(* progress for the whole decoder *)
Theorem parse_trace_progress tbl d fuel : (length d < fuel)%nat -> parse_trace_fuel fuel tbl d <> None.
Proof.
  intros L. unfold parse_trace_fuel. destruct (header_read d) as [[h rest]|] eqn:E; [|discriminate].
  assert (Lr : (length rest <= length d)%nat).
  { unfold header_read in E. destruct (has HDR_SIZE d); [|discriminate].
    assert (Hr : rest = skipn 32 d) by congruence. rewrite Hr, skipn_length. lia. }
  pose proof (read_entries_progress fuel (h_size h) 32 rest ltac:(lia)) as P.
  destruct (read_entries fuel (h_size h) 32 rest); [discriminate|congruence].
Qed.

Theorem parse_trace_entries tbl d : byte_list d -> (32 <= length d)%nat ->
  exists aes, shown_entries (be_val (firstn 4 (skipn 20 d)) 0) 32 (skipn 32 d) aes /\
    parse_trace tbl d = shown_header d ++ flat_map (fun a => show_entry tbl (entry_of a)) aes.
Proof.
  intros B L. destruct (header_read_some d L) as (h & Hh & Hl & Hs).
  unfold parse_trace, parse_trace_fuel. rewrite Hh.
  assert (Lr : (length (skipn 32 d) < S (length d))%nat) by (rewrite skipn_length; lia).
  pose proof (read_entries_progress (S (length d)) (h_size h) 32 (skipn 32 d) Lr) as P.
  destruct (read_entries (S (length d)) (h_size h) 32 (skipn 32 d)) as [es|] eqn:R; [|congruence].
  destruct (read_entries_shown _ _ _ _ es (Forall_skipn _ 32 d B) R) as (aes & S & ->).
  exists aes. rewrite <- Hs. split; [exact S|]. rewrite Hl, flat_map_entries. reflexivity.
Qed.

Theorem parse_trace_header tbl d : byte_list d -> (32 <= length d)%nat ->
  exists rest, parse_trace tbl d = shown_header d ++ rest.
Proof. intros B L. destruct (parse_trace_entries tbl d B L) as (aes & _ & H). eexists. exact H. Qed.

(* ------------------------------------------------------------------ *)
(* encoded well-formed buffers                                          *)

Fixpoint span (aes : list aentry) : nat :=
  match aes with [] => O | e :: t => (entry_size e + span t)%nat end.

Lemma shown_encoded size : forall aes idx rest, Forall wf_entry aes -> all_start_before size idx aes = true ->
  (size <= idx + N.of_nat (span aes) \/ forall e r, ~ framed rest e r) ->
  shown_entries size idx (flat_map encode_entry aes ++ rest) aes.
Proof.
  induction aes as [|e t IH]; intros idx rest W A Stop.
  - simpl. destruct (N.lt_ge_cases idx size) as [Hi|Hi].
    + destruct Stop as [Stop|Stop]; [simpl in Stop; lia|]. apply se_bad; assumption.
    + apply se_size. assumption.
  - inversion W as [|? ? We Wt]; subst. cbn [all_start_before] in A. apply andb_true_iff in A. destruct A as [Hi A].
    apply N.ltb_lt in Hi. cbn [flat_map]. rewrite <- app_assoc.
    apply se_step with (rest := flat_map encode_entry t ++ rest); [assumption|split; [assumption|reflexivity]|].
    apply IH; [assumption|assumption|]. destruct Stop as [Stop|Stop]; [left|right; assumption].
    cbn [span] in Stop. lia.
Qed.

Lemma forallb_wf l : forallb wf_entryb l = true <-> Forall wf_entry l.
Proof. rewrite forallb_forall, Forall_forall. unfold wf_entry. tauto. Qed.

Lemma wf_buffer_iff b : wf_buffer b <->
  (ab_ver b < 256 /\ ab_hdr_len b < 256 /\ ab_time_flg b < 256 /\ ab_endian_flg b < 256 /\
   length (ab_comp b) = 12%nat /\ byte_list (ab_comp b) /\ length (ab_reserved b) = 4%nat /\ byte_list (ab_reserved b) /\
   ab_size b < 4294967296 /\ ab_wrap b < 4294967296 /\ ab_next_free b < 4294967296) /\
  Forall wf_entry (ab_entries b) /\ all_start_before (ab_size b) 32 (ab_entries b) = true.
Proof.
  unfold wf_buffer, wf_bufferb, wf_headerb, is_byteb.
  rewrite !andb_true_iff, forallb_wf, !forallb_bytes, !N.ltb_lt, !Nat.eqb_eq. tauto.
Qed.

Lemma encode_header_length b : length (ab_comp b) = 12%nat -> length (ab_reserved b) = 4%nat ->
  length (encode_header b) = 32%nat.
Proof. intros H1 H2. unfold encode_header. rewrite !app_length, !be_bytes_length, H1, H2. reflexivity. Qed.

Lemma encode_entry_bytes e : wf_entry e -> byte_list (encode_entry e).
Proof.
  intros W. apply wf_entry_iff in W. destruct W as (_ & _ & _ & _ & _ & Hd & Hp & _).
  unfold encode_entry. repeat first [apply be_bytes_all_bytes | assumption | (apply Forall_app; split)].
Qed.
Lemma encode_entries_bytes aes : Forall wf_entry aes -> byte_list (flat_map encode_entry aes).
Proof.
  induction 1; cbn [flat_map]; [constructor|]. apply Forall_app. split; [apply encode_entry_bytes|]; assumption.
Qed.
Lemma encode_entry_length e : length (encode_entry e) = entry_size e.
Proof. unfold encode_entry, entry_size. rewrite !app_length, !be_bytes_length. lia. Qed.
Lemma encode_entries_length aes : length (flat_map encode_entry aes) = span aes.
Proof. induction aes; cbn [flat_map span]; [reflexivity|]. rewrite app_length, encode_entry_length, IHaes. reflexivity. Qed.

Lemma shown_header_app h t : length h = 32%nat -> shown_header (h ++ t) = shown_header h.
Proof.
  intros L. do 32 (destruct h as [|? h]; [discriminate L|]). destruct h; [|discriminate L]. reflexivity.
Qed.

Theorem parse_trace_roundtrip tbl b rest : wf_buffer b -> byte_list rest ->
  (ab_size b <= N.of_nat (length (encode_buffer b)) \/ forall e r, ~ framed rest e r) ->
  parse_trace tbl (encode_buffer b ++ rest) = expected_lines tbl b.
Proof.
  intros W Br Stop. apply wf_buffer_iff in W.
  destruct W as ((H1 & H2 & H3 & H4 & H5 & H6 & H7 & H8 & H9 & H10 & H11) & We & Wa).
  pose proof (encode_header_length b H5 H7) as Lh.
  unfold encode_buffer in *. rewrite <- app_assoc.
  set (body := flat_map encode_entry (ab_entries b) ++ rest).
  assert (B : byte_list (encode_header b ++ body)).
  { apply Forall_app. split.
    - unfold encode_header. repeat first [apply be_bytes_all_bytes | assumption | (apply Forall_app; split)].
      repeat constructor; assumption.
    - apply Forall_app. split; [apply encode_entries_bytes|]; assumption. }
  assert (L : (32 <= length (encode_header b ++ body))%nat) by (rewrite app_length; lia).
  destruct (parse_trace_entries tbl _ B L) as (aes & S & ->).
  rewrite (shown_header_app _ body Lh). unfold expected_lines. f_equal.
  rewrite (skipn_app_exact _ body 32 Lh) in S.
  assert (Hsz : be_val (firstn 4 (skipn 20 (encode_header b ++ body))) 0 = ab_size b).
  { unfold encode_header.
    replace (([ab_ver b; ab_hdr_len b; ab_time_flg b; ab_endian_flg b] ++ ab_comp b ++ ab_reserved b ++
              be_bytes 4 (ab_size b) ++ be_bytes 4 (ab_wrap b) ++ be_bytes 4 (ab_next_free b)) ++ body)
      with (([ab_ver b; ab_hdr_len b; ab_time_flg b; ab_endian_flg b] ++ ab_comp b ++ ab_reserved b) ++
            be_bytes 4 (ab_size b) ++ (be_bytes 4 (ab_wrap b) ++ be_bytes 4 (ab_next_free b) ++ body))
      by (rewrite <- !app_assoc; reflexivity).
    change (be_val (firstn 4 (skipn 20 ?x)) 0) with (int_at 20 4 x).
    rewrite int_at_mid; [apply be_val0; assumption| |apply be_bytes_length].
    rewrite !app_length, H5, H7. reflexivity. }
  rewrite Hsz in S.
  assert (S' : shown_entries (ab_size b) 32 body (ab_entries b)).
  { apply shown_encoded; [assumption|assumption|]. destruct Stop as [Stop|Stop]; [left|right; assumption].
    rewrite app_length, Lh, encode_entries_length in Stop. lia. }
  rewrite (shown_entries_unique _ _ _ _ S _ S'). reflexivity.
Qed.

Lemma not_framed_nil : forall e r, ~ framed [] e r.
Proof.
  intros e r [_ H]. apply (f_equal (@length N)) in H. rewrite app_length, encode_entry_length in H.
  unfold entry_size in H. simpl in H. lia.
Qed.

(* ------------------------------------------------------------------ *)
(* the single-pass evaluation used by the extracted binary              *)

Lemma answer_entries_eq tbl es :
  answer_entries tbl es = (forallb (entry_supported tbl) es, flat_map (format_entry tbl) es).
Proof.
  induction es as [|e t IH]; [reflexivity|].
  change (answer_entries tbl (e :: t)) with
    (let f := get_trace_string tbl (e_hash e) in
     (supported_with f e && fst (answer_entries tbl t), format_with f e ++ snd (answer_entries tbl t))).
  rewrite IH. reflexivity.
Qed.

Theorem trace_fast_eq tbl d : trace_fast tbl d = (trace_supported tbl d, parse_trace tbl d).
Proof.
  unfold trace_fast, trace_supported, parse_trace, parse_trace_fuel.
  destruct (header_read d) as [[h rest]|]; [|reflexivity].
  destruct (read_entries (S (length d)) (h_size h) 32 rest) as [es|]; [|reflexivity].
  rewrite answer_entries_eq. reflexivity.
Qed.

Theorem spec_answer_lines tbl b : snd (spec_answer tbl b) = expected_lines tbl b.
Proof.
  unfold spec_answer, expected_lines. cbn [snd]. f_equal.
  induction (ab_entries b) as [|a t IH]; [reflexivity|]. cbn [fold_right flat_map snd]. rewrite IH. reflexivity.
Qed.

(* the three cases of the message choice, spelled out *)
Theorem message_exact tbl e s : exact_match tbl (e_hash e) = Some s ->
  format_entry tbl e = entry_line e (get_message (ts_format s) (args_of e)) :: (if is_binary e then dump_of e else []).
Proof. intros H. rewrite format_entry_eq. unfold show_entry, chosen. rewrite H. reflexivity. Qed.

Theorem message_partial tbl e s : exact_match tbl (e_hash e) = None ->
  last_opt (partial_matches tbl (e_hash e)) = Some s ->
  format_entry tbl e = entry_line e (get_message (ts_format s) (args_of e)) :: warning_line s :: dump_of e.
Proof. intros H1 H2. rewrite format_entry_eq. unfold show_entry, chosen. rewrite H1, H2. reflexivity. Qed.

Theorem message_none tbl e : exact_match tbl (e_hash e) = None -> partial_matches tbl (e_hash e) = [] ->
  format_entry tbl e = entry_line e (no_string_msg (e_hash e)) :: dump_of e.
Proof. intros H1 H2. rewrite format_entry_eq. unfold show_entry, chosen. rewrite H1, H2. reflexivity. Qed.

(* binary entries always show their data: the display of the entry ends with the dump of its data *)
Theorem binary_always_dumps tbl e : is_binary e = true ->
  exists pre, pre <> [] /\ format_entry tbl e = pre ++ dump_of e.
Proof.
  intros Hb. rewrite format_entry_eq. unfold show_entry, show_with.
  destruct (chosen tbl (e_hash e)) as [[s [|]]|].
  - eexists [_; _]. split; [discriminate|reflexivity].
  - rewrite Hb. eexists [_]. split; [discriminate|reflexivity].
  - eexists [_]. split; [discriminate|reflexivity].
Qed.
