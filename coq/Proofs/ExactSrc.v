From Coq Require Import List NArith Bool Arith Lia.
From PV Require Import Base.Bytes Base.Reader Base.PelTypes Model.Parse Spec.Encode Gen.Tables
                       Proofs.BytesFacts Proofs.ReaderFacts Proofs.ParseFacts Proofs.SrcFacts Proofs.ExactFacts Proofs.ExactParse.
Import ListNotations.
Open Scope N_scope.

Lemma exact_opt_mem (c : bool) n xs : length xs = (if c then n else 0%nat) -> n <> 0%nat -> exact_on (opt_mem c n) xs xs.
Proof.
  intros H Hn. unfold opt_mem. destruct c.
  - apply exact_get_mem; assumption.
  - apply len_nil in H. subst. apply exact_ret.
Qed.

Lemma exact_fru f : wf_fru f -> exact_on parse_fru (enc_fru f) f.
Proof.
  intros (H1 & H2 & (L1 & _) & (L2 & _) & (L3 & _)).
  unfold parse_fru, enc_fru, be. rewrite <- (app_nil_r (f_sn f)). rewrite <- ?app_assoc.
  exbs. destruct flags_agree as (-> & -> & -> & -> & _). rewrite !has_flag.
  eapply exact_bind; [apply exact_opt_mem; [assumption|discriminate]|cbv beta].
  eapply exact_bind; [apply exact_opt_mem; [assumption|discriminate]|cbv beta].
  eapply exact_bind; [apply exact_opt_mem; [assumption|discriminate]|cbv beta].
  destruct f; apply exact_ret.
Qed.

Lemma exact_pce p : wf_pce p -> exact_on parse_pce (enc_pce p) p.
Proof.
  intros (H1 & H2 & (L1 & _) & (L2 & _) & Ln & _ & Hs).
  unfold parse_pce, enc_pce, be. rewrite <- (app_nil_r (p_name p)). rewrite <- ?app_assoc.
  exbs. assert ((p_size p <? 24) = false) as -> by (apply N.ltb_ge; lia).
  eapply exact_bind; [apply exact_get_memN; lia|cbv beta]. destruct p; apply exact_ret.
Qed.

Lemma exact_mru m : wf_mru m -> exact_on parse_mru (enc_mru m) m.
Proof.
  intros (H1 & H2 & H3 & Hl & Hf & Hs).
  unfold parse_mru, enc_mru, be.
  rewrite <- (app_nil_r (flat_map _ (m_list m))). rewrite <- ?app_assoc.
  exbs. rewrite <- Hl.
  eapply exact_bind.
  { apply (exact_read_n (fun pi => lt32 (fst pi) /\ lt32 (snd pi)) _ (fun pi => be_bytes 4 (fst pi) ++ be_bytes 4 (snd pi))); [|assumption].
    intros [a b] [Ha Hb]. cbn [fst snd] in *. rewrite <- (app_nil_r (be_bytes 4 b)). exbs. apply exact_ret. }
  cbv beta. destruct m; apply exact_ret.
Qed.

(* ---- the substructure loop on a truncated callout ---- *)
Lemma peek_short q : (length q < 2)%nat -> Forall (fun b => b < 256) q -> exists t, peek2 q = Some (t, q) /\ t < 256.
Proof.
  intros Hl Hb. unfold peek2. destruct q as [|a [|b q]]; [| |simpl in Hl; lia].
  - exists 0. split; [reflexivity|lia].
  - inversion Hb; subst. exists a. split; [cbn; f_equal; f_equal; lia|assumption].
Qed.

Lemma enc_sub_bytes s : wf_sub s -> Forall (fun b => b < 256) (enc_sub s).
Proof.
  assert (A: forall l, Forall (fun x => x < 128) l -> Forall (fun b => b < 256) l).
  { intros l H. eapply Forall_impl; [|exact H]. cbv beta. intros; lia. }
  destruct s as [f|p|m]; cbn [wf_sub enc_sub]; unfold enc_fru, enc_pce, enc_mru, be.
  - intros (_ & _ & (_ & A1) & (_ & A2) & (_ & A3)). rewrite !Forall_app. repeat split; auto using be_bytes_all_bytes.
  - intros (_ & _ & (_ & A1) & (_ & A2) & _ & A3 & _). rewrite !Forall_app. repeat split; auto using be_bytes_all_bytes.
  - intros _. rewrite !Forall_app. repeat split; auto using be_bytes_all_bytes.
    apply Forall_forall. intros x Hx. apply in_flat_map in Hx. destruct Hx as ([a b] & _ & Hx). cbn [fst snd] in Hx.
    apply in_app_or in Hx. destruct Hx as [Hx|Hx]; [pose proof (be_bytes_all_bytes 4 a) as G|pose proof (be_bytes_all_bytes 4 b) as G];
      rewrite Forall_forall in G; exact (G _ Hx).
Qed.

Lemma strict_prefix_bytes q u : strict_prefix q u -> Forall (fun b => b < 256) u -> Forall (fun b => b < 256) q.
Proof. intros (t & _ & ->) H. apply Forall_app in H. tauto. Qed.

Lemma peek_prefix q u t : (2 <= length q)%nat -> strict_prefix q u -> peek2 u = Some (t, u) -> peek2 q = Some (t, q).
Proof.
  intros Hl (k & _ & ->) H. unfold peek2 in *. destruct q as [|a [|b q]]; simpl in Hl; try lia. cbn in *. inversion H. reflexivity.
Qed.

Theorem parse_subs_trunc : forall ss fuel size cur acc k,
  Forall wf_sub ss -> (length k < 4 * fuel)%nat -> size = cur + subs_size ss ->
  strict_prefix k (flat_map enc_sub ss) ->
  parse_subs fuel size cur acc k = None \/
  exists pre post k', ss = pre ++ post /\ post <> [] /\
    parse_subs fuel size cur acc k = Some (Some (rev acc ++ pre), k') /\ (length k' < 2)%nat.
Proof.
  induction ss as [|s ss IH]; intros fuel size cur acc k W Lf E Hk.
  - exfalso. exact (strict_prefix_nil_r _ Hk).
  - destruct fuel; [lia|]. inversion W as [|? ? Ws Wss]; subst.
    pose proof (sub_size_pos s Ws) as Hp.
    cbn [parse_subs flat_map] in *. unfold subs_size. cbn [fold_right]. fold (subs_size ss).
    assert (cur <? cur + (sub_size s + subs_size ss) = true) as -> by (apply N.ltb_lt; lia).
    apply strict_prefix_app in Hk. destruct Hk as [Hk | (k2 & -> & Hk2)].
    + (* the cut is inside this substructure *)
      destruct (Nat.lt_ge_cases (length k) 2) as [Hs|Hl].
      * right. exists [], (s :: ss), k. split; [reflexivity|]. split; [discriminate|]. split; [|assumption].
        destruct (peek_short k Hs (strict_prefix_bytes _ _ Hk (enc_sub_bytes s Ws))) as (t & Ht & Hb).
        unfold bind at 1. rewrite Ht. cbv beta iota.
        assert ((t =? 18756) = false) as -> by (apply N.eqb_neq; lia).
        assert ((t =? 20549) = false) as -> by (apply N.eqb_neq; lia).
        assert ((t =? 19794) = false) as -> by (apply N.eqb_neq; lia).
        unfold ret. rewrite app_nil_r. reflexivity.
      * left. destruct s as [f|p|m]; cbn [enc_sub] in *.
        -- unfold bind at 1. rewrite (peek_prefix k (enc_fru f) 18756 Hl Hk) by (rewrite <- (app_nil_r (enc_fru f)); apply peek_fru).
           cbv beta iota. change (18756 =? 18756) with true. cbv iota. unfold bind at 1.
           rewrite (proj2 (exact_fru f Ws) k Hk). reflexivity.
        -- unfold bind at 1. rewrite (peek_prefix k (enc_pce p) 20549 Hl Hk) by (rewrite <- (app_nil_r (enc_pce p)); apply peek_pce).
           cbv beta iota. change (20549 =? 18756) with false. change (20549 =? 20549) with true. cbv iota. unfold bind at 1.
           rewrite (proj2 (exact_pce p Ws) k Hk). reflexivity.
        -- unfold bind at 1. rewrite (peek_prefix k (enc_mru m) 19794 Hl Hk) by (rewrite <- (app_nil_r (enc_mru m)); apply peek_mru).
           cbv beta iota. change (19794 =? 18756) with false. change (19794 =? 20549) with false. change (19794 =? 19794) with true. cbv iota.
           unfold bind at 1. rewrite (proj2 (exact_mru m Ws) k Hk). reflexivity.
    + (* this substructure is complete; the cut is further on *)
      pose proof (sub_min_len s) as Hm. rewrite app_length in Lf.
      assert (Hrec: forall cur' acc', cur' = cur + sub_size s ->
                parse_subs fuel (cur + (sub_size s + subs_size ss)) cur' acc' k2 = None \/
                exists pre post k', ss = pre ++ post /\ post <> [] /\
                  parse_subs fuel (cur + (sub_size s + subs_size ss)) cur' acc' k2 = Some (Some (rev acc' ++ pre), k') /\ (length k' < 2)%nat).
      { intros cur' acc' ->. apply IH; [assumption|lia|lia|assumption]. }
      assert (Hstep: forall size0,
                parse_subs (S fuel) size0 cur acc (enc_sub s ++ k2) =
                (if cur <? size0 then parse_subs fuel size0 (cur + sub_size s) (s :: acc) k2 else Some (Some (rev acc), enc_sub s ++ k2))).
      { intros size0. cbn [parse_subs]. destruct (cur <? size0); [|reflexivity].
        destruct s as [f|p|m]; cbn [enc_sub sub_size].
        - unfold bind at 1. rewrite peek_fru. cbv beta iota. change (18756 =? 18756) with true. cbv iota.
          unfold bind at 1. rewrite (proj1 (exact_fru f Ws) k2). reflexivity.
        - unfold bind at 1. rewrite peek_pce. cbv beta iota. change (20549 =? 18756) with false. change (20549 =? 20549) with true. cbv iota.
          unfold bind at 1. rewrite (proj1 (exact_pce p Ws) k2). reflexivity.
        - unfold bind at 1. rewrite peek_mru. cbv beta iota. change (19794 =? 18756) with false. change (19794 =? 20549) with false.
          change (19794 =? 19794) with true. cbv iota.
          unfold bind at 1. rewrite (proj1 (exact_mru m Ws) k2). reflexivity. }
      change (match fuel with O => _ | S _ => _ end) with fuel in *.
      pose proof (Hstep (cur + (sub_size s + subs_size ss))) as Hs. cbn [parse_subs] in Hs.
      assert (cur <? cur + (sub_size s + subs_size ss) = true) as Hlt by (apply N.ltb_lt; lia). rewrite Hlt in Hs.
      rewrite Hs. clear Hs Hstep.
      destruct (Hrec (cur + sub_size s) (s :: acc) eq_refl) as [->|(pre & post & k' & -> & Hpost & -> & Hk')]; [left; reflexivity|].
      right. exists (s :: pre), post, k'. split; [reflexivity|]. split; [assumption|]. split; [|assumption].
      cbn [rev]. rewrite <- app_assoc. reflexivity.
Qed.

(* ---- one callout, the callout list, the SRC body on truncated input ---- *)
Lemma exact_callout_head c : wf_callout c ->
  exact_on callout_head (callout_head_bytes c) (c_size c, c_flags c, c_prio c, c_loc c).
Proof.
  intros W. pose proof W as (H1 & H2 & Hl & Ha & Ws & Sh & Hs & H8).
  unfold callout_head, callout_head_bytes, be.
  assert (N.of_nat (length (c_loc c)) < 256) by lia.
  exbs.
  apply (exact_bind_ret _ (fun loc => (c_size c, c_flags c, c_prio c, loc))).
  destruct (0 <? N.of_nat (length (c_loc c))) eqn:E.
  - apply N.ltb_lt in E. apply exact_get_memN; lia.
  - apply N.ltb_ge in E. assert (length (c_loc c) = 0%nat) by lia. apply len_nil in H0. rewrite H0. apply exact_ret.
Qed.

Lemma shape_prefix pre post : subs_shape (pre ++ post) -> subs_shape pre.
Proof.
  destruct pre as [|[f1|p1|m1] [|[f2|p2|m2] [|[f3|p3|m3] [|? ?]]]]; cbn; try tauto;
    destruct post as [|[f4|p4|m4] [|[f5|p5|m5] [|[f6|p6|m6] [|? ?]]]]; cbn; tauto.
Qed.

Lemma flat_shape (loc : bytes) subs : subs_shape subs ->
  4 + N.of_nat (length loc)
  + match last_fru subs with Some f => fru_flat f | None => 0 end
  + match last_pce subs with Some p => p_size p | None => 0 end
  + match last_mru subs with Some m => m_size m | None => 0 end = 4 + N.of_nat (length loc) + subs_size subs.
Proof.
  intros Sh. destruct subs as [|[f1|p1|m1] [|[f2|p2|m2] [|[f3|p3|m3] [|? ?]]]]; cbn in Sh; try contradiction;
    cbn [last_fru last_pce last_mru fold_left subs_size fold_right sub_size]; unfold fru_flat; lia.
Qed.

Lemma subs_size_app a b : subs_size (a ++ b) = subs_size a + subs_size b.
Proof. induction a as [|s a IH]; cbn; [reflexivity|]. unfold subs_size in *. rewrite IH. lia. Qed.

Lemma subs_size_pos l : Forall wf_sub l -> l <> [] -> 4 <= subs_size l.
Proof.
  intros W Hn. destruct l as [|s l]; [congruence|]. inversion W; subst. cbn. pose proof (sub_size_pos s H1).
  fold (subs_size l). lia.
Qed.

Theorem parse_callout_trunc c q : wf_callout c -> strict_prefix q (enc_callout c) ->
  parse_callout q = None \/
  exists c' q', parse_callout q = Some (Some c', q') /\ (length q' < 2)%nat /\ callout_flat c' < c_size c.
Proof.
  intros W Hq. pose proof W as (H1 & H2 & Hl & Ha & Ws & Sh & Hs & H8).
  destruct (exact_callout_head c W) as [Sh1 Ph1].
  rewrite enc_callout_split in Hq. apply strict_prefix_app in Hq. destruct Hq as [Hq | (k & -> & Hk)].
  - left. unfold parse_callout, bind. rewrite (Ph1 q Hq). reflexivity.
  - assert (Heq: parse_callout (callout_head_bytes c ++ k) =
                 match parse_subs (S (length k)) (c_size c) (4 + N.of_nat (length (c_loc c))) [] k with
                 | Some (Some ss, k') => Some (Some {| c_size := c_size c; c_flags := c_flags c; c_prio := c_prio c; c_loc := c_loc c; c_subs := ss |}, k')
                 | Some (None, k') => Some (None, k')
                 | None => None
                 end).
    { unfold parse_callout. unfold bind at 1. rewrite Sh1. cbv beta iota.
      unfold bind at 1. unfold remaining at 1. cbv beta iota. unfold bind.
      destruct (parse_subs _ _ _ _ k) as [[[ss|] k']|]; reflexivity. }
    rewrite Heq. clear Heq.
    destruct (parse_subs_trunc (c_subs c) (S (length k)) (c_size c) (4 + N.of_nat (length (c_loc c))) [] k Ws ltac:(lia) Hs Hk)
      as [E | (pre & post & k' & Epp & Hpost & E & Hk')]; rewrite E.
    + left. reflexivity.
    + right. cbn [rev app].
      eexists _, k'. split; [reflexivity|]. split; [assumption|].
      unfold callout_flat. cbn [PelTypes.c_loc PelTypes.c_subs].
      rewrite Epp in Sh, Ws, Hs. rewrite (flat_shape (c_loc c) pre (shape_prefix _ _ Sh)).
      rewrite Hs, subs_size_app. apply Forall_app in Ws. destruct Ws as [_ Wpost].
      pose proof (subs_size_pos post Wpost Hpost). lia.
Qed.

Lemma parse_callout_short q : (length q < 4)%nat -> parse_callout q = None.
Proof.
  intros H. unfold parse_callout, callout_head, bind, get_int, bind, get_mem.
  destruct q as [|a [|b [|c [|d q]]]]; simpl in H; try lia; reflexivity.
Qed.

Theorem parse_callout_list_trunc : forall l fuel wlen4 cur acc q,
  Forall wf_callout l -> (length l + 4 <= fuel)%nat -> wlen4 = cur + callouts_size l ->
  strict_prefix q (flat_map enc_callout l) ->
  parse_callout_list fuel wlen4 cur acc q = None.
Proof.
  induction l as [|c l IH]; intros fuel wlen4 cur acc q W Lf E Hq.
  - exfalso. exact (strict_prefix_nil_r _ Hq).
  - destruct fuel as [|fuel]; [simpl in Lf; lia|]. inversion W as [|? ? Wc Wl]; subst.
    assert (4 <= c_size c) by (destruct Wc as (_ & _ & _ & _ & _ & _ & -> & _); lia).
    cbn [parse_callout_list flat_map] in *. unfold callouts_size. cbn [fold_right]. fold (callouts_size l). unfold callout_size.
    assert (cur <? cur + (c_size c + callouts_size l) = true) as -> by (apply N.ltb_lt; lia).
    apply strict_prefix_app in Hq. destruct Hq as [Hq | (k & -> & Hk)].
    + destruct (parse_callout_trunc c q Wc Hq) as [E | (c' & q' & E & Hq' & Hflat)].
      * unfold bind. rewrite E. reflexivity.
      * unfold bind at 1. rewrite E. cbv beta iota.
        destruct fuel as [|fuel]; [simpl in Lf; lia|]. cbn [parse_callout_list].
        assert (cur + callout_flat c' <? cur + (c_size c + callouts_size l) = true) as -> by (apply N.ltb_lt; lia).
        unfold bind. rewrite parse_callout_short by lia. reflexivity.
    + unfold bind at 1. rewrite parse_callout_enc by assumption. cbv beta iota.
      rewrite callout_flat_size by assumption.
      apply IH; [assumption|simpl in Lf; lia|lia|assumption].
Qed.

Lemma exact_callouts cs : wf_callouts cs -> exact_on parse_callouts (enc_callouts cs) (Some cs).
Proof.
  intros W. split; [intros t; apply parse_callouts_enc; assumption|].
  destruct W as (H1 & H2 & H3 & Wl & Hw). intros q Hq.
  unfold enc_callouts in Hq.
  assert (Hhead: exact_on (id <- get_int 1 ;; fl <- get_int 1 ;; wl <- get_int 2 ;; ret (id, fl, wl))
                          (be 1 (cs_id cs) ++ be 1 (cs_flags cs) ++ be 2 (cs_wlen cs)) (cs_id cs, cs_flags cs, cs_wlen cs)).
  { unfold be. rewrite <- (app_nil_r (be_bytes 2 (cs_wlen cs))). rewrite <- ?app_assoc. exbs. apply exact_ret. }
  assert (Hlen: (length (cs_list cs) + 4 <= N.to_nat (cs_wlen cs) + 4)%nat).
  { assert (4 * N.of_nat (length (cs_list cs)) <= callouts_size (cs_list cs)).
    { clear - Wl. induction Wl as [|c l Wc Wl IH]; [simpl; lia|]. unfold callouts_size in *. cbn [fold_right length].
      unfold callout_size at 1. destruct Wc as (_ & _ & _ & _ & _ & _ & -> & _). lia. }
    lia. }
  replace (be 1 (cs_id cs) ++ be 1 (cs_flags cs) ++ be 2 (cs_wlen cs) ++ flat_map enc_callout (cs_list cs))
    with ((be 1 (cs_id cs) ++ be 1 (cs_flags cs) ++ be 2 (cs_wlen cs)) ++ flat_map enc_callout (cs_list cs)) in Hq
    by (rewrite <- !app_assoc; reflexivity).
  apply strict_prefix_app in Hq. destruct Hq as [Hq | (k & -> & Hk)].
  - (* inside the 4-byte subsection header *)
    unfold parse_callouts.
    destruct Hhead as [_ Ph]. specialize (Ph q Hq). unfold bind in *.
    destruct (get_int 1 q) as [[a s1]|]; [|reflexivity].
    destruct (get_int 1 s1) as [[b s2]|]; [|reflexivity].
    destruct (get_int 2 s2) as [[c s3]|]; [|reflexivity]. discriminate.
  - unfold parse_callouts. unfold be. rewrite <- !app_assoc.
    unfold bind at 1. rewrite get_int1 by assumption. cbv beta iota.
    unfold bind at 1. rewrite get_int1 by assumption. cbv beta iota.
    unfold bind at 1. rewrite get_int2 by assumption. cbv beta iota.
    unfold bind at 1. rewrite (parse_callout_list_trunc (cs_list cs)); [reflexivity|assumption|assumption|lia|assumption].
Qed.

Lemma exact_src s : wf_src s -> exact_on parse_src (enc_src s) (Some s).
Proof.
  intros W. split; [intros t; apply parse_src_enc; assumption|].
  destruct W as (H1 & H2 & H3 & Hw & H5 & H6 & Lw & Fw & (La & _) & Hc). intros q Hq.
  assert (s_wcount s < 256) by lia.
  set (fixed := be 1 (s_version s) ++ be 1 (s_flags s) ++ be 1 (s_res1 s) ++ be 1 (s_wcount s) ++ be 2 (s_res2 s) ++ be 2 (s_size s) ++
                flat_map (be 4) (s_words s) ++ s_ascii s).
  assert (Hfixed: exact_on (v <- get_int 1 ;; fl <- get_int 1 ;; r1 <- get_int 1 ;; wc <- get_int 1 ;; r2 <- get_int 2 ;; sz <- get_int 2 ;;
                            ws <- read_n 8 (get_int 4) ;; asc <- get_mem 32 ;; ret (v, fl, r1, wc, r2, sz, ws, asc))
                           fixed (s_version s, s_flags s, s_res1 s, s_wcount s, s_res2 s, s_size s, s_words s, s_ascii s)).
  { unfold fixed, be. exbs.
    eapply exact_bind.
    { rewrite <- Lw. apply (exact_read_n lt32 (get_int 4) (be_bytes 4)); [|assumption]. intros a Ha. apply exact_get_int; sidec. }
    cbv beta.
    apply (exact_bind_ret _ (fun asc => (s_version s, s_flags s, s_res1 s, s_wcount s, s_res2 s, s_size s, s_words s, asc))).
    apply exact_get_mem; sidec. }
  assert (Esplit: enc_src s = fixed ++ match s_callouts s with Some cs => enc_callouts cs | None => [] end).
  { unfold enc_src, fixed. rewrite <- !app_assoc. reflexivity. }
  rewrite Esplit in Hq. apply strict_prefix_app in Hq. destruct Hq as [Hq | (k & -> & Hk)].
  - destruct Hfixed as [_ Ph]. specialize (Ph q Hq). unfold parse_src. unfold bind in *.
    destruct (get_int 1 q) as [[a s1]|]; [|reflexivity].
    destruct (get_int 1 s1) as [[b s2]|]; [|reflexivity].
    destruct (get_int 1 s2) as [[c s3]|]; [|reflexivity].
    destruct (get_int 1 s3) as [[d s4]|]; [|reflexivity].
    destruct (get_int 2 s4) as [[e s5]|]; [|reflexivity].
    destruct (get_int 2 s5) as [[f s6]|]; [|reflexivity].
    destruct (read_n 8 (get_int 4) s6) as [[g s7]|]; [|reflexivity].
    destruct (get_mem 32 s7) as [[h s8]|]; [|reflexivity]. discriminate.
  - destruct Hfixed as [Sf _]. unfold parse_src.
    assert (Hpre: forall K : N -> N -> N -> N -> N -> N -> list N -> bytes -> reader (option src_t),
              (v <- get_int 1 ;; fl <- get_int 1 ;; r1 <- get_int 1 ;; wc <- get_int 1 ;; r2 <- get_int 2 ;; sz <- get_int 2 ;;
               ws <- read_n 8 (get_int 4) ;; asc <- get_mem 32 ;; K v fl r1 wc r2 sz ws asc) (fixed ++ k)
              = K (s_version s) (s_flags s) (s_res1 s) (s_wcount s) (s_res2 s) (s_size s) (s_words s) (s_ascii s) k).
    { intros K. specialize (Sf k). unfold bind in *.
      destruct (get_int 1 (fixed ++ k)) as [[a s1]|]; [|discriminate].
      destruct (get_int 1 s1) as [[b s2]|]; [|discriminate].
      destruct (get_int 1 s2) as [[c s3]|]; [|discriminate].
      destruct (get_int 1 s3) as [[d s4]|]; [|discriminate].
      destruct (get_int 2 s4) as [[e s5]|]; [|discriminate].
      destruct (get_int 2 s5) as [[f s6]|]; [|discriminate].
      destruct (read_n 8 (get_int 4) s6) as [[g s7]|]; [|discriminate].
      destruct (get_mem 32 s7) as [[h s8]|]; [|discriminate]. unfold ret in Sf. inversion Sf; subst. reflexivity. }
    rewrite (Hpre (fun v fl r1 wc r2 sz ws asc =>
      if 9 <? wc then fail else if has fl HeaderFlags_additionalSections then
        cs <- parse_callouts ;; match cs with None => ret None | Some cs => ret (Some {| s_version := v; s_flags := fl; s_res1 := r1; s_wcount := wc; s_res2 := r2; s_size := sz; s_words := ws; s_ascii := asc; s_callouts := Some cs |}) end
      else ret (Some {| s_version := v; s_flags := fl; s_res1 := r1; s_wcount := wc; s_res2 := r2; s_size := sz; s_words := ws; s_ascii := asc; s_callouts := None |}))).
    assert ((9 <? s_wcount s) = false) as -> by (apply N.ltb_ge; lia).
    destruct flags_agree as (_ & _ & _ & _ & ->). rewrite has_flag.
    destruct (s_callouts s) as [cs|] eqn:Ec.
    + destruct Hc as [Hf Wc]. rewrite Hf. unfold bind. rewrite (proj2 (exact_callouts cs Wc) k Hk). reflexivity.
    + exfalso. exact (strict_prefix_nil_r _ Hk).
Qed.
