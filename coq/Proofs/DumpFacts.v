(* Lemmas for C17 (I/O-drawer dump partition). *)
From Coq Require Import List NArith Bool Arith Lia Sorted Permutation.
From PV Require Import Base.Bytes Base.Lit Base.Utf8 Model.Hexdump Spec.DumpFormats Model.Ilog Model.Trace Model.Dump
                       Spec.DumpSpec Gen.Tables Proofs.HexdumpFacts Proofs.HexdumpRoundtrip Proofs.TraceFacts.
From PV Require Proofs.IlogFacts.
Import ListNotations.
Open Scope N_scope.

(* ------------------------------------------------------------------------------------------- *)
(* the constants *)
Lemma patterns_agree :
  TRACE_BUFFER_HEADER_START = spec_header_start /\
  TraceBufferHeader_BUFFER_NAMES = spec_buffer_names /\
  header_patterns = spec_patterns /\
  DIVIDER_LINE = spec_divider /\
  HEX_DUMP_LINE_FORMATS = [fmt1; fmt2].
Proof. repeat split; vm_compute; reflexivity. Qed.

Lemma header_patterns_eq : header_patterns = spec_patterns.  Proof. apply patterns_agree. Qed.
Lemma divider_eq : DIVIDER_LINE = spec_divider.               Proof. apply patterns_agree. Qed.
Lemma formats_eq : HEX_DUMP_LINE_FORMATS = [fmt1; fmt2].      Proof. apply patterns_agree. Qed.

Lemma spec_patterns_shape :
  separated spec_patterns = true /\ no_overlap spec_patterns = true /\
  Forall (fun p => length p = 8%nat) spec_patterns /\ length spec_patterns = 6%nat.
Proof. split; [|split; [|split]]; try (vm_compute; reflexivity). repeat constructor. Qed.

(* ------------------------------------------------------------------------------------------- *)
(* occurrences *)
Lemma prefixb_spec p : forall s, prefixb p s = true <-> exists rest, s = p ++ rest.
Proof.
  induction p as [|x p IH]; intros s; simpl.
  - split; [intros _; exists s; reflexivity | reflexivity].
  - destruct s as [|y s].
    + split; [discriminate | intros [r H]; discriminate].
    + rewrite andb_true_iff, N.eqb_eq, IH. split.
      * intros [-> [r ->]]. exists r. reflexivity.
      * intros [r H]. injection H as -> ->. split; eauto.
Qed.

Lemma starts_with_prefixb p : forall s, starts_with p s = prefixb p s.
Proof. reflexivity. Qed.       (* the two definitions are the same fixpoint, written twice *)

Lemma starts_with_spec p s : starts_with p s = true <-> exists rest, s = p ++ rest.
Proof. rewrite starts_with_prefixb. apply prefixb_spec. Qed.

Lemma occurs_at_skipn p d i : occurs_at p d i <-> (i <= length d)%nat /\ exists rest, skipn i d = p ++ rest.
Proof.
  split.
  - intros (pre & post & -> & <-). split.
    + rewrite app_length. lia.
    + exists post. rewrite skipn_app, skipn_all, Nat.sub_diag. reflexivity.
  - intros (Hi & rest & E). exists (firstn i d), rest. split.
    + rewrite <- E. symmetry. apply firstn_skipn.
    + apply firstn_length_le. exact Hi.
Qed.

Lemma occurs_at_bound p d i : occurs_at p d i -> (i + length p <= length d)%nat.
Proof. intros (pre & post & -> & <-). rewrite !app_length. lia. Qed.

Lemma occursb_spec p d i : occursb p d i = true <-> occurs_at p d i.
Proof.
  unfold occursb. rewrite andb_true_iff, Nat.leb_le, starts_with_spec. symmetry. apply occurs_at_skipn.
Qed.

Lemma occurs_at_0 p s : occurs_at p s 0 <-> exists rest, s = p ++ rest.
Proof.
  split.
  - intros (pre & post & -> & H). destruct pre; [|discriminate]. exists post. reflexivity.
  - intros (rest & ->). exists [], rest. split; reflexivity.
Qed.

Lemma occurs_at_cons p y t j : occurs_at p (y :: t) (S j) <-> occurs_at p t j.
Proof.
  split.
  - intros (pre & post & E & H). destruct pre as [|x pre]; [discriminate|]. simpl in E, H.
    injection E as _ E. injection H as H. exists pre, post. auto.
  - intros (pre & post & -> & <-). exists (y :: pre), post. split; reflexivity.
Qed.

Lemma occurs_same_place p q d i : occurs_at p d i -> occurs_at q d i -> length p = length q -> p = q.
Proof.
  intros Hp Hq L. apply occurs_at_skipn in Hp. apply occurs_at_skipn in Hq.
  destruct Hp as (_ & r1 & E1). destruct Hq as (_ & r2 & E2). rewrite E1 in E2.
  apply (app_eq_len p q r1 r2 L E2).
Qed.

(* bytes.find *)
Lemma find_from_spec p : forall s i,
  match find_from p s i with
  | Some k => exists j, k = (i + j)%nat /\ occurs_at p s j /\ forall j', occurs_at p s j' -> (j <= j')%nat
  | None => forall j, ~ occurs_at p s j
  end.
Proof.
  induction s as [|y t IH]; intros i; cbn [find_from]; destruct (prefixb p _) eqn:E.
  - exists 0%nat. split; [lia|]. split; [apply occurs_at_0, prefixb_spec, E | intros; lia].
  - intros j (pre & post & H & _). destruct pre; [|discriminate]. destruct p; [discriminate E | discriminate H].
  - exists 0%nat. split; [lia|]. split; [apply occurs_at_0, prefixb_spec, E | intros; lia].
  - specialize (IH (S i)). destruct (find_from p t (S i)) as [k|].
    + destruct IH as (j & -> & Ho & Hmin). exists (S j). split; [lia|]. split; [apply occurs_at_cons, Ho|].
      intros [|j'] Hj'.
      * apply (proj1 (occurs_at_0 p (y :: t))), prefixb_spec in Hj'. congruence.
      * apply (proj1 (occurs_at_cons p y t j')), Hmin in Hj'. lia.
    + intros [|j] Hj.
      * apply (proj1 (occurs_at_0 p (y :: t))), prefixb_spec in Hj. congruence.
      * apply (proj1 (occurs_at_cons p y t j)) in Hj. exact (IH j Hj).
Qed.

Lemma first_at_unique p d i j : first_at p d i -> first_at p d j -> i = j.
Proof. intros [H1 M1] [H2 M2]. apply Nat.le_antisymm; auto. Qed.

Lemma find_first p d i : find p d = Some i <-> first_at p d i.
Proof.
  unfold find. pose proof (find_from_spec p d 0) as H. destruct (find_from p d 0) as [k|].
  - destruct H as (j & -> & Ho & Hmin). simpl. split.
    + intros E. injection E as <-. split; assumption.
    + intros F. f_equal. apply (first_at_unique p d); [split; assumption | exact F].
  - split; [discriminate | intros [Ho _]; exfalso; exact (H i Ho)].
Qed.

Lemma find_none p d : find p d = None <-> forall j, ~ occurs_at p d j.
Proof.
  unfold find. pose proof (find_from_spec p d 0) as H. destruct (find_from p d 0) as [k|].
  - destruct H as (j & _ & Ho & _). split; [discriminate | intros N; exfalso; exact (N j Ho)].
  - split; auto.
Qed.

Lemma occurs_has_first p d j : occurs_at p d j -> exists i, first_at p d i /\ (i <= j)%nat.
Proof.
  intros Hj. destruct (find p d) as [i|] eqn:E.
  - apply find_first in E. exists i. split; [exact E | apply E, Hj].
  - exfalso. exact (proj1 (find_none p d) E j Hj).
Qed.

Lemma firstb_spec p d i : firstb p d i = true <-> first_at p d i.
Proof.
  unfold firstb, first_at. rewrite andb_true_iff, occursb_spec, forallb_forall. split.
  - intros [Ho Hn]. split; [exact Ho|]. intros j Hj. destruct (Nat.le_gt_cases i j) as [|Lt]; [assumption|].
    exfalso. assert (In j (seq 0 i)) as Hin by (apply in_seq; lia).
    apply Hn in Hin. apply occursb_spec in Hj. rewrite Hj in Hin. discriminate.
  - intros [Ho Hmin]. split; [exact Ho|]. intros j Hin. apply in_seq in Hin.
    destruct (occursb p d j) eqn:E; [|reflexivity]. apply occursb_spec, Hmin in E. lia.
Qed.

Lemma recognisedb_spec pats d i : recognisedb pats d i = true <-> recognised pats d i.
Proof.
  unfold recognisedb, recognised. rewrite existsb_exists. split; intros (p & Hp & H); exists p; (split; [exact Hp|]);
    apply firstb_spec; exact H.
Qed.

(* ------------------------------------------------------------------------------------------- *)
(* sorted() *)
Lemma insert_perm x l : Permutation (x :: l) (insert x l).
Proof.
  induction l as [|y t IH]; simpl; [reflexivity|]. destruct (Nat.leb x y); [reflexivity|].
  rewrite perm_swap. constructor. exact IH.
Qed.

Lemma sorted_perm l : Permutation l (sorted l).
Proof. induction l as [|x t IH]; simpl; [constructor|]. rewrite <- insert_perm. constructor. exact IH. Qed.

Lemma insert_sorted x l : StronglySorted le l -> StronglySorted le (insert x l).
Proof.
  induction 1 as [|y t Ht IH Hy]; simpl; [repeat constructor|].
  destruct (Nat.leb x y) eqn:E.
  - apply Nat.leb_le in E. constructor; [constructor; assumption|]. constructor; [exact E|].
    eapply Forall_impl; [|exact Hy]. intros; lia.
  - apply Nat.leb_gt in E. constructor; [exact IH|].
    eapply Permutation_Forall; [apply insert_perm|]. constructor; [lia | exact Hy].
Qed.

Lemma sorted_sorted l : StronglySorted le (sorted l).
Proof. induction l; simpl; [constructor | apply insert_sorted; assumption]. Qed.

Lemma sorted_in l x : In x (sorted l) <-> In x l.
Proof. split; apply Permutation_in; [symmetry|]; apply sorted_perm. Qed.

Lemma sorted_strict l : StronglySorted le l -> NoDup l -> StronglySorted lt l.
Proof.
  induction 1 as [|y t Ht IH Hy]; intros ND; [constructor|]. inversion ND as [|? ? Hnin ND']; subst.
  constructor; [auto|]. rewrite Forall_forall in *. intros z Hz. specialize (Hy z Hz).
  assert (y <> z) by (intros ->; contradiction). lia.
Qed.

Lemma lt_sorted_unique : forall l1 l2, StronglySorted lt l1 -> StronglySorted lt l2 ->
  (forall x, In x l1 <-> In x l2) -> l1 = l2.
Proof.
  induction l1 as [|a l1 IH]; intros [|b l2] S1 S2 H.
  - reflexivity.
  - exfalso. apply (proj2 (H b)). left; reflexivity.
  - exfalso. apply (proj1 (H a)). left; reflexivity.
  - apply StronglySorted_inv in S1. apply StronglySorted_inv in S2. destruct S1 as [S1 F1]. destruct S2 as [S2 F2].
    rewrite Forall_forall in F1, F2.
    assert (a = b) as ->.
    { destruct (proj1 (H a) (or_introl eq_refl)) as [E|Ha]; [auto|].
      destruct (proj2 (H b) (or_introl eq_refl)) as [E|Hb]; [auto|].
      specialize (F1 b Hb). specialize (F2 a Ha). lia. }
    f_equal. apply IH; try assumption. intros x. split; intros Hx.
    + destruct (proj1 (H x) (or_intror Hx)) as [E|]; [|assumption]. rewrite <- E in Hx. specialize (F1 b Hx). lia.
    + destruct (proj2 (H x) (or_intror Hx)) as [E|]; [|assumption]. rewrite <- E in Hx. specialize (F2 b Hx). lia.
Qed.

Lemma seq_sorted : forall n a, StronglySorted lt (seq a n).
Proof.
  induction n as [|n IH]; intros a; simpl; constructor; [apply IH|].
  apply Forall_forall. intros x Hx. apply in_seq in Hx. lia.
Qed.

Lemma filter_sorted {A} (R : A -> A -> Prop) f : forall l, StronglySorted R l -> StronglySorted R (filter f l).
Proof.
  induction 1 as [|x t Ht IH Hx]; simpl; [constructor|]. destruct (f x); [|exact IH].
  constructor; [exact IH|]. rewrite Forall_forall in *. intros y Hy. apply filter_In in Hy. apply Hx, Hy.
Qed.

(* ------------------------------------------------------------------------------------------- *)
(* the offsets: model = specification *)
Lemma spec_offsets_sorted pats d : StronglySorted lt (spec_offsets pats d).
Proof. apply filter_sorted, seq_sorted. Qed.

Lemma spec_offsets_in pats d i : In i (spec_offsets pats d) <-> recognised pats d i.
Proof.
  unfold spec_offsets. rewrite filter_In, recognisedb_spec, in_seq. split; [tauto|].
  intros R. split; [|exact R]. destruct R as (p & _ & Ho & _). apply occurs_at_bound in Ho. lia.
Qed.

Lemma spec_offsets_bound pats d : Forall (fun o => (o <= length d)%nat) (spec_offsets pats d).
Proof. apply Forall_forall. intros o Ho. apply filter_In in Ho. destruct Ho as [Ho _]. apply in_seq in Ho. lia. Qed.

Lemma buffer_offsets_in pats d i : In i (buffer_offsets pats d) <-> recognised pats d i.
Proof.
  unfold buffer_offsets, recognised. rewrite in_flat_map. split; intros (p & Hp & H); exists p; (split; [exact Hp|]).
  - apply find_first. destruct (find p d) as [k|]; [|contradiction]. destruct H as [->|[]]. reflexivity.
  - apply find_first in H. rewrite H. left. reflexivity.
Qed.

Lemma separated_cons p t : separated (p :: t) = true ->
  (forall q, In q t -> p <> q /\ length q = length p) /\ separated t = true.
Proof.
  unfold separated. cbn [pairwise_distinct same_length]. rewrite !andb_true_iff, !forallb_forall.
  intros [[Hd Hp] Hl]. split.
  - intros q Hq. split.
    + intros ->. specialize (Hd q Hq). assert (text_eqb q q = true) as E.
      { clear. induction q; simpl; [reflexivity|]. rewrite N.eqb_refl. assumption. }
      rewrite E in Hd. discriminate.
    + apply Nat.eqb_eq, Hl, Hq.
  - split; [exact Hp|]. destruct t as [|q t]; [reflexivity|]. cbn [same_length]. apply forallb_forall.
    intros r Hr. apply Nat.eqb_eq. pose proof (Hl q (or_introl eq_refl)) as E1. pose proof (Hl r (or_intror Hr)) as E2.
    apply Nat.eqb_eq in E1, E2. congruence.
Qed.

Lemma buffer_offsets_nodup : forall pats d, separated pats = true -> NoDup (buffer_offsets pats d).
Proof.
  induction pats as [|p t IH]; intros d S; [constructor|].
  apply separated_cons in S. destruct S as [Hp St]. specialize (IH d St).
  unfold buffer_offsets in *. cbn [flat_map]. destruct (find p d) as [i|] eqn:E; [|exact IH].
  cbn [app]. constructor; [|exact IH]. intros Hin. apply in_flat_map in Hin. destruct Hin as (q & Hq & Hi).
  destruct (find q d) as [k|] eqn:E2; [|contradiction]. destruct Hi as [->|[]].
  apply find_first in E. apply find_first in E2. destruct (Hp q Hq) as [Ne L]. apply Ne.
  apply (occurs_same_place p q d i); [apply E | apply E2 | congruence].
Qed.

Theorem dump_offsets_spec pats d : separated pats = true -> dump_offsets pats d = spec_offsets pats d.
Proof.
  intros S. apply lt_sorted_unique.
  - apply sorted_strict; [apply sorted_sorted|]. eapply Permutation_NoDup; [apply sorted_perm|].
    apply buffer_offsets_nodup, S.
  - apply spec_offsets_sorted.
  - intros x. unfold dump_offsets. rewrite sorted_in, buffer_offsets_in, spec_offsets_in. reflexivity.
Qed.

(* without the side condition the model's offsets are still sorted and are exactly the recognised ones *)
Lemma dump_offsets_sorted pats d : StronglySorted le (dump_offsets pats d).
Proof. apply sorted_sorted. Qed.
Lemma dump_offsets_in pats d i : In i (dump_offsets pats d) <-> recognised pats d i.
Proof. unfold dump_offsets. rewrite sorted_in. apply buffer_offsets_in. Qed.

(* ------------------------------------------------------------------------------------------- *)
(* the regions: model = specification; partition *)
Lemma trace_slices_spec d : forall offs,
  trace_slices d offs = map (piece d) (combine offs (tl (offs ++ [length d]))).
Proof.
  induction offs as [|b t IH]; [reflexivity|]. cbn [trace_slices app tl]. rewrite IH.
  destruct t as [|e t']; reflexivity.
Qed.

Lemma ilog_slice_spec d offs : ilog_slice d offs = firstn (hd (length d) offs) d.
Proof. unfold ilog_slice, slice, end_of. rewrite Nat.sub_0_r. destruct offs; reflexivity. Qed.

Lemma slices_concat d : forall offs b, StronglySorted le (b :: offs) ->
  concat (trace_slices d (b :: offs)) = skipn b d.
Proof.
  induction offs as [|e t IH]; intros b S.
  - cbn [trace_slices concat end_of]. rewrite app_nil_r. unfold slice. apply firstn_all2.
    rewrite skipn_length. lia.
  - apply StronglySorted_inv in S. destruct S as [S F]. inversion F as [|? ? Hbe _]; subst.
    change (trace_slices d (b :: e :: t)) with (slice d b e :: trace_slices d (e :: t)).
    cbn [concat]. rewrite (IH e S). unfold slice.
    replace (skipn e d) with (skipn (e - b) (skipn b d)) by (rewrite skipn_skipn'; f_equal; lia).
    apply firstn_skipn.
Qed.

Theorem slices_partition d offs : StronglySorted le offs ->
  concat (firstn (hd (length d) offs) d :: trace_slices d offs) = d.
Proof.
  intros S. cbn [concat]. destruct offs as [|b t].
  - cbn [hd trace_slices concat]. rewrite app_nil_r. apply firstn_all.
  - rewrite slices_concat by assumption. apply firstn_skipn.
Qed.

Lemma lt_le_sorted l : StronglySorted lt l -> StronglySorted le l.
Proof.
  induction 1; constructor; [assumption|]. eapply Forall_impl; [|eassumption]. intros; lia.
Qed.

Theorem regions_partition pats d : concat (ilog_region pats d :: trace_regions pats d) = d.
Proof.
  unfold ilog_region, trace_regions. rewrite <- trace_slices_spec.
  apply slices_partition, lt_le_sorted, spec_offsets_sorted.
Qed.

(* the model's own regions partition the dump for ANY pattern list (duplicates included) *)
Theorem model_regions_partition pats d :
  concat (ilog_slice d (dump_offsets pats d) :: trace_slices d (dump_offsets pats d)) = d.
Proof. rewrite ilog_slice_spec. apply slices_partition, dump_offsets_sorted. Qed.

(* ------------------------------------------------------------------------------------------- *)
(* address order; every trace region begins with its header *)
Lemma nth_error_combine {A B} : forall (l1 : list A) (l2 : list B) k,
  nth_error (combine l1 l2) k =
  match nth_error l1 k, nth_error l2 k with Some a, Some b => Some (a, b) | _, _ => None end.
Proof.
  induction l1 as [|a l1 IH]; intros l2 k.
  - destruct k; reflexivity.
  - destruct l2 as [|b l2]; destruct k; simpl; try reflexivity.
    + destruct (nth_error l1 k); reflexivity.
    + apply IH.
Qed.

Lemma nth_error_next (offs : list nat) len k o : nth_error offs k = Some o ->
  nth_error (tl (offs ++ [len])) k = Some (nth (S k) offs len).
Proof.
  revert k. induction offs as [|a t IH]; intros k H; [destruct k; discriminate|].
  cbn [app tl]. destruct k as [|k].
  - destruct t; reflexivity.
  - simpl in H. destruct t as [|b t']; [destruct k; discriminate|].
    exact (IH k H).
Qed.

Lemma region_nth pats d k o : nth_error (spec_offsets pats d) k = Some o ->
  nth_error (trace_regions pats d) k = Some (piece d (o, nth (S k) (spec_offsets pats d) (length d))).
Proof.
  intros H. unfold trace_regions. rewrite nth_error_map, nth_error_combine, H, (nth_error_next _ _ _ _ H). reflexivity.
Qed.

Lemma trace_regions_length pats d : length (trace_regions pats d) = length (spec_offsets pats d).
Proof.
  unfold trace_regions. rewrite map_length, combine_length. destruct (spec_offsets pats d) as [|a t]; [reflexivity|].
  change (tl ((a :: t) ++ [length d])) with (t ++ [length d]). rewrite app_length. cbn [length]. lia.
Qed.

Lemma sorted_nth_lt (l : list nat) : StronglySorted lt l -> forall i j a b, (i < j)%nat ->
  nth_error l i = Some a -> nth_error l j = Some b -> (a < b)%nat.
Proof.
  induction 1 as [|x t Ht IH Hx]; intros i j a b Lt Hi Hj; [destruct i; discriminate|].
  destruct j as [|j]; [lia|]. simpl in Hj. destruct i as [|i].
  - injection Hi as <-. rewrite Forall_forall in Hx. apply Hx. eapply nth_error_In, Hj.
  - simpl in Hi. apply (IH i j); [lia|assumption|assumption].
Qed.

Lemma app_eq_starts (a b x y : bytes) : a ++ x = b ++ y -> starts_with a b = true \/ starts_with b a = true.
Proof.
  revert b. induction a as [|c a IH]; intros b E.
  - left. reflexivity.
  - destruct b as [|e b]; [right; reflexivity|]. simpl in E. injection E as -> E. simpl. rewrite N.eqb_refl. simpl.
    apply IH, E.
Qed.

Lemma forallb_true {A} (f : A -> bool) l x : forallb f l = true -> In x l -> f x = true.
Proof. intros H. apply (proj1 (forallb_forall f l) H). Qed.

(* with non-overlapping patterns, two occurrences that start at different places do not share bytes *)
Lemma occurrences_apart pats p q d o e : no_overlap pats = true -> In p pats -> In q pats ->
  occurs_at p d o -> occurs_at q d e -> (o < e)%nat -> (o + length p <= e)%nat.
Proof.
  intros NO Hp Hq Ho He Lt. destruct (Nat.le_gt_cases (o + length p) e) as [|Gt]; [assumption|exfalso].
  apply occurs_at_skipn in Ho. apply occurs_at_skipn in He. destruct Ho as (_ & r1 & E1). destruct He as (_ & r2 & E2).
  set (k := (e - o)%nat).
  assert (skipn e d = skipn k p ++ r1) as E3.
  { replace e with (o + k)%nat by (unfold k; lia). rewrite <- skipn_skipn', E1, skipn_app.
    replace (k - length p)%nat with 0%nat by (unfold k; lia). reflexivity. }
  rewrite E2 in E3. symmetry in E3. apply app_eq_starts in E3.
  unfold no_overlap in NO. pose proof (forallb_true _ _ p NO Hp) as NO1. cbv beta in NO1.
  pose proof (forallb_true _ _ q NO1 Hq) as NO2. cbv beta in NO2.
  assert (In k (seq 1 (length p - 1))) as Hk by (apply in_seq; unfold k; lia).
  pose proof (forallb_true _ _ k NO2 Hk) as NO3. cbv beta in NO3. unfold clash in NO3.
  destruct E3 as [E|E]; rewrite E in NO3; [|rewrite orb_true_r in NO3]; discriminate.
Qed.

Theorem regions_order pats d : no_overlap pats = true ->
  let offs := spec_offsets pats d in
  StronglySorted lt offs /\
  (forall i, In i offs <-> recognised pats d i) /\
  length (trace_regions pats d) = length offs /\
  forall k o, nth_error offs k = Some o ->
    exists p rest, In p pats /\ first_at p d o /\
      nth_error (trace_regions pats d) k = Some (p ++ rest) /\
      p ++ rest = firstn (nth (S k) offs (length d) - o) (skipn o d).
Proof.
  intros NO offs. split; [apply spec_offsets_sorted|]. split; [apply spec_offsets_in|].
  split; [apply trace_regions_length|]. intros k o Hk.
  pose proof (proj1 (spec_offsets_in pats d o) (nth_error_In _ _ Hk)) as (p & Hp & Fo).
  assert (o + length p <= nth (S k) offs (length d))%nat as Hend.
  { destruct (nth_error offs (S k)) as [e|] eqn:Hn.
    - rewrite (nth_error_nth _ _ _ Hn).
      pose proof (proj1 (spec_offsets_in pats d e) (nth_error_In _ _ Hn)) as (q & Hq & Fe).
      apply (occurrences_apart pats p q d); try assumption; [apply Fo | apply Fe|].
      apply (sorted_nth_lt offs (spec_offsets_sorted pats d) k (S k)); [lia|assumption|assumption].
    - apply nth_error_None in Hn. rewrite nth_overflow by exact Hn. apply occurs_at_bound, Fo. }
  pose proof (proj1 (occurs_at_skipn p d o) (proj1 Fo)) as (_ & r & Er).
  exists p, (firstn (nth (S k) offs (length d) - o - length p) r).
  split; [exact Hp|]. split; [exact Fo|].
  assert (piece d (o, nth (S k) offs (length d)) = p ++ firstn (nth (S k) offs (length d) - o - length p) r) as E.
  { unfold piece. cbn [fst snd]. rewrite Er, firstn_app. f_equal. apply firstn_all2. lia. }
  split.
  - rewrite <- E. apply region_nth, Hk.
  - rewrite <- E. reflexivity.
Qed.

(* ------------------------------------------------------------------------------------------- *)
(* the ILOG region comes first and holds no header *)
Lemma sorted_hd_le (l : list nat) dflt x : StronglySorted le l -> In x l -> (hd dflt l <= x)%nat.
Proof.
  intros S Hx. destruct l as [|a t]; [contradiction|]. apply StronglySorted_inv in S. destruct S as [_ F].
  rewrite Forall_forall in F. destruct Hx as [->|Hx]; [simpl; lia | apply F, Hx].
Qed.

Theorem ilog_region_first pats d :
  let m := hd (length d) (spec_offsets pats d) in
  ilog_region pats d = firstn m d /\
  (m <= length d)%nat /\
  (forall i, recognised pats d i -> (m <= i)%nat) /\
  (forall p j, In p pats -> occurs_at p d j -> (m <= j)%nat) /\
  (forall p j, In p pats -> p <> [] -> ~ occurs_at p (ilog_region pats d) j).
Proof.
  intros m.
  assert (Hrec: forall i, recognised pats d i -> (m <= i)%nat).
  { intros i R. apply sorted_hd_le; [apply lt_le_sorted, spec_offsets_sorted | apply spec_offsets_in, R]. }
  assert (Hocc: forall p j, In p pats -> occurs_at p d j -> (m <= j)%nat).
  { intros p j Hp Hj. destruct (occurs_has_first p d j Hj) as (i & Fi & Le).
    assert (m <= i)%nat by (apply Hrec; exists p; auto). lia. }
  assert (Hm: (m <= length d)%nat).
  { unfold m. pose proof (spec_offsets_bound pats d) as B. destruct (spec_offsets pats d); simpl; [lia|].
    inversion B; assumption. }
  split; [reflexivity|]. split; [exact Hm|]. split; [exact Hrec|]. split; [exact Hocc|].
  intros p j Hp Ne (pre & post & E & L). unfold ilog_region in E. fold m in E.
  assert (occurs_at p d j) as Hd.
  { exists pre, (post ++ skipn m d). split; [|exact L].
    rewrite <- (firstn_skipn m d) at 1. rewrite E, <- !app_assoc. reflexivity. }
  apply (Hocc p j Hp) in Hd.
  assert (length (firstn m d) = length (pre ++ p ++ post)) as EL by (rewrite E; reflexivity).
  rewrite firstn_length_le, !app_length in EL by exact Hm.
  destruct p; [congruence|]. simpl in EL. lia.
Qed.

(* ------------------------------------------------------------------------------------------- *)
(* the report *)
Lemma block_section t b : block t b = section t b.
Proof. unfold block, section. rewrite divider_eq. reflexivity. Qed.

Theorem parse_dump_with_spec pats ptes strs d : separated pats = true ->
  parse_dump_with pats ptes strs d = spec_dump pats ptes strs d.
Proof.
  intros S. unfold parse_dump_with, spec_dump. destruct d as [|b d]; [reflexivity|].
  rewrite (dump_offsets_spec pats (b :: d) S), ilog_slice_spec, trace_slices_spec.
  fold (ilog_region pats (b :: d)). fold (trace_regions pats (b :: d)).
  reflexivity.       (* [block] and [section] differ only in the divider constant, equal by computation (divider_eq) *)
Qed.

Theorem parse_dump_spec ptes strs d : parse_dump ptes strs d = spec_dump spec_patterns ptes strs d.
Proof.
  unfold parse_dump. rewrite header_patterns_eq. apply parse_dump_with_spec, spec_patterns_shape.
Qed.

Lemma parse_dump_empty ptes strs : parse_dump ptes strs [] = DumpOk [].
Proof. reflexivity. Qed.

(* the outcome is decided by the stand-alone decoders alone *)
Theorem parse_dump_total ptes strs d : parse_dump ptes strs d <> DumpRaise /\ parse_dump ptes strs d <> DumpOutOfFuel.
Proof.
  unfold parse_dump, parse_dump_with. destruct d as [|b d]; [split; discriminate|].
  pose proof (IlogFacts.parse_ilog_total ptes (ilog_slice (b :: d) (dump_offsets header_patterns (b :: d)))) as [H1 H2].
  destruct (parse_ilog _ _); try congruence; [|split; discriminate].
  destruct (forallb _ _); split; discriminate.
Qed.

(* ------------------------------------------------------------------------------------------- *)
(* one pass per region (the extracted binary) *)
Lemma trace_blocks_fast_eq strs : forall regs,
  trace_blocks_fast strs regs =
  (forallb (trace_supported strs) regs, flat_map (fun r => trace_block (parse_trace strs r)) regs).
Proof.
  induction regs as [|r t IH]; [reflexivity|]. cbn [trace_blocks_fast forallb flat_map].
  rewrite IH, trace_fast_eq. reflexivity.
Qed.

Theorem dump_fast_eq pats ptes strs d : dump_fast pats ptes strs d = parse_dump_with pats ptes strs d.
Proof.
  unfold dump_fast, parse_dump_with. destruct d as [|b d]; [reflexivity|].
  destruct (parse_ilog _ _); try reflexivity. rewrite trace_blocks_fast_eq. reflexivity.
Qed.

(* ------------------------------------------------------------------------------------------- *)
(* dump files *)
Lemma parse_fmt1_render2 dig d : good_dig dig -> Forall (fun b => b < 256) d -> parse fmt1 (render2 dig d) = [].
Proof.
  intros G Hd. unfold parse, render2. rewrite flat_map_concat_map, map_map.
  pose proof (chunk_blocks_bytes 16 d ltac:(lia) Hd) as Hb.
  induction Hb as [|l t [H1 H2] Hb IH]; [reflexivity|]. cbn [map concat].
  rewrite fmt1_rejects_render2_line; [exact IH | exact G | destruct l; [simpl in H1; lia | discriminate] | exact H2].
Qed.

Lemma first_nonempty_here f t lines : parse f lines <> [] -> first_nonempty (f :: t) lines = parse f lines.
Proof. intros H. cbn [first_nonempty]. destruct (parse f lines); [congruence|reflexivity]. Qed.
Lemma first_nonempty_skip f t lines : parse f lines = [] -> first_nonempty (f :: t) lines = first_nonempty t lines.
Proof. intros H. cbn [first_nonempty]. rewrite H. reflexivity. Qed.

Lemma parse_dump_file_of ptes strs lines d : first_nonempty HEX_DUMP_LINE_FORMATS lines = d ->
  parse_dump_file ptes strs lines = parse_dump ptes strs d.
Proof. intros E. unfold parse_dump_file. rewrite E. destruct d; reflexivity. Qed.

Theorem parse_dump_file_render1 ptes strs dig d : good_dig dig -> Forall (fun b => b < 256) d ->
  parse_dump_file ptes strs (render1 dig d) = parse_dump ptes strs d.
Proof.
  intros G Hd. apply parse_dump_file_of. rewrite formats_eq.
  pose proof (render1_roundtrip dig d G Hd) as R. destruct d as [|b d].
  - reflexivity.
  - rewrite first_nonempty_here; rewrite R; [reflexivity|discriminate].
Qed.

Theorem parse_dump_file_render2 ptes strs dig d : good_dig dig -> Forall (fun b => b < 256) d ->
  parse_dump_file ptes strs (render2 dig d) = parse_dump ptes strs d.
Proof.
  intros G Hd. apply parse_dump_file_of. rewrite formats_eq.
  rewrite first_nonempty_skip by (apply parse_fmt1_render2; assumption).
  pose proof (render2_roundtrip dig d G Hd) as R. destruct d as [|b d].
  - reflexivity.
  - rewrite first_nonempty_here; rewrite R; [reflexivity|discriminate].
Qed.

(* the auto-detection never mistakes a format-2 file for format 1, and format 1 is tried first *)
Theorem detection dig d : good_dig dig -> Forall (fun b => b < 256) d -> d <> [] ->
  first_nonempty [fmt1; fmt2] (render1 dig d) = d /\ first_nonempty [fmt1; fmt2] (render2 dig d) = d /\
  parse fmt1 (render2 dig d) = [].
Proof.
  intros G Hd Ne. split; [|split].
  - rewrite first_nonempty_here; rewrite (render1_roundtrip dig d G Hd); [reflexivity|exact Ne].
  - rewrite first_nonempty_skip by (apply parse_fmt1_render2; assumption).
    rewrite first_nonempty_here; rewrite (render2_roundtrip dig d G Hd); [reflexivity|exact Ne].
  - apply parse_fmt1_render2; assumption.
Qed.

(* readlines loses nothing *)
Lemma readlines_from_concat : forall s cur, concat (readlines_from s cur) = rev cur ++ s.
Proof.
  induction s as [|c t IH]; intros cur; cbn [readlines_from].
  - destruct cur; [reflexivity|]. cbn [concat]. rewrite !app_nil_r. reflexivity.
  - destruct (c =? nl).
    + cbn [concat rev]. rewrite IH. cbn [rev app]. rewrite <- app_assoc. reflexivity.
    + rewrite IH. cbn [rev]. rewrite <- app_assoc. reflexivity.
Qed.
Lemma readlines_concat s : concat (readlines s) = s.
Proof. apply readlines_from_concat. Qed.

(* ------------------------------------------------------------------------------------------- *)
(* instances for the six shipped patterns *)
Lemma patterns_literal :
  spec_patterns = [ [2;32;1;66; 73;73;67;83]; [2;32;1;66; 73;73;67;77]; [2;32;1;66; 80;79;87;82];
                    [2;32;1;66; 70;65;78;83]; [2;32;1;66; 73;78;70;79]; [2;32;1;66; 69;82;82;76] ].
Proof. reflexivity. Qed.

Lemma shipped_offsets d : dump_offsets header_patterns d = spec_offsets spec_patterns d.
Proof. rewrite header_patterns_eq. apply dump_offsets_spec, spec_patterns_shape. Qed.

Lemma shipped_order d :
  let offs := spec_offsets spec_patterns d in
  StronglySorted lt offs /\
  (forall i, In i offs <-> recognised spec_patterns d i) /\
  length (trace_regions spec_patterns d) = length offs /\
  forall k o, nth_error offs k = Some o ->
    exists p rest, In p spec_patterns /\ first_at p d o /\
      nth_error (trace_regions spec_patterns d) k = Some (p ++ rest) /\
      p ++ rest = firstn (nth (S k) offs (length d) - o) (skipn o d).
Proof. apply regions_order, spec_patterns_shape. Qed.

Theorem dump_file_fast_eq ptes strs lines : dump_file_fast ptes strs lines = parse_dump_file ptes strs lines.
Proof.
  unfold dump_file_fast, parse_dump_file, parse_dump. destruct (first_nonempty _ _); [reflexivity|].
  apply dump_fast_eq.
Qed.
