(* C14: the ILOG model against the specification-side definitions of Spec/IoDrawer.v. *)
From Coq Require Import List NArith Bool Arith Lia.
From PV Require Import Base.Bytes Base.Lit Base.PyFmt Gen.Tables Model.Ilog Spec.IoDrawer
                       Proofs.BytesFacts Proofs.HlogFacts.
Import ListNotations.
Open Scope N_scope.

(* ---- the constants of the working tree are the ones the property speaks about ---- *)
Lemma ilog_consts_agree :
  ilog_ILOG_ENTRY_SIZE = 8 /\ ilog_ERROR_MASK = 0xF0000000 /\ ilog_ERROR_VALUE = 0xE0000000 /\
  ilog_REPORTED_MASK = 0x00040000 /\ ilog_REPORTED_VALUE = 0x00040000.
Proof. repeat split; vm_compute; reflexivity. Qed.

Lemma entry_size_agree : ilog_ILOG_ENTRY_SIZE = 8.            Proof. apply ilog_consts_agree. Qed.
Lemma error_mask_agree : ilog_ERROR_MASK = 0xF0000000.        Proof. apply ilog_consts_agree. Qed.
Lemma error_value_agree : ilog_ERROR_VALUE = 0xE0000000.      Proof. apply ilog_consts_agree. Qed.
Lemma reported_mask_agree : ilog_REPORTED_MASK = 0x00040000.  Proof. apply ilog_consts_agree. Qed.
Lemma reported_value_agree : ilog_REPORTED_VALUE = 0x00040000. Proof. apply ilog_consts_agree. Qed.

(* ---------------------------------------------------------------------------------------------- *)
(* entries *)

Lemma entries8_short d : (length d < 8)%nat -> entries8 d = [].
Proof.
  intros H. do 8 (destruct d as [|? d]; [reflexivity|]). simpl in H. lia.
Qed.

Lemma be_val_zero : forall l acc, (be_val l acc =? 0) = (acc =? 0) && forallb (fun b => b =? 0) l.
Proof.
  induction l as [|b t IH]; intros acc; cbn [be_val forallb].
  - rewrite andb_true_r. reflexivity.
  - rewrite IH, andb_assoc. f_equal.
    destruct (N.eqb_spec (acc * 256 + b) 0), (N.eqb_spec acc 0), (N.eqb_spec b 0); try reflexivity; lia.
Qed.

Lemma all_zero_entry b0 b1 b2 b3 b4 b5 b6 b7 :
  (be_val [b0; b1] 0 =? 0) && (be_val [b2; b3] 0 =? 0) && (be_val [b4; b5; b6; b7] 0 =? 0)
  = negb (nonzero [b0; b1; b2; b3; b4; b5; b6; b7]).
Proof.
  unfold nonzero. rewrite negb_involutive, !be_val_zero.
  change [b0; b1; b2; b3; b4; b5; b6; b7] with ([b0; b1] ++ [b2; b3] ++ [b4; b5; b6; b7]).
  rewrite !forallb_app. change (0 =? 0) with true. cbn [andb]. rewrite andb_assoc. reflexivity.
Qed.

Lemma ilog_loop_step f tbl b0 b1 b2 b3 b4 b5 b6 b7 rest :
  ilog_loop (S f) tbl (b0 :: b1 :: b2 :: b3 :: b4 :: b5 :: b6 :: b7 :: rest) =
  if (be_val [b0; b1] 0 =? 0) && (be_val [b2; b3] 0 =? 0) && (be_val [b4; b5; b6; b7] 0 =? 0)
  then ilog_loop f tbl rest
  else match entry_line tbl (be_val [b0; b1] 0) (be_val [b2; b3] 0) (be_val [b4; b5; b6; b7] 0) with
       | DOk l => icons l (ilog_loop f tbl rest)
       | DUnsupported => IUnsupported
       end.
Proof. cbn [ilog_loop]. rewrite entry_size_agree. reflexivity. Qed.

Lemma ilog_loop_stop f tbl d : (length d < 8)%nat -> ilog_loop (S f) tbl d = IOk [].
Proof.
  intros H. cbn [ilog_loop]. rewrite entry_size_agree. change (N.to_nat 8) with 8%nat.
  destruct (Nat.leb_spec 8 (length d)); [lia|reflexivity].
Qed.

Lemma line_entry tbl b0 b1 b2 b3 b4 b5 b6 b7 :
  line tbl [b0; b1; b2; b3; b4; b5; b6; b7] =
  entry_line tbl (be_val [b0; b1] 0) (be_val [b2; b3] 0) (be_val [b4; b5; b6; b7] 0).
Proof. reflexivity. Qed.

(* with enough fuel the loop is the map over the non-zero complete entries (and never runs out of fuel) *)
Lemma ilog_loop_spec tbl : forall fuel d, (length d < fuel)%nat ->
  ilog_loop fuel tbl d = lines_of (map (line tbl) (filter nonzero (entries8 d))).
Proof.
  induction fuel as [|f IH]; intros d Hlen; [lia|].
  destruct (Nat.ltb_spec (length d) 8) as [Hs|Hl].
  - rewrite ilog_loop_stop, entries8_short by assumption. reflexivity.
  - do 8 (destruct d as [|? d]; [simpl in Hl; lia|]).
    rewrite ilog_loop_step, all_zero_entry. cbn [entries8 filter].
    assert (Hd : (length d < f)%nat) by (simpl in Hlen; lia).
    destruct (nonzero [n; n0; n1; n2; n3; n4; n5; n6]); cbn [negb].
    + cbn [map lines_of]. rewrite line_entry.
      destruct (entry_line tbl _ _ _); [rewrite (IH d Hd)|]; reflexivity.
    + apply IH. exact Hd.
Qed.

Theorem parse_ilog_spec tbl d :
  parse_ilog tbl d =
  if table_supported tbl then with_heading (lines_of (map (line tbl) (filter nonzero (entries8 d))))
  else IUnsupported.
Proof. unfold parse_ilog. rewrite ilog_loop_spec by lia. reflexivity. Qed.

Lemma lines_of_ok : forall rs ls, lines_of rs = IOk ls <-> rs = map DOk ls.
Proof.
  induction rs as [|r t IH]; intros ls; cbn [lines_of].
  - split; intros H; [inversion H; reflexivity|destruct ls; [reflexivity|discriminate]].
  - destruct r as [l|].
    + split; intros H.
      * destruct (lines_of t) as [ls'| | |] eqn:E; try discriminate. inversion H; subst.
        cbn [map]. f_equal. apply IH. reflexivity.
      * destruct ls as [|x ls]; [discriminate|]. cbn [map] in H. inversion H; subst.
        rewrite (proj2 (IH ls) eq_refl). reflexivity.
    + split; intros H; [discriminate|]. destruct ls; discriminate.
Qed.

Lemma lines_of_total : forall rs, lines_of rs <> IOutOfFuel /\ lines_of rs <> IAssert.
Proof.
  induction rs as [|[l|] t [A B]]; cbn [lines_of]; try (split; discriminate).
  destruct (lines_of t); cbn [icons]; split; try discriminate; congruence.
Qed.

(* output shape when the result is a list of lines; no assertion failure, no fuel exhaustion, ever *)
Theorem parse_ilog_ok tbl d ls : parse_ilog tbl d = IOk ls ->
  exists texts, ls = heading ++ texts /\ map (line tbl) (filter nonzero (entries8 d)) = map DOk texts.
Proof.
  rewrite parse_ilog_spec. destruct (table_supported tbl); [|discriminate].
  destruct (lines_of _) as [ts| | |] eqn:E; cbn [with_heading]; try discriminate.
  intros H; inversion H; subst. exists ts. split; [reflexivity|]. apply lines_of_ok. exact E.
Qed.

Theorem parse_ilog_total tbl d : parse_ilog tbl d <> IOutOfFuel /\ parse_ilog tbl d <> IAssert.
Proof.
  rewrite parse_ilog_spec. destruct (table_supported tbl); [|split; discriminate].
  destruct (lines_of_total (map (line tbl) (filter nonzero (entries8 d)))) as [A B].
  destruct (lines_of _); cbn [with_heading]; split; try discriminate; congruence.
Qed.

(* ---------------------------------------------------------------------------------------------- *)
(* timestamp: all 65536 two-byte values by computation *)

Fixpoint all_from (n : nat) (t0 : N) (p : N -> bool) : bool :=
  match n with O => true | S k => p t0 && all_from k (N.succ t0) p end.

Lemma all_from_spec n p : forall t0, all_from n t0 p = true ->
  forall t, t0 <= t -> t < t0 + N.of_nat n -> p t = true.
Proof.
  induction n as [|k IH]; intros t0 H t Hlo Hhi; [lia|]. cbn [all_from] in H. apply andb_true_iff in H as [H1 H2].
  destruct (N.eq_dec t t0) as [->|E]; [exact H1|].
  apply (IH (N.succ t0) H2); lia.
Qed.

Lemma text_eqb_eq : forall a b, text_eqb a b = true -> a = b.
Proof.
  induction a as [|x a IH]; destruct b as [|y b]; cbn [text_eqb]; intros H; try discriminate; [reflexivity|].
  apply andb_true_iff in H as [H1 H2]. apply N.eqb_eq in H1. subst. f_equal. apply IH. exact H2.
Qed.

Lemma timestamp_all : all_from (N.to_nat 65536) 0 (fun t => text_eqb (format_timestamp t) (ts_text t)) = true.
Proof. vm_cast_no_check (eq_refl true). Qed.

Theorem format_timestamp_spec t : t < 65536 -> format_timestamp t = ts_text t.
Proof.
  intros H. apply text_eqb_eq. apply (all_from_spec _ _ 0 timestamp_all); lia.
Qed.

(* ---------------------------------------------------------------------------------------------- *)
(* hex exactly as stored *)

Lemma hex_fixed_snoc dig k v b : b < 256 ->
  hex_fixed dig (S (S k)) (v * 256 + b) = hex_fixed dig k v ++ [dig (b / 16); dig (b mod 16)].
Proof.
  intros Hb. cbn [hex_fixed]. rewrite <- app_assoc. cbn [app].
  pose proof (N.div_mod b 16 ltac:(lia)) as Hdm.
  assert (Hlt : b mod 16 < 16) by (apply N.mod_lt; lia).
  assert (Hq : b / 16 < 16) by (apply N.div_lt_upper_bound; lia).
  assert (E1 : (v * 256 + b) mod 16 = b mod 16).
  { symmetry. apply (N.mod_unique _ 16 (v * 16 + b / 16)); [assumption|lia]. }
  assert (E2 : (v * 256 + b) / 16 = v * 16 + b / 16).
  { symmetry. apply (N.div_unique _ 16 _ (b mod 16)); [assumption|lia]. }
  rewrite E1, E2.
  assert (E3 : (v * 16 + b / 16) mod 16 = b / 16).
  { symmetry. apply (N.mod_unique _ 16 v); [assumption|lia]. }
  assert (E4 : (v * 16 + b / 16) / 16 = v).
  { symmetry. apply (N.div_unique _ 16 _ (b / 16)); [assumption|lia]. }
  rewrite E3, E4. reflexivity.
Qed.

Lemma hex_fixed_stored : forall l, Forall (fun b => b < 256) l ->
  hex_fixed hexdigU (2 * length l) (be_val l 0) = stored_hex l.
Proof.
  induction l as [|b l IH] using rev_ind; intros Hl; [reflexivity|].
  apply Forall_app in Hl as [Hl Hb]. inversion Hb; subst.
  rewrite be_val_app. cbn [be_val]. rewrite app_length. cbn [length].
  replace (2 * (length l + 1))%nat with (S (S (2 * length l))) by lia.
  rewrite hex_fixed_snoc by assumption. rewrite IH by assumption.
  unfold stored_hex. rewrite flat_map_app. reflexivity.
Qed.

Lemma hexU_stored l n : Forall (fun b => b < 256) l -> (1 <= length l)%nat -> n = (2 * length l)%nat ->
  hexU n (be_val l 0) = stored_hex l.
Proof.
  intros Hl Hn ->. unfold hexU. rewrite hex_min_fixed; [apply hex_fixed_stored; assumption|lia|].
  rewrite <- pow256_16. apply (be_val_bound l 0 (length l) Hl eq_refl). right. exact I.
Qed.

(* ---------------------------------------------------------------------------------------------- *)
(* reported error, flag cleared *)

Lemma land_pow2_cases a n : N.land a (2 ^ n) = 0 \/ N.land a (2 ^ n) = 2 ^ n.
Proof.
  destruct (N.testbit a n) eqn:E; [right|left]; apply N.bits_inj; intros i;
    rewrite N.land_spec, ?N.bits_0, N.pow2_bits_eqb; destruct (N.eqb_spec n i); subst;
    rewrite ?E, ?andb_false_r; reflexivity.
Qed.

Lemma is_reported_spec pte : is_reported_error_pte pte = reported_error pte.
Proof.
  unfold is_reported_error_pte, reported_error.
  rewrite error_mask_agree, error_value_agree, reported_mask_agree, reported_value_agree. f_equal.
  change 0x00040000 with (2 ^ 18).
  destruct (land_pow2_cases pte 18) as [E|E]; rewrite E; reflexivity.
Qed.

Lemma clear_reported_spec pte : reported_error pte = true -> N.ldiff pte ilog_REPORTED_MASK = clear_reported pte.
Proof.
  intros H. unfold reported_error in H. apply andb_true_iff in H as [_ H].
  rewrite reported_mask_agree. unfold clear_reported. symmetry. apply N.sub_nocarry_ldiff.
  change 0x00040000 with (2 ^ 18) in *.
  destruct (land_pow2_cases pte 18) as [E|E]; rewrite E in H; [discriminate|].
  apply N.bits_inj; intros i. rewrite N.ldiff_spec, N.bits_0.
  assert (B := f_equal (fun x => N.testbit x i) E). cbn beta in B. rewrite N.land_spec in B.
  destruct (N.testbit (2 ^ 18) i), (N.testbit pte i); cbn in *; congruence.
Qed.

Lemma clear_reported_bound pte : pte < 2 ^ 32 -> clear_reported pte < 2 ^ 32.
Proof. unfold clear_reported. lia. Qed.

(* ---------------------------------------------------------------------------------------------- *)
(* wildcard match *)

Lemma pat_match_wild : forall p h, pat_match p h = true <-> wild p h.
Proof.
  induction p as [|pc p IH]; destruct h as [|hc h]; cbn [pat_match]; unfold wild in *.
  - split; [constructor|reflexivity].
  - split; [discriminate|intros H; inversion H].
  - split; [discriminate|intros H; inversion H].
  - rewrite andb_true_iff, orb_true_iff, !N.eqb_eq, IH. split.
    + intros [H1 H2]. constructor; assumption.
    + intros H. inversion H; subst. split; assumption.
Qed.

Lemma hexU8 pte : pte < 2 ^ 32 -> hexU 8 pte = hex8 pte.
Proof. intros H. apply hex_min_fixed; [lia|exact H]. Qed.

Lemma matches_hits e pte : pte < 2 ^ 32 -> (matches e pte = true <-> hits (e_pat e) pte).
Proof.
  intros Hp. unfold matches, hits, is_exact_match. rewrite orb_true_iff, andb_true_iff, is_reported_spec.
  rewrite hexU8 by assumption. rewrite pat_match_wild. split.
  - intros [H|[R H]]; [left; exact H|right]. split; [exact R|].
    rewrite (clear_reported_spec _ R), hexU8 in H by (apply clear_reported_bound; assumption).
    apply pat_match_wild. exact H.
  - intros [H|[R H]]; [left; exact H|right]. split; [exact R|].
    rewrite (clear_reported_spec _ R), hexU8 by (apply clear_reported_bound; assumption).
    apply pat_match_wild. exact H.
Qed.

(* the hoisted search is the entry-by-entry search with [matches] *)
Fixpoint first_match (tbl : list pte_entry) (pte : N) : option pte_entry :=
  match tbl with
  | [] => None
  | e :: t => if matches e pte then Some e else first_match t pte
  end.

Lemma get_entry_first_match tbl pte : get_entry tbl pte = first_match tbl pte.
Proof.
  unfold get_entry. induction tbl as [|e t IH]; cbn [find_entry first_match]; [reflexivity|].
  rewrite IH. reflexivity.
Qed.

(* first match in table order *)
Theorem get_entry_first tbl pte : pte < 2 ^ 32 ->
  (forall pre e post, tbl = pre ++ e :: post -> hits (e_pat e) pte ->
     (forall e', In e' pre -> ~ hits (e_pat e') pte) -> get_entry tbl pte = Some e) /\
  ((forall e, In e tbl -> ~ hits (e_pat e) pte) -> get_entry tbl pte = None).
Proof.
  intros Hp. rewrite get_entry_first_match. split.
  - intros pre. revert tbl. induction pre as [|x pre IH]; intros tbl e post -> Hh Hn; cbn [app first_match].
    + rewrite (proj2 (matches_hits e pte Hp) Hh). reflexivity.
    + destruct (matches x pte) eqn:E.
      * exfalso. apply (Hn x); [left; reflexivity|]. apply matches_hits; assumption.
      * apply (IH _ e post eq_refl Hh). intros e' He'. apply Hn. right. exact He'.
  - induction tbl as [|x t IH]; intros Hn; cbn [first_match]; [reflexivity|].
    destruct (matches x pte) eqn:E.
    + exfalso. apply (Hn x); [left; reflexivity|]. apply matches_hits; assumption.
    + apply IH. intros e He. apply Hn. right. exact He.
Qed.

Theorem descr_first tbl pte : pte < 2 ^ 32 ->
  (forall pre e post, tbl = pre ++ e :: post -> hits (e_pat e) pte ->
     (forall e', In e' pre -> ~ hits (e_pat e') pte) -> descr tbl pte = get_message e pte) /\
  ((forall e, In e tbl -> ~ hits (e_pat e) pte) -> descr tbl pte = DOk (L "Undefined")).
Proof.
  intros Hp. destruct (get_entry_first tbl pte Hp) as [A B]. unfold descr. split.
  - intros pre e post Ht Hh Hn. rewrite (A pre e post Ht Hh Hn). reflexivity.
  - intros Hn. rewrite (B Hn). reflexivity.
Qed.

(* ---------------------------------------------------------------------------------------------- *)
(* message: parameters, fallback, suffix *)

Lemma land_u32 pte : pte < 2 ^ 32 -> N.land pte 4294967295 = pte.
Proof. intros H. change 4294967295 with (N.ones 32). rewrite N.land_ones. apply N.mod_small. exact H. Qed.

Lemma model_params params bs :
  map (fun p => nth (N.to_nat (p - 1)) bs 0) (filter valid_param params) = param_values params bs.
Proof.
  unfold param_values. apply map_ext. intros p. rewrite N2Nat.inj_sub. reflexivity.
Qed.

Theorem get_message_spec e pte : pte < 2 ^ 32 ->
  get_message e pte =
  match message (e_fmt e) (param_values (e_params e) (be_bytes 4 pte)) with
  | Some m => DOk (m ++ if reported_error pte then created_suffix else [])
  | None => DUnsupported
  end.
Proof.
  intros Hp. unfold get_message, message. rewrite land_u32, model_params, is_reported_spec by assumption.
  destruct (pyfmt _ _); reflexivity.
Qed.

(* be_bytes inverts be_val: the parameter bytes are the stored PTE bytes *)
Lemma be_bytes_be_val : forall l, Forall (fun b => b < 256) l -> be_bytes (length l) (be_val l 0) = l.
Proof.
  induction l as [|b l IH] using rev_ind; intros Hl; [reflexivity|].
  apply Forall_app in Hl as [Hl Hb]. inversion Hb; subst.
  rewrite be_val_app, app_length. cbn [be_val length]. rewrite Nat.add_comm. cbn [Nat.add be_bytes].
  assert (E1 : (be_val l 0 * 256 + b) / 256 = be_val l 0).
  { symmetry. apply (N.div_unique _ 256 _ b); [assumption|lia]. }
  assert (E2 : (be_val l 0 * 256 + b) mod 256 = b).
  { symmetry. apply (N.mod_unique _ 256 (be_val l 0)); [assumption|lia]. }
  rewrite E1, E2, IH by assumption. reflexivity.
Qed.

Theorem get_message_stored e bs : Forall (fun b => b < 256) bs -> length bs = 4%nat ->
  get_message e (be_val bs 0) =
  match message (e_fmt e) (param_values (e_params e) bs) with
  | Some m => DOk (m ++ if reported_error (be_val bs 0) then created_suffix else [])
  | None => DUnsupported
  end.
Proof.
  intros Hb Hl.
  assert (Hp : be_val bs 0 < 2 ^ 32).
  { change (2 ^ 32) with (256 ^ N.of_nat 4). apply (be_val_bound bs 0 4 Hb Hl). right. exact I. }
  rewrite get_message_spec by assumption.
  rewrite <- Hl at 1. rewrite be_bytes_be_val by assumption. reflexivity.
Qed.

(* ---------------------------------------------------------------------------------------------- *)
(* one line *)

Theorem line_spec tbl e : Forall (fun b => b < 256) e -> length e = 8%nat ->
  line tbl e =
  match descr tbl (be_val (skipn 4 e) 0) with
  | DOk m => DOk (ts_text (be_value (firstn 2 e)) ++ [32] ++ stored_hex (firstn 2 (skipn 2 e)) ++ [32]
                  ++ stored_hex (skipn 4 e) ++ [32] ++ m)
  | DUnsupported => DUnsupported
  end.
Proof.
  intros Hb Hl. do 8 (destruct e as [|? e]; [discriminate|]). destruct e; [|discriminate].
  unfold line, entry_line. cbn [firstn skipn].
  destruct (descr tbl _); [|reflexivity].
  assert (H01 : Forall (fun b => b < 256) [n; n0]) by (repeat (inversion Hb; subst; clear Hb; rename H2 into Hb); repeat constructor; assumption).
  inversion Hb as [|? ? P0 Hb1]; subst. inversion Hb1 as [|? ? P1 Hb2]; subst.
  inversion Hb2 as [|? ? P2 Hb3]; subst. inversion Hb3 as [|? ? P3 Hb4]; subst.
  assert (H23 : Forall (fun b => b < 256) [n1; n2]) by (repeat constructor; assumption).
  rewrite format_timestamp_spec.
  2:{ change 65536 with (256 ^ N.of_nat 2). apply (be_val_bound [n; n0] 0 2 H01 eq_refl). right. exact I. }
  rewrite be_val_value.
  rewrite (hexU_stored [n1; n2] 4 H23) by (cbn; lia).
  rewrite (hexU_stored [n3; n4; n5; n6] 8 Hb4) by (cbn; lia).
  reflexivity.
Qed.
