From Coq Require Import List NArith ZArith Bool Arith.
From PV Require Import Base.Bytes Base.Lit Base.Json Base.PelTypes Model.Render Model.Pel Model.Plugins Proofs.EnvFacts.
Import ListNotations.
Open Scope N_scope.

(* every cached entry is what importing that module gives *)
Definition cache_ok (e : env) (k : caches) : Prop :=
  (forall m v, assoc (k_ud k) m = Some v -> ud_entry e m = Some v) /\
  (forall m v, assoc (k_src k) m = Some v -> src_entry e m = Some v) /\
  (forall m v, assoc (k_co k) m = Some v -> co_entry e m = Some v).

Lemma cache_ok_empty e : cache_ok e no_caches.
Proof. repeat split; intros m v H; discriminate. Qed.

Lemma text_eqb_eq' a b : text_eqb a b = true -> a = b.
Proof.
  revert b; induction a as [|x a IH]; destruct b as [|y b]; simpl; intros H; try discriminate; [reflexivity|].
  apply andb_prop in H. destruct H as [H1 H2]. apply N.eqb_eq in H1. f_equal; auto.
Qed.

Lemma cache_ok_write e k w : cache_ok e k -> cache_ok e (write e k w).
Proof.
  intros (Hu & Hs & Hc). destruct w as [m|m|m]; unfold write.
  - destruct (assoc (k_ud k) m) eqn:Ea; [repeat split; assumption|].
    destruct (ud_entry e m) as [v|] eqn:Ee; [|repeat split; assumption].
    repeat split; cbn [k_ud k_src k_co]; try assumption.
    intros m' v' H. cbn [assoc] in H. destruct (text_eqb m' m) eqn:E; [|apply Hu; exact H].
    apply text_eqb_eq' in E. subst m'. inversion H; subst. exact Ee.
  - destruct (assoc (k_src k) m) eqn:Ea; [repeat split; assumption|].
    destruct (src_entry e m) as [v|] eqn:Ee; [|repeat split; assumption].
    repeat split; cbn [k_ud k_src k_co]; try assumption.
    intros m' v' H. cbn [assoc] in H. destruct (text_eqb m' m) eqn:E; [|apply Hs; exact H].
    apply text_eqb_eq' in E. subst m'. inversion H; subst. exact Ee.
  - destruct (assoc (k_co k) m) eqn:Ea; [repeat split; assumption|].
    destruct (co_entry e m) as [v|] eqn:Ee; [|repeat split; assumption].
    repeat split; cbn [k_ud k_src k_co]; try assumption.
    intros m' v' H. cbn [assoc] in H. destruct (text_eqb m' m) eqn:E; [|apply Hc; exact H].
    apply text_eqb_eq' in E. subst m'. inversion H; subst. exact Ee.
Qed.

Theorem cache_ok_after e history : cache_ok e (after e history).
Proof.
  unfold after. assert (G: forall h k, cache_ok e k -> cache_ok e (fold_left (write e) h k)).
  { induction h as [|w t IH]; intros k Hk; [exact Hk|]. cbn [fold_left]. apply IH. apply cache_ok_write. exact Hk. }
  apply G. apply cache_ok_empty.
Qed.

(* through consistent caches a decode sees the same parser modules as through fresh imports *)
Lemma cached_env_equiv c e k : cache_ok e k -> env_equiv c (cached_env e k) e.
Proof.
  intros (Hu & Hs & Hc). split; [reflexivity|]. split; [intros; reflexivity|]. intros _. repeat split; intros m; cbn [cached_env ud_import src_import co_import].
  - destruct (assoc (k_ud k) m) as [v|] eqn:Ea; [|reflexivity]. specialize (Hu m v Ea). unfold ud_entry in Hu.
    destruct (ud_import e m); inversion Hu; subst; reflexivity.
  - destruct (assoc (k_src k) m) as [v|] eqn:Ea; [|destruct (src_import e m); cbn; auto]. specialize (Hs m v Ea). unfold src_entry in Hs.
    destruct (src_import e m); inversion Hs; subst; cbn; auto.
  - destruct (assoc (k_co k) m) as [v|] eqn:Ea; [|reflexivity]. specialize (Hc m v Ea). unfold co_entry in Hc.
    destruct (co_import e m); inversion Hc; subst; reflexivity.
Qed.

(* C19: whatever was decoded before (any history of cache writes), a PEL decodes to what it decodes to first *)
Theorem decode_history_independent e history c consider data :
  decode (cached_env e (after e history)) c consider data = decode e c consider data.
Proof. apply decode_equiv. apply cached_env_equiv. apply cache_ok_after. Qed.

Theorem summary_history_independent e history c consider data :
  decode_summary (cached_env e (after e history)) c consider data = decode_summary e c consider data.
Proof. apply decode_summary_equiv. apply cached_env_equiv. apply cache_ok_after. Qed.

Theorem count_history_independent e history consider data :
  decode_count (cached_env e (after e history)) consider data = decode_count e consider data.
Proof. apply (decode_count_equiv {| allow_plugins := true |}). apply cached_env_equiv. apply cache_ok_after. Qed.

(* a cache that holds "absent" for a module that exists (what a mis-filed failure would leave behind) changes the outcome:
   the invariant is what rules that out *)
Theorem inconsistent_cache_matters :
  exists e k c data, ~ cache_ok e k /\ decode (cached_env e k) c (fun _ => true) data <> decode e c (fun _ => true) data.
Proof.
  set (e := {| registry := []; comp_name := fun _ _ => None;
               ud_import := fun _ => IFound (fun _ _ _ => PRetJ (JObj [(L "k", JNull)]));
               src_import := fun _ => INotFound; co_import := fun _ => INotFound |}).
  set (k := {| k_ud := [(L "udparsers.b0000.b0000", None)]; k_src := []; k_co := [] |}).
  set (data := [80;72;0;48;1;0;0;0; 0;0;0;0;0;0;0;0; 0;0;0;0;0;0;0;0; 66;0;0;3; 0;0;0;0; 0;0;0;0;0;0;0;0; 0;0;0;0; 0;0;0;0;
                85;72;0;24;1;0;0;0; 0;0;0;0; 0;0;0;0; 0;0;0;0; 0;0;0;0;
                85;68;0;9;1;0;0;0; 7]).
  exists e, k, {| allow_plugins := true |}, data. split.
  - intros (Hu & _). specialize (Hu (L "udparsers.b0000.b0000") None eq_refl). discriminate.
  - vm_compute. discriminate.
Qed.
