(* The selection code translated from the SOURCE TEXT of /repo (Gen/SelectGen.v, regenerated on every run by
   harness/translate_select.py) is the hand-written model of Model/Select.v, for every configuration and every user header.
   The proof is a case analysis over the atomic conditions, so it survives any rearrangement of the source that keeps the
   decision the same, and fails for one that does not. *)
From Coq Require Import List NArith Bool Arith.
From PV Require Import Base.Bytes Base.PelTypes Gen.Tables Model.Select Gen.SelectGen.
Import ListNotations.
Open Scope N_scope.

Ltac case_atoms :=
  repeat match goal with
         | |- context [if ?b then _ else _] =>
             lazymatch b with
             | (if _ then _ else _) => fail
             | _ => destruct b eqn:?
             end
         end.

Lemma gen_hidden u : gen_is_hidden u = is_hidden u.
Proof. unfold gen_is_hidden, is_hidden, andb, orb, negb. case_atoms; reflexivity. Qed.

Lemma gen_serviceable u : gen_is_serviceable u = is_serviceable u.
Proof.
  unfold gen_is_serviceable, is_serviceable. rewrite ?gen_hidden. unfold is_hidden, andb, orb, negb. case_atoms; reflexivity.
Qed.

Lemma gen_matches c u : gen_sev_matches c u = sev_matches c u.
Proof. unfold gen_sev_matches, sev_matches, in_group, andb, orb, negb. case_atoms; reflexivity. Qed.

Theorem gen_consider_is_model c u : gen_consider c u = consider c u.
Proof.
  unfold gen_consider, consider. rewrite ?gen_serviceable, ?gen_hidden, ?gen_matches.
  unfold andb, orb, negb. case_atoms; reflexivity.
Qed.
