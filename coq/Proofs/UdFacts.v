From Coq Require Import List NArith ZArith Bool Arith Lia.
From PV Require Proofs.HwdiagsUtf8.
From PV Require Import Base.Bytes Base.Lit Base.Json Base.Utf8 Base.PelTypes
                       Model.Hexdump Model.Parse Model.Render Spec.Encode Spec.DocOf Gen.Tables
                       Proofs.BytesFacts Proofs.HexdumpFacts Proofs.HexdumpRoundtrip Proofs.RenderFacts.
Import ListNotations.
Open Scope N_scope.

(* ---- "carries a hex dump from which the exact payload bytes can be recovered" ---- *)
Definition carries_dump (o : list (text * json)) (d : bytes) : Prop :=
  exists ls, obj_get o (L "Data") = Some (jstrs ls) /\ parse default_fmt ls = d.

Lemma dump_recovers d : Forall (fun b => b < 256) d -> N.of_nat (length d) + 16 <= 2 ^ 32 ->
  parse default_fmt (hexdump d) = d.
Proof. apply hexdump_roundtrip. Qed.

Lemma obj_get_set_same l k v : obj_get (obj_set l k v) k = Some v.
Proof.
  induction l as [|[k' v'] t IH]; cbn [obj_set obj_get].
  - assert (text_eqb k k = true) as -> by (clear; induction k; simpl; [reflexivity|rewrite N.eqb_refl; assumption]). reflexivity.
  - destruct (text_eqb k k') eqn:E; cbn [obj_get].
    + assert (text_eqb k k = true) as -> by (clear; induction k; simpl; [reflexivity|rewrite N.eqb_refl; assumption]). reflexivity.
    + rewrite E. exact IH.
Qed.

Lemma text_eqb_refl k : text_eqb k k = true.
Proof. induction k; simpl; [reflexivity|rewrite N.eqb_refl; assumption]. Qed.

Lemma text_eqb_eq a b : text_eqb a b = true -> a = b.
Proof.
  revert b; induction a as [|x a IH]; destruct b as [|y b]; simpl; intros H; try discriminate; [reflexivity|].
  apply andb_prop in H. destruct H as [H1 H2]. apply N.eqb_eq in H1. f_equal; auto.
Qed.

Lemma obj_get_set_other l k k' v : text_eqb k' k = false -> obj_get (obj_set l k v) k' = obj_get l k'.
Proof.
  intros Hne. induction l as [|[k2 v2] t IH]; cbn [obj_set obj_get].
  - rewrite Hne. reflexivity.
  - destruct (text_eqb k k2) eqn:E; cbn [obj_get].
    + apply text_eqb_eq in E. subst k2. rewrite Hne. reflexivity.
    + rewrite IH. reflexivity.
Qed.

(* the four fall-back situations of a user-data style section *)
Inductive fallback : env -> config -> text -> N -> N -> N -> bytes -> Prop :=
| FbDisabled e c cr comp sub ver d : (is_bmc cr && (comp =? 8192)) = false -> allow_plugins c = false -> fallback e c cr comp sub ver d
| FbNoModule e c cr comp sub ver d : (is_bmc cr && (comp =? 8192)) = false -> allow_plugins c = true ->
    ud_import e (ud_module cr comp) = INotFound -> fallback e c cr comp sub ver d
| FbBroken e c cr comp sub ver d msg : (is_bmc cr && (comp =? 8192)) = false -> allow_plugins c = true ->
    ud_import e (ud_module cr comp) = IBroken msg -> fallback e c cr comp sub ver d
| FbFails e c cr comp sub ver d f : (is_bmc cr && (comp =? 8192)) = false -> allow_plugins c = true ->
    ud_import e (ud_module cr comp) = IFound f ->
    (f sub ver d = PNone \/ (exists m, f sub ver d = PRaise m) \/ (exists m, f sub ver d = PRaiseImport m)) ->
    fallback e c cr comp sub ver d
| FbBuiltinOther e c cr comp sub ver d : (is_bmc cr && (comp =? 8192)) = true ->
    sub <> UserDataFormat_json -> sub <> UserDataFormat_text -> fallback e c cr comp sub ver d.

Definition parser_failed (e : env) (c : config) (cr : text) (comp sub ver : N) (d : bytes) : Prop :=
  (is_bmc cr && (comp =? 8192)) = false /\ allow_plugins c = true /\
  ((exists msg, ud_import e (ud_module cr comp) = IBroken msg) \/
   (exists f, ud_import e (ud_module cr comp) = IFound f /\
      (f sub ver d = PNone \/ (exists m, f sub ver d = PRaise m) \/ (exists m, f sub ver d = PRaiseImport m)))).

Lemma base_no_data e h cr key : key = L "Created by" -> obj_get (base_fields e h cr key) (L "Data") = None /\ obj_get (base_fields e h cr key) (L "Error") = None.
Proof. intros ->. split; reflexivity. Qed.

Lemma update_data_only base ls : obj_update base [(L "Data", jstrs ls)] = obj_set base (L "Data") (jstrs ls).
Proof. reflexivity. Qed.

Lemma update_err_data base er ls :
  obj_update base [(L "Error", er); (L "Data", jstrs ls)] = obj_set (obj_set base (L "Error") er) (L "Data") (jstrs ls).
Proof. reflexivity. Qed.

Theorem ud_fallback_dump e c h cr d : fallback e c cr (h_comp h) (h_sub h) (h_ver h) d ->
  Forall (fun b => b < 256) d -> N.of_nat (length d) + 16 <= 2 ^ 32 ->
  exists o, render_ud e c h cr d = Some o /\ carries_dump o d.
Proof.
  intros Hf Hb Hl. unfold render_ud, ud_value_of, carries_dump.
  assert (Fin: forall o, obj_get o (L "Data") = Some (jstrs (hexdump d)) ->
               exists ls, obj_get o (L "Data") = Some (jstrs ls) /\ parse default_fmt ls = d).
  { intros o Ho. exists (hexdump d). split; [exact Ho|apply dump_recovers; assumption]. }
  inversion Hf; subst;
    repeat match goal with
    | H : (is_bmc _ && _) = _ |- _ => rewrite H; clear H
    | H : allow_plugins _ = _ |- _ => rewrite H; clear H
    end; unfold custom_value;
    repeat match goal with H : ud_import _ _ = _ |- _ => rewrite H; clear H end.
  - eexists. split; [reflexivity|]. apply Fin. exact (obj_get_set_same _ _ _).
  - eexists. split; [reflexivity|]. apply Fin. exact (obj_get_set_same _ _ _).
  - eexists. split; [reflexivity|]. apply Fin. exact (obj_get_set_same (obj_set _ (L "Error") _) _ _).
  - match goal with H : _ \/ _ |- _ => destruct H as [-> | [(m & ->) | (m & ->)]] end;
      eexists; (split; [reflexivity|]); apply Fin; exact (obj_get_set_same (obj_set _ (L "Error") _) _ _).
  - unfold builtin_value.
    assert ((h_sub h =? UserDataFormat_json) = false) as -> by (apply N.eqb_neq; assumption).
    assert ((h_sub h =? UserDataFormat_text) = false) as -> by (apply N.eqb_neq; assumption).
    assert (Hd: merge_value (base_fields e h cr (L "Created by")) (UVJson (jstrs (hexdump d))) =
                Some (obj_set (base_fields e h cr (L "Created by")) (L "Data") (jstrs (hexdump d)))) by reflexivity.
    destruct (h_sub h =? UserDataFormat_cbor); rewrite Hd; eexists; (split; [reflexivity|]); apply Fin; apply obj_get_set_same.
Qed.

Theorem ud_error_note e c h cr d : parser_failed e c cr (h_comp h) (h_sub h) (h_ver h) d ->
  exists o er, render_ud e c h cr d = Some o /\ obj_get o (L "Error") = Some (JStr er).
Proof.
  intros (Hb & Hp & Hc). unfold render_ud, ud_value_of. rewrite Hb, Hp. unfold custom_value.
  destruct Hc as [(msg & ->) | (f & -> & Hf)].
  - eexists _, _. split; [reflexivity|].
    etransitivity; [exact (obj_get_set_other (obj_set _ (L "Error") _) (L "Data") (L "Error") _ eq_refl)|]. exact (obj_get_set_same _ _ _).
  - destruct Hf as [-> | [(m & ->) | (m & ->)]]; eexists _, _; (split; [reflexivity|]);
      (etransitivity; [exact (obj_get_set_other (obj_set _ (L "Error") _) (L "Data") (L "Error") _ eq_refl)|]); exact (obj_get_set_same _ _ _).
Qed.

Theorem other_dump h d : Forall (fun b => b < 256) d -> N.of_nat (length d) + 16 <= 2 ^ 32 ->
  carries_dump (render_other h d) d.
Proof. intros. exists (hexdump d). split; [reflexivity|apply dump_recovers; assumption]. Qed.

(* ---- built-in text and JSON ---- *)
(* the lines of a text: split on '\n', every character outside 0x20..0x7E shown as '.', a final empty line dropped *)
Fixpoint spec_lines (s : text) : list text :=
  match s with
  | [] => []
  | _ =>
    let fix go (s : text) (cur : text) : list text :=
      match s with
      | [] => match cur with [] => [] | _ => [cur] end
      | c :: t => if c =? 10 then cur :: go t [] else go t (cur ++ [printable_or_dot c])
      end in go s []
  end.

Lemma text_lines_acc s : forall cur,
  text_lines s cur =
  (fix go (s : text) (cur : text) : list text :=
      match s with
      | [] => match cur with [] => [] | _ => [cur] end
      | c :: t => if c =? 10 then cur :: go t [] else go t (cur ++ [printable_or_dot c])
      end) s (rev cur).
Proof.
  induction s as [|c t IH]; intros cur; cbn [text_lines].
  - destruct cur as [|x cur]; [reflexivity|]. cbn [rev]. destruct (rev cur ++ [x]) eqn:E; [|reflexivity].
    apply app_eq_nil in E. destruct E; discriminate.
  - destruct (c =? 10).
    + f_equal. apply (IH []).
    + rewrite IH. reflexivity.
Qed.

Theorem text_lines_spec s : text_lines s [] = spec_lines s.
Proof. destruct s; [reflexivity|]. rewrite text_lines_acc. reflexivity. Qed.

(* a BMC section in the built-in text format shows the lines of its text *)
Theorem builtin_text_spec e c h cr txt :
  (is_bmc cr && (h_comp h =? 8192)) = true -> h_sub h = UserDataFormat_text ->
  Forall (fun x => x < 128) txt -> strip_ws txt = txt -> rstrip_nul txt = txt ->
  render_ud e c h cr txt =
    Some (obj_set (base_fields e h cr (L "Created by")) (L "Data") (jstrs (spec_lines txt))).
Proof.
  intros Hb Hs Ha Hw Hn. unfold render_ud, ud_value_of. rewrite Hb. unfold builtin_value. rewrite Hs.
  change (UserDataFormat_text =? UserDataFormat_json) with false. change (UserDataFormat_text =? UserDataFormat_cbor) with false.
  rewrite N.eqb_refl. cbv iota. rewrite (utf8_decode_ascii _ Ha), Hw, Hn, text_lines_spec. reflexivity.
Qed.

(* ... and one in the built-in JSON format is what json.loads (Model/JsonLoads.v) makes of exactly its text: an object is
   merged into the section, any other value is shown under "Data", text that is not JSON is hex dumped *)
Theorem builtin_json_spec e c h cr txt :
  (is_bmc cr && (h_comp h =? 8192)) = true -> h_sub h = UserDataFormat_json ->
  Forall (fun x => x < 128) txt -> strip_ws txt = txt -> rstrip_nul txt = txt ->
  render_ud e c h cr txt =
    match JsonLoads.loads txt with
    | JsonLoads.LOk (JObj l) => Some (obj_update (base_fields e h cr (L "Created by")) l)
    | JsonLoads.LOk j => Some (obj_set (base_fields e h cr (L "Created by")) (L "Data") j)
    | JsonLoads.LError => Some (obj_set (base_fields e h cr (L "Created by")) (L "Data") (jstrs (hexdump txt)))
    | JsonLoads.LBeyond => Some (base_fields e h cr (L "Created by") ++ [(L "@loads", JStr txt); (L "@fallback", jstrs (hexdump txt))])
    end.
Proof.
  intros Hb Hs Ha Hw Hn. unfold render_ud, ud_value_of. rewrite Hb. unfold builtin_value. rewrite Hs.
  rewrite N.eqb_refl. cbv iota. rewrite (utf8_decode_ascii _ Ha), Hw, Hn. cbn [merge_value].
  assert (utf8_encode txt = Some txt) as ->; [|destruct (JsonLoads.loads txt) as [[]| |]; reflexivity].
  clear - Ha. induction Ha as [|x t Hx Ht IH]; [reflexivity|]. cbn [utf8_encode]. unfold utf8_encode_cp.
  assert ((x <? 128) = true) as -> by (apply N.ltb_lt; exact Hx). rewrite IH. reflexivity.
Qed.

(* the same for any UTF-8 payload: b is the encoding of the text t *)
Theorem builtin_json_utf8 e c h cr t b :
  (is_bmc cr && (h_comp h =? 8192)) = true -> h_sub h = UserDataFormat_json ->
  utf8_encode t = Some b -> strip_ws t = t -> rstrip_nul t = t ->
  render_ud e c h cr b =
    match JsonLoads.loads t with
    | JsonLoads.LOk (JObj l) => Some (obj_update (base_fields e h cr (L "Created by")) l)
    | JsonLoads.LOk j => Some (obj_set (base_fields e h cr (L "Created by")) (L "Data") j)
    | JsonLoads.LError => Some (obj_set (base_fields e h cr (L "Created by")) (L "Data") (jstrs (hexdump b)))
    | JsonLoads.LBeyond => Some (base_fields e h cr (L "Created by") ++ [(L "@loads", JStr t); (L "@fallback", jstrs (hexdump b))])
    end.
Proof.
  intros Hb Hs He Hw Hn. unfold render_ud, ud_value_of. rewrite Hb. unfold builtin_value. rewrite Hs.
  rewrite N.eqb_refl. cbv iota. rewrite (HwdiagsUtf8.utf8_roundtrip t b He), Hw, Hn. cbn [merge_value]. rewrite He.
  destruct (JsonLoads.loads t) as [[]| |]; reflexivity.
Qed.
