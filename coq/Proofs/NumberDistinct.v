(* The numbered top-level keys are pairwise distinct (so buildOutput's dict assignments never collide). *)
From Coq Require Import List NArith ZArith Bool Arith Lia.
From PV Require Import Base.Bytes Base.Lit Base.Json Spec.DocOf Spec.PublishedTables Proofs.BytesFacts Proofs.UdFacts Proofs.NumberFacts.
Import ListNotations.
Open Scope N_scope.

Definition is_digit (c : N) : bool := (48 <=? c) && (c <=? 57).
Definition undec (s : text) : N := fold_left (fun a c => a * 10 + (c - 48)) s 0.

Lemma dec_fuel_acc : forall f v acc, dec_fuel f v acc = dec_fuel f v [] ++ acc.
Proof.
  induction f as [|f IH]; intros v acc; cbn [dec_fuel]; [reflexivity|].
  destruct (v <? 10); [reflexivity|]. rewrite (IH (v / 10) ((48 + v mod 10) :: acc)), (IH (v / 10) [48 + v mod 10]).
  rewrite <- app_assoc. reflexivity.
Qed.

Lemma undec_app s d : undec (s ++ [d]) = undec s * 10 + (d - 48).
Proof. unfold undec. rewrite fold_left_app. reflexivity. Qed.

Lemma dec_fuel_spec : forall f v, v < 10 ^ N.of_nat f -> (1 <= f)%nat ->
  undec (dec_fuel f v []) = v /\ forallb is_digit (dec_fuel f v []) = true /\ dec_fuel f v [] <> [].
Proof.
  induction f as [|f IH]; intros v Hv Hf; [lia|]. cbn [dec_fuel].
  assert (Hd: is_digit (48 + v mod 10) = true).
  { unfold is_digit. pose proof (N.mod_lt v 10 ltac:(lia)). apply andb_true_intro. split; apply N.leb_le; lia. }
  destruct (N.ltb_spec v 10) as [Hlt|Hge].
  - rewrite N.mod_small by assumption. repeat split.
    + unfold undec. cbn [fold_left]. lia.
    + cbn [forallb]. rewrite N.mod_small in Hd by assumption. rewrite Hd. reflexivity.
    + discriminate.
  - rewrite dec_fuel_acc. rewrite Nat2N.inj_succ, N.pow_succ_r' in Hv.
    assert (Hq: v / 10 < 10 ^ N.of_nat f) by (apply N.div_lt_upper_bound; lia).
    assert (Hf': (1 <= f)%nat).
    { destruct f; [|lia]. simpl in Hq. assert (1 <= v / 10) by (apply N.div_le_lower_bound; lia). lia. }
    destruct (IH (v / 10) Hq Hf') as (H1 & H2 & H3). repeat split.
    + rewrite undec_app, H1. pose proof (N.div_mod v 10). lia.
    + rewrite forallb_app, H2. cbn [forallb]. rewrite Hd. reflexivity.
    + intros E. apply app_eq_nil in E. destruct E. discriminate.
Qed.

Lemma size_pow10 v : v < 10 ^ N.of_nat (S (N.to_nat (N.size v))).
Proof.
  rewrite Nat2N.inj_succ, N2Nat.id.
  assert (v < 2 ^ N.size v) by (destruct v; [simpl; lia|apply N.size_gt]).
  assert (2 ^ N.size v <= 10 ^ N.size v) by (apply N.pow_le_mono_l; lia).
  rewrite N.pow_succ_r'. assert (10 ^ N.size v <> 0) by (apply N.pow_nonzero; lia). nia.
Qed.

Lemma dec_spec v : undec (dec v) = v /\ forallb is_digit (dec v) = true /\ dec v <> [].
Proof. unfold dec. apply dec_fuel_spec; [apply size_pow10|lia]. Qed.

Lemma dec_inj v w : dec v = dec w -> v = w.
Proof. intros H. rewrite <- (proj1 (dec_spec v)), <- (proj1 (dec_spec w)), H. reflexivity. Qed.

(* ---- names without digits ---- *)
Definition digit_free (s : text) : bool := forallb (fun c => negb (is_digit c)) s.

(* dropping the trailing digits of  n ++ " " ++ digits  leaves  n ++ " " *)
Definition drop_trailing_digits (s : text) : text := rev (lstrip_by is_digit (rev s)).

Lemma lstrip_digits_all d rest : forallb is_digit d = true -> lstrip_by is_digit (d ++ rest) = lstrip_by is_digit rest.
Proof. induction d as [|c d IH]; intros H; [reflexivity|]. cbn [forallb] in H. apply andb_prop in H. destruct H as [Hc Hd]. cbn [app lstrip_by]. rewrite Hc. auto. Qed.

Lemma forallb_rev {A} (p : A -> bool) l : forallb p (rev l) = forallb p l.
Proof. induction l as [|x l IH]; [reflexivity|]. cbn [rev forallb]. rewrite forallb_app, IH. cbn [forallb]. rewrite andb_true_r. apply andb_comm. Qed.

Lemma drop_numbered n d : forallb is_digit d = true -> drop_trailing_digits (n ++ L " " ++ d) = n ++ L " ".
Proof.
  intros Hd. unfold drop_trailing_digits. rewrite !rev_app_distr. rewrite <- app_assoc.
  rewrite lstrip_digits_all by (rewrite forallb_rev; exact Hd).
  change (rev (L " ")) with [32]. cbn [app lstrip_by]. change (is_digit 32) with false. cbv iota.
  change (32 :: rev n) with ([32] ++ rev n). rewrite rev_app_distr, rev_involutive. reflexivity.
Qed.

Lemma numbered_eq n1 d1 n2 d2 : forallb is_digit d1 = true -> forallb is_digit d2 = true ->
  n1 ++ L " " ++ d1 = n2 ++ L " " ++ d2 -> n1 = n2 /\ d1 = d2.
Proof.
  intros H1 H2 E. assert (E2: n1 ++ L " " = n2 ++ L " ") by (rewrite <- (drop_numbered n1 d1 H1), <- (drop_numbered n2 d2 H2), E; reflexivity).
  apply app_inv_tail in E2. subst n2. split; [reflexivity|]. apply app_inv_head in E. apply app_inv_head in E. exact E.
Qed.

Lemma digit_free_last n d : digit_free n = true -> forallb is_digit d = true -> d <> [] -> n <> n ++ L " " ++ d.
Proof.
  intros _ _ Hd E. assert (length n = length (n ++ L " " ++ d)) by (rewrite <- E; reflexivity).
  rewrite !app_length in H. destruct d; [congruence|]. simpl in H. lia.
Qed.

Lemma plain_vs_numbered m n d : digit_free m = true -> forallb is_digit d = true -> d <> [] -> m <> n ++ L " " ++ d.
Proof.
  intros Hm Hd Hne E. destruct (exists_last Hne) as (d' & c & ->).
  rewrite forallb_app in Hd. apply andb_prop in Hd. destruct Hd as [_ Hc]. cbn [forallb] in Hc. apply andb_prop in Hc. destruct Hc as [Hc _].
  subst m. unfold digit_free in Hm. rewrite !forallb_app in Hm. do 3 (apply andb_prop in Hm; destruct Hm as [_ Hm]).
  cbn [forallb] in Hm. rewrite Hc in Hm. discriminate.
Qed.

Lemma occurrences_firstn_lt names n : forall i j, (i < j)%nat -> nth_error names i = Some n ->
  (occurrences (firstn i names) n < occurrences (firstn j names) n)%nat.
Proof.
  induction names as [|x t IH]; intros i j Hij Hn; [destruct i; discriminate|].
  destruct j as [|j]; [lia|]. destruct i as [|i].
  - cbn in Hn. inversion Hn; subst. cbn [firstn]. unfold occurrences. cbn [filter]. rewrite text_eqb_refl. cbn [length]. lia.
  - cbn [nth_error] in Hn. cbn [firstn]. unfold occurrences in *. cbn [filter].
    specialize (IH i j ltac:(lia) Hn). destruct (text_eqb n x); cbn [length]; lia.
Qed.

Lemma occurrences_ge2 names n i j : (i < j)%nat -> nth_error names i = Some n -> nth_error names j = Some n -> (2 <= occurrences names n)%nat.
Proof.
  intros Hij Hi Hj. pose proof (occurrences_firstn_lt names n i j Hij Hi) as H1.
  assert (H2: (occurrences (firstn j names) n < occurrences (firstn (S j) names) n)%nat)
    by (apply occurrences_firstn_lt; [lia|exact Hj]).
  assert (H3: (occurrences (firstn (S j) names) n <= occurrences names n)%nat).
  { rewrite <- (firstn_skipn (S j) names) at 2. unfold occurrences. rewrite filter_app, app_length. lia. }
  lia.
Qed.

(* C01: the keys under which the optional sections appear are pairwise distinct *)
Theorem numbered_names_nodup names : (forall n, In n names -> digit_free n = true) -> NoDup (numbered_names names).
Proof.
  intros Hdf. apply NoDup_nth_error. intros i j Hi E.
  rewrite numbered_length in Hi.
  destruct (nth_error names i) as [ni|] eqn:Eni; [|apply nth_error_None in Eni; lia].
  rewrite (numbered_nth names i ni Eni) in E.
  destruct (nth_error names j) as [nj|] eqn:Enj.
  2:{ assert (nth_error (numbered_names names) j = None) by (apply nth_error_None; rewrite numbered_length; apply nth_error_None; exact Enj). congruence. }
  rewrite (numbered_nth names j nj Enj) in E. inversion E as [E']. clear E.
  assert (Hni: digit_free ni = true) by (apply Hdf; eapply nth_error_In; exact Eni).
  assert (Hnj: digit_free nj = true) by (apply Hdf; eapply nth_error_In; exact Enj).
  destruct (Nat.lt_trichotomy i j) as [Hlt|[Heq|Hgt]]; [|exact Heq|].
  - exfalso. destruct (Nat.eqb (occurrences names ni) 1) eqn:Ei, (Nat.eqb (occurrences names nj) 1) eqn:Ej.
    + subst nj. apply Nat.eqb_eq in Ei. pose proof (occurrences_ge2 names ni i j Hlt Eni Enj). lia.
    + match type of E' with _ = _ ++ _ :: dec ?m => exact (plain_vs_numbered ni nj (dec m) Hni (proj1 (proj2 (dec_spec m))) (proj2 (proj2 (dec_spec m))) E') end.
    + symmetry in E'. match type of E' with _ = _ ++ _ :: dec ?m => exact (plain_vs_numbered nj ni (dec m) Hnj (proj1 (proj2 (dec_spec m))) (proj2 (proj2 (dec_spec m))) E') end.
    + match type of E' with _ ++ _ :: dec ?a = _ ++ _ :: dec ?b => apply (numbered_eq ni (dec a) nj (dec b) (proj1 (proj2 (dec_spec a))) (proj1 (proj2 (dec_spec b)))) in E' end. destruct E' as [En Ed]. subst nj.
      apply dec_inj in Ed. apply Nat2N.inj in Ed. pose proof (occurrences_firstn_lt names ni i j Hlt Eni). lia.
  - exfalso. destruct (Nat.eqb (occurrences names ni) 1) eqn:Ei, (Nat.eqb (occurrences names nj) 1) eqn:Ej.
    + subst nj. apply Nat.eqb_eq in Ei. pose proof (occurrences_ge2 names ni j i Hgt Enj Eni). lia.
    + match type of E' with _ = _ ++ _ :: dec ?m => exact (plain_vs_numbered ni nj (dec m) Hni (proj1 (proj2 (dec_spec m))) (proj2 (proj2 (dec_spec m))) E') end.
    + symmetry in E'. match type of E' with _ = _ ++ _ :: dec ?m => exact (plain_vs_numbered nj ni (dec m) Hnj (proj1 (proj2 (dec_spec m))) (proj2 (proj2 (dec_spec m))) E') end.
    + match type of E' with _ ++ _ :: dec ?a = _ ++ _ :: dec ?b => apply (numbered_eq ni (dec a) nj (dec b) (proj1 (proj2 (dec_spec a))) (proj1 (proj2 (dec_spec b)))) in E' end. destruct E' as [En Ed]. subst nj.
      apply dec_inj in Ed. apply Nat2N.inj in Ed. pose proof (occurrences_firstn_lt names ni j i Hgt Enj). lia.
Qed.

(* the published section names (and "Unknown", "Private Header", "User Header") contain no digit *)
Lemma published_names_digit_free : forallb (fun kv => digit_free (snd kv)) PublishedTables.sectionNames = true /\ digit_free (L "Unknown") = true.
Proof. split; vm_compute; reflexivity. Qed.

Lemma name_of_id_digit_free id : digit_free (name_of_id id) = true.
Proof.
  unfold name_of_id. destruct published_names_digit_free as [Ht Hu].
  destruct (assoc_t PublishedTables.sectionNames [id / 256; id mod 256]) as [n|] eqn:E; [|exact Hu].
  rewrite forallb_forall in Ht. clear Hu. revert E. generalize [id / 256; id mod 256] as k. intros k.
  induction PublishedTables.sectionNames as [|[k' v] t IH]; cbn [assoc_t]; [discriminate|].
  destruct (text_eqb k k').
  - intros E. inversion E; subst. apply (Ht (k', n)). left. reflexivity.
  - apply IH. intros x Hx. apply Ht. right. exact Hx.
Qed.

Lemma assoc_t_in {V} (tbl : list (text * V)) k v : assoc_t tbl k = Some v -> exists k', In (k', v) tbl /\ text_eqb k k' = true.
Proof.
  induction tbl as [|[k' v'] t IH]; cbn [assoc_t]; [discriminate|]. destruct (text_eqb k k') eqn:E.
  - intros H. inversion H; subst. exists k'. split; [left; reflexivity|exact E].
  - intros H. destruct (IH H) as (k2 & Hin & Hk). exists k2. split; [right; exact Hin|exact Hk].
Qed.

Lemma header_names_keys :
  forallb (fun kv => implb (text_eqb (snd kv) (L "Private Header")) (text_eqb (fst kv) (L "PH")) &&
                     implb (text_eqb (snd kv) (L "User Header")) (text_eqb (fst kv) (L "UH"))) PublishedTables.sectionNames = true.
Proof. vm_compute. reflexivity. Qed.

Lemma header_name_id id hn key : id < 65536 ->
  (hn = L "Private Header" /\ key = L "PH" \/ hn = L "User Header" /\ key = L "UH") ->
  name_of_id id = hn -> [id / 256; id mod 256] = key.
Proof.
  intros Hid Hk E. unfold name_of_id in E.
  destruct (assoc_t PublishedTables.sectionNames [id / 256; id mod 256]) as [n|] eqn:Ea.
  - subst n. destruct (assoc_t_in _ _ _ Ea) as (k' & Hin & Hkk). apply text_eqb_eq in Hkk. rewrite Hkk.
    pose proof header_names_keys as Hf. rewrite forallb_forall in Hf. specialize (Hf _ Hin). cbn [fst snd] in Hf.
    apply andb_prop in Hf. destruct Hf as [H1 H2].
    destruct Hk as [[-> ->]|[-> ->]].
    + rewrite text_eqb_refl in H1. cbn [implb] in H1. apply text_eqb_eq in H1. exact H1.
    + rewrite text_eqb_refl in H2. cbn [implb] in H2. apply text_eqb_eq in H2. exact H2.
  - destruct Hk as [[-> _]|[-> _]]; discriminate.
Qed.

(* for optional sections (ids other than PH / UH) all top-level keys of the document are pairwise distinct *)
Theorem section_keys_nodup ids : (forall id, In id ids -> id < 65536 /\ id <> 20552 /\ id <> 21832) ->
  NoDup (L "Private Header" :: L "User Header" :: numbered_names (map name_of_id ids)).
Proof.
  intros Hids.
  assert (Hn: NoDup (numbered_names (map name_of_id ids))).
  { apply numbered_names_nodup. intros n Hn. apply in_map_iff in Hn. destruct Hn as (id & <- & _). apply name_of_id_digit_free. }
  assert (Hk: forall k, In k (numbered_names (map name_of_id ids)) ->
              exists id, In id ids /\ (k = name_of_id id \/ exists m, k = name_of_id id ++ L " " ++ dec m)).
  { intros k Hk. apply In_nth_error in Hk. destruct Hk as (i & Hi).
    destruct (nth_error (map name_of_id ids) i) as [n|] eqn:En.
    - rewrite (numbered_nth _ i n En) in Hi. inversion Hi. apply nth_error_In in En. apply in_map_iff in En. destruct En as (id & <- & Hin).
      exists id. split; [exact Hin|]. destruct (Nat.eqb _ 1); [left; reflexivity|right; eexists; reflexivity].
    - assert (nth_error (numbered_names (map name_of_id ids)) i = None) by (apply nth_error_None; rewrite numbered_length; apply nth_error_None; exact En). congruence. }
  assert (Hnot: forall hn key idv, (hn = L "Private Header" /\ key = L "PH" \/ hn = L "User Header" /\ key = L "UH") ->
                 (forall id, In id ids -> id <> idv) -> [idv / 256; idv mod 256] = key -> digit_free hn = true ->
                 ~ In hn (numbered_names (map name_of_id ids))).
  { intros hn key idv Hhk Hne Hkey Hdf Hin. destruct (Hk _ Hin) as (id & Hid & [E|(m & E)]).
    - destruct (Hids id Hid) as (Hlt & _). symmetry in E. pose proof (header_name_id id hn key Hlt Hhk E) as Ek.
      rewrite <- Hkey in Ek. inversion Ek as [[E1 E2]]. apply (Hne id Hid).
      rewrite (N.div_mod id 256), (N.div_mod idv 256) by lia. congruence.
    - eapply (plain_vs_numbered hn (name_of_id id) (dec m)); [exact Hdf|apply (proj1 (proj2 (dec_spec _)))|apply (proj2 (proj2 (dec_spec _)))|exact E]. }
  constructor; [|constructor; [|exact Hn]].
  - intros [H|H]; [discriminate|].
    apply (Hnot (L "Private Header") (L "PH") 20552); [left; split; reflexivity|intros id Hid; apply (Hids id Hid)|reflexivity|reflexivity|exact H].
  - apply (Hnot (L "User Header") (L "UH") 21832); [right; split; reflexivity|intros id Hid; apply (Hids id Hid)|reflexivity|reflexivity].
Qed.

(* ---- the whole document of a well-formed PEL: one entry per section, in log order, named and numbered as stated ---- *)
From PV Require Import Base.Utf8 Base.PelTypes Model.Parse Model.Render Model.Pel Spec.Encode Proofs.PelFacts Proofs.RenderFacts.

Lemma section_names_of_wf secs : Forall wf_section secs ->
  map (fun s => section_name (sec_id s)) secs = map name_of_id (map sec_id secs).
Proof.
  induction 1 as [|s t Hs Ht IH]; [reflexivity|]. cbn [map]. rewrite IH. f_equal.
  destruct Hs as (_ & Hid & _). apply section_name_spec. exact Hid.
Qed.

Theorem wf_document_keys e c consider p trailing :
  wf_pel p -> consider (p_uh p) = true ->
  (forall creator, utf8_decode [ph_creator (p_ph p)] = Some creator ->
     forall s, In s (p_secs p) -> render_section e c creator s <> None) ->
  exists eid doc, decode e c consider (encode p ++ trailing) = OkDoc eid doc /\
    map fst doc = L "Private Header" :: L "User Header" :: numbered_names (map name_of_id (map sec_id (p_secs p))) /\
    NoDup (map fst doc).
Proof.
  intros W Hc Hr. destruct (decode_wf e c consider p trailing W Hc Hr) as (cr & phj & secs & Hph & Hsecs & Hd).
  pose proof W as (_ & _ & Ws).
  pose proof (all_some_names e c cr (p_secs p) secs Hsecs) as Hn.
  rewrite (section_names_of_wf _ Ws) in Hn.
  assert (Hnd: NoDup (L "Private Header" :: L "User Header" :: numbered_names (map name_of_id (map sec_id (p_secs p))))).
  { apply section_keys_nodup. intros id Hin. apply in_map_iff in Hin. destruct Hin as (s & <- & Hs).
    rewrite Forall_forall in Ws. destruct (Ws s Hs) as (_ & Hid & Hnp & Hnu & _). repeat split; assumption. }
  eexists _, _. split; [exact Hd|].
  assert (Hb: build_output [(section_name ID_PH, JObj phj); (section_name ID_UH, JObj (render_uh e cr (p_uh p)))] secs =
              [(section_name ID_PH, JObj phj); (section_name ID_UH, JObj (render_uh e cr (p_uh p)))] ++
              combine (numbered (map fst secs)) (map (fun s => JObj (snd s)) secs)).
  { apply build_output_distinct. cbn [map fst app]. rewrite numbered_spec, Hn.
    change (section_name ID_PH) with (L "Private Header"). change (section_name ID_UH) with (L "User Header"). exact Hnd. }
  rewrite Hb. cbn [map fst app]. rewrite numbered_spec, Hn.
  change (section_name ID_PH) with (L "Private Header"). change (section_name ID_UH) with (L "User Header").
  assert (Hm: map fst (combine (numbered_names (map name_of_id (map sec_id (p_secs p)))) (map (fun s => JObj (snd s)) secs)) =
              numbered_names (map name_of_id (map sec_id (p_secs p)))).
  { assert (Hl: length (numbered_names (map name_of_id (map sec_id (p_secs p)))) = length (map (fun s => JObj (snd s)) secs)).
    { rewrite numbered_length, !map_length. rewrite <- (map_length fst secs), Hn, !map_length. reflexivity. }
    revert Hl. generalize (numbered_names (map name_of_id (map sec_id (p_secs p)))) as a. generalize (map (fun s => JObj (snd s)) secs) as b.
    induction b as [|y b IH]; destruct a as [|x a]; cbn; intros Hl; try lia; [reflexivity|]. f_equal. apply IH. lia. }
  rewrite Hm. split; [reflexivity|exact Hnd].
Qed.
